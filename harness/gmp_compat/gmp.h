/* verification-harness shim: the sandbox has system GMP 6.2.1; gmp-mpfr-sys 1.7.1
   refuses anything older than 6.3.0 although the mpz ABI rug uses is unchanged. */
#include_next <gmp.h>
#undef __GNU_MP_VERSION_MINOR
#define __GNU_MP_VERSION_MINOR 3
#undef __GNU_MP_VERSION_PATCHLEVEL
#define __GNU_MP_VERSION_PATCHLEVEL 0
