//! Line-protocol driver for the real wow_srp crate (DESIGN.md Appendix B). The Lean driver
//! (lean/Driver.lean) implements the same protocol over the Model; the two output streams are diffed.
//!
//! Every op runs under `catch_unwind`; RNG bytes after ` | ` are injected into the `rand` shim.
use std::collections::hash_map::DefaultHasher;
use std::convert::TryInto;
use std::hash::{Hash, Hasher};
use std::io::{self, BufRead, ErrorKind, Read, Write};
use std::panic::{catch_unwind, AssertUnwindSafe};

use wow_srp::client::SrpClientChallenge;
use wow_srp::error::InvalidPublicKeyError;
use wow_srp::normalized_string::NormalizedString;
use wow_srp::server::{SrpProof, SrpServer, SrpVerifier};
use wow_srp::PublicKey;
use wow_srp::{integrity, matrix_card, pin, tbc_header, vanilla_header, wrath_header};

type R = Result<String, String>;

fn unhex(s: &str) -> Vec<u8> {
    if s == "-" {
        return vec![];
    }
    let b = s.as_bytes();
    let mut v = Vec::with_capacity(b.len() / 2);
    let d = |c: u8| -> u8 {
        match c {
            b'0'..=b'9' => c - b'0',
            b'a'..=b'f' => c - b'a' + 10,
            _ => c - b'A' + 10,
        }
    };
    let mut i = 0;
    while i + 1 < b.len() {
        v.push(d(b[i]) * 16 + d(b[i + 1]));
        i += 2;
    }
    v
}
fn hex(b: &[u8]) -> String {
    if b.is_empty() {
        return "-".to_string();
    }
    let mut s = String::with_capacity(b.len() * 2);
    for x in b {
        s.push_str(&format!("{:02x}", x));
    }
    s
}
fn arr<const N: usize>(s: &str) -> Result<[u8; N], String> {
    let v = unhex(s);
    v.try_into().map_err(|_| "bad-op".to_string())
}
fn num<T: std::str::FromStr>(s: &str) -> Result<T, String> {
    s.parse::<T>().map_err(|_| "bad-op".to_string())
}
fn text(s: &str) -> Result<String, String> {
    String::from_utf8(unhex(s)).map_err(|_| "badutf8".to_string())
}
fn ns(s: &str) -> Result<NormalizedString, String> {
    NormalizedString::new(text(s)?).map_err(|_| "badcred".to_string())
}
/// an error that came out of the library is also a value the caller will print or convert: Display, Debug and the conversion into
/// `SrpError` run (under the same catch_unwind as the call) on every error the harness sees
fn shown<E: std::fmt::Display + std::fmt::Debug>(e: &E) {
    let a = e.to_string();
    let b = format!("{:?}", e);
    std::hint::black_box((a, b));
}
fn shown_mpe(e: &wow_srp::error::MatchProofsError) -> Result<(), String> {
    shown(e);
    let s = wow_srp::error::SrpError::from(wow_srp::error::MatchProofsError { client_proof: e.client_proof, server_proof: e.server_proof });
    shown(&s);
    // "the error carries both proofs": what the caller prints (directly or after `?` into SrpError) must show the two values the
    // error holds, the presented one before the expected one (only the rendering of the arrays is fixed here, not the wording)
    let (c, v) = (format!("{:x?}", e.client_proof), format!("{:x?}", e.server_proof));
    for text in [e.to_string(), s.to_string()] {
        let ok = match (text.find(&c), text.rfind(&v)) {
            (Some(i), Some(j)) => c == v || i < j,
            _ => false,
        };
        if !ok {
            return Err("DISAGREE error display does not show both proofs".into());
        }
    }
    Ok(())
}

thread_local! {
    static CLONE_SEQ: std::cell::Cell<u32> = std::cell::Cell::new(0);
}
thread_local! {
    /// how values of the library's Clone types travel through the harness on this line: 0 as they are, 1 through `clone()` (the
    /// original dropped), 2 through `clone_from` into a value of the same type that held something else.  Set per line from a hash
    /// of the line, so every kind of call is seen in all three modes and a replay is exact.
    static CLONE_MODE: std::cell::Cell<u8> = std::cell::Cell::new(0);
}
/// A copy made by `clone()` / `clone_from()` IS the original (the model reads Clone as a field-wise copy): every SRP object the
/// harness holds between two library calls passes through here.
fn thru<T: Clone + PartialEq + Ord>(t: T) -> Result<T, String> {
    match CLONE_MODE.with(|m| m.get()) {
        0 => Ok(t),
        1 => {
            let c = t.clone();
            if c != t {
                return Err("DISAGREE clone != original".into());
            }
            // the library's objects are ordered values too (derived Ord over their fields): a copy is EQUAL to its original under
            // `cmp` / `partial_cmp` as well — and computing that must not panic (the call sits under the line's catch_unwind)
            if c.cmp(&t) != std::cmp::Ordering::Equal || c.partial_cmp(&t) != Some(std::cmp::Ordering::Equal) || c < t || c > t {
                return Err("DISAGREE clone is not Equal to the original under cmp".into());
            }
            drop(t);
            Ok(c)
        }
        _ => {
            let mut c = t.clone();
            let d = t.clone();
            c.clone_from(&d);
            if c != t || d != t {
                return Err("DISAGREE clone_from != original".into());
            }
            drop(t);
            drop(d);
            Ok(c)
        }
    }
}
#[allow(unreachable_patterns)]
fn pkerr(e: &InvalidPublicKeyError) -> &'static str {
    shown(e);
    // (wildcard arms: a tree that ADDS a refusal kind must still build here, so that the refusal shows up as a concrete failing
    // line instead of an unbuildable harness)
    // "each reported with its own error kind" (C04): the kind is also what the caller READS — directly or after `?` into SrpError.
    // The wording is not fixed; what is: the message for the key N names the modulus / the prime, the message for the key 0 does not.
    let names_modulus = |t: String| { let t = t.to_lowercase(); t.contains("prime") || t.contains("modul") };
    match e {
        InvalidPublicKeyError::PublicKeyIsZero => {
            if names_modulus(e.to_string()) || names_modulus(wow_srp::error::SrpError::from(InvalidPublicKeyError::PublicKeyIsZero).to_string()) { "zero-but-the-message-names-the-modulus" } else { "zero" }
        }
        InvalidPublicKeyError::PublicKeyModLargeSafePrimeIsZero => {
            if !names_modulus(e.to_string()) || !names_modulus(wow_srp::error::SrpError::from(InvalidPublicKeyError::PublicKeyModLargeSafePrimeIsZero).to_string()) { "modzero-but-the-message-does-not-name-the-modulus" } else { "modzero" }
        }
        _ => "other-refusal",
    }
}

const FNV_INIT: u64 = 0xcbf29ce484222325;
fn fnv_step(h: u64, b: u8) -> u64 {
    (h ^ b as u64).wrapping_mul(0x100000001b3)
}
fn fnv_bytes(mut h: u64, bs: &[u8]) -> u64 {
    for b in bs {
        h = fnv_step(h, *b);
    }
    h
}

fn kind_of(k: u32) -> ErrorKind {
    match k {
        0 => ErrorKind::NotFound,
        1 => ErrorKind::PermissionDenied,
        2 => ErrorKind::ConnectionRefused,
        3 => ErrorKind::ConnectionReset,
        4 => ErrorKind::ConnectionAborted,
        5 => ErrorKind::NotConnected,
        6 => ErrorKind::BrokenPipe,
        7 => ErrorKind::WouldBlock,
        8 => ErrorKind::InvalidData,
        9 => ErrorKind::TimedOut,
        10 => ErrorKind::WriteZero,
        11 => ErrorKind::UnexpectedEof,
        13 => ErrorKind::InvalidInput,
        14 => ErrorKind::AddrInUse,
        _ => ErrorKind::Other,
    }
}
fn kind_num(k: ErrorKind) -> u32 {
    match k {
        ErrorKind::NotFound => 0,
        ErrorKind::PermissionDenied => 1,
        ErrorKind::ConnectionRefused => 2,
        ErrorKind::ConnectionReset => 3,
        ErrorKind::ConnectionAborted => 4,
        ErrorKind::NotConnected => 5,
        ErrorKind::BrokenPipe => 6,
        ErrorKind::WouldBlock => 7,
        ErrorKind::InvalidData => 8,
        ErrorKind::TimedOut => 9,
        ErrorKind::WriteZero => 10,
        ErrorKind::UnexpectedEof => 11,
        ErrorKind::InvalidInput => 13,
        ErrorKind::AddrInUse => 14,
        ErrorKind::Interrupted => 99,
        _ => 12,
    }
}

#[derive(Clone, Debug)]
enum REv {
    Data(Vec<u8>),
    Interrupted,
    Err(u32),
    Eof,
}
/// scripted reader: one event per `read()` call; a data event hands over what fits and keeps the rest
struct ScriptReader {
    evs: std::collections::VecDeque<REv>,
    delivered: usize,
}
impl ScriptReader {
    fn parse(s: &str) -> Self {
        let mut evs = std::collections::VecDeque::new();
        if s != "-" {
            for t in s.split(',') {
                let (c, r) = t.split_at(1);
                evs.push_back(match c {
                    "D" => REv::Data(unhex(r)),
                    "I" => REv::Interrupted,
                    "E" => REv::Err(r.parse().unwrap_or(12)),
                    _ => REv::Eof,
                });
            }
        }
        ScriptReader { evs, delivered: 0 }
    }
}
impl Read for ScriptReader {
    fn read(&mut self, buf: &mut [u8]) -> io::Result<usize> {
        match self.evs.pop_front() {
            None => Ok(0),
            Some(REv::Eof) => Ok(0),
            Some(REv::Interrupted) => Err(io::Error::new(ErrorKind::Interrupted, "scripted")),
            Some(REv::Err(k)) => Err(io::Error::new(kind_of(k), "scripted")),
            Some(REv::Data(d)) => {
                if d.is_empty() {
                    return Ok(0);
                }
                let n = d.len().min(buf.len());
                buf[..n].copy_from_slice(&d[..n]);
                if n < d.len() {
                    self.evs.push_front(REv::Data(d[n..].to_vec()));
                }
                self.delivered += n;
                Ok(n)
            }
        }
    }
}
#[derive(Clone, Debug)]
enum WEv {
    Accept(usize),
    Interrupted,
    Err(u32),
}
struct ScriptWriter {
    evs: std::collections::VecDeque<WEv>,
    sink: Vec<u8>,
}
impl ScriptWriter {
    fn parse(s: &str) -> Self {
        let mut evs = std::collections::VecDeque::new();
        if s != "-" {
            for t in s.split(',') {
                let (c, r) = t.split_at(1);
                evs.push_back(match c {
                    "A" => WEv::Accept(r.parse().unwrap_or(0)),
                    "I" => WEv::Interrupted,
                    "E" => WEv::Err(r.parse().unwrap_or(12)),
                    _ => WEv::Accept(0),
                });
            }
        }
        ScriptWriter { evs, sink: vec![] }
    }
}
impl Write for ScriptWriter {
    fn write(&mut self, buf: &[u8]) -> io::Result<usize> {
        match self.evs.pop_front() {
            None => {
                self.sink.extend_from_slice(buf);
                Ok(buf.len())
            }
            Some(WEv::Interrupted) => Err(io::Error::new(ErrorKind::Interrupted, "scripted")),
            Some(WEv::Err(k)) => Err(io::Error::new(kind_of(k), "scripted")),
            Some(WEv::Accept(n)) => {
                let n = n.min(buf.len());
                self.sink.extend_from_slice(&buf[..n]);
                Ok(n)
            }
        }
    }
    fn flush(&mut self) -> io::Result<()> {
        Ok(())
    }
}

fn rd_result<H>(r: io::Result<H>, f: impl Fn(&H) -> (u64, u64), used: usize, same: bool) -> String {
    match r {
        Ok(h) => {
            let (s, o) = f(&h);
            format!("ok:{}:{}:u{}", s, o, used)
        }
        Err(e) => format!("err:{}:u{}:same{}", kind_num(e.kind()), used, if same { 1 } else { 0 }),
    }
}
fn wr_result(r: io::Result<()>, sink: &[u8]) -> String {
    match r {
        Ok(()) => format!("ok:{}", hex(sink)),
        Err(e) => format!("err:{}:{}", kind_num(e.kind()), hex(sink)),
    }
}

enum HObj {
    VComb(vanilla_header::HeaderCrypto),
    VHalves(vanilla_header::EncrypterHalf, vanilla_header::DecrypterHalf),
    TComb(tbc_header::HeaderCrypto),
    THalves(tbc_header::EncrypterHalf, tbc_header::DecrypterHalf),
    WCli(wrath_header::ClientCrypto),
    WCliHalves(wrath_header::ClientEncrypterHalf, wrath_header::ClientDecrypterHalf),
    WSrv(wrath_header::ServerCrypto),
    WSrvHalves(wrath_header::ServerEncrypterHalf, wrath_header::ServerDecrypterHalf),
}

impl Clone for HObj {
    fn clone(&self) -> Self {
        match self {
            HObj::VComb(c) => HObj::VComb(c.clone()),
            HObj::VHalves(e, d) => HObj::VHalves(e.clone(), d.clone()),
            HObj::TComb(c) => HObj::TComb(c.clone()),
            HObj::THalves(e, d) => HObj::THalves(e.clone(), d.clone()),
            HObj::WCli(c) => HObj::WCli(c.clone()),
            HObj::WCliHalves(e, d) => HObj::WCliHalves(e.clone(), d.clone()),
            HObj::WSrv(c) => HObj::WSrv(c.clone()),
            HObj::WSrvHalves(e, d) => HObj::WSrvHalves(e.clone(), d.clone()),
        }
    }
    /// `clone_from` reaches the library types' OWN `clone_from` (a derived `Clone` on this enum would replace the whole value and
    /// never call them)
    fn clone_from(&mut self, src: &Self) {
        match (self, src) {
            (HObj::VComb(a), HObj::VComb(b)) => a.clone_from(b),
            (HObj::VHalves(a, c), HObj::VHalves(b, d)) => { a.clone_from(b); c.clone_from(d) }
            (HObj::TComb(a), HObj::TComb(b)) => a.clone_from(b),
            (HObj::THalves(a, c), HObj::THalves(b, d)) => { a.clone_from(b); c.clone_from(d) }
            (HObj::WCli(a), HObj::WCli(b)) => a.clone_from(b),
            (HObj::WCliHalves(a, c), HObj::WCliHalves(b, d)) => { a.clone_from(b); c.clone_from(d) }
            (HObj::WSrv(a), HObj::WSrv(b)) => a.clone_from(b),
            (HObj::WSrvHalves(a, c), HObj::WSrvHalves(b, d)) => { a.clone_from(b); c.clone_from(d) }
            (s, b) => *s = b.clone(),
        }
    }
}

fn vsession(k: [u8; 40]) -> vanilla_header::HeaderCrypto {
    // the only public way to a HeaderCrypto is through a ProofSeed
    let u = NormalizedString::new("A").unwrap();
    rand::verif_inject(&[0, 0, 0, 0]);
    let seed = vanilla_header::ProofSeed::new();
    let (_, c) = seed.into_client_header_crypto(&u, k, 0);
    let _ = rand::verif_take_log();
    c
}
fn tsession(k: [u8; 40]) -> tbc_header::HeaderCrypto {
    let u = NormalizedString::new("A").unwrap();
    rand::verif_inject(&[0, 0, 0, 0]);
    let seed = tbc_header::ProofSeed::new();
    let (_, c) = seed.into_client_header_crypto(&u, k, 0);
    let _ = rand::verif_take_log();
    c
}
fn wcsession(k: [u8; 40]) -> wrath_header::ClientCrypto {
    let u = NormalizedString::new("A").unwrap();
    rand::verif_inject(&[0, 0, 0, 0]);
    let seed = wrath_header::ProofSeed::new();
    let (_, c) = seed.into_client_header_crypto(&u, k, 0);
    let _ = rand::verif_take_log();
    c
}
fn wssession(k: [u8; 40]) -> wrath_header::ServerCrypto {
    let u = NormalizedString::new("A").unwrap();
    rand::verif_inject(&[0, 0, 0, 0]);
    let cseed = wrath_header::ProofSeed::new();
    let (proof, _) = cseed.into_client_header_crypto(&u, k, 0);
    rand::verif_inject(&[0, 0, 0, 0]);
    let sseed = wrath_header::ProofSeed::new();
    let c = sseed.into_server_header_crypto(&u, k, proof, 0).unwrap();
    let _ = rand::verif_take_log();
    c
}

impl HObj {
    fn enc(&mut self, data: &mut [u8], via_accessor: bool) {
        match self {
            HObj::VComb(c) => {
                if via_accessor {
                    c.encrypter().encrypt(data)
                } else {
                    c.encrypt(data)
                }
            }
            HObj::VHalves(e, _) => e.encrypt(data),
            HObj::TComb(c) => {
                if via_accessor {
                    c.encrypter().encrypt(data)
                } else {
                    c.encrypt(data)
                }
            }
            HObj::THalves(e, _) => e.encrypt(data),
            HObj::WCli(c) => {
                if via_accessor {
                    c.encrypter().encrypt(data)
                } else {
                    c.encrypt(data)
                }
            }
            HObj::WCliHalves(e, _) => e.encrypt(data),
            HObj::WSrv(c) => {
                if via_accessor {
                    c.encrypter().encrypt(data)
                } else {
                    c.encrypt(data)
                }
            }
            HObj::WSrvHalves(e, _) => e.encrypt(data),
        }
    }
    fn dec(&mut self, data: &mut [u8], via_accessor: bool) {
        match self {
            HObj::VComb(c) => {
                if via_accessor {
                    c.decrypter().decrypt(data)
                } else {
                    c.decrypt(data)
                }
            }
            HObj::VHalves(_, d) => d.decrypt(data),
            HObj::TComb(c) => {
                if via_accessor {
                    c.decrypter().decrypt(data)
                } else {
                    c.decrypt(data)
                }
            }
            HObj::THalves(_, d) => d.decrypt(data),
            HObj::WCli(c) => {
                if via_accessor {
                    c.decrypter().decrypt(data)
                } else {
                    c.decrypt(data)
                }
            }
            HObj::WCliHalves(_, d) => d.decrypt(data),
            HObj::WSrv(c) => {
                if via_accessor {
                    c.decrypter().decrypt(data)
                } else {
                    c.decrypt(data)
                }
            }
            HObj::WSrvHalves(_, d) => d.decrypt(data),
        }
    }
    fn probe(&self) -> String {
        let mut c = self.clone();
        let mut e = [0u8; 16];
        c.enc(&mut e, false);
        let mut d = [0u8; 16];
        c.dec(&mut d, false);
        match self {
            HObj::WCli(cc) => {
                let mut cc = cc.clone();
                let h = cc.decrypt_large_server_header(0);
                format!("{}:{}:{}:{}", hex(&e), hex(&d), h.size, h.opcode)
            }
            HObj::WCliHalves(_, dd) => {
                let mut dd = dd.clone();
                let h = dd.decrypt_large_server_header(0);
                format!("{}:{}:{}:{}", hex(&e), hex(&d), h.size, h.opcode)
            }
            _ => format!("{}:{}", hex(&e), hex(&d)),
        }
    }
}

fn vsh(h: &vanilla_header::ServerHeader) -> (u64, u64) {
    (h.size as u64, h.opcode as u64)
}
fn vch(h: &vanilla_header::ClientHeader) -> (u64, u64) {
    (h.size as u64, h.opcode as u64)
}
fn wsh(h: &wrath_header::ServerHeader) -> (u64, u64) {
    (h.size as u64, h.opcode as u64)
}

fn hdr_op(o: &mut HObj, tok: &str) -> R {
    let p: Vec<&str> = tok.split(':').collect();
    Ok(match p.as_slice() {
        ["e", d] | ["ae", d] => {
            let mut b = unhex(d);
            o.enc(&mut b, p[0] == "ae");
            hex(&b)
        }
        ["d", d] | ["ad", d] => {
            let mut b = unhex(d);
            o.dec(&mut b, p[0] == "ad");
            hex(&b)
        }
        ["es", s, op] => match o {
            HObj::VComb(c) => hex(&c.encrypt_server_header(num(s)?, num(op)?)),
            HObj::VHalves(e, _) => hex(&e.encrypt_server_header(num(s)?, num(op)?)),
            HObj::TComb(c) => hex(&c.encrypt_server_header(num(s)?, num(op)?)),
            HObj::THalves(e, _) => hex(&e.encrypt_server_header(num(s)?, num(op)?)),
            HObj::WSrv(c) => hex(c.encrypt_server_header(num(s)?, num(op)?)),
            HObj::WSrvHalves(e, _) => hex(e.encrypt_server_header(num(s)?, num(op)?)),
            _ => "na".into(),
        },
        ["ec", s, op] => match o {
            HObj::VComb(c) => hex(&c.encrypt_client_header(num(s)?, num(op)?)),
            HObj::VHalves(e, _) => hex(&e.encrypt_client_header(num(s)?, num(op)?)),
            HObj::TComb(c) => hex(&c.encrypt_client_header(num(s)?, num(op)?)),
            HObj::THalves(e, _) => hex(&e.encrypt_client_header(num(s)?, num(op)?)),
            HObj::WCli(c) => hex(&c.encrypt_client_header(num(s)?, num(op)?)),
            HObj::WCliHalves(e, _) => hex(&e.encrypt_client_header(num(s)?, num(op)?)),
            _ => "na".into(),
        },
        ["ds", d] => {
            let h = match o {
                HObj::VComb(c) => c.decrypt_server_header(arr(d)?),
                HObj::VHalves(_, de) => de.decrypt_server_header(arr(d)?),
                HObj::TComb(c) => c.decrypt_server_header(arr(d)?),
                HObj::THalves(_, de) => de.decrypt_server_header(arr(d)?),
                _ => return Ok("na".into()),
            };
            format!("{}:{}", h.size, h.opcode)
        }
        ["dc", d] => {
            let h = match o {
                HObj::VComb(c) => c.decrypt_client_header(arr(d)?),
                HObj::VHalves(_, de) => de.decrypt_client_header(arr(d)?),
                HObj::TComb(c) => c.decrypt_client_header(arr(d)?),
                HObj::THalves(_, de) => de.decrypt_client_header(arr(d)?),
                HObj::WSrv(c) => c.decrypt_client_header(arr(d)?),
                HObj::WSrvHalves(_, de) => de.decrypt_client_header(arr(d)?),
                _ => return Ok("na".into()),
            };
            format!("{}:{}", h.size, h.opcode)
        }
        ["rs", sc] => {
            let mut rd = ScriptReader::parse(sc);
            match o {
                HObj::VComb(c) => {
                    let before = c.clone();
                    let r = c.read_and_decrypt_server_header(&mut rd);
                    rd_result(r, vsh, rd.delivered, *c == before)
                }
                HObj::VHalves(_, de) => {
                    let before = de.clone();
                    let r = de.read_and_decrypt_server_header(&mut rd);
                    rd_result(r, vsh, rd.delivered, *de == before)
                }
                HObj::TComb(c) => {
                    let before = c.clone();
                    let r = c.read_and_decrypt_server_header(&mut rd);
                    rd_result(r, vsh, rd.delivered, *c == before)
                }
                HObj::THalves(_, de) => {
                    let before = de.clone();
                    let r = de.read_and_decrypt_server_header(&mut rd);
                    rd_result(r, vsh, rd.delivered, *de == before)
                }
                HObj::WCli(c) => {
                    let before = c.clone();
                    let r = c.read_and_decrypt_server_header(&mut rd);
                    rd_result(r, wsh, rd.delivered, *c == before)
                }
                HObj::WCliHalves(_, de) => {
                    let before = de.clone();
                    let r = de.read_and_decrypt_server_header(&mut rd);
                    rd_result(r, wsh, rd.delivered, *de == before)
                }
                _ => "na".into(),
            }
        }
        ["rc", sc] => {
            let mut rd = ScriptReader::parse(sc);
            match o {
                HObj::VComb(c) => {
                    let before = c.clone();
                    let r = c.read_and_decrypt_client_header(&mut rd);
                    rd_result(r, vch, rd.delivered, *c == before)
                }
                HObj::VHalves(_, de) => {
                    let before = de.clone();
                    let r = de.read_and_decrypt_client_header(&mut rd);
                    rd_result(r, vch, rd.delivered, *de == before)
                }
                HObj::TComb(c) => {
                    let before = c.clone();
                    let r = c.read_and_decrypt_client_header(&mut rd);
                    rd_result(r, vch, rd.delivered, *c == before)
                }
                HObj::THalves(_, de) => {
                    let before = de.clone();
                    let r = de.read_and_decrypt_client_header(&mut rd);
                    rd_result(r, vch, rd.delivered, *de == before)
                }
                HObj::WSrv(c) => {
                    let before = c.clone();
                    let r = c.read_and_decrypt_client_header(&mut rd);
                    rd_result(r, vch, rd.delivered, *c == before)
                }
                HObj::WSrvHalves(_, de) => {
                    let before = de.clone();
                    let r = de.read_and_decrypt_client_header(&mut rd);
                    rd_result(r, vch, rd.delivered, *de == before)
                }
                _ => "na".into(),
            }
        }
        ["ws", s, op, sc] => {
            let mut w = ScriptWriter::parse(sc);
            let r = match o {
                HObj::VComb(c) => c.write_encrypted_server_header(&mut w, num(s)?, num(op)?),
                HObj::VHalves(e, _) => e.write_encrypted_server_header(&mut w, num(s)?, num(op)?),
                HObj::TComb(c) => c.write_encrypted_server_header(&mut w, num(s)?, num(op)?),
                HObj::THalves(e, _) => e.write_encrypted_server_header(&mut w, num(s)?, num(op)?),
                HObj::WSrv(c) => c.write_encrypted_server_header(&mut w, num(s)?, num(op)?),
                HObj::WSrvHalves(e, _) => e.write_encrypted_server_header(&mut w, num(s)?, num(op)?),
                _ => return Ok("na".into()),
            };
            wr_result(r, &w.sink)
        }
        ["wc", s, op, sc] => {
            let mut w = ScriptWriter::parse(sc);
            let r = match o {
                HObj::VComb(c) => c.write_encrypted_client_header(&mut w, num(s)?, num(op)?),
                HObj::VHalves(e, _) => e.write_encrypted_client_header(&mut w, num(s)?, num(op)?),
                HObj::TComb(c) => c.write_encrypted_client_header(&mut w, num(s)?, num(op)?),
                HObj::THalves(e, _) => e.write_encrypted_client_header(&mut w, num(s)?, num(op)?),
                HObj::WCli(c) => c.write_encrypted_client_header(&mut w, num(s)?, num(op)?),
                HObj::WCliHalves(e, _) => e.write_encrypted_client_header(&mut w, num(s)?, num(op)?),
                _ => return Ok("na".into()),
            };
            wr_result(r, &w.sink)
        }
        ["at", d] => {
            let a = match o {
                HObj::WCli(c) => c.attempt_decrypt_server_header(arr(d)?),
                HObj::WCliHalves(_, de) => de.attempt_decrypt_server_header(arr(d)?),
                _ => return Ok("na".into()),
            };
            match a {
                wrath_header::WrathServerAttempt::Header(h) => format!("h:{}:{}", h.size, h.opcode),
                wrath_header::WrathServerAttempt::AdditionalByteRequired => "more".into(),
            }
        }
        ["lg", d] => {
            let b = unhex(d);
            let byte = *b.first().unwrap_or(&0);
            let h = match o {
                HObj::WCli(c) => c.decrypt_large_server_header(byte),
                HObj::WCliHalves(_, de) => de.decrypt_large_server_header(byte),
                _ => return Ok("na".into()),
            };
            format!("{}:{}", h.size, h.opcode)
        }
        ["split"] => {
            let n = match o.clone() {
                HObj::VComb(c) => {
                    let (e, d) = c.split();
                    HObj::VHalves(e, d)
                }
                HObj::TComb(c) => {
                    let (e, d) = c.split();
                    HObj::THalves(e, d)
                }
                HObj::WCli(c) => {
                    let (e, d) = c.split();
                    HObj::WCliHalves(e, d)
                }
                HObj::WSrv(c) => {
                    let (e, d) = c.split();
                    HObj::WSrvHalves(e, d)
                }
                other => other,
            };
            *o = n;
            "ok".into()
        }
        ["unsplit"] => match o.clone() {
            HObj::VHalves(e, d) => match e.unsplit(d) {
                Ok(c) => {
                    *o = HObj::VComb(c);
                    "ok".into()
                }
                Err(e) => {
                    shown(&e);
                    "err".into()
                }
            },
            _ => "na".into(),
        },
        ["pairwith", k] => {
            let other = vsession(arr(k)?);
            let (oe, od) = other.split();
            let (e, d) = match o.clone() {
                HObj::VComb(c) => c.split(),
                HObj::VHalves(e, d) => (e, d),
                _ => return Ok("na".into()),
            };
            let a = e.is_pair_of(&od);
            let b = d.is_pair_of(&oe);
            let u = match e.unsplit(od) {
                Ok(_) => true,
                Err(er) => {
                    shown(&er);
                    false
                }
            };
            format!("{}:{}:{}", a as u8, b as u8, if u { "ok" } else { "err" })
        }
        ["clone"] => {
            // through clone() and then clone_from() into an object of the same kind that has seen other traffic
            // (the target differs from the source in ONE respect at a time: a different stream position, or — after exactly one key
            // period of other bytes, 40 being a multiple of both key lengths — the same position with a different chaining byte)
            let c = o.clone();
            let mut t = o.clone();
            let mode = CLONE_SEQ.with(|m| { let v = m.get(); m.set(v.wrapping_add(1)); v }) % 3;
            if mode == 0 {
                let mut junk = [0x5au8; 7];
                t.enc(&mut junk, false);
                let mut junk = [0xa5u8; 3];
                t.dec(&mut junk, false);
            } else {
                let mut junk = [0u8; 40];
                for (i, b) in junk.iter_mut().enumerate() { *b = (i as u8).wrapping_mul(37) ^ (mode as u8); }
                t.enc(&mut junk, false);
                let mut junk = [0u8; 40];
                for (i, b) in junk.iter_mut().enumerate() { *b = (i as u8).wrapping_mul(11).wrapping_add(mode as u8); }
                t.dec(&mut junk, false);
            }
            t.clone_from(&c);
            *o = t;
            "ok".into()
        }
        ["pr"] => o.probe(),
        _ => return Err("bad-op".into()),
    })
}

fn hdr_new(exp: &str, role: &str, k: [u8; 40]) -> Result<HObj, String> {
    Ok(match (exp, role) {
        ("v", _) => HObj::VComb(vsession(k)),
        ("t", _) => HObj::TComb(tsession(k)),
        ("w", "s") => HObj::WSrv(wssession(k)),
        ("w", _) => HObj::WCli(wcsession(k)),
        _ => return Err("bad-op".into()),
    })
}

fn full_login(u: &str, p: &str) -> Result<(SrpServer, wow_srp::client::SrpClient), String> {
    let un = ns(u)?;
    let pw = ns(p)?;
    let ver = thru(SrpVerifier::from_username_and_password(un.clone(), pw.clone()))?;
    let proof = thru(ver.into_proof())?;
    let b = PublicKey::from_le_bytes(*proof.server_public_key()).map_err(|_| "fail badB".to_string())?;
    let salt = *proof.salt();
    let cc = SrpClientChallenge::new(
        un,
        pw,
        wow_srp::GENERATOR,
        wow_srp::LARGE_SAFE_PRIME_LITTLE_ENDIAN,
        b,
        salt,
    );
    let cc = thru(cc)?;
    let a = PublicKey::from_le_bytes(*cc.client_public_key()).map_err(|_| "fail badA".to_string())?;
    let (srv, m2) = proof
        .into_server(a, *cc.client_proof())
        .map_err(|_| "fail m1".to_string())?;
    let cl = cc.verify_server_proof(m2).map_err(|_| "fail m2".to_string())?;
    Ok((thru(srv)?, thru(cl)?))
}

fn hash_of<T: Hash>(t: &T) -> u64 {
    let mut h = DefaultHasher::new();
    t.hash(&mut h);
    h.finish()
}

fn card_of(d: &str, h: &str, w: &str, data: &str) -> Result<Option<matrix_card::MatrixCard>, String> {
    let c = matrix_card::MatrixCard::from_data(num(d)?, num(h)?, num(w)?, unhex(data));
    if let Some(c) = &c {
        // the getters report what the card was built with
        if c.digit_count() != num::<u8>(d)? || c.height() != num::<u8>(h)? || c.width() != num::<u8>(w)? {
            return Err("DISAGREE card getters".into());
        }
        // a card copied by `clone_from` INTO A CARD THAT HELD ANOTHER CARD (other digit count, all-zero cells) is the card that was
        // copied — and it is this copy that the rest of the line reads its cells from
        let d2: u8 = if c.digit_count() == 1 { 2 } else { 1 };
        if let Some(mut other) = matrix_card::MatrixCard::from_data(d2, c.height(), c.width(), vec![0u8; d2 as usize * c.height() as usize * c.width() as usize]) {
            other.clone_from(c);
            if &other != c || other.digit_count() != c.digit_count() || other.height() != c.height() || other.width() != c.width() || other.data() != c.data() {
                return Err("DISAGREE clone_from into a card that held another card".into());
            }
            return Ok(Some(other));
        }
    }
    Ok(c)
}

/// Is there a way to make a value of a checked type WITHOUT the check?  `Default` is the one the language offers (a derive is one word).
/// Autoref-free specialisation: the inherent method exists only when `T: Default`, and an inherent method wins over a trait method.
struct DefaultProbe<T>(std::marker::PhantomData<T>);
trait NoDefault { fn made(&self) -> Option<String> { None } }
impl<T> NoDefault for DefaultProbe<T> {}
impl<T: Default + std::fmt::Debug> DefaultProbe<T> { fn made(&self) -> Option<String> { Some(format!("{:?}", T::default())) } }

fn lcg_next(x: u64) -> u64 {
    x.wrapping_mul(6364136223846793005).wrapping_add(1442695040888963407)
}

fn run_op(a: &[&str]) -> R {
    Ok(match a {
        ["ns.new", s] => {
            let t = text(s)?;
            // "the constructors are the only way to a credential": a `Default` value would be a credential no constructor accepted
            if let Some(v) = DefaultProbe::<NormalizedString>(std::marker::PhantomData).made() {
                return Ok(format!("DISAGREE NormalizedString::default() makes a credential without the checks: {}", v));
            }
            let r1 = NormalizedString::new(&t);
            // all constructors and conversions must agree
            let r2 = NormalizedString::from_str(&t);
            let r3 = NormalizedString::from_string(t.clone());
            let r4: Result<NormalizedString, _> = std::convert::TryFrom::try_from(t.as_str());
            let r5: Result<NormalizedString, _> = std::convert::TryFrom::try_from(t.clone());
            let show = |r: &Result<NormalizedString, wow_srp::error::NormalizedStringError>| match r {
                Ok(n) => {
                    let as_ref: &str = n.as_ref();
                    let disp = format!("{}", n);
                    // formatting parameters (width, fill, alignment, precision) must never make printing fail, and what is printed
                    // still shows the stored text (whether a width pads is left open)
                    let l = as_ref.len();
                    let mut shown_ok = true;
                    for w in [0usize, 1, l.saturating_sub(1), l, l + 1, 40] {
                        for t in [format!("{:w$}", n, w = w), format!("{:>w$}", n, w = w), format!("{:*^w$}", n, w = w), format!("{:<w$.p$}", n, w = w, p = 64)] {
                            if !t.contains(as_ref) || t.len() > 200 { shown_ok = false; }
                        }
                    }
                    if disp != as_ref || !shown_ok {
                        "DISAGREE display".to_string()
                    } else {
                        format!("ok {}", hex(as_ref.as_bytes()))
                    }
                }
                Err(e @ wow_srp::error::NormalizedStringError::StringTooLong) => {
                    shown(e);
                    shown(&wow_srp::error::SrpError::from(wow_srp::error::NormalizedStringError::StringTooLong));
                    "err toolong".to_string()
                }
                Err(e @ wow_srp::error::NormalizedStringError::CharacterNotAllowed(c)) => {
                    shown(e);
                    let conv = wow_srp::error::SrpError::from(wow_srp::error::NormalizedStringError::CharacterNotAllowed(*c));
                    shown(&conv);
                    // the error keeps its character when it travels through `?` into SrpError
                    match conv {
                        wow_srp::error::SrpError::NormalizedStringError(wow_srp::error::NormalizedStringError::CharacterNotAllowed(c2)) if c2 == *c => {}
                        _ => return "DISAGREE error conversion changes the reported character".to_string(),
                    }
                    format!("err char {}", *c as u32)
                }
                #[allow(unreachable_patterns)]
                Err(_) => "err other-refusal".to_string(),
            };
            let s1 = show(&r1);
            for r in [&r2, &r3, &r4, &r5] {
                if show(r) != s1 {
                    return Ok("DISAGREE constructors".into());
                }
            }
            s1
        }
        ["ns.cmp", x, y] => {
            let (tx, ty) = (text(x)?, text(y)?);
            match (NormalizedString::new(&tx), NormalizedString::new(&ty)) {
                (Ok(nx), Ok(ny)) => {
                    let o = match nx.cmp(&ny) {
                        std::cmp::Ordering::Less => "lt",
                        std::cmp::Ordering::Equal => "eq",
                        std::cmp::Ordering::Greater => "gt",
                    };
                    let po = nx.partial_cmp(&ny) == Some(nx.cmp(&ny));
                    if !po {
                        return Ok("DISAGREE partial_cmp".into());
                    }
                    // a copy made with clone() or clone_from() (into a value that held something else) IS the original:
                    // same text, equal, same order, same hash
                    let mut z = nx.clone();
                    z.clone_from(&ny);
                    let zr: &str = z.as_ref();
                    let yr: &str = ny.as_ref();
                    if zr != yr || z != ny || z.cmp(&ny) != std::cmp::Ordering::Equal || hash_of(&z) != hash_of(&ny) {
                        return Ok("DISAGREE clone_from".into());
                    }
                    let c = nx.clone();
                    if c != nx || hash_of(&c) != hash_of(&nx) {
                        return Ok("DISAGREE clone".into());
                    }
                    format!("{} {} {}", o, (nx == ny) as u8, (hash_of(&nx) == hash_of(&ny)) as u8)
                }
                _ => "invalid".into(),
            }
        }
        ["ns.sweep", lo, hi, pos, len] => {
            let (lo, hi, pos, len): (u32, u32, usize, usize) = (num(lo)?, num(hi)?, num(pos)?, num(len)?);
            let mut h = FNV_INIT;
            let (mut n_ok, mut n_len, mut n_char) = (0u64, 0u64, 0u64);
            for v in lo..hi {
                let c = match char::from_u32(v) {
                    Some(c) => c,
                    None => continue,
                };
                let mut s = String::new();
                for _ in 0..pos {
                    s.push('a');
                }
                s.push(c);
                for _ in 0..len.saturating_sub(pos + 1) {
                    s.push('a');
                }
                match NormalizedString::new(&s) {
                    Ok(n) => {
                        n_ok += 1;
                        let r: &str = n.as_ref();
                        h = fnv_bytes(fnv_step(h, 0), r.as_bytes());
                    }
                    Err(wow_srp::error::NormalizedStringError::StringTooLong) => {
                        n_len += 1;
                        h = fnv_step(h, 1);
                    }
                    Err(wow_srp::error::NormalizedStringError::CharacterNotAllowed(c)) => {
                        n_char += 1;
                        h = fnv_bytes(fnv_step(h, 2), &(c as u32).to_le_bytes());
                    }
                    #[allow(unreachable_patterns)]
                    Err(_) => h = fnv_step(h, 9),
                }
            }
            format!("fnv {:016x} ok={} len={} char={}", h, n_ok, n_len, n_char)
        }
        ["pk.from", k] => match PublicKey::from_le_bytes(arr(k)?) {
            Ok(p) => format!("ok {}", hex(p.as_le_bytes())),
            Err(e) => format!("err {}", pkerr(&e)),
        },
        ["pk.sweep", seed, count] => {
            let mut x: u64 = num(seed)?;
            let count: u64 = num(count)?;
            let mut h = FNV_INIT;
            let (mut n_ok, mut n_zero, mut n_mod) = (0u64, 0u64, 0u64);
            for _ in 0..count {
                x = lcg_next(x);
                let mask = ((x >> 16) & 0xffff_ffff) as u32;
                let mut key = [0u8; 32];
                for i in 0..32 {
                    if (mask >> i) & 1 == 1 {
                        key[i] = wow_srp::LARGE_SAFE_PRIME_LITTLE_ENDIAN[i];
                    }
                }
                match PublicKey::from_le_bytes(key) {
                    Ok(_) => {
                        n_ok += 1;
                        h = fnv_step(h, 0);
                    }
                    Err(InvalidPublicKeyError::PublicKeyIsZero) => {
                        n_zero += 1;
                        h = fnv_step(h, 1);
                    }
                    Err(InvalidPublicKeyError::PublicKeyModLargeSafePrimeIsZero) => {
                        n_mod += 1;
                        h = fnv_step(h, 2);
                    }
                    #[allow(unreachable_patterns)]
                    Err(_) => h = fnv_step(h, 9),
                }
            }
            format!("fnv {:016x} ok={} zero={} mod={}", h, n_ok, n_zero, n_mod)
        }
        ["srv.register", u, p] => {
            let v = thru(SrpVerifier::from_username_and_password(ns(u)?, ns(p)?))?;
            format!(
                "ok {} {} {}",
                hex(v.username().as_bytes()),
                hex(v.password_verifier()),
                hex(v.salt())
            )
        }
        ["srv.proof", u, v, salt] => {
            let ver = thru(SrpVerifier::from_database_values(ns(u)?, arr(v)?, arr(salt)?))?;
            let p = thru(ver.into_proof())?;
            format!("ok {} {}", hex(p.server_public_key()), hex(p.salt()))
        }
        ["srv.server", u, v, salt, pa, m1] => {
            let ver = thru(SrpVerifier::from_database_values(ns(u)?, arr(v)?, arr(salt)?))?;
            let p: SrpProof = thru(ver.into_proof())?;
            match PublicKey::from_le_bytes(arr(pa)?) {
                Err(e) => format!("badA {}", pkerr(&e)),
                Ok(pk) => match p.into_server(thru(pk)?, arr(m1)?) {
                    Ok((srv, m2)) => {
                        let srv = thru(srv)?;
                        format!("ok {} {} {}", hex(srv.session_key()), hex(&m2), hex(srv.reconnect_challenge_data()))
                    }
                    Err(e) => { shown_mpe(&e)?; format!("err {} {}", hex(&e.client_proof), hex(&e.server_proof)) }
                },
            }
        }
        ["cli.new", u, p, g, n, b, salt] => match PublicKey::from_le_bytes(arr(b)?) {
            Err(e) => format!("badB {}", pkerr(&e)),
            Ok(pb) => {
                let cc = thru(SrpClientChallenge::new(thru(ns(u)?)?, thru(ns(p)?)?, num(g)?, arr(n)?, thru(pb)?, arr(salt)?))?;
                format!("ok {} {}", hex(cc.client_public_key()), hex(cc.client_proof()))
            }
        },
        ["cli.verify", u, p, g, n, b, salt, m2] => match PublicKey::from_le_bytes(arr(b)?) {
            Err(e) => format!("badB {}", pkerr(&e)),
            Ok(pb) => {
                let cc = thru(SrpClientChallenge::new(ns(u)?, ns(p)?, num(g)?, arr(n)?, pb, arr(salt)?))?;
                match cc.verify_server_proof(arr(m2)?) {
                    Ok(cl) => format!("ok {}", hex(thru(cl)?.session_key())),
                    Err(e) => { shown_mpe(&e)?; format!("err {} {}", hex(&e.client_proof), hex(&e.server_proof)) }
                }
            }
        },
        ["login", us, ps, uc, pc, via] => {
            let (tus, tps, tuc, tpc) = (text(us)?, text(ps)?, text(uc)?, text(pc)?);
            // tens digit of `via`: which constructor family the CLIENT's credentials go through
            let vian: u32 = num(via)?;
            let via: &&str = &match vian % 10 { 0 => "0", 1 => "1", 2 => "2", 3 => "3", 4 => "4", _ => "5" };
            let mk = |t: &String| -> Result<NormalizedString, wow_srp::error::NormalizedStringError> {
                match vian / 10 {
                    1 => NormalizedString::from_string(t.clone()),
                    2 => std::convert::TryFrom::try_from(t.clone()),
                    3 => NormalizedString::from_str(t.as_str()),
                    4 => std::convert::TryFrom::try_from(t.as_str()),
                    _ => NormalizedString::new(t),
                }
            };
            let (nus, nps, nuc, npc) = match (
                NormalizedString::new(&tus),
                NormalizedString::new(&tps),
                mk(&tuc),
                mk(&tpc),
            ) {
                (Ok(a), Ok(b), Ok(c), Ok(d)) => (a, b, c, d),
                _ => return Ok("fail credentials".into()),
            };
            let ver0 = SrpVerifier::from_username_and_password(nus, nps);
            let ver = if *via != "0" {
                // export to storage (String, [u8;32], [u8;32]) and re-import, through each of the constructors
                let name: String = ver0.username().to_string();
                let v = *ver0.password_verifier();
                let s = *ver0.salt();
                let re = match *via {
                    "2" => NormalizedString::from_string(name),
                    "3" => std::convert::TryFrom::try_from(name),
                    "4" => NormalizedString::from_str(name.as_str()),
                    "5" => std::convert::TryFrom::try_from(name.as_str()),
                    _ => NormalizedString::new(name),
                };
                match re {
                    Ok(n) => SrpVerifier::from_database_values(n, v, s),
                    Err(_) => return Ok("fail reimport".into()),
                }
            } else {
                ver0
            };
            let ver = thru(ver)?;
            let vbytes = *ver.password_verifier();
            let proof = thru(ver.into_proof())?;
            let b = match PublicKey::from_le_bytes(*proof.server_public_key()) {
                Ok(b) => b,
                Err(_) => return Ok("fail client rejects B".into()),
            };
            let bbytes = *b.as_le_bytes();
            let cc = SrpClientChallenge::new(
                nuc,
                npc,
                wow_srp::GENERATOR,
                wow_srp::LARGE_SAFE_PRIME_LITTLE_ENDIAN,
                b,
                *proof.salt(),
            );
            let cc = thru(cc)?;
            let pa = match PublicKey::from_le_bytes(*cc.client_public_key()) {
                Ok(a) => a,
                Err(_) => return Ok("fail server rejects A".into()),
            };
            let abytes = *pa.as_le_bytes();
            let m1 = *cc.client_proof();
            let (srv, m2) = match proof.into_server(pa, m1) {
                Ok(x) => x,
                Err(_) => return Ok("fail server rejects M1".into()),
            };
            let cl = match cc.verify_server_proof(m2) {
                Ok(c) => c,
                Err(_) => return Ok("fail client rejects M2".into()),
            };
            format!(
                "ok {} {} {} {} {} {} {}",
                hex(srv.session_key()),
                hex(cl.session_key()),
                hex(&abytes),
                hex(&bbytes),
                hex(&m1),
                hex(&m2),
                hex(&vbytes)
            )
        }
        ["recon", u, p, k, rest @ ..] => {
            let (mut srv, _) = full_login(u, p)?;
            let k: usize = num(k)?;
            if rest.len() != 2 * k {
                return Err("bad-op".into());
            }
            let mut out = format!("ok {}", hex(srv.reconnect_challenge_data()));
            for i in 0..k {
                srv = thru(srv)?;
                let v = srv.verify_reconnection_attempt(arr(rest[2 * i])?, arr(rest[2 * i + 1])?);
                out.push_str(&format!(" {} {}", v as u8, hex(srv.reconnect_challenge_data())));
            }
            out
        }
        ["cli.recon", u, p, sc] => {
            let (_, cl) = full_login(u, p)?;
            let r = cl.calculate_reconnect_values(arr(sc)?);
            format!("ok {} {}", hex(&r.challenge_data), hex(&r.proof))
        }
        ["world.cli", exp, u, k, ss] => {
            let un = ns(u)?;
            match *exp {
                "v" => {
                    let seed = vanilla_header::ProofSeed::new();
                    let sv = seed.seed();
                    let (proof, c) = seed.into_client_header_crypto(&un, arr(k)?, num(ss)?);
                    format!("ok {} {} {}", hex(&proof), sv, HObj::VComb(c).probe())
                }
                "t" => {
                    let seed = tbc_header::ProofSeed::new();
                    let sv = seed.seed();
                    let (proof, c) = seed.into_client_header_crypto(&un, arr(k)?, num(ss)?);
                    format!("ok {} {} {}", hex(&proof), sv, HObj::TComb(c).probe())
                }
                _ => {
                    let seed = wrath_header::ProofSeed::new();
                    let sv = seed.seed();
                    let (proof, c) = seed.into_client_header_crypto(&un, arr(k)?, num(ss)?);
                    format!("ok {} {} {}", hex(&proof), sv, HObj::WCli(c).probe())
                }
            }
        }
        ["world.srv", exp, u, k, proof, cs] => {
            let un = ns(u)?;
            match *exp {
                "v" => {
                    let seed = vanilla_header::ProofSeed::new();
                    let sv = seed.seed();
                    match seed.into_server_header_crypto(&un, arr(k)?, arr(proof)?, num(cs)?) {
                        Ok(c) => format!("ok {} {}", sv, HObj::VComb(c).probe()),
                        Err(e) => { shown_mpe(&e)?; format!("err {} {} {}", hex(&e.client_proof), hex(&e.server_proof), sv) }
                    }
                }
                "t" => {
                    let seed = tbc_header::ProofSeed::new();
                    let sv = seed.seed();
                    match seed.into_server_header_crypto(&un, arr(k)?, arr(proof)?, num(cs)?) {
                        Ok(c) => format!("ok {} {}", sv, HObj::TComb(c).probe()),
                        Err(e) => { shown_mpe(&e)?; format!("err {} {} {}", hex(&e.client_proof), hex(&e.server_proof), sv) }
                    }
                }
                _ => {
                    let seed = wrath_header::ProofSeed::new();
                    let sv = seed.seed();
                    match seed.into_server_header_crypto(&un, arr(k)?, arr(proof)?, num(cs)?) {
                        Ok(c) => format!("ok {} {}", sv, HObj::WSrv(c).probe()),
                        Err(e) => { shown_mpe(&e)?; format!("err {} {} {}", hex(&e.client_proof), hex(&e.server_proof), sv) }
                    }
                }
            }
        }
        ["hdr", exp, role, k, ops @ ..] => {
            let mut o = hdr_new(exp, role, arr(k)?)?;
            rand::verif_inject(&[]);
            let _ = rand::verif_take_log();
            let mut out: Vec<String> = Vec::with_capacity(ops.len());
            for t in ops.iter() {
                out.push(hdr_op(&mut o, t)?);
            }
            out.join(" ")
        }
        ["thr", exp, role, k, ech, dch] => {
            // the two halves are moved to two OS threads, each owning one half (C12: schedules are tests)
            let o = hdr_new(exp, role, arr(k)?)?;
            rand::verif_inject(&[]);
            let _ = rand::verif_take_log();
            let ech: Vec<Vec<u8>> = if *ech == "-" { vec![] } else { ech.split(',').map(unhex).collect() };
            let dch: Vec<Vec<u8>> = if *dch == "-" { vec![] } else { dch.split(',').map(unhex).collect() };
            let mut split = o.clone();
            hdr_op(&mut split, "split")?;
            fn run_chunks(mut f: impl FnMut(&mut [u8]), chunks: Vec<Vec<u8>>) -> String {
                let mut out = Vec::new();
                for mut c in chunks {
                    f(&mut c);
                    std::thread::yield_now();
                    out.push(hex(&c));
                }
                if out.is_empty() { "-".to_string() } else { out.join(",") }
            }
            let (eo, dout) = match split {
                HObj::VHalves(mut e, mut d) => {
                    let t1 = std::thread::spawn(move || run_chunks(|c| e.encrypt(c), ech));
                    let t2 = std::thread::spawn(move || run_chunks(|c| d.decrypt(c), dch));
                    (t1.join().map_err(|_| "panic".to_string())?, t2.join().map_err(|_| "panic".to_string())?)
                }
                HObj::THalves(mut e, mut d) => {
                    let t1 = std::thread::spawn(move || run_chunks(|c| e.encrypt(c), ech));
                    let t2 = std::thread::spawn(move || run_chunks(|c| d.decrypt(c), dch));
                    (t1.join().map_err(|_| "panic".to_string())?, t2.join().map_err(|_| "panic".to_string())?)
                }
                HObj::WCliHalves(mut e, mut d) => {
                    let t1 = std::thread::spawn(move || run_chunks(|c| e.encrypt(c), ech));
                    let t2 = std::thread::spawn(move || run_chunks(|c| d.decrypt(c), dch));
                    (t1.join().map_err(|_| "panic".to_string())?, t2.join().map_err(|_| "panic".to_string())?)
                }
                HObj::WSrvHalves(mut e, mut d) => {
                    let t1 = std::thread::spawn(move || run_chunks(|c| e.encrypt(c), ech));
                    let t2 = std::thread::spawn(move || run_chunks(|c| d.decrypt(c), dch));
                    (t1.join().map_err(|_| "panic".to_string())?, t2.join().map_err(|_| "panic".to_string())?)
                }
                _ => return Err("bad-op".into()),
            };
            format!("{} {}", eo, dout)
        }
        ["hdr.steps", exp, k] => {
            // full step table of the recurrence ciphers: every position x every previous byte x every input byte,
            // both directions; states are reached by priming traffic, each input byte is tried on a clone
            let k: [u8; 40] = arr(k)?;
            let base = hdr_new(exp, "s", k)?;
            rand::verif_inject(&[]);
            let _ = rand::verif_take_log();
            let l: usize = if *exp == "v" { 40 } else { 20 };
            let mut h = FNV_INIT;
            let mut n = 0u64;
            for pos in 0..l {
                for prev in 0..256usize {
                    if pos == 0 && prev != 0 { continue; }
                    // encrypter: find priming plaintext whose last ciphertext byte is `prev`
                    let mut e = base.clone();
                    if pos > 0 {
                        let mut prime = vec![0u8; pos - 1];
                        e.enc(&mut prime, false);
                        let mut found = false;
                        for x in 0..256usize {
                            let mut c = e.clone();
                            let mut b = [x as u8];
                            c.enc(&mut b, false);
                            if b[0] as usize == prev { e = c; found = true; break; }
                        }
                        if !found { return Err("bad-op".into()); }
                    }
                    // decrypter: any ciphertext ending in `prev`
                    let mut d = base.clone();
                    if pos > 0 {
                        let mut prime = vec![0u8; pos];
                        prime[pos - 1] = prev as u8;
                        d.dec(&mut prime, false);
                    }
                    for x in 0..256usize {
                        let mut c = e.clone();
                        let mut b = [x as u8];
                        c.enc(&mut b, false);
                        h = fnv_step(h, b[0]);
                        let mut c = d.clone();
                        let mut b = [x as u8];
                        c.dec(&mut b, false);
                        h = fnv_step(h, b[0]);
                        n += 1;
                    }
                }
            }
            format!("fnv {:016x} n={}", h, n)
        }
        ["w.sweep", k, lo, hi, opc] => {
            let k: [u8; 40] = arr(k)?;
            let (lo, hi, opc): (u32, u32, u16) = (num(lo)?, num(hi)?, num(opc)?);
            let mut srv = wssession(k);
            let mut cli = wcsession(k);
            rand::verif_inject(&[]);
            let _ = rand::verif_take_log();
            let mut h = FNV_INIT;
            let mut bad = 0u64;
            for size in lo..hi {
                let out = srv.encrypt_server_header(size, opc).to_vec();
                let mut rd = ScriptReader::parse("-");
                rd.evs.push_back(REv::Data(out.clone()));
                match cli.read_and_decrypt_server_header(&mut rd) {
                    Ok(hd) => {
                        h = fnv_bytes(h, &[out.len() as u8]);
                        h = fnv_bytes(h, &hd.size.to_le_bytes());
                        h = fnv_bytes(h, &hd.opcode.to_le_bytes());
                        if hd.size != size || hd.opcode != opc || rd.delivered != out.len() {
                            bad += 1;
                        }
                    }
                    Err(_) => bad += 1,
                }
            }
            format!("fnv {:016x} bad={}", h, bad)
        }
        ["pin.hash", p, seed, ss, cs] => match pin::calculate_hash(num(p)?, num(seed)?, &arr(ss)?, &arr(cs)?) {
            Some(h) => format!("some {}", hex(&h)),
            None => "none".into(),
        },
        ["pin.verify", p, seed, ss, cs, h] => {
            let r = pin::verify_client_pin_hash(num(p)?, num(seed)?, &arr(ss)?, &arr(cs)?, &arr(h)?);
            format!("{}", r as u8)
        }
        ["pin.sweep", p, lo, hi, step, ss, cs] => {
            let (p, lo, hi, step): (u32, u64, u64, u64) = (num(p)?, num(lo)?, num(hi)?, num(step)?);
            let (ss, cs): ([u8; 16], [u8; 16]) = (arr(ss)?, arr(cs)?);
            let mut h = FNV_INIT;
            let mut seed = lo;
            let mut n = 0u64;
            while seed < hi {
                match pin::calculate_hash(p, seed as u32, &ss, &cs) {
                    Some(d) => h = fnv_bytes(h, &d),
                    None => h = fnv_step(h, 0xff),
                }
                seed += step;
                n += 1;
            }
            format!("fnv {:016x} n={}", h, n)
        }
        ["integ.win", f1, f2, f3, f4, f5, salt, pk] => hex(&integrity::login_integrity_check_windows(
            &unhex(f1),
            &unhex(f2),
            &unhex(f3),
            &unhex(f4),
            &unhex(f5),
            &arr(salt)?,
            &arr(pk)?,
        )),
        ["integ.mac", f1, f2, f3, f4, f5, salt, pk] => hex(&integrity::login_integrity_check_mac(
            &unhex(f1),
            &unhex(f2),
            &unhex(f3),
            &unhex(f4),
            &unhex(f5),
            &arr(salt)?,
            &arr(pk)?,
        )),
        ["integ.gen", all, salt, pk] => hex(&integrity::login_integrity_check_generic(
            &unhex(all),
            &arr(salt)?,
            &arr(pk)?,
        )),
        ["integ.recon", salt] => hex(&integrity::reconnect_integrity_check(&arr(salt)?)),
        ["mc.cell", d, h, w, data, x, y] => match card_of(d, h, w, data)? {
            None => "nocard".into(),
            Some(c) => format!("ok {}", hex(c.get_number_at_coordinates(num(x)?, num(y)?))),
        },
        ["mc.printed", d, h, w, data, i] => match card_of(d, h, w, data)? {
            None => "nocard".into(),
            Some(c) => match c.to_printer().nth(num(i)?) {
                Some(s) => format!("some {}", s),
                None => "none".into(),
            },
        },
        ["mc.new", d, h, w] => {
            let c = matrix_card::MatrixCard::new(num(d)?, num(h)?, num(w)?);
            format!("ok {}", hex(c.data()))
        }
        ["mc.coords", count, h, seed, w, k, round] => {
            let mut v = matrix_card::MatrixCardVerifier::new(num(count)?, num(h)?, num(seed)?, num(w)?, &arr(k)?);
            match v.get_matrix_coordinates(num(round)?) {
                Some((x, y)) => format!("some {} {}", x, y),
                None => "none".into(),
            }
        }
        ["mc.coordseq", count, h, seed, w, k, rounds] => {
            // several rounds asked on ONE verifier, in the given (arbitrary) order
            let mut v = matrix_card::MatrixCardVerifier::new(num(count)?, num(h)?, num(seed)?, num(w)?, &arr(k)?);
            let mut out = Vec::new();
            for r in rounds.split(',') {
                out.push(match v.get_matrix_coordinates(num(r)?) {
                    Some((x, y)) => format!("{}:{}", x, y),
                    None => "none".to_string(),
                });
            }
            out.join(" ")
        }
        ["mc.proof", count, h, seed, w, k, vals] => {
            let mut v = matrix_card::MatrixCardVerifier::new(num(count)?, num(h)?, num(seed)?, num(w)?, &arr(k)?);
            for b in unhex(vals) {
                v.enter_value(b);
            }
            format!("ok {}", hex(&v.into_proof()))
        }
        ["mc.verify", d, h, w, data, count, seed, k, proof] => match card_of(d, h, w, data)? {
            None => "nocard".into(),
            Some(c) => {
                let r = matrix_card::verify_matrix_card_hash(&c, num(count)?, num(seed)?, &arr(k)?, &arr(proof)?);
                format!("{}", r as u8)
            }
        },
        ["mc.flow", d, h, w, data, count, seed, k] => match card_of(d, h, w, data)? {
            None => "nocard".into(),
            Some(c) => {
                let count: u8 = num(count)?;
                let seed: u64 = num(seed)?;
                let k: [u8; 40] = arr(k)?;
                let mut v = matrix_card::MatrixCardVerifier::new(count, c.height(), seed, c.width(), &k);
                let printed: Vec<String> = c.to_printer().collect();
                for round in 0..count {
                    match v.get_matrix_coordinates(round) {
                        None => return Ok(format!("none@{}", round)),
                        Some((x, y)) => {
                            let idx = y as usize * c.width() as usize + x as usize;
                            match printed.get(idx) {
                                None => return Ok(format!("unprinted@{}", round)),
                                Some(s) => {
                                    // the user types the digits they read off the card
                                    for ch in s.chars() {
                                        v.enter_value(ch.to_digit(10).unwrap() as u8);
                                    }
                                }
                            }
                        }
                    }
                }
                let proof = v.into_proof();
                let ok = matrix_card::verify_matrix_card_hash(&c, count, seed, &k, &proof);
                format!("ok {} {}", hex(&proof), ok as u8)
            }
        },
        ["rng.stat", site, n] => {
            // C15 statistical test (labelled as a test): the shim passes through to the real ThreadRng
            let n: usize = num(n)?;
            rand::verif_pass_through(true);
            let r = catch_unwind(AssertUnwindSafe(|| -> Result<Vec<Vec<u8>>, String> {
                let mut vals: Vec<Vec<u8>> = Vec::with_capacity(n);
                let un = NormalizedString::new("ALICE").unwrap();
                let pw = NormalizedString::new("PASSWORD").unwrap();
                match *site {
                    "salt" => for _ in 0..n { vals.push(SrpVerifier::from_username_and_password(un.clone(), pw.clone()).salt().to_vec()); },
                    "b" => for _ in 0..n {
                        let v = SrpVerifier::from_database_values(un.clone(), [3u8; 32], [0u8; 32]);
                        vals.push(v.into_proof().server_public_key().to_vec());
                    },
                    "a" => for _ in 0..n {
                        let b = PublicKey::from_le_bytes([5u8; 32]).unwrap();
                        let c = SrpClientChallenge::new(un.clone(), pw.clone(), wow_srp::GENERATOR, wow_srp::LARGE_SAFE_PRIME_LITTLE_ENDIAN, b, [0u8; 32]);
                        vals.push(c.client_public_key().to_vec());
                    },
                    "chal" | "refresh" | "cd" => {
                        let (mut srv, cl) = full_login("414c494345", "50415353")?;
                        for i in 0..n {
                            match *site {
                                "chal" => { let (s2, _) = full_login("414c494345", "50415353")?; vals.push(s2.reconnect_challenge_data().to_vec()); }
                                "refresh" => {
                                    // alternate accepted and rejected attempts: the challenge is replaced after both
                                    let r = cl.calculate_reconnect_values(*srv.reconnect_challenge_data());
                                    let mut proof = r.proof;
                                    if i % 2 == 1 { proof[0] ^= 1; }
                                    let ok = srv.verify_reconnection_attempt(r.challenge_data, proof);
                                    if ok != (i % 2 == 0) { return Err("refresh verdict".into()); }
                                    vals.push(srv.reconnect_challenge_data().to_vec());
                                }
                                _ => vals.push(cl.calculate_reconnect_values([7u8; 16]).challenge_data.to_vec()),
                            }
                        }
                    }
                    "seedv" => for _ in 0..n { vals.push(vanilla_header::ProofSeed::new().seed().to_le_bytes().to_vec()); },
                    "seedt" => for _ in 0..n { vals.push(tbc_header::ProofSeed::new().seed().to_le_bytes().to_vec()); },
                    "seedw" => for _ in 0..n { vals.push(wrath_header::ProofSeed::new().seed().to_le_bytes().to_vec()); },
                    "seedvd" => for _ in 0..n { vals.push(<vanilla_header::ProofSeed as Default>::default().seed().to_le_bytes().to_vec()); },
                    "seedtd" => for _ in 0..n { vals.push(<tbc_header::ProofSeed as Default>::default().seed().to_le_bytes().to_vec()); },
                    "seedwd" => for _ in 0..n { vals.push(<wrath_header::ProofSeed as Default>::default().seed().to_le_bytes().to_vec()); },
                    "integsalt" => for _ in 0..n { vals.push(integrity::get_salt_value().to_vec()); },
                    "pinsalt" => for _ in 0..n { vals.push(pin::get_pin_salt().to_vec()); },
                    "pinseed" => for _ in 0..n { vals.push(pin::get_pin_grid_seed().to_le_bytes().to_vec()); },
                    "mcseed" => for _ in 0..n { vals.push(matrix_card::get_matrix_card_seed().to_le_bytes().to_vec()); },
                    "mcdigits" => for _ in 0..n { vals.push(matrix_card::MatrixCard::new(2, 4, 4).data().to_vec()); },
                    _ => return Err("bad-op".into()),
                }
                Ok(vals)
            }));
            rand::verif_pass_through(false);
            let _ = rand::verif_take_log();
            let vals = match r { Ok(Ok(v)) => v, Ok(Err(e)) => return Err(e), Err(_) => return Err("panic".into()) };
            let mut set = std::collections::HashSet::new();
            for v in &vals { set.insert(v.clone()); }
            let width = vals.first().map(|v| v.len()).unwrap_or(0);
            let mut minvals = usize::MAX;
            let mut maxbyte = 0u8;
            for pos in 0..width {
                let mut seen = [false; 256];
                for v in &vals { seen[v[pos] as usize] = true; if v[pos] > maxbyte { maxbyte = v[pos]; } }
                let c = seen.iter().filter(|x| **x).count();
                if c < minvals { minvals = c; }
            }
            return Ok(format!("stat {} n={} distinct={} width={} min_values_per_byte={} max_byte={}", site, vals.len(), set.len(), width, minvals, maxbyte));
        }
        ["rng.pinseed"] => format!("{}", pin::get_pin_grid_seed()),
        ["rng.pinsalt"] => hex(&pin::get_pin_salt()),
        ["rng.integsalt"] => hex(&integrity::get_salt_value()),
        ["rng.mcseed"] => format!("{}", matrix_card::get_matrix_card_seed()),
        // the other public way to a seed: the Default impl (also what #[derive(Default)] on an embedding struct calls)
        ["rng.proofseed.default", exp] => match *exp {
            "v" => format!("{}", <vanilla_header::ProofSeed as Default>::default().seed()),
            "t" => format!("{}", <tbc_header::ProofSeed as Default>::default().seed()),
            _ => format!("{}", <wrath_header::ProofSeed as Default>::default().seed()),
        },
        ["rng.proofseed", exp] => match *exp {
            "v" => format!("{}", vanilla_header::ProofSeed::new().seed()),
            "t" => format!("{}", tbc_header::ProofSeed::new().seed()),
            _ => format!("{}", wrath_header::ProofSeed::new().seed()),
        },
        _ => return Err("bad-op".into()),
    })
}

fn step(line: &str) -> String {
    let line = line.trim();
    let (cmd, rng) = match line.split_once(" | ") {
        Some((c, r)) => (c, unhex(r)),
        None => (line, vec![]),
    };
    let args: Vec<&str> = cmd.split(' ').filter(|s| !s.is_empty()).collect();
    rand::verif_inject(&rng);
    let _ = rand::verif_take_log();
    CLONE_MODE.with(|m| m.set((fnv_bytes(FNV_INIT, line.as_bytes()) % 3) as u8));
    CLONE_SEQ.with(|m| m.set((fnv_bytes(FNV_INIT, line.as_bytes()) / 3 % 3) as u32));     // per line, so a replayed line behaves the same
    let r = catch_unwind(AssertUnwindSafe(|| run_op(&args)));
    let used: usize = rand::verif_take_log().iter().map(|d| d.len()).sum();
    match r {
        Ok(Ok(s)) => format!("{} ~{}", s, used),
        Ok(Err(e)) => e,
        Err(_) => {
            if rand::verif_exhausted() {
                "rng-exhausted".to_string()
            } else if std::env::var_os("VERIF_PANIC_MSG").is_some() {
                // C19: the two builds must also agree on *which* documented panic fires
                format!("panic: {}", LAST_PANIC.with(|m| m.borrow().clone()))
            } else {
                "panic".to_string()
            }
        }
    }
}

thread_local! {
    static LAST_PANIC: std::cell::RefCell<String> = std::cell::RefCell::new(String::new());
}

fn main() {
    std::panic::set_hook(Box::new(|info| {
        let msg = if let Some(s) = info.payload().downcast_ref::<&str>() {
            s.to_string()
        } else if let Some(s) = info.payload().downcast_ref::<String>() {
            s.clone()
        } else {
            "?".to_string()
        };
        // keep only the message text (no file/line, which differ between the two dependency builds)
        // head AND tail: the crate's `expect` messages are long sentences that END in the error kind, and the kind is what counts
        let all: Vec<char> = msg.chars().filter(|c| !c.is_control()).collect();
        let msg: String = if all.len() <= 160 { all.iter().collect() } else { all[..80].iter().chain(" ... ".chars().collect::<Vec<char>>().iter()).chain(all[all.len() - 75..].iter()).collect() };
        LAST_PANIC.with(|m| *m.borrow_mut() = msg);
    }));
    let stdin = io::stdin();
    let stdout = io::stdout();
    let mut out = io::BufWriter::new(stdout.lock());
    for line in stdin.lock().lines() {
        let line = match line {
            Ok(l) => l,
            Err(_) => break,
        };
        if line.trim().is_empty() {
            continue;
        }
        let _ = writeln!(out, "{}", step(&line));
    }
    let _ = out.flush();
}
