//! Verification shim for the `rand` crate (see /verif/DESIGN.md §7).
//!
//! Re-exports the real rand 0.8.8 unchanged, except that `thread_rng()` and `random()` are
//! replaced: in *inject* mode (default) they pop bytes from a thread-local queue filled by the
//! harness and log every draw; in *pass-through* mode they delegate to the real `ThreadRng`
//! (and still log). wow_srp compiles against this crate unmodified via `[patch.crates-io]`.
pub use rand_real::*;
use std::cell::{Cell, RefCell};
use std::collections::VecDeque;

thread_local! {
    static QUEUE: RefCell<VecDeque<u8>> = RefCell::new(VecDeque::new());
    static LOG: RefCell<Vec<Vec<u8>>> = RefCell::new(Vec::new());
    static PASS: Cell<bool> = Cell::new(false);
    static EXHAUSTED: Cell<bool> = Cell::new(false);
}

pub fn verif_inject(bytes: &[u8]) {
    QUEUE.with(|q| {
        let mut q = q.borrow_mut();
        q.clear();
        q.extend(bytes.iter().copied());
    });
    EXHAUSTED.with(|e| e.set(false));
}
pub fn verif_take_log() -> Vec<Vec<u8>> {
    LOG.with(|l| std::mem::take(&mut *l.borrow_mut()))
}
pub fn verif_pending() -> usize {
    QUEUE.with(|q| q.borrow().len())
}
pub fn verif_exhausted() -> bool {
    EXHAUSTED.with(|e| e.get())
}
pub fn verif_pass_through(on: bool) {
    PASS.with(|p| p.set(on));
}

#[derive(Clone, Debug)]
pub struct HookRng;

impl rand_real::RngCore for HookRng {
    fn next_u32(&mut self) -> u32 {
        let mut b = [0u8; 4];
        self.fill_bytes(&mut b);
        u32::from_le_bytes(b)
    }
    fn next_u64(&mut self) -> u64 {
        let mut b = [0u8; 8];
        self.fill_bytes(&mut b);
        u64::from_le_bytes(b)
    }
    fn fill_bytes(&mut self, dest: &mut [u8]) {
        if PASS.with(|p| p.get()) {
            rand_real::thread_rng().fill_bytes(dest);
        } else {
            QUEUE.with(|q| {
                let mut q = q.borrow_mut();
                for d in dest.iter_mut() {
                    match q.pop_front() {
                        Some(b) => *d = b,
                        None => {
                            EXHAUSTED.with(|e| e.set(true));
                            panic!("verif rng queue exhausted");
                        }
                    }
                }
            });
        }
        LOG.with(|l| l.borrow_mut().push(dest.to_vec()));
    }
    fn try_fill_bytes(&mut self, dest: &mut [u8]) -> Result<(), rand_real::Error> {
        self.fill_bytes(dest);
        Ok(())
    }
}
impl rand_real::CryptoRng for HookRng {}

pub fn thread_rng() -> HookRng {
    HookRng
}

pub fn random<T>() -> T
where
    rand_real::distributions::Standard: rand_real::distributions::Distribution<T>,
{
    use rand_real::Rng;
    thread_rng().gen()
}
