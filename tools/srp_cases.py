"""shared builders for SRP protocol lines (C01, C02, C03, C05, C14, C19)"""
from verif import Case
from gen_util import *
import pyref
from pyref import N, N_LE, le32

Z32 = bytes(32)

def special32(rng):
    c = rng.randrange(10)
    if c == 0: return bytes([rng.getrandbits(8)]) + bytes(31)          # tiny
    if c == 1: return rbytes(rng, rng.randint(1, 8)).ljust(32, b"\0")  # high-order zero bytes
    if c == 2:
        k = rng.randint(1, 8)
        return bytes(k) + bytes([rng.randint(1, 255)]) + rbytes(rng, 31 - k)  # low-order zeros
    if c == 3: return bytes([0xff]) * 32
    return rbytes(rng, 32)

def low_zero_count(b):
    n = 0
    for x in b:
        if x: break
        n += 1
    return n

def high_zero_count(b):
    return low_zero_count(b[::-1])

def login_line(us, ps, uc, pc, via, salt, b, a, chal):
    return "login %s %s %s %s %d | %s%s%s%s" % (enc(us), enc(ps), enc(uc), enc(pc), via, salt.hex(), b.hex(), a.hex(), chal.hex())

def session_class(s):
    k = []
    k.append("neg-base" if s.neg_base else "nonneg-base")
    lz = low_zero_count(le32(s.S))
    if lz: k.append("S-low-zeros=%d" % lz)
    padded = [name for name, v in (("A", s.A), ("B", s.B), ("v", s.v), ("S", s.S)) if high_zero_count(le32(v))]
    if padded: k.append("zero-padded:" + "".join(padded))
    return k

def find_low_zero_session(rng, user, pw, zeros, budget):
    """search over the client's private key for a session whose S has `zeros` low-order zero bytes"""
    salt = rbytes(rng, 32); b = rbytes(rng, 32)
    mod = 256 ** zeros
    base = pyref.Session(user, pw, salt, b, le32(1))
    for _ in range(budget):
        a = rbytes(rng, 32)
        s = pyref.Session(user, pw, salt, b, a)
        if s.S % mod == 0 and s.S != 0:
            return s, salt, b, a
    return None

def honest_login_case(rng, kind=None, fixed=None):
    if fixed:
        us, ps, salt, b, a = fixed
    else:
        us, ps = cred(rng), cred(rng)
        salt, b, a = special32(rng), special32(rng), special32(rng)
    uc, pc = flipcase(rng, us), flipcase(rng, ps)
    via = rng.randrange(6)   # 0: no storage round trip; 1..5: re-import through each constructor
    chal = rbytes(rng, 16)
    s = pyref.Session(us, ps, salt, b, a)
    if s.B % N == 0 or s.A % N == 0:
        return None
    line = login_line(us, ps, uc, pc, via, salt, b, a, chal)
    return line, s, (us, ps, uc, pc, via, salt, b, a, chal)

def is_prime(n, rng=None):
    if n < 2: return False
    for p in (2, 3, 5, 7, 11, 13, 17, 19, 23, 29, 31, 37):
        if n % p == 0: return n == p
    d, r = n - 1, 0
    while d % 2 == 0: d //= 2; r += 1
    for a in (2, 3, 5, 7, 11, 13, 17, 19, 23, 29, 31, 37):
        x = pow(a, d, n)
        if x in (1, n - 1): continue
        for _ in range(r - 1):
            x = x * x % n
            if x == n - 1: break
        else:
            return False
    return True

def rand_prime(rng, nbytes, top_bit=False):
    while True:
        n = int.from_bytes(rbytes(rng, nbytes), "little") | 1
        if top_bit: n |= 1 << (8 * nbytes - 1)
        if n.bit_length() > 8 * (nbytes - 1) and is_prime(n):
            return n

def client_expect(user, pw, g, n, B32, salt, a32):
    """independent computation of what SrpClientChallenge::new must produce under an announced group"""
    U = pyref.normalize(user).encode(); P = pyref.normalize(pw).encode()
    n_le = le32(n)
    a = pyref.le(a32)
    A = pow(g, a, n)
    if A == 0:
        return None
    A32 = le32(A)
    x = pyref.calc_x(U, P, salt)
    u = pyref.calc_u(A32, B32)
    S = pow((pyref.le(B32) - 3 * pow(g, x, n)) % n, a + u * x, n)
    K = pyref.interleave(le32(S))
    m1 = pyref.M1(U, salt, A32, B32, K, n_le, g)
    return dict(A32=A32, S=S, K=K, M1=m1, M2=pyref.M2(A32, m1, K))
