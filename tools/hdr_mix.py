"""Mixed header-crypto sessions: ONE connection object driven through EVERY public entry point in random order —
raw encrypt/decrypt (facade and accessor), typed header helpers, Read/Write wrappers under fragmenting scripted
readers/writers, the Wrath two-step large-header path (also completed with the raw call), split, clone, unsplit.
The generator keeps an independent simulation of the object (pyhdr.Session) in step, so inbound bytes are what a peer
whose encrypter is in step with this decrypter would send for a *chosen* plaintext (mostly-valid input, boundary sizes
and opcodes on purpose), and the expected output of the whole op list is known (pyhdr.expected_line).

Used by C07/C08 (the recurrence ciphers must follow the recurrence through every entry point and object form),
C09/C10 (Wrath streams / headers), C11, C12, C14."""
import copy
import pyref, pyhdr
from gen_util import hx, rbytes, dict_ints, new_ints

SIZES16 = [0, 1, 2, 3, 4, 5, 6, 0xFF, 0x100, 0x7FFF, 0x8000, 0xFFFE, 0xFFFF]
OVERSIZE = [0x800000, 0x800010, 0x807FFF, 0x808000, 0x1000005, 0x7FFFFFFF, 0x80000000, 0xFFFFFFFF]
SIZESW = [0, 1, 3, 4, 0xFF, 0x100, 0x7FFE, 0x7FFF, 0x8000, 0x8001, 0xFFFF, 0x10000, 0x12345, 0x3FFFFF, 0x400000, 0x7FFFFE, 0x7FFFFF]
OPS16 = [0, 1, 0xFF, 0x100, 0x1EE, 0x7FFF, 0x8000, 0xFFFF]
OPS32 = OPS16 + [0x10000, 0x10001, 0xFFFFFF, 0x1000000, 0x7FFFFFFF, 0x80000000, 0xFFFFFFFF]
ERRKINDS = [3, 6, 7, 8, 9, 1, 12, 11]

def pick(rng, specials, bits):
    n = new_ints(0, (1 << bits) - 1)
    if n and rng.random() < 0.25:
        return rng.choice(n)          # a literal the source did not have when the machinery was last validated
    r = rng.random()
    if r < 0.45:
        return rng.choice(specials)
    if r < 0.57:
        # a value that occurs as a literal in the source under test (or its neighbour): what a branch on one magic opcode / size looks for
        d = dict_ints(0, (1 << bits) - 1)
        if d:
            return rng.choice(d)
    return rng.getrandbits(bits)

def wire_for(sim, plain):
    """bytes that the simulated object's decrypter, in its current state, turns into `plain`"""
    d = sim.d
    if isinstance(d, pyhdr.Rec):
        t = pyhdr.Rec(d.key); t.i, t.p = d.i, d.p
        return t.enc(plain)
    return copy.deepcopy(d).enc(plain)

def rscript(rng, data, fail=None):
    """fragment `data` for a scripted reader; fail = (offset, event) injects a failure after `offset` bytes"""
    evs = []
    n = len(data)
    cut = n if fail is None else fail[0]
    i = 0
    mode = rng.randrange(4)
    while i < cut:
        k = 1 if mode == 0 else (cut - i) if mode == 1 else rng.randint(1, cut - i)
        if rng.random() < 0.2: evs.append("I")
        evs.append("D" + data[i:i + k].hex()); i += k
    if fail is not None:
        evs += fail[1]
    elif rng.random() < 0.4:
        extra = rbytes(rng, rng.randint(1, 7)).hex()              # bytes left over in the reader: must not be consumed
        if evs and evs[-1].startswith("D") and rng.random() < 0.5:
            evs[-1] += extra        # ... also when they arrive in the SAME chunk as the end of the header (as they do on a socket): a wrapper
                                    # that reads through a larger buffer of its own swallows them
        else:
            evs.append("D" + extra)
    return ",".join(evs) if evs else "-"

def wscript(rng, n, fail=False):
    evs = []
    if fail:
        off = rng.randint(0, n - 1)
        left = off
        while left:
            k = rng.randint(1, left); evs.append("A%d" % k); left -= k
            if rng.random() < 0.2: evs.append("I")
        evs.append(rng.choice(["E%d" % rng.choice(ERRKINDS), "A0"]))
        return ",".join(evs)
    mode = rng.randrange(3)
    if mode == 0: return "-"
    left = n
    while left:
        k = 1 if mode == 1 else rng.randint(1, left)
        if rng.random() < 0.2: evs.append("I")
        evs.append("A%d" % k); left -= k
    return ",".join(evs)

def session(rng, exp, role, K, nops, faults=0.0, header_bias=0.5):
    """returns the op list for one connection object of expansion `exp` (v|t|w) and role (s|c)"""
    sim = pyhdr.Session(exp, role, K)
    ops = []
    w = exp == "w"
    can_es = (not w) or role == "s"      # sends server headers
    can_ec = (not w) or role == "c"
    can_rs = (not w) or role == "c"      # receives server headers
    can_rc = (not w) or role == "s"
    split = False
    def emit(tok):
        ops.append(tok)
        sim.op(tok)
    def srv_plain():
        if w:
            return pyref.wrath_server_header_plain(pick(rng, SIZESW, 23), pick(rng, OPS16, 16))
        return pyref.server_header_plain(pick(rng, SIZES16, 16), pick(rng, OPS16, 16))
    def cli_plain():
        return pyref.client_header_plain(pick(rng, SIZES16, 16), pick(rng, OPS32, 32))
    for _ in range(nops):
        r = rng.random()
        if r < header_bias:
            c = rng.randrange(8)
            if c == 0 and can_es:
                sz = pick(rng, SIZESW, 23) if w else pick(rng, SIZES16, 16)
                if w and rng.random() < 0.06: sz = rng.choice(OVERSIZE)     # `size: u32`: values beyond the 23 bits a header can carry
                emit("es:%d:%d" % (sz, pick(rng, OPS16, 16)))
            elif c == 1 and can_ec:
                emit("ec:%d:%d" % (pick(rng, SIZES16, 16), pick(rng, OPS32, 32)))
            elif c == 2 and can_es:
                size = pick(rng, SIZESW, 23) if w else pick(rng, SIZES16, 16)
                n = 5 if (w and size > 0x7FFF) else 4
                emit("ws:%d:%d:%s" % (size, pick(rng, OPS16, 16), wscript(rng, n, rng.random() < faults)))
            elif c == 3 and can_ec:
                emit("wc:%d:%d:%s" % (pick(rng, SIZES16, 16), pick(rng, OPS32, 32), wscript(rng, 6, rng.random() < faults)))
            elif c in (4, 5) and can_rs:
                plain = srv_plain()
                wire = wire_for(sim, plain)
                how = rng.randrange(3) if not w else rng.randrange(4)
                if rng.random() < faults:
                    off = rng.randint(0, len(wire) - 1)
                    ev = rng.choice([["E%d" % rng.choice(ERRKINDS)], ["Z"], [], ["D"]])
                    emit("rs:" + rscript(rng, wire, (off, ev)))
                elif how == 0 and not w:
                    emit("ds:" + wire.hex())
                elif how in (0, 3) and w:
                    emit("at:" + wire[:4].hex())
                    if len(wire) == 5:
                        if rng.random() < 0.3: emit(rng.choice(["clone", "split", "pr"]))
                        if how == 3 and rng.random() < 0.5:
                            emit("d:" + wire[4:].hex())      # fifth byte through the raw call: the stream must stay in step
                        else:
                            emit("lg:" + wire[4:].hex())
                else:
                    emit("rs:" + rscript(rng, wire))
            elif c in (6, 7) and can_rc:
                wire = wire_for(sim, cli_plain())
                if rng.random() < faults:
                    off = rng.randint(0, 5)
                    ev = rng.choice([["E%d" % rng.choice(ERRKINDS)], ["Z"], [], ["D"]])
                    emit("rc:" + rscript(rng, wire, (off, ev)))
                elif rng.random() < 0.5:
                    emit("dc:" + wire.hex())
                else:
                    emit("rc:" + rscript(rng, wire))
            else:
                emit("pr")
        elif r < header_bias + 0.32:
            n = rng.choice([0, 1, 2, 3, 4, 5, 6, 7, 19, 20, 21, 39, 40, 41, 100, 255, 256, 300])
            emit("%s:%s" % (rng.choice(["e", "e", "d", "d", "ae", "ad"]), hx(rbytes(rng, n))))
        elif r < header_bias + 0.40:
            emit("split"); split = True
        elif r < header_bias + 0.46:
            emit("clone")
        elif r < header_bias + 0.50 and exp == "v" and split:
            emit("unsplit"); split = False
        else:
            emit("pr")
    ops.append("pr")
    return ops

def wrath_size_boundaries(rng, Case):
    """Wrath server, one object: every boundary size — including the u32 values a 23-bit header cannot carry — through the typed helper
    and through the Write wrapper, with the stream position checked after each"""
    out = []
    for sizes in (SIZESW, OVERSIZE):
        K = rbytes(rng, 40)
        ops = []
        for sz in sizes:
            ops += ["es:%d:%d" % (sz, pick(rng, OPS16, 16)), "pr", "ws:%d:%d:-" % (sz, pick(rng, OPS16, 16)), "pr"]
        out.append(Case("hdr w s %s %s" % (K.hex(), " ".join(ops)), "wrath-server-size-boundaries", pyhdr.expected_line("w", "s", K, ops), dict(n=len(ops), nb=3)))
    return out

def big_call_cases(rng, Case, exps):
    """ONE call longer than 2^16 bytes in each direction (the lengths of a call and the position in the key are machine integers of some
    width), with ordinary traffic before and after it on the same object"""
    out = []
    for exp, role in exps:
        K = rbytes(rng, 40)
        pre = rng.randint(1, 39)
        ops = ["e:" + hx(rbytes(rng, pre)), "d:" + hx(rbytes(rng, pre + 1)), "pr",
               "e:" + hx(rbytes(rng, 65536 + rng.randint(0, 40))), "pr", "d:" + hx(rbytes(rng, 65536 + rng.randint(0, 40))), "pr",
               "e:" + hx(rbytes(rng, 21)), "d:" + hx(rbytes(rng, 41)), "pr"]
        out.append(Case("hdr %s %s %s %s" % (exp, role, K.hex(), " ".join(ops)), "one-call-longer-than-2^16-%s%s" % (exp, role), pyhdr.expected_line(exp, role, K, ops), dict(n=len(ops), nb=3)))
    return out

def cases(rng, Case, exps, n, maxops, kind_prefix="mixed", faults=0.08, long_every=5, special_key=None):
    """n sessions per (exp, role); every `long_every`-th one is long (crosses 256 bytes per direction)"""
    out = []
    for exp, role in exps:
        for i in range(n):
            K = special_key(rng) if special_key and rng.random() < 0.3 else rbytes(rng, 40)
            nops = maxops if (long_every and i % long_every == 0) else rng.randint(2, max(3, maxops // 4))
            ops = session(rng, exp, role, K, nops, faults=faults)
            line = "hdr %s %s %s %s" % (exp, role, K.hex(), " ".join(ops))
            out.append(Case(line, "%s-%s%s" % (kind_prefix, exp, role), pyhdr.expected_line(exp, role, K, ops), dict(n=len(ops), nb=3)))
    return out
