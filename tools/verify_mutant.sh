#!/bin/bash
# verify_mutant.sh <outdir> <n> <seeded-id> <property> : confirm a sub-agent's change in a scratch worktree, then store it
# under /verif/seeded/<id>/ ; prints CONFIRMED or the reason it is not.
set -u
OUT=$1; N=$2; ID=$3; PROP=$4
WT=/tmp/vmut_$$
export CARGO_NET_OFFLINE=true
git -C /repo worktree add -q $WT HEAD || exit 2
cleanup() { git -C /repo worktree remove --force $WT >/dev/null 2>&1; rm -rf $WT; }
trap cleanup EXIT
cd $WT
FEAT=""
grep -q "matrix_card\|matrix-card" $OUT/demo$N.rs 2>/dev/null && FEAT="--features matrix-card"
git apply $OUT/change$N.diff || { echo "NOT-CONFIRMED: patch does not apply"; exit 1; }
T1=$(cargo test --offline 2>&1 | grep -E "^test result" | grep -v " 0 failed" | wc -l)
T1b=$(cargo test --offline 2>&1 | grep -cE "^test result: ok")
T2=$(cargo test --offline --features matrix-card 2>&1 | grep -E "^test result" | grep -v " 0 failed" | wc -l)
[ "$T1" = "0" ] && [ "$T2" = "0" ] && [ "$T1b" -ge 2 ] || { echo "NOT-CONFIRMED: existing tests fail with the change ($T1,$T2,$T1b)"; exit 1; }
mkdir -p tests; cp $OUT/demo$N.rs tests/demo$N.rs
cargo test --offline $FEAT --test demo$N > /tmp/vmut_with_$$.log 2>&1; RC_WITH=$?
git checkout -q -- . 
cargo test --offline $FEAT --test demo$N > /tmp/vmut_without_$$.log 2>&1; RC_WITHOUT=$?
if [ $RC_WITH -ne 0 ] && [ $RC_WITHOUT -eq 0 ]; then
  mkdir -p /verif/seeded/$ID
  cp $OUT/change$N.diff /verif/seeded/$ID/patch.diff
  cp $OUT/demo$N.rs /verif/seeded/$ID/demo.rs
  echo "CONFIRMED $ID ($PROP): tests pass with change; demo fails with it (rc=$RC_WITH), passes without"
else
  echo "NOT-CONFIRMED: demo rc with=$RC_WITH without=$RC_WITHOUT"; tail -5 /tmp/vmut_with_$$.log; tail -5 /tmp/vmut_without_$$.log
fi
rm -f /tmp/vmut_with_$$.log /tmp/vmut_without_$$.log
