#!/usr/bin/env python3
"""matrix_summary.py <outdir> : one line per seeded change from the json files tools/matrix.sh wrote"""
import sys, json, glob, os
for f in sorted(glob.glob(os.path.join(sys.argv[1], "*.json"))):
    d = json.load(open(f)); name = os.path.basename(f)[:-5]
    tgt = name.split(":")[-1][:3] if not name.startswith("selftest") else None
    parts = []
    for p, r in d["results"].items():
        if r["rc"] == 1:
            parts.append(p + ("~" if any("no-failing-input-found" in l for l in r["lines"]) else "!"))
        elif r["rc"]:
            parts.append(p + "?ERR")
    caught = (tgt is None and parts) or any(x.startswith(tgt or "#") for x in parts)
    print("%-28s %-7s %s" % (name, "caught" if caught else "MISSED", " ".join(parts)))
