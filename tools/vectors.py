#!/usr/bin/env python3
"""The repo's own published vectors (tests/srp6_internal/*.txt: 14 files, produced by other implementations) run through the
independent Python reference (tools/pyref.py) — the oracle of every check — with the same parsing conventions as the crate's unit tests
(`from_be_hex_str`: hex, reversed, zero-padded; `from_le_hex_str`: hex as is).  A TEST of the oracle, run by setup.sh; prints one line
per file and exits 1 on any mismatch.   usage: vectors.py [repo]"""
import sys, os
sys.path.insert(0, os.path.dirname(os.path.abspath(__file__)))
import pyref
from pyref import N, le32

def be(h, size):
    b = bytes.fromhex(h)[::-1]
    return b + bytes(size - len(b))
def lehex(h):
    return bytes.fromhex(h)
def num(b):
    return int.from_bytes(b, "little")

def main():
    repo = sys.argv[1] if len(sys.argv) > 1 else os.environ.get("VERIF_REPO", "/repo")
    d = os.path.join(repo, "tests", "srp6_internal")
    bad = 0
    def run(name, f):
        nonlocal bad
        p = os.path.join(d, name)
        if not os.path.exists(p):
            print("%-40s missing" % name); return
        n = ok = 0
        for line in open(p):
            t = line.split()
            if not t: continue
            n += 1
            try:
                ok += 1 if f(t) else 0
            except Exception as e:
                pass
        print("%-40s %d/%d" % (name, ok, n))
        if ok != n: bad += 1
    U = lambda s: pyref.normalize(s).encode()
    SALT_X = be("CAC94AF32D817BA64B13F18FDEDEF92AD4ED7EF7AB0E19E9F2AE13C828AEAF57", 32)
    run("calculate_x_values.txt", lambda t: pyref.calc_x(U(t[0]), U(t[1]), SALT_X) == num(be(t[2], 20)))
    run("calculate_x_salt_values.txt", lambda t: pyref.calc_x(b"USERNAME123", b"PASSWORD123", be(t[0], 32)) == num(be(t[1], 20)))
    run("calculate_v_values.txt", lambda t: le32(pyref.verifier(U(t[0]), U(t[1]), be(t[2], 32))) == be(t[3], 32))
    run("calculate_B_values.txt", lambda t: le32(pyref.server_B(num(be(t[0], 32)), num(be(t[1], 32)))) == be(t[2], 32))
    run("calculate_u_values.txt", lambda t: pyref.calc_u(be(t[0], 32), be(t[1], 32)) == num(be(t[2], 20)))
    run("calculate_S_values.txt", lambda t: le32(pyref.server_S(num(be(t[0], 32)), num(be(t[1], 32)), num(be(t[2], 20)), num(be(t[3], 32)))) == be(t[4], 32))
    run("calculate_interleaved_values.txt", lambda t: pyref.interleave(lehex(t[0])) == lehex(t[1]))
    def sess(t):
        A, v, b = lehex(t[0]), lehex(t[1]), lehex(t[2])
        B32 = le32(pyref.server_B(num(v), num(b)))
        u = pyref.calc_u(A, B32)
        return pyref.interleave(le32(pyref.server_S(num(A), num(v), u, num(b)))) == lehex(t[3])
    run("calculate_session_key_values.txt", sess)
    run("calculate_M1_values.txt", lambda t: pyref.M1(U(t[0]), be(t[4], 32), be(t[2], 32), be(t[3], 32), lehex(t[1])) == be(t[5], 20))
    run("calculate_M2_values.txt", lambda t: pyref.M2(be(t[0], 32), be(t[1], 20), lehex(t[2])) == be(t[3], 20))
    run("calculate_reconnection_values.txt", lambda t: pyref.reconnect_proof(U(t[0]), lehex(t[1]), lehex(t[2]), lehex(t[3])) == lehex(t[4]))
    run("calculate_A_values.txt", lambda t: le32(pow(7, num(be(t[0], 32)), N)) == be(t[1], 32))
    run("calculate_client_S_values.txt", lambda t: le32(pyref.client_S(num(be(t[0], 32)), num(be(t[2], 20)), num(be(t[1], 32)), num(be(t[3], 20)))) == be(t[4], 32))
    run("calculate_world_server_proof.txt", lambda t: pyref.world_proof(U(t[0]), lehex(t[1]), int.from_bytes(lehex(t[3]), "little"), int.from_bytes(lehex(t[2]), "little")) == lehex(t[4]))
    return 1 if bad else 0

if __name__ == "__main__":
    sys.exit(main())
