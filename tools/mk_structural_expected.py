#!/usr/bin/env python3
"""Rewrites the `expected_structuralX` lists in Props/Source/Structural/*.lean with the values of Gen/Facts.lean as generated from the tree
the machinery is validated against.  Re-run only when /repo legitimately changes or the extractor learns to list more."""
import re, os, glob
V = os.path.dirname(os.path.dirname(os.path.abspath(__file__)))
facts = open(os.path.join(V, "lean/WowSrp/Gen/Facts.lean")).read()
vals = {m.group(1): m.group(2) for m in re.finditer(r"^def (structural\w+) : List String := (\[.*?\])\n\n", facts, re.S | re.M)}
n = 0
for f in glob.glob(os.path.join(V, "lean/WowSrp/Props/Source/Structural/*.lean")):
    s = open(f).read()
    def rep(m):
        global n
        if m.group(1) in vals:
            n += 1
            return "def expected_%s : List String := %s\n\n" % (m.group(1), vals[m.group(1)])
        return m.group(0)
    s2 = re.sub(r"def expected_(structural\w+) : List String := \[.*?\]\n\n", rep, s, flags=re.S)
    if s2 != s:
        open(f, "w").write(s2)
print("rewrote", n, "expected lists")
