#!/usr/bin/env python3
"""Self-test of the translators (tools/gen_code.py, tools/gen_constants.py): semantics-changing edits that must NOT leave the generated
files unchanged.  Each edit is applied to a scratch copy of /repo/src (never to /repo); both generators are re-run; the edit counts as
VISIBLE when Gen/Code.lean or Gen/Constants.lean differ from the ones generated for the unchanged tree (every generated definition has
an obligation in Props/Source, so a difference breaks a proof obligation).  These are the edits a reviewer found invisible to an earlier
version of the translators, kept as a regression corpus.   usage: translator_selftest.py   (exit 1 if any edit is invisible)"""
import os, sys, shutil, subprocess, tempfile
VERIF = os.path.dirname(os.path.dirname(os.path.abspath(__file__)))
REPO = os.environ.get("VERIF_REPO", "/repo")

EDITS = [
 ("H1 vanilla builder: swap after the literal", "src/vanilla_header/encrypt.rs",
  "        let mut header = [size[0], size[1], opcode[0], opcode[1]];\n", "        let mut header = [size[0], size[1], opcode[0], opcode[1]];\n        header.swap(2, 3);\n"),
 ("H1 tbc builder: size changed before to_be_bytes", "src/tbc_header/encrypt.rs",
  "        let size = size.to_be_bytes();\n        let opcode = opcode.to_le_bytes();\n\n        let mut header = [size[0], size[1], opcode[0], opcode[1]];",
  "        let size = size.wrapping_add(4);\n        let size = size.to_be_bytes();\n        let opcode = opcode.to_le_bytes();\n\n        let mut header = [size[0], size[1], opcode[0], opcode[1]];"),
 ("H1 wrath builder: size masked before the branch", "src/wrath_header/encrypt.rs",
  "        if size > 0x7FFF {\n", "        let size = size & 0x00FF_FFFF;\n        if size > 0x7FFF {\n"),
 ("H1 wrath builder: copy-back to the wrong slot", "src/wrath_header/encrypt.rs",
  "            self.server_header[0] = header[0];\n            self.server_header[1] = header[1];\n            self.server_header[2] = header[2];\n            self.server_header[3] = header[3];\n            self.server_header[4] = header[4];",
  "            self.server_header[1] = header[0];\n            self.server_header[0] = header[1];\n            self.server_header[2] = header[2];\n            self.server_header[3] = header[3];\n            self.server_header[4] = header[4];"),
 ("H1 from_array: swap_bytes after from_be_bytes", "src/vanilla_header/mod.rs",
  "        let size = u16::from_be_bytes([b[0], b[1]]);\n        let opcode = u16::from_le_bytes([b[2], b[3]]);",
  "        let size = u16::from_be_bytes([b[0], b[1]]);\n        let size = size.swap_bytes();\n        let opcode = u16::from_le_bytes([b[2], b[3]]);"),
 ("H1 from_large_array: array permuted first", "src/wrath_header/mod.rs",
  "        let most_significant_byte = clear_large_header(b[0]);", "        let b = [b[1], b[0], b[2], b[3], b[4]];\n        let most_significant_byte = clear_large_header(b[0]);"),
 ("H1 builder: encrypt call removed", "src/tbc_header/encrypt.rs",
  "        let mut header = [size[0], size[1], opcode[0], opcode[1]];\n\n        self.encrypt(&mut header);", "        let mut header = [size[0], size[1], opcode[0], opcode[1]];\n"),
 ("H2a decoy: active changed decrypt, original under cfg(any())", "src/vanilla_header/decrypt.rs",
  "pub(crate) fn decrypt(\n", "pub(crate) fn decrypt_active_MARK(\n"),   # completed below (special)
 ("H2b half call site: index and previous_value swapped", "src/vanilla_header/encrypt.rs",
  "            &mut self.index,\n            &mut self.previous_value,\n", "            &mut self.previous_value,\n            &mut self.index,\n"),
 ("H3 calculate_u: new_with_prefix", "src/srp_internal.rs",
  "    let s = Sha1::new()\n        .chain_update(client_public_key.as_le_bytes())\n        .chain_update(server_public_key.as_le_bytes())\n        .finalize();\n    Sha1Hash::from_le_bytes(s.into())",
  "    let s = Sha1::new_with_prefix(server_public_key.as_le_bytes())\n        .chain_update(client_public_key.as_le_bytes())\n        .chain_update(server_public_key.as_le_bytes())\n        .finalize();\n    Sha1Hash::from_le_bytes(s.into())"),
 ("H3 calculate_u: digest reversed afterwards", "src/srp_internal.rs",
  "        .chain_update(server_public_key.as_le_bytes())\n        .finalize();\n    Sha1Hash::from_le_bytes(s.into())", "        .chain_update(server_public_key.as_le_bytes())\n        .finalize();\n    let mut s: [u8; 20] = s.into();\n    s.reverse();\n    Sha1Hash::from_le_bytes(s)"),
 ("H3 reconnect proof: conditional update", "src/srp_internal.rs",
  "        .chain_update(client_data.as_le_bytes())\n        .chain_update(server_data.as_le_bytes())", "        .chain_update(client_data.as_le_bytes())\n        .chain_update(if username.as_ref().len() > 3 { &server_data.as_le_bytes()[..] } else { &client_data.as_le_bytes()[..] })"),
 ("M1 verifier: x multiplied by the salt", "src/srp_internal.rs",
  "    let x = calculate_x(username, password, salt).as_bigint();", "    let x = calculate_x(password, username, salt).as_bigint() * salt.as_bigint();"),
 ("M2 as_bigint reads big-endian", "src/key.rs",
  "                bigint::Integer::from_bytes_le(&self.key)", "                { let mut k = self.key; k.reverse(); bigint::Integer::from_bytes_le(&k) }"),
 ("M3 impl after the test module", "src/rc4.rs", None, "\nimpl Drop for Rc4 {\n    fn drop(&mut self) {\n        self.i = 0;\n    }\n}\n"),   # appended at the end of the file
 ("M4 rc4: addition in usize", "src/rc4.rs",
  "        let index: usize = self.s_i().wrapping_add(self.s_j()).into();\n\n        self.state[index]", "        let index: usize = self.s_i().into();\n\n        self.state[index.wrapping_add(self.s_j().into())]"),
 ("M5 strip rule: chained remainder", "src/key.rs", "        if lead % 2 != 0 {", "        if lead % 6 % 4 != 0 {"),
 ("M6 wrath drop: only half of the pad applied", "src/wrath_header/inner_crypto/mod.rs", "        inner.apply_keystream(&mut pad_data);", "        inner.apply_keystream(&mut pad_data[..512]);"),
 ("M6 tbc seed rebound", "src/tbc_header/encrypt.rs", None, None),
 ("D1 code between `// /*` and `// */` (line comments, live code)", "src/pin.rs",
  "        pin /= 10;\n", "        pin /= 10; // /*\n        pin /= 10;\n        // */\n"),
 ("D2 struct fields reordered and the other field used", "src/matrix_card.rs", None, None),
 ("D3 pin buffer one byte shorter in the signature only", "src/pin.rs",
  "fn pin_to_bytes(mut pin: u32, out_pin_array: &mut [u8; MAX_PIN_LENGTH as usize])", "fn pin_to_bytes(mut pin: u32, out_pin_array: &mut [u8; 9])"),
 ("D4 constant written with an integer division", "src/pin.rs", "const MAX_PIN_LENGTH: u8 = 10;", "const MAX_PIN_LENGTH: u8 = 5 / 2 * 4;"),
 ("D5 function written with a raw identifier", "src/pin.rs", "fn pin_to_bytes(", "fn r#pin_to_bytes("),
 ("D6 a local macro named vec", "src/matrix_card.rs", "fn generate_coordinates(",
  "macro_rules! vec { ($e:expr; $n:expr) => { std::vec![$e; { let n: usize = $n; n + 1 }] }; }\nfn generate_coordinates("),
 ("D7 an untyped constant expression cast to u8", "src/matrix_card.rs", "    let matrix_size = width * height;\n", "    let matrix_size = width * height % ((514 / 2) as u8);\n"),
 ("D8 a local that captures the name a field is folded to", "src/matrix_card.rs",
  "        let start =\n            (y as usize * self.width as usize + x as usize) * self.digit_count as usize;",
  "        let self_height = self.width;\n        let start =\n            (y as usize * self.height as usize + x as usize) * self.digit_count as usize;"),
 ("D9 seed narrowed to u32 in the signature", "src/matrix_card.rs", "fn generate_coordinates(width: u8, height: u8, challenge_count: u8, mut seed: u64)", "fn generate_coordinates(width: u8, height: u8, challenge_count: u8, mut seed: u32)"),
 ("S1 bitwise not on the length (`!s.len() > 16` is `(!s.len()) > 16`)", "src/normalized_string.rs",
  "if s.len() > MAXIMUM_STRING_LENGTH_IN_BYTES as usize || s.is_empty()", "if !(!s.len() > MAXIMUM_STRING_LENGTH_IN_BYTES as usize) || s.is_empty()"),
 ("G1 callee name imported from a local module that swaps the seeds", "src/wrath_header/mod.rs",
  "use crate::vanilla_header::calculate_world_server_proof;",
  "use self::shadow::calculate_world_server_proof;\nmod shadow { use crate::key::{Proof, SessionKey}; use crate::normalized_string::NormalizedString; pub(crate) fn calculate_world_server_proof(u: &NormalizedString, k: &SessionKey, a: u32, b: u32) -> Proof { crate::vanilla_header::calculate_world_server_proof(u, k, b, a) } }"),
 ("G2 world proof: parameter NAMES swapped in the signature only", "src/vanilla_header/internal.rs",
  "    server_seed: u32,\n    client_seed: u32,\n) -> Proof {", "    client_seed: u32,\n    server_seed: u32,\n) -> Proof {"),
 ("G3 reconnect proof: client and server data swapped", "src/srp_internal.rs",
  "        .chain_update(client_data.as_le_bytes())\n        .chain_update(server_data.as_le_bytes())", "        .chain_update(server_data.as_le_bytes())\n        .chain_update(client_data.as_le_bytes())"),
 ("G4 xor hash: or for xor", "src/srp_internal.rs", "xor_hash[i] = *n ^ g_hash[i];", "xor_hash[i] = *n | g_hash[i];"),
 ("G5 reconnect integrity: 19 zero bytes", "src/integrity.rs", "let zero_buffer = [0_u8; SHA1_HASH_LENGTH as usize];", "let zero_buffer = [0_u8; SHA1_HASH_LENGTH as usize - 1];"),
 ("G6 verify_reconnection_attempt: refresh only when refused", "src/server.rs",
  "        self.reconnect_challenge_data.randomize_data();\n\n        reconnect_verified", "        if !reconnect_verified { self.reconnect_challenge_data.randomize_data(); }\n\n        reconnect_verified"),
 ("G7 into_server: server proof over the CLIENT's proof bytes before the comparison moved", "src/server.rs",
  "            &client_public_key,\n            &server_calculated_proof,\n            &session_key,", "            &client_public_key,\n            &client_calculated_proof,\n            &session_key,"),
 ("G8 interleave: odd bytes first", "src/srp_internal.rs", "for (i, e) in S.iter().step_by(2).enumerate()", "for (i, e) in S.iter().skip(1).step_by(2).enumerate()"),
 ("L2 loop variable shadowed by a local", "src/vanilla_header/encrypt.rs",
  "        *unencrypted = encrypted;\n        *previous_value = encrypted;", "        *unencrypted = encrypted;\n        let unencrypted = encrypted ^ 1;\n        *previous_value = unencrypted;"),
]

def gen(repo, out):
    os.makedirs(out, exist_ok=True)
    subprocess.run([sys.executable, os.path.join(VERIF, "tools", "gen_code.py"), repo, os.path.join(out, "Code.lean")], capture_output=True)
    subprocess.run([sys.executable, os.path.join(VERIF, "tools", "gen_constants.py"), repo, os.path.join(out, "Constants.lean")], capture_output=True)
    return open(os.path.join(out, "Code.lean")).read() + open(os.path.join(out, "CodeImp.lean")).read() + open(os.path.join(out, "CodeStr.lean")).read() + open(os.path.join(out, "CodeKsa.lean")).read() + open(os.path.join(out, "CodeHash.lean")).read() + open(os.path.join(out, "CodeIlv.lean")).read() + open(os.path.join(out, "CodeApi.lean")).read(), open(os.path.join(out, "Constants.lean")).read() + open(os.path.join(out, "Facts.lean")).read()

def main():
    tmp = tempfile.mkdtemp(prefix="trsel_", dir="/root")
    try:
        base = os.path.join(tmp, "base"); shutil.copytree(os.path.join(REPO, "src"), os.path.join(base, "src"))
        c0, k0 = gen(base, os.path.join(tmp, "g0"))
        invisible = []
        for i, (name, rel, old, new) in enumerate(EDITS):
            d = os.path.join(tmp, "e%d" % i); shutil.copytree(os.path.join(REPO, "src"), os.path.join(d, "src"))
            p = os.path.join(d, rel); s = open(p).read()
            if name.startswith("H2a"):
                # keep the original function but dead (cfg(any()) is never true), put a changed active copy in front of it
                if "pub(crate) fn decrypt(" not in s or "*previous_value = *encrypted;" not in s:
                    print("%-9s %s" % ("skipped", name)); continue
                j = s.index("pub(crate) fn decrypt(")
                body = s[j:]
                changed = body.replace("*previous_value = *encrypted;", "*previous_value = unencrypted;")
                assert changed != body
                s = s[:j] + changed + "\n#[cfg(any())]\n" + body
            elif name.startswith("M3"):
                s = s + new
            elif name.startswith("D2"):
                a, b = "    width: u8,\n    height: u8,\n", "    height: u8,\n    width: u8,\n"
                if a not in s or "self.width as usize" not in s:
                    print("%-9s %s" % ("skipped", name)); continue
                s = s.replace(a, b, 1).replace("self.width as usize", "self.height as usize", 1)
            elif name.startswith("M6 tbc seed"):
                if "let s: [u8; SEED_KEY_SIZE] = [" not in s:
                    print("%-9s %s" % ("skipped", name)); continue
                k = s.index("let s: [u8; SEED_KEY_SIZE] = ["); e = s.index("];", k) + 2
                s = s[:e] + "\n        let s = s.map(|b| b.wrapping_add(1));" + s[e:]
            else:
                if s.count(old) < 1:
                    print("%-9s %s (the source no longer contains the text this edit replaces)" % ("skipped", name)); continue
                s = s.replace(old, new, 1)
            open(p, "w").write(s)
            c1, k1 = gen(d, os.path.join(tmp, "g%d" % (i + 1)))
            vis = (c1 != c0) or (k1 != k0)
            if name[:2] in ("S1",):
                vis = ", some " in c1
            if name[:2] in ("M4", "M5", "L2") or name.startswith("H2a"):
                # for these the danger is a term that differs textually but MEANS the model's function: the translator has to refuse
                vis = "unsupported" in c1
            print("%-9s %s" % ("visible" if vis else "INVISIBLE", name))
            if not vis:
                invisible.append(name)
        print("%d edits, %d invisible" % (len(EDITS), len(invisible)))
        return 1 if invisible else 0
    finally:
        shutil.rmtree(tmp, ignore_errors=True)

if __name__ == "__main__":
    sys.exit(main())
