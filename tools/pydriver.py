"""expected(line): what the property definitions say the real crate must answer to one protocol line, computed by
the independent Python reference (pyref / pyhdr) — used by `./check Cxx --replay <file>` to re-evaluate a stored
failing input against the current /repo without the original generator closure. Returns None for ops it does not
cover (sweeps, statistical lines, lines whose oracle is property-specific)."""
import struct
import pyref, pyhdr
from pyref import N, N_LE, le32
from gen_util import unhx

def _txt(h):
    return unhx(h).decode("utf-8")

def _session(us, ps, salt, b, a):
    return pyref.Session(_txt(us), _txt(ps), salt, b, a)

def expected(line):
    cmd, _, rng = line.partition(" | ")
    rng = unhx(rng.strip()) if rng else b""
    a = cmd.split()
    op = a[0]
    try:
        if op == "ns.new":
            return pyref.ns_result(_txt(a[1])) + " ~0"
        if op == "pk.from":
            k = unhx(a[1])
            if k == bytes(32): return "err zero ~0"
            if k == N_LE: return "err modzero ~0"
            return "ok %s ~0" % k.hex()
        if op == "srv.register":
            U = pyref.normalize(_txt(a[1])); P = pyref.normalize(_txt(a[2]))
            if U is None or P is None: return "badcred"
            salt = rng[:32]
            return "ok %s %s %s ~32" % (U.encode().hex(), le32(pyref.verifier(U.encode(), P.encode(), salt)).hex(), salt.hex())
        if op in ("srv.proof", "srv.server", "cli.new", "cli.verify", "recon", "cli.recon", "world.cli", "world.srv"):
            # these take already-registered names: a string NormalizedString::new refuses never reaches the library call
            for t in (a[1:2] if op.startswith("srv.") else a[2:3] if op.startswith("world.") else a[1:3]):
                if pyref.normalize(_txt(t)) is None: return "badcred"
        if op == "srv.proof":
            v = pyref.le(unhx(a[2])); B = pyref.server_B(v, pyref.le(rng[:32]))
            return "panic" if B == 0 else "ok %s %s ~32" % (le32(B).hex(), a[3])
        if op == "srv.server":
            U = pyref.normalize(_txt(a[1])).encode(); v = pyref.le(unhx(a[2])); salt = unhx(a[3]); A32 = unhx(a[4]); m1 = unhx(a[5])
            b = rng[:32]; chal = rng[32:48]
            if pyref.server_B(v, pyref.le(b)) == 0: return "panic"
            if A32 == bytes(32): return "badA zero ~32"
            if A32 == N_LE: return "badA modzero ~32"
            B32 = le32(pyref.server_B(v, pyref.le(b)))
            u = pyref.calc_u(A32, B32)
            K = pyref.interleave(le32(pyref.server_S(pyref.le(A32), v, u, pyref.le(b))))
            m1s = pyref.M1(U, salt, A32, B32, K)
            if m1 == m1s: return "ok %s %s %s ~48" % (K.hex(), pyref.M2(A32, m1s, K).hex(), chal.hex())
            return "err %s %s ~32" % (m1.hex(), m1s.hex())
        if op in ("cli.new", "cli.verify"):
            from srp_cases import client_expect
            B32 = unhx(a[5])
            if B32 == bytes(32): return "badB zero ~0"
            if B32 == N_LE: return "badB modzero ~0"
            n_ = pyref.le(unhx(a[4]))
            if n_ == 0: return "panic"
            e = client_expect(_txt(a[1]), _txt(a[2]), int(a[3]), n_, B32, unhx(a[6]), rng[:32])
            if e is None: return "panic"
            if op == "cli.new": return "ok %s %s ~32" % (e["A32"].hex(), e["M1"].hex())
            m2 = unhx(a[7])
            return ("ok %s ~32" % e["K"].hex()) if m2 == e["M2"] else "err %s %s ~32" % (e["M2"].hex(), m2.hex())
        if op == "login":
            us, ps, uc, pc = (_txt(x) for x in a[1:5])
            if None in (pyref.normalize(us), pyref.normalize(ps), pyref.normalize(uc), pyref.normalize(pc)): return "fail credentials ~0"
            salt, b, aa = rng[:32], rng[32:64], rng[64:96]
            s = pyref.Session(us, ps, salt, b, aa)
            if s.B == 0: return "panic"
            if pyref.normalize(us) != pyref.normalize(uc) or pyref.normalize(ps) != pyref.normalize(pc): return None
            return "ok %s %s %s %s %s %s %s ~112" % (s.K.hex(), s.K.hex(), s.A32.hex(), s.B32.hex(), s.M1.hex(), s.M2.hex(), le32(s.v).hex())
        if op == "recon":
            salt, b, aa, chal = rng[:32], rng[32:64], rng[64:96], rng[96:112]
            s = pyref.Session(_txt(a[1]), _txt(a[2]), salt, b, aa)
            k = int(a[3]); out = ["ok", chal.hex()]; cur = chal
            for i in range(k):
                cd, pr = unhx(a[4 + 2 * i]), unhx(a[5 + 2 * i]); d = rng[112 + 16 * i:128 + 16 * i]
                out += ["1" if pr == pyref.reconnect_proof(s.U, cd, cur, s.K) else "0", d.hex()]; cur = d
            return " ".join(out) + " ~%d" % (112 + 16 * k)
        if op == "cli.recon":
            s = pyref.Session(_txt(a[1]), _txt(a[2]), rng[:32], rng[32:64], rng[64:96]); cd = rng[112:128]
            return "ok %s %s ~128" % (cd.hex(), pyref.reconnect_proof(s.U, cd, unhx(a[3]), s.K).hex())
        if op == "world.cli":
            U = pyref.normalize(_txt(a[2])).encode(); cseed = struct.unpack("<I", rng[:4])[0]
            want = "ok %s %d " % (pyref.world_proof(U, unhx(a[3]), cseed, int(a[4])).hex(), cseed)
            return lambda out, want=want: None if out.startswith(want) and out.endswith(" ~4") else "expected " + want + "... ~4"
        if op == "world.srv":
            U = pyref.normalize(_txt(a[2])).encode(); sseed = struct.unpack("<I", rng[:4])[0]
            sp = pyref.world_proof(U, unhx(a[3]), int(a[5]), sseed)
            if unhx(a[4]) != sp:
                return "err %s %s %d ~4" % (a[4], sp.hex(), sseed)
            want = "ok %d " % sseed
            return lambda out, want=want: None if out.startswith(want) and out.endswith(" ~4") else "expected " + want + "... ~4"
        if op == "hdr":
            return pyhdr.expected_line(a[1], a[2], unhx(a[3]), a[4:])
        if op == "pin.hash":
            h = pyref.pin_hash(int(a[1]), int(a[2]), unhx(a[3]), unhx(a[4]))
            return ("some %s ~0" % h.hex()) if h else "none ~0"
        if op == "pin.verify":
            h = pyref.pin_hash(int(a[1]), int(a[2]), unhx(a[3]), unhx(a[4]))
            return "%d ~0" % (1 if h is not None and h == unhx(a[5]) else 0)
        if op in ("integ.win", "integ.mac"):
            return pyref.integrity(b"".join(unhx(x) for x in a[1:6]), unhx(a[6]), unhx(a[7])).hex() + " ~0"
        if op == "integ.gen":
            return pyref.integrity(unhx(a[1]), unhx(a[2]), unhx(a[3])).hex() + " ~0"
        if op == "integ.recon":
            return pyref.integrity_reconnect(unhx(a[1])).hex() + " ~0"
        if op in ("mc.cell", "mc.printed", "mc.verify"):
            d, h, w = int(a[1]), int(a[2]), int(a[3]); data = unhx(a[4])
            if len(data) != d * h * w: return "nocard ~0"
            cells = [data[i * d:(i + 1) * d] for i in range(w * h)]
            if op == "mc.cell":
                return "ok %s ~0" % cells[int(a[6]) * w + int(a[5])].hex()
            if op == "mc.printed":
                i = int(a[5])
                return ("some %s ~0" % "".join(str(x) for x in cells[i])) if i < len(cells) else "none ~0"
            count, seed, K, proof = int(a[5]), int(a[6]), unhx(a[7]), unhx(a[8])
            sel = pyref.mc_coordinates(w, h, count, seed)
            return "%d ~0" % (1 if pyref.mc_proof(seed, K, b"".join(cells[i] for i in sel)) == proof else 0)
        if op in ("mc.coords", "mc.coordseq"):
            count, h, seed, w = int(a[1]), int(a[2]), int(a[3]), int(a[4])
            sel = pyref.mc_coordinates(w, h, count, seed)
            if op == "mc.coords":
                r = int(a[6])
                return ("some %d %d ~0" % (sel[r] % w, sel[r] // w)) if r < count else "none ~0"
            return " ".join(("%d:%d" % (sel[r] % w, sel[r] // w)) if r < count else "none" for r in map(int, a[6].split(","))) + " ~0"
        if op == "mc.proof":
            return "ok %s ~0" % pyref.mc_proof(int(a[3]), unhx(a[5]), unhx(a[6])).hex()
    except Exception:
        return None
    return None
