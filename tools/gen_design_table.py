#!/usr/bin/env python3
"""rewrites the seeded-change table in DESIGN.md §11 from seeded/*/meta.json"""
import json, os, re
rows = []
for d in sorted(os.listdir('/verif/seeded')):
    p = '/verif/seeded/%s/meta.json' % d
    if not os.path.exists(p): continue
    m = json.load(open(p)); fired = m['fired']; tgt = m['breaks_property']
    others = [k for k in sorted(fired) if k != tgt]
    rows.append("| %s | %s | %s | %s | %s |" % (m['id'], tgt, m['needs_to_manifest'].replace("|", "\\|"), fired.get(tgt, "—"), ", ".join(others) or "—"))
tbl = ("<!-- SEEDED-TABLE-BEGIN -->\n| id | property | needs, in order to manifest | target check | other checks that fired |\n"
       "|----|----------|-----------------------------|--------------|-------------------------|\n" + "\n".join(rows) + "\n<!-- SEEDED-TABLE-END -->")
s = open('/verif/DESIGN.md').read()
if "<!-- SEEDED-TABLE-BEGIN -->" in s:
    s = re.sub(r'<!-- SEEDED-TABLE-BEGIN -->.*?<!-- SEEDED-TABLE-END -->', lambda _: tbl, s, flags=re.S)
else:
    s = re.sub(r'\| id \| property \| needs, in order to manifest \|.*?\n\n', lambda _: tbl + "\n\n", s, count=1, flags=re.S)
open('/verif/DESIGN.md', 'w').write(s)
print(len(rows), "rows")
