"""C18 — matrix-card proofs match what a user reads off the printed card"""
from verif import Case
from gen_util import *
import pyref, struct

MODULES = ["WowSrp.Props.C18", "WowSrp.Props.Source.C18", "WowSrp.Props.Source.Structural.C18", "WowSrp.Props.Source.Rc4Prga", "WowSrp.Props.Source.LoopsCoords", "WowSrp.Props.Source.LoopsCard", "WowSrp.Props.Source.Shape.C18", "WowSrp.Props.Source.Rc4Ksa"]
THEOREMS = ["C18_defs", "C18_cell", "C18_cells_disjoint", "C18_coords", "C18_coords_on_card", "C18_round_bound", "C18_round_bound_any", "C18_reads_exists", "C18_accept", "C18_reject", "C18_source_layout", "C18_source_no_hidden_state", "C18_source_structural_impls", "C18_reject_iff", "C18_reject_unpinned", "C18_translated_prga", "C18_translated_generate_coordinates", "C18_translated_get_number_at", "C18_translated_card_size", "C18_source_shapes", "C18_translated_signatures", "C18_translated_ksa"]
RULE = ("cards via from_data and via MatrixCard::new with injected digit draws (incl. rejected samples): geometries (digit_count 1..4, w, h) with w*h <= 255 "
        "(thorough: every geometry, quick: sampled + extremes), distinct cell contents so a wrong cell is visible; get_number_at_coordinates(x,y) vs "
        "to_printer().nth(y*w+x) for every cell; coordinates for all rounds 0..=255 under catch_unwind vs an independent selection-without-replacement; "
        "client proof (digits read off the printed card) vs server check, plus perturbed digit sequences; proof bytes vs independent HMAC/MD5/RC4. "
        "distinct = distinct lines; non-trivial = all")
EXPLANATION = "theorems (cell(x,y) = printed cell y*w+x, cells disjoint, coordinates distinct and on the card, round >= count gives None never a panic, printed digits accepted, other digits rejected or explicit HMAC collision, proof formula) + differential run + Python oracle"
ASSUMPTIONS = ["feature matrix-card enabled in the harness", "rand 0.8 Uniform<u8> sampling modelled in Model/MatrixCard.lean (widening multiply with rejection)"]

def card_data(rng, d, h, w):
    # distinct cells: cell i encodes i in base 10 where possible, else random digits
    n = w * h
    cells = []
    for i in range(n):
        s = ("%0*d" % (d, i))[-d:] if 10 ** d > n else "".join(str(rng.randrange(10)) for _ in range(d))
        if d > 4:
            # wide cells: the index in the low digits keeps them distinct, the high digits are random and the first is large (a cell is a
            # digit STRING, not a number that fits some machine integer)
            k = len(str(n))
            s = str(rng.randint(5, 9)) + "".join(str(rng.randrange(10)) for _ in range(d - 1 - k)) + ("%0*d" % (k, i)) if d > k else s
        cells.append(bytes(int(c) for c in s))
    return b"".join(cells), cells

def card_cases(rng, d, h, w, full):
    cs = []
    data, cells = card_data(rng, d, h, w)
    pre = "%d %d %d %s" % (d, h, w, data.hex())
    coords = [(x, y) for y in range(h) for x in range(w)]
    if not full and len(coords) > 12:
        coords = rng.sample(coords, 10) + [(0, 0), (w - 1, h - 1), (w - 1, 0), (0, h - 1)]
    for (x, y) in coords:
        i = y * w + x
        cs.append(Case("mc.cell %s %d %d" % (pre, x, y), "cell", "ok %s ~0" % cells[i].hex()))
        cs.append(Case("mc.printed %s %d" % (pre, i), "printed", "some %s ~0" % "".join(str(b) for b in cells[i])))
    cs.append(Case("mc.printed %s %d" % (pre, w * h), "printed-past-end", "none ~0"))
    K = rbytes(rng, 40)
    for count in sorted(set([1, w * h, rng.randint(1, w * h), min(3, w * h)])):
        seed = rng.choice([0, 1, (1 << 64) - 1, rng.getrandbits(64), rng.getrandbits(64)])
        sel = pyref.mc_coordinates(w, h, count, seed)
        rounds = range(0, 256) if full else sorted(set([0, count - 1, count, min(count + 1, 255), 255, rng.randrange(256)] + [rng.randrange(count) for _ in range(4)]))
        for r in rounds:
            if r < count:
                exp = "some %d %d ~0" % (sel[r] % w, sel[r] // w)
            else:
                exp = "none ~0"
            cs.append(Case("mc.coords %d %d %d %d %s %d" % (count, h, seed, w, K.hex(), r), "coords-round<count" if r < count else "coords-round>=count", exp))
        digits = b"".join(cells[i] for i in sel)
        proof = pyref.mc_proof(seed, K, digits)
        cs.append(Case("mc.flow %s %d %d %s" % (pre, count, seed, K.hex()), "flow-printed-digits-accepted", "ok %s 1 ~0" % proof.hex()))
        cs.append(Case("mc.proof %d %d %d %d %s %s" % (count, h, seed, w, K.hex(), hx(digits)), "client-proof", "ok %s ~0" % proof.hex()))
        cs.append(Case("mc.verify %s %d %d %s %s" % (pre, count, seed, K.hex(), proof.hex()), "server-accepts", "1 ~0"))
        # any other digit sequence is rejected
        for _ in range(3):
            d2 = bytearray(digits); j = rng.randrange(len(d2)); d2[j] = (d2[j] + rng.randint(1, 9)) % 10
            p2 = pyref.mc_proof(seed, K, bytes(d2))
            cs.append(Case("mc.verify %s %d %d %s %s" % (pre, count, seed, K.hex(), p2.hex()), "server-rejects-other-digits", "0 ~0"))
        if len(digits) > 1:
            p2 = pyref.mc_proof(seed, K, digits[:-1])
            cs.append(Case("mc.verify %s %d %d %s %s" % (pre, count, seed, K.hex(), p2.hex()), "server-rejects-other-digits", "0 ~0"))
        x = bytearray(proof); x[rng.randrange(20)] ^= 1 << rng.randrange(8)
        cs.append(Case("mc.verify %s %d %d %s %s" % (pre, count, seed, K.hex(), bytes(x).hex()), "server-rejects-bitflip", "0 ~0"))
    return cs

def generate(rng, tier):
    cs = []
    geos = []
    if tier == "thorough":
        for w in range(1, 256):
            for h in range(1, 255 // w + 1):
                geos.append((rng.randint(1, 4) if rng.random() < 0.8 else rng.choice([8, 9, 10, 16, 17, 19, 20, 21, 32, 33, 64]), h, w))
    else:
        geos = [(2, 3, 4), (1, 1, 1), (4, 1, 255), (1, 255, 1), (3, 15, 17), (2, 10, 8), (2, 5, 51), (1, 2, 127),
                # digit counts at and beyond the widths of the machine integers / small stack buffers a cell might be squeezed through
                (8, 2, 3), (9, 2, 2), (10, 3, 2), (16, 2, 2), (17, 2, 2), (19, 1, 3), (20, 2, 2), (21, 1, 2), (32, 1, 2), (33, 2, 1), (64, 1, 1), (255, 1, 1)]
        for _ in range(20):
            w = rng.randint(1, 40); h = rng.randint(1, 255 // w)
            geos.append((rng.randint(1, 4), h, w))
    for (d, h, w) in geos:
        cs += card_cases(rng, d, h, w, full=(tier == "quick" and w * h <= 12) or (tier == "thorough" and rng.random() < 0.05))
    # several rounds asked on one verifier in arbitrary order (with repeats, going back, skipping ahead)
    for _ in range(60 if tier == "quick" else 1500):
        w = rng.randint(1, 16); h = rng.randint(1, min(16, 255 // w)); count = rng.randint(1, w * h)
        seed = rng.choice([0, 1, rng.getrandbits(64), (w * h) * rng.getrandbits(40)])
        sel = pyref.mc_coordinates(w, h, count, seed)
        order = [rng.randrange(0, min(count + 2, 256)) for _ in range(rng.randint(1, 12))]
        if rng.random() < 0.5: order = list(range(count))[::-1][:12] + order
        exp = " ".join(("%d:%d" % (sel[r] % w, sel[r] // w)) if r < count else "none" for r in order)
        cs.append(Case("mc.coordseq %d %d %d %d %s %s" % (count, h, seed, w, rbytes(rng, 40).hex(), ",".join(map(str, order))), "coords-any-order-one-verifier", exp + " ~0"))
    # a verifier asked for more rounds than the card has cells panics in `MatrixCardVerifier::new` (remainder by zero — outside the
    # property, and the model says the same); what the property does cover is the NEXT verifier on the same thread: a caller that
    # contains the panic must find the library as it was (nothing shared may be left half-updated)
    for _ in range(6 if tier == "quick" else 200):
        w = rng.randint(1, 6); h = rng.randint(1, 6); K = rbytes(rng, 40)
        cs.append(Case("mc.coords %d %d %d %d %s 0" % (w * h + rng.randint(1, 3), h, rng.getrandbits(64), w, K.hex()), "more-rounds-than-cells(panics)", "panic"))
        for _ in range(3):
            w2 = rng.randint(1, 6); h2 = rng.randint(1, 6); count = rng.randint(1, w2 * h2); seed = rng.choice([0, 1, rng.getrandbits(64)])
            sel = pyref.mc_coordinates(w2, h2, count, seed)
            order = list(range(count))
            exp = " ".join("%d:%d" % (sel[r] % w2, sel[r] // w2) for r in order)
            cs.append(Case("mc.coordseq %d %d %d %d %s %s" % (count, h2, seed, w2, K.hex(), ",".join(map(str, order))), "coords-after-a-contained-panic", exp + " ~0"))
    # cards whose cells hold arbitrary byte values (from_data accepts any bytes): the proof is over the entered bytes as they are
    for _ in range(40 if tier == "quick" else 600):
        d, w = rng.randint(1, 3), rng.randint(1, 8); h = rng.randint(1, 8)
        n = w * h
        data = bytes(rng.choice([rng.randrange(256), rng.randint(0x30, 0x39), rng.randint(0, 9)]) for _ in range(d * n))
        cells = [data[i * d:(i + 1) * d] for i in range(n)]
        K = rbytes(rng, 40); count = rng.randint(1, n); seed = rng.getrandbits(64)
        sel = pyref.mc_coordinates(w, h, count, seed)
        entered = b"".join(cells[i] for i in sel)
        proof = pyref.mc_proof(seed, K, entered)
        pre = "%d %d %d %s" % (d, h, w, data.hex())
        cs.append(Case("mc.proof %d %d %d %d %s %s" % (count, h, seed, w, K.hex(), hx(entered)), "arbitrary-bytes-client-proof", "ok %s ~0" % proof.hex()))
        cs.append(Case("mc.verify %s %d %d %s %s" % (pre, count, seed, K.hex(), proof.hex()), "arbitrary-bytes-server-accepts", "1 ~0"))
        j = rng.randrange(len(entered)); e2 = bytearray(entered); e2[j] = (e2[j] + rng.choice([48, 208, 1, 255])) & 0xff
        if bytes(e2) != entered:
            cs.append(Case("mc.verify %s %d %d %s %s" % (pre, count, seed, K.hex(), pyref.mc_proof(seed, K, bytes(e2)).hex()), "arbitrary-bytes-server-rejects-other", "0 ~0"))
    # MatrixCard::new with injected draws, incl. samples the rejection zone refuses
    for _ in range(40 if tier == "quick" else 1000):
        d, w = rng.randint(1, 4), rng.randint(1, 12); h = rng.randint(1, 12)
        n = d * h * w
        draws = []
        while len(pyref.uniform_digit_stream(draws)) < n:
            r = rng.random()
            draws.append(rng.choice([0xFFFFFFFF, 0xFFFFFFFA, 0xFFFFFFF9, 0xFFFFFFFB, 0, 429496729, 429496730]) if r < 0.2 else rng.getrandbits(32))
        digits = pyref.uniform_digit_stream(draws)[:n]
        cs.append(Case("mc.new %d %d %d | %s" % (d, h, w, b"".join(struct.pack("<I", v) for v in draws).hex() + "00" * 8), "new-injected-draws",
                       "ok %s ~%d" % (bytes(digits).hex(), 4 * len(draws))))
    return cs

def nontrivial(case, out):
    return case.line
