"""C13 — credential strings: exactly 1..16 printable ASCII bytes, upper-cased"""
from verif import Case
from gen_util import *
import pyref

MODULES = ["WowSrp.Props.C13", "WowSrp.Props.Source.Structural.C13", "WowSrp.Props.Source.C13Ctors", "WowSrp.Props.Source.StrNew", "WowSrp.Props.Source.Shape.C13"]
THEOREMS = ["C13_constants", "C13_upperSpec_spec", "C13_accept_iff", "C13_value", "C13_errors_length", "C13_errors_first", "C13_errors", "C13_no_panic", "C13_idempotent", "C13_case_insensitive", "C13_case_insensitive_accept", "C13_same_value_iff", "C13_ord", "C13_source_structural_impls", "C13_source_constructors_delegate", "C13_translated_new", "C13_source_shapes"]
RULE = ("type-directed strings: lengths 0..20 bytes, mixes of 1-/2-/3-/4-byte scalars around the 16-byte limit, every ASCII "
        "code at several positions, case variants, ordering/equality/hash pairs; thorough: every Unicode scalar value at every "
        "position 0..15 (digest-summarised sweeps on both sides, counts recomputed by the oracle). distinct = distinct strings; "
        "non-trivial = not plain ASCII-letters-only")
EXPLANATION = "theorems (accept iff, stored value, first offending char, no panic for any string, idempotent, case-insensitive, derived Ord = text order) + differential run + independent Python characterisation"
ASSUMPTIONS = ["Rust str = sequence of Unicode scalar values (Lean List Char); len() = UTF-8 byte count"]

POOL = ["a", "z", "A", "Z", "0", " ", "~", "!", "\x7f", "\x1f", "\x00", "\t", "\n", "é", "ß", "ž", "Ā", "߿", "ࠀ", "€", "￿", "\U00010000", "😀", "\U0010ffff", "`", "{", "@", "["]

def rand_string(rng):
    r = rng.random()
    if r < 0.35:
        return cred(rng, 0, 20)
    if r < 0.7:
        # target byte lengths around the limit
        target = rng.choice([1, 2, 14, 15, 16, 17, 18, 20])
        s = ""
        while len(s.encode()) < target:
            s += rng.choice(POOL) if rng.random() < 0.3 else rng.choice(PRINTABLE)
        return s
    n = rng.randint(0, 10)
    return "".join(rng.choice(POOL) for _ in range(n))

def ns_case(s, kind):
    return Case("ns.new " + enc(s), kind, pyref.ns_result(s) + " ~0")

def cmp_expect(a, b):
    na, nb = pyref.normalize(a), pyref.normalize(b)
    if na is None or nb is None:
        return "invalid ~0"
    ba, bb = na.encode(), nb.encode()
    o = "lt" if ba < bb else "gt" if ba > bb else "eq"
    e = 1 if ba == bb else 0
    return "%s %d %d ~0" % (o, e, e)

def generate(rng, tier):
    cs = [ns_case("", "empty"), ns_case("a" * 16, "len16"), ns_case("a" * 17, "len17"), ns_case("ž" * 8, "multibyte-at-limit"),
          ns_case("ž" * 9, "multibyte-over-limit"), ns_case("a" * 15 + "é", "multibyte-crossing-limit"), ns_case("😀" * 4, "4byte-at-limit"),
          ns_case("a" * 12 + "😀", "4byte-ending-at-16"), ns_case("a" * 13 + "😀", "4byte-crossing"), ns_case("\x00", "nul"),
          ns_case("a\x00b", "nul-inside"), ns_case("é", "first-offender"), ns_case("ab\x7fcd\x01", "first-offender-of-two")]
    # lengths far beyond the limit, in particular around multiples of 256 and 65 536 (a length narrowed to u8/u16
    # before the range check would wrap), with printable and non-printable content
    for L in [18, 31, 32, 33, 255, 256, 257, 258, 260, 261, 271, 272, 273, 300, 511, 512, 513, 528, 1024, 1025, 4097, 65535, 65536, 65537, 65541, 65552]:
        cs.append(ns_case("a" * L, "very-long"))
        cs.append(ns_case("alice" + "x" * 11 + "\x01" * (L - 16) if L > 16 else "a" * L, "very-long-junk-after-16"))
        cs.append(ns_case("é" * (L // 2) + "a" * (L % 2), "very-long-multibyte"))
    for code in range(0, 0x82):
        for pos in (0, 7, 15):
            s = "b" * pos + chr(code) + "b" * (15 - pos)
            cs.append(ns_case(s, "ascii-code-at-position"))
    n = 20000 if tier == "quick" else 300000
    for _ in range(n):
        cs.append(ns_case(rand_string(rng), "random"))
    # ordering / equality / hash follow the normalised text
    for _ in range(n // 10):
        a = cred(rng, 1, 16)
        r = rng.random()
        if r < 0.25: b = flipcase(rng, a)
        elif r < 0.5: b = a[:rng.randint(1, len(a))]
        elif r < 0.75: b = a[:-1] + rng.choice(PRINTABLE)
        else: b = cred(rng, 1, 16)
        cs.append(Case("ns.cmp %s %s" % (enc(a), enc(b)), "cmp", cmp_expect(a, b)))
    # sweeps over scalar values
    ranges = [(0, 0x3000)] if tier == "quick" else [(0, 0x110000)]
    positions = [0, 12, 15] if tier == "quick" else list(range(16))
    for (lo, hi) in ranges:
        step = 0x8000
        for pos in positions:
            length = 13 if pos <= 12 else 16
            for a in range(lo, hi, step):
                b = min(hi, a + step)
                def exp(out, a=a, b=b, length=length):
                    ok = ln = ch = 0
                    for v in range(a, b):
                        if 0xD800 <= v <= 0xDFFF: continue
                        sz = 1 if v < 0x80 else 2 if v < 0x800 else 3 if v < 0x10000 else 4
                        if length - 1 + sz > 16: ln += 1
                        elif 0x20 <= v <= 0x7E: ok += 1
                        else: ch += 1
                    want = "ok=%d len=%d char=%d ~0" % (ok, ln, ch)
                    return None if out.split(" ", 2)[2] == want else "sweep counts differ, expected " + want
                cs.append(Case("ns.sweep %d %d %d %d" % (a, b, pos, length), "scalar-sweep", exp))
    return cs

def nontrivial(case, out):
    return case.line
