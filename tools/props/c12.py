"""C12 — send and receive directions are independent; split and unsplit lose nothing"""
from verif import Case
from gen_util import *
import pyref, pyhdr

MODULES = ["WowSrp.Props.C12", "WowSrp.Props.C12Wrath", "WowSrp.Props.Source.Structural.C12", "WowSrp.Props.Session", "WowSrp.Props.Source.Facade", "WowSrp.Props.Source.Glue.Vanilla", "WowSrp.Props.Source.Glue.Tbc", "WowSrp.Props.Source.Glue.Wrath", "WowSrp.Props.Source.Shape.C12"]
THEOREMS = ["C12_step_projection", "C12_interleaving", "C12_interleaving_fresh", "C12_interleaving_wrath_client", "C12_interleaving_wrath_server", "C12_no_shared_state", "C12_no_shared_state_wrath", "C12_pair_is_two_fields", "C12_unsplit_iff", "C12_unsplit_refused_iff", "C12_unsplit_result", "C12_split_unsplit", "C12_unsplit_differ", "C12_unsplit_one_byte", "C12_isPairOf_symm", "C12_unsplit_own_halves", "C12_static_facts", "C12_no_shared_state_wrath_facade", "C12_source_structural_impls", "Session_form_independent", "Session_comb_eq_halves", "Session_wcli_eq_halves", "Session_wsrv_eq_halves", "Session_encrypt_side", "Session_encrypt_concat_vt", "C12_source_facade_delegates", "C12_no_shared_state_io", "Session_form_independent_except_unsplit", "Session_comb_eq_halves_except_unsplit", "Session_decrypt_side", "Session_decrypt_side_indep", "C12_source_glue_vanilla", "C12_source_glue_tbc", "C12_source_glue_wrath", "C12_source_shapes"]
RULE = ("random op lists over {encrypt chunk, decrypt chunk, split, clone-and-continue-on-the-clone, unsplit (Vanilla)} on the real combined objects "
        "of all three expansions, compared per direction with an independent simulation of two single-direction ciphers; Vanilla re-joining / pair test "
        "over key pairs that are equal, differ in exactly one byte at each of the 40 positions, or are unrelated; the two halves moved to two OS threads "
        "(test of schedules, labelled so) and compared with the sequential result. distinct = distinct lines; non-trivial = op lists with both directions")
EXPLANATION = "interleaving theorem (any op list = two single-direction objects, by projection + induction), no-shared-state theorems, unsplit iff all 40 key bytes equal, + differential run + Python two-cipher oracle; schedules: PARTIAL (threads are tests)"
ASSUMPTIONS = ["OS thread schedules are not modelled: Rust ownership + forbid(unsafe_code) + no interior mutability (regenerated syntactic facts) reduce any schedule to an interleaving"]

def generate(rng, tier):
    cs = []
    n, maxops = (80, 60) if tier == "quick" else (6000, 600)
    for exp, role in (("v", "s"), ("t", "s"), ("w", "s"), ("w", "c")):
        for _ in range(n):
            K = special_key(rng)
            ops = []
            issplit = False
            nb = 0
            for _ in range(rng.randint(1, maxops if rng.random() < 0.2 else 12)):
                r = rng.random()
                if r < 0.38: ops.append("e:" + hx(rbytes(rng, rng.choice([0, 1, 2, 4, 6, 41, 100])))); nb |= 1
                elif r < 0.76: ops.append("d:" + hx(rbytes(rng, rng.choice([0, 1, 2, 4, 6, 41, 100])))); nb |= 2
                elif r < 0.84: ops.append("split"); issplit = True
                elif r < 0.92: ops.append("clone")
                elif exp == "v" and issplit: ops.append("unsplit"); issplit = False
                else: ops.append("pr")
            ops.append("pr")
            # the property itself: per direction the same bytes as two separate objects each handling one direction.
            # Three lines: the op list on one object; only its encrypt calls on a fresh object; only its decrypt calls
            # on another fresh object (post_check compares them — no reference cipher involved)
            gid = len(cs)
            cs.append(Case("hdr %s %s %s %s" % (exp, role, K.hex(), " ".join(ops)), "oplist-" + exp + role, None, dict(nb=nb, group=gid, part="all", ops=ops)))
            eo = [o for o in ops if o.startswith("e:")]
            do = [o for o in ops if o.startswith("d:")]
            cs.append(Case(" ".join(("hdr %s %s %s %s" % (exp, role, K.hex(), " ".join(eo))).split()), "separate-encrypter-" + exp + role, None, dict(nb=0, group=gid, part="enc")))
            cs.append(Case(" ".join(("hdr %s %s %s %s" % (exp, role, K.hex(), " ".join(do))).split()), "separate-decrypter-" + exp + role, None, dict(nb=0, group=gid, part="dec")))
    # cloning loses nothing: a clone taken at any point continues exactly like the original, also between the two
    # steps of a large Wrath header
    for _ in range(40 if tier == "quick" else 600):
        K = rbytes(rng, 40)
        peer = pyhdr.Session("w", "s", K)
        ops = []
        for _ in range(rng.randint(1, 6)):
            size = rng.choice([rng.randint(0, 0x7FFF), rng.randint(0x8000, 0x7FFFFF)])
            wire = peer.e.enc(pyref.wrath_server_header_plain(size, rng.getrandbits(16)))
            if rng.random() < 0.5: ops.append("clone")
            ops.append("at:" + wire[:4].hex())
            if len(wire) == 5:
                if rng.random() < 0.7: ops.append(rng.choice(["clone", "split", "clone"]))
                ops.append("lg:" + wire[4:].hex())
            if rng.random() < 0.3: ops.append("e:" + hx(rbytes(rng, rng.randint(0, 8))))
        ops.append("pr")
        cs.append(Case("hdr w c %s %s" % (K.hex(), " ".join(ops)), "clone-mid-large-header", pyhdr.expected_line("w", "c", K, ops), dict(nb=3)))
    # both directions mixed through every entry point with split / clone / unsplit in between
    import hdr_mix
    cs += hdr_mix.cases(rng, Case, [("v", "s"), ("t", "s"), ("w", "s"), ("w", "c")], 60 if tier == "quick" else 2000, 100, special_key=special_key)
    # unsplit / is_pair_of over key pairs
    K = rbytes(rng, 40)
    def pw(K2, kind):
        same = K2 == K
        for pre in ("", "split "):
            cs.append(Case("hdr v s %s %spairwith:%s" % (K.hex(), pre, K2.hex()), kind, "%s%d:%d:%s ~0" % ("ok " if pre else "", same, same, "ok" if same else "err")))
    pw(K, "pair-equal")
    for i in range(40):
        for d in (1, 0x80):
            k2 = bytearray(K); k2[i] ^= d
            pw(bytes(k2), "pair-one-byte-differs")
    for _ in range(20): pw(rbytes(rng, 40), "pair-unrelated")
    # keys that differ in two (or more) places by the same amount, one machine word (2/4/8/16 bytes) apart, halves
    # swapped, reversed: a comparison done on words or with folded differences must still see them as different
    for w in (1, 2, 4, 8, 16, 20):
        for i in range(0, 40 - w, 3):
            for d in (1, 0x80, rng.randint(1, 255)):
                k2 = bytearray(K); k2[i] ^= d; k2[i + w] ^= d
                pw(bytes(k2), "pair-same-delta-two-places")
    pw(K[20:] + K[:20], "pair-halves-swapped"); pw(K[::-1], "pair-reversed"); pw(K[8:] + K[:8], "pair-rotated")
    # two real threads
    for exp, role in (("v", "s"), ("t", "s"), ("w", "s"), ("w", "c")):
        for _ in range(10 if tier == "quick" else 1000):
            K = rbytes(rng, 40)
            ech = [rbytes(rng, rng.randint(1, 64)) for _ in range(rng.randint(1, 40))]
            dch = [rbytes(rng, rng.randint(1, 64)) for _ in range(rng.randint(1, 40))]
            gid = len(cs)
            ops = ["e:" + c.hex() for c in ech] + ["d:" + c.hex() for c in dch]
            cs.append(Case("thr %s %s %s %s %s" % (exp, role, K.hex(), ",".join(c.hex() for c in ech), ",".join(c.hex() for c in dch)),
                           "two-threads-" + exp + role, None, dict(nb=3, tgroup=gid)))
            cs.append(Case("hdr %s %s %s %s" % (exp, role, K.hex(), " ".join(ops)), "two-threads-sequential-reference-" + exp + role, None, dict(nb=3, tgroup=gid, seq=True)))
    return cs

def post_check(cases, outs):
    fails = []
    groups = {}
    for c, o in zip(cases, outs):
        if isinstance(c.meta, dict) and "group" in c.meta:
            groups.setdefault(c.meta["group"], {})[c.meta["part"]] = (c, o)
    tg = {}
    for c, o in zip(cases, outs):
        if isinstance(c.meta, dict) and "tgroup" in c.meta:
            tg.setdefault(c.meta["tgroup"], {})["seq" if c.meta.get("seq") else "thr"] = (c, o)
    for g in tg.values():
        if len(g) != 2: continue
        c, o = g["thr"]
        seq = [t for t in g["seq"][1].split(" ")[:-1] if t]
        t = o.split(" ")
        got = (t[0].split(",") if t[0] != "-" else []) + (t[1].split(",") if len(t) > 1 and t[1] != "-" else [])
        if got != seq:
            fails.append(dict(line=c.line, backend="num", impl=o, why="halves driven from two threads produced different bytes than the sequential run", kind=c.kind))
    for g in groups.values():
        if len(g) != 3: continue
        c, o = g["all"]
        toks = o.split(" ")[:-1]
        ops = c.meta["ops"]
        if len(toks) != len(ops):
            fails.append(dict(line=c.line, backend="num", impl=o, why="op list did not run to completion", kind=c.kind)); continue
        enc = [t for t, op in zip(toks, ops) if op.startswith("e:")]
        dec = [t for t, op in zip(toks, ops) if op.startswith("d:")]
        se = [t for t in g["enc"][1].split(" ")[:-1] if t]
        sd = [t for t in g["dec"][1].split(" ")[:-1] if t]
        if enc != se:
            fails.append(dict(line=c.line, backend="num", impl=o, why="encrypt bytes differ from a separate object handling only the sending direction: " + " ".join(se)[:200], kind=c.kind))
        elif dec != sd:
            fails.append(dict(line=c.line, backend="num", impl=o, why="decrypt bytes differ from a separate object handling only the receiving direction: " + " ".join(sd)[:200], kind=c.kind))
    return fails

def nontrivial(case, out):
    if case.meta and case.meta.get("nb") != 3: return None
    return case.line
