"""C07 — Vanilla header cipher follows its recurrence and decrypts what it encrypts"""
from verif import Case
from gen_util import *
import pyref

MODULES = ["WowSrp.Props.C07", "WowSrp.Props.Source.Structural.C07", "WowSrp.Props.Source.CipherLoopsVanilla", "WowSrp.Props.Source.Glue.Vanilla"]
THEOREMS = ["C07_constants", "C07_fresh_inv", "C07_step_bounds", "C07_recurrence", "C07_chunking", "C07_empty_call", "C07_inverse_step", "C07_roundtrip", "C07_source_structural_impls", "C07_translated_encrypt_step", "C07_translated_decrypt_step", "C07_translated_moduli", "C07_roundtrip_from_equal_states", "C07_source_glue_vanilla"]
RULE = ("streams of random/boundary length under random/special 40-byte keys, randomly partitioned into encrypt "
        "calls (empty calls, calls > 40 bytes), ciphertext independently re-partitioned into decrypt calls on a second "
        "object; thorough adds the full step table (40 positions x 256 previous x 256 inputs) per direction. "
        "mixed sessions: one object driven through every entry point (raw, typed helpers, Read/Write wrappers with fragmentation and injected failures, accessor halves, split / clone / unsplit) in random order against an independent simulation. distinct = distinct (key, stream, partition) lines; non-trivial = stream length >= 1")
EXPLANATION = "theorems over the Lean model (recurrence = Spec, chunking, exact inverse, round trip for every stream/partition) + differential run of model vs real crate + independent Python recurrence oracle"
ASSUMPTIONS = ["u8 wrapping_add/wrapping_sub/xor modelled by Lean UInt8 arithmetic", "slice indexing panics modelled explicitly"]

def session_case(rng, K, stream, kind, exp="v"):
    key = K if exp == "v" else pyref.tbc_key(K)
    L = len(key)
    chunks = partition(rng, stream, max_chunk=rng.choice([1, 3, 7, 40, 41, 100, 1000]))
    cipher, _, _ = pyref.vanilla_encrypt(key, stream)
    ops = ["e:" + hx(c) for c in chunks]
    # probe shows the encrypter state; then a *fresh object* is not available in one hdr line, so the
    # decrypter half of the same object (same key, independent state) receives the ciphertext re-partitioned
    dch = partition(rng, cipher, max_chunk=rng.choice([1, 2, 5, 40, 64, 500]))
    ops += ["d:" + hx(c) for c in dch]
    ops.append("pr")
    line = "hdr %s s %s %s" % (exp, hx(K), " ".join(ops))
    def expect(out, chunks=chunks, dch=dch, stream=stream, cipher=cipher, key=key, L=L):
        toks = out.split(" ")
        if toks[-1] != "~0":
            return "unexpected rng use / error: " + out[:80]
        toks = toks[:-1]
        got_c = b"".join(unhx(t) for t in toks[:len(chunks)])
        got_p = b"".join(unhx(t) for t in toks[len(chunks):len(chunks) + len(dch)])
        if got_c != cipher:
            return "ciphertext differs from the recurrence c_n=(x_n^key[n%L])+c_(n-1)"
        if got_p != stream:
            return "decrypter did not recover the sender's bytes"
        # probe: both halves must be in the same state -> continuing must still round-trip
        pe, pd = toks[-1].split(":")
        n = len(stream)
        ce, _, _ = pyref.vanilla_encrypt(key, bytes(16), n % L, cipher[-1] if n else 0)
        if unhx(pe) != ce:
            return "encrypter state after traffic is not (len mod L, last ciphertext byte)"
        pdx, _, _ = pyref.vanilla_decrypt(key, bytes(16), n % L, cipher[-1] if n else 0)
        if unhx(pd) != pdx:
            return "decrypter state after traffic differs from encrypter state"
        return None
    return Case(line, kind, expect, dict(n=len(stream)))

def generate(rng, tier):
    cases = []
    nstreams = 300 if tier == "quick" else 3000
    maxlen = 4096 if tier == "quick" else 65536
    for L in [0, 1, 2, 39, 40, 41, 79, 80, 81, 255, 256, 257]:
        K = special_key(rng)
        cases.append(session_case(rng, K, rbytes(rng, L), "boundary-length"))
    for i in range(nstreams):
        K = special_key(rng)
        r = rng.random()
        L = rng.randint(0, 64) if r < 0.4 else rng.randint(0, 600) if r < 0.8 else rng.randint(0, maxlen)
        stream = bytes(L) if rng.random() < 0.05 else rbytes(rng, L)
        cases.append(session_case(rng, K, stream, "random-stream"))
    if tier == "thorough":
        # big streams
        for i in range(8):
            cases.append(session_case(rng, special_key(rng), rbytes(rng, 1 << 20), "1MiB-stream"))
    cases += sibling_key_cases(rng, "v")
    cases += typed_at_every_position_cases(rng, "v")
    # the recurrence must come out of EVERY entry point and object form: one connection object driven in random order through the raw
    # calls, typed helpers, Read/Write wrappers (fragmenting readers/writers, injected failures), accessor halves, split, clone, unsplit
    import hdr_mix
    cases += hdr_mix.big_call_cases(rng, Case, [("v", "s"), ("v", "c")])
    cases += hdr_mix.cases(rng, Case, [("v", "s"), ("v", "c")], 100 if tier == "quick" else 3000, 90, special_key=special_key)
    if tier == "thorough":
        cases += step_table_cases(rng, "v")
    return cases

def typed_at_every_position_cases(rng, exp):
    """the typed header helpers and the Read/Write wrappers at every key position: the stream is advanced by p raw bytes
    first (p = 0 .. 2L), then a server header, a client header, and their decryption on the receiving half"""
    import pyhdr
    out = []
    K = rbytes(rng, 40)
    L = 40 if exp == "v" else 20
    for p in range(0, 2 * L + 1):
        for first in ("es", "ec"):
            ops = ["e:" + hx(rbytes(rng, p)), "d:" + hx(rbytes(rng, p))]
            hs = ["es:%d:%d" % (rng.getrandbits(16), rng.getrandbits(16)), "ec:%d:%d" % (rng.getrandbits(16), rng.getrandbits(32)),
                  "ws:%d:%d:-" % (rng.getrandbits(16), rng.getrandbits(16)), "wc:%d:%d:A3,A9" % (rng.getrandbits(16), rng.getrandbits(32))]
            ds = ["ds:" + rbytes(rng, 4).hex(), "dc:" + rbytes(rng, 6).hex(), "rs:D" + rbytes(rng, 4).hex(), "rc:D" + rbytes(rng, 6).hex()]
            if first == "ec": hs = hs[::-1]; ds = ds[::-1]
            ops += hs + ds + ["pr"]
            out.append(Case("hdr %s s %s %s" % (exp, K.hex(), " ".join(ops)), "typed-helpers-at-position-%s" % ("0..L" if p <= L else "L..2L"),
                            pyhdr.expected_line(exp, "s", K, ops), dict(n=1)))
    return out

def sibling_key_cases(rng, exp):
    """objects built one after the other on one thread from session keys that differ in a single byte, at each of the
    40 positions (every byte of the session key matters, and nothing is remembered from the previous object)"""
    out = []
    K = rbytes(rng, 40)
    out.append(session_case(rng, K, rbytes(rng, 48), "sibling-key-base", exp))
    for i in range(40):
        k2 = bytearray(K); k2[i] ^= rng.choice([1, 0x80, 0xff])
        out.append(session_case(rng, bytes(k2), rbytes(rng, 48), "sibling-key-one-byte-differs", exp))
        if i % 8 == 7:
            out.append(session_case(rng, K, rbytes(rng, 48), "sibling-key-base", exp))
    return out

def step_table_cases(rng, exp):
    """full step table (every position x previous byte x input byte, both directions), digest on both sides;
    the oracle recomputes the digest independently"""
    out = []
    for K in (rbytes(rng, 40), bytes(range(40))):
        key = K if exp == "v" else pyref.tbc_key(K)
        L = len(key)
        def expd(o, key=key, L=L):
            h = 0xcbf29ce484222325; n = 0
            M = 0xFFFFFFFFFFFFFFFF; P = 0x100000001b3
            for pos in range(L):
                for prev in range(256):
                    if pos == 0 and prev: continue
                    k = key[pos]
                    for x in range(256):
                        h = ((h ^ (((x ^ k) + prev) & 0xFF)) * P) & M
                        h = ((h ^ (((x - prev) & 0xFF) ^ k)) * P) & M
                        n += 1
            want = "fnv %016x n=%d ~0" % (h, n)
            return None if o == want else "step table digest differs from the recurrence: expected " + want
        out.append(Case("hdr.steps %s %s" % (exp, K.hex()), "full-step-table", expd))
    return out

def nontrivial(case, out):
    if case.meta and case.meta.get("n", 1) == 0:
        return None
    return case.line
