"""C11 — all header entry points agree; failed reads leave the cipher untouched"""
from verif import Case
from gen_util import *
import pyref, pyhdr, itertools

MODULES = ["WowSrp.Props.C11", "WowSrp.Props.C11Wrath", "WowSrp.Props.Source.Structural.C11", "WowSrp.Props.Session", "WowSrp.Props.Source.Facade", "WowSrp.Props.Source.LayoutsVanillaTbc", "WowSrp.Props.Source.LayoutsWrath", "WowSrp.Props.Source.Glue.Vanilla", "WowSrp.Props.Source.Glue.Tbc", "WowSrp.Props.Source.Glue.Wrath", "WowSrp.Props.Source.Shape.C11"]
THEOREMS = ["C11_constants", "C11_failed_read_server", "C11_failed_read_client", "C11_failed_read_wrath_server", "C11_failed_read_wrath_client", "C11_failed_read_at_offset", "C11_failed_read_short", "C11_wrath_fifth_byte", "C11_wrath_fifth_byte_at_offset", "C11_wrath_fifth_byte_resume", "C11_write_wrappers", "C11_write_error_propagates", "C11_write_ok", "C11_write_error_at_offset", "C11_write_ok_fragmented", "C11_write_wrappers_wrote", "C11_write_never_swallowed", "C11_header_lengths", "C11_write_panic", "C11_read_ok_server", "C11_read_ok_client", "C11_read_ok_wrath_server", "C11_read_ok_wrath_client_small", "C11_read_ok_wrath_client_large", "C11_read_fragmentation", "C11_read_fragmentation_wrath_client", "C11_read_fragmentation_same", "C11_layout_server", "C11_layout_client", "C11_layout_server_values", "C11_parse_layout_server", "C11_parse_layout_client", "C11_typed_eq_raw", "C11_typed_eq_raw_wrath", "C11_facade_eq_half", "C11_facade_eq_half_iff", "C11_split_is_fields", "C11_agree_encrypt_server_header", "C11_wrath_facade_eq_half_client", "C11_wrath_facade_eq_half_server", "C11_wrath_facade_eq_half", "C11_wrath_facade_eq_half_iff", "C11_wrath_facade_eq_half_io_iff", "C11_wrath_split_is_fields", "C11_wrath_failed_read_facade", "C11_wrath_failed_read_facade_at_offset", "C11_source_structural_impls", "Session_step_refines", "Session_run_refines", "WF_fresh", "Session_step_needs_array_lengths", "C11_source_facade_delegates", "C11_translated_layout_vanilla", "C11_translated_layout_tbc", "C11_translated_parse", "C11_translated_layout_wrath", "C11_facade_io_eq_half", "C11_facade_io_eq_half_iff", "C11_failed_read_facade", "C11_failed_read_facade_at_offset", "C11_failed_read_facade_short", "C11_source_glue_vanilla", "C11_source_glue_tbc", "C11_source_glue_wrath", "C11_source_shapes"]
RULE = ("for each expansion x role: typed helpers vs raw operation on the wire layout, facade vs accessor vs split halves (same op list, same bytes), "
        "Read wrappers under scripted readers: every fragmentation pattern (all compositions of the header length in thorough), interruptions, and a "
        "failure (each of 8 io::ErrorKinds, Ok(0), end of input) injected at every byte offset of every header kind (Vanilla/TBC 4- and 6-byte, Wrath "
        "client header, Wrath 4- and 5-byte server headers incl. failure exactly at the fifth byte followed by completion with decrypt_large); "
        "== against a clone before/after each failed call and probe traffic afterwards; Write wrappers under scripted writers (partial accepts, "
        "interruptions, failure at every offset, Ok(0)). Expected lines from an independent Python simulation. distinct = distinct lines; non-trivial = all")
EXPLANATION = "theorems about read_exact/write_all models and every wrapper (agreement with the raw operation, fragmentation independence, state' = state on failed read, fifth-byte case, write error propagated) + differential run + Python simulation oracle"
ASSUMPTIONS = ["std::io::Read::read_exact / Write::write_all behave as documented (modelled in Model/Deps.lean)"]

KINDS = [3, 6, 7, 8, 9, 1, 12, 11]

def compositions(n):
    if n == 0:
        yield []
        return
    for first in range(1, n + 1):
        for rest in compositions(n - first):
            yield [first] + rest

def hdr_case(exp, role, K, ops, kind):
    return Case("hdr %s %s %s %s" % (exp, role, K.hex(), " ".join(ops)), kind, pyhdr.expected_line(exp, role, K, ops))

def frag(rng, data, comp=None, interrupts=True):
    evs = []
    if comp is None:
        comp = []
        n = len(data)
        while n:
            k = rng.randint(1, n); comp.append(k); n -= k
    i = 0
    for k in comp:
        if interrupts and rng.random() < 0.25: evs.append("I")
        evs.append("D" + data[i:i + k].hex()); i += k
    return evs

def fail_event(rng, kind):
    if kind == "eof": return ["Z"]
    if kind == "end": return []
    if kind == "empty": return ["D"]
    return ["E%d" % kind]

def read_cases(rng, exp, role, tier):
    cs = []
    K = rbytes(rng, 40)
    # what a peer would send: produce wire bytes with the *peer's* encrypter via the python simulation
    peer = pyhdr.Session(exp, "c" if role == "s" else "s", K) if exp == "w" else pyhdr.Session(exp, role, K)
    kinds = []
    if exp in "vt":
        kinds = [("rs", 4, lambda: pyref.server_header_plain(rng.getrandbits(16), rng.getrandbits(16))),
                 ("rc", 6, lambda: pyref.client_header_plain(rng.getrandbits(16), rng.getrandbits(32)))]
    elif role == "s":
        kinds = [("rc", 6, lambda: pyref.client_header_plain(rng.getrandbits(16), rng.getrandbits(32)))]
    else:
        kinds = [("rs", 4, lambda: pyref.wrath_server_header_plain(rng.randint(0, 0x7FFF), rng.getrandbits(16))),
                 ("rs", 5, lambda: pyref.wrath_server_header_plain(rng.randint(0x8000, 0x7FFFFF), rng.getrandbits(16)))]
    fails = KINDS + ["eof", "end", "empty"]
    for op, n, mk in kinds:
        comps = list(compositions(n)) if tier == "thorough" else [[n], [1] * n, None, None]
        for comp in comps:
            # clean read, this fragmentation
            p = copy_session(peer)
            wire = p.e.enc(mk())
            cs.append(hdr_case(exp, role, K, ["%s:%s" % (op, ",".join(frag(rng, wire, comp))), "pr"], "read-fragmented-%s%d" % (op, n)))
        # interruptions at every byte offset (and several in a row) change nothing
        for off in range(0, n + 1):
            for reps in (1, 3):
                p = copy_session(peer)
                wire = p.e.enc(mk())
                script = (["D" + wire[:off].hex()] if off else []) + ["I"] * reps + (["D" + wire[off:].hex()] if off < n else [])
                cs.append(hdr_case(exp, role, K, ["%s:%s" % (op, ",".join(script)), "pr"], "read-interrupted-%s%d-at-%d" % (op, n, off)))
        # a reader that hands over fewer bytes than asked for (short reads), one byte at a time, and with trailing bytes left over
        for extra in (0, 1, 7):
            p = copy_session(peer)
            wire = p.e.enc(mk())
            script = ["D" + bytes([b]).hex() for b in wire] + (["D" + rbytes(rng, extra).hex()] if extra else [])
            cs.append(hdr_case(exp, role, K, ["%s:%s" % (op, ",".join(script)), "pr"], "read-one-byte-at-a-time-%s%d" % (op, n)))
        for off in range(0, n):
            for fk in (fails if tier == "thorough" else rng.sample(fails, 4)):
                p = copy_session(peer)
                wire = p.e.enc(mk())
                script = frag(rng, wire[:off]) + fail_event(rng, fk)
                ops = ["%s:%s" % (op, ",".join(script) or "-"), "pr"]
                if exp == "w" and role == "c" and n == 5 and off == 4:
                    ops.append("lg:" + wire[4:].hex())           # supplying the fifth byte later completes the header
                else:
                    ops.append("%s:D%s" % (op, wire.hex()))      # the decrypter is exactly as it was: a clean read succeeds
                ops.append("pr")
                cs.append(hdr_case(exp, role, K, ops, "read-fail-%s%d-at-%d" % (op, n, off)))
    return cs

def copy_session(s):
    import copy
    return copy.deepcopy(s)

def write_cases(rng, exp, role, tier):
    cs = []
    K = rbytes(rng, 40)
    kinds = []
    if exp in "vt": kinds = [("ws", 4, 16, 16), ("wc", 6, 16, 32)]
    elif role == "s": kinds = [("ws", 4, 15, 16), ("ws", 5, 23, 16)]
    else: kinds = [("wc", 6, 16, 32)]
    for op, n, sbits, obits in kinds:
        def size():
            if exp == "w" and role == "s":
                return rng.randint(0, 0x7FFF) if n == 4 else rng.randint(0x8000, 0x7FFFFF)
            return rng.getrandbits(16)
        comps = list(compositions(n)) if tier == "thorough" else [[n], [1] * n, None]
        for comp in comps:
            if comp is None:
                comp = []; m = n
                while m:
                    k = rng.randint(1, m); comp.append(k); m -= k
            script = []
            for k in comp:
                if rng.random() < 0.25: script.append("I")
                script.append("A%d" % (k if rng.random() < 0.7 else k))
            cs.append(hdr_case(exp, role, K, ["%s:%d:%d:%s" % (op, size(), rng.getrandbits(obits), ",".join(script)), "pr"], "write-partial-%s%d" % (op, n)))
        cs.append(hdr_case(exp, role, K, ["%s:%d:%d:-" % (op, size(), rng.getrandbits(obits)), "pr"], "write-clean-%s%d" % (op, n)))
        for off in range(0, n):
            for fk in KINDS + ["zero"]:
                script = []
                m = off
                while m:
                    k = rng.randint(1, m); script.append("A%d" % k); m -= k
                    if rng.random() < 0.2: script.append("I")
                script.append("A0" if fk == "zero" else "E%d" % fk)
                cs.append(hdr_case(exp, role, K, ["%s:%d:%d:%s" % (op, size(), rng.getrandbits(obits), ",".join(script)), "pr"], "write-fail-%s%d-at-%d" % (op, n, off)))
    return cs

def entry_point_cases(rng, exp, role, tier):
    """same traffic through facade, accessor and split halves"""
    cs = []
    for _ in range(10 if tier == "quick" else 500):
        K = rbytes(rng, 40)
        ops = []
        for _ in range(rng.randint(2, 12)):
            r = rng.randrange(6)
            if r == 0: ops.append("e:" + hx(rbytes(rng, rng.randint(0, 9))))
            elif r == 1: ops.append("d:" + hx(rbytes(rng, rng.randint(0, 9))))
            elif r == 2: ops.append("es:%d:%d" % ((rng.getrandbits(16) if exp != "w" else rng.choice([rng.randint(0, 0x7FFF), rng.randint(0x8000, 0x7FFFFF)])), rng.getrandbits(16)))
            elif r == 3: ops.append("ec:%d:%d" % (rng.getrandbits(16), rng.getrandbits(32)))
            elif r == 4: ops.append("ds:" + rbytes(rng, 4).hex())
            else: ops.append("dc:" + rbytes(rng, 6).hex())
        ops.append("pr")
        cs.append(hdr_case(exp, role, K, ops, "entry-facade"))
        cs.append(hdr_case(exp, role, K, ["split"] + ops, "entry-split-halves"))
        acc = [("a" + o) if o[:2] in ("e:", "d:") else o for o in ops]
        cs.append(hdr_case(exp, role, K, acc, "entry-accessor"))
        mid = len(ops) // 2
        cs.append(hdr_case(exp, role, K, ops[:mid] + ["split"] + ops[mid:], "entry-split-midway"))
        # typed helper = raw operation on the wire layout
        raw = []
        for o in ops:
            p = o.split(":")
            if p[0] == "es" and not (exp == "w" and role == "c"):
                plain = pyref.wrath_server_header_plain(int(p[1]), int(p[2])) if exp == "w" else pyref.server_header_plain(int(p[1]), int(p[2]))
                raw.append("e:" + plain.hex())
            elif p[0] == "ec" and not (exp == "w" and role == "s"):
                raw.append("e:" + pyref.client_header_plain(int(p[1]), int(p[2])).hex())
            elif p[0] in ("ds", "dc", "es", "ec"):
                continue
            else:
                raw.append(o)
        typed_only = [o for o in ops if o.split(":")[0] not in ("ds", "dc") and not (o.startswith("es") and exp == "w" and role == "c") and not (o.startswith("ec") and exp == "w" and role == "s")]
        e1 = pyhdr.expected_line(exp, role, K, typed_only)
        e2 = pyhdr.expected_line(exp, role, K, raw)
        assert e1 == e2, "python oracle itself: typed != raw"
        cs.append(hdr_case(exp, role, K, raw, "entry-raw-on-wire-layout"))
    return cs

def generate(rng, tier):
    from props.c07 import typed_at_every_position_cases
    cs = typed_at_every_position_cases(rng, "v") + typed_at_every_position_cases(rng, "t")
    for exp, role in (("v", "s"), ("t", "s"), ("w", "s"), ("w", "c")):
        cs += entry_point_cases(rng, exp, role, tier)
        cs += read_cases(rng, exp, role, tier)
        cs += write_cases(rng, exp, role, tier)
    # all entry points on ONE object in random order, with injected read/write failures: every op's result and the state afterwards
    # (probe) must be those of the raw operation sequence
    import hdr_mix
    cs += hdr_mix.cases(rng, Case, [("v", "s"), ("t", "s"), ("w", "s"), ("w", "c")], 60 if tier == "quick" else 2000, 100, faults=0.2, special_key=special_key)
    cs += hdr_mix.wrath_size_boundaries(rng, Case)
    return cs

def nontrivial(case, out):
    return case.line
