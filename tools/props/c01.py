"""C01 — honest client and server always authenticate and agree on the session key"""
from verif import Case
from gen_util import *
from srp_cases import *
import pyref

MODULES = ["WowSrp.Props.C01", "WowSrp.Props.Source.C01", "WowSrp.Props.Source.Structural.C01", "WowSrp.Props.Source.StripRule", "WowSrp.Props.Source.Formulas", "WowSrp.Props.Source.Glue.Srp", "WowSrp.Props.Source.Shape.C01", "WowSrp.Props.Source.HashesSrp", "WowSrp.Props.Source.Interleave", "WowSrp.Props.Source.ApiSetup", "WowSrp.Props.Source.ApiIntoServer", "WowSrp.Props.Source.ApiClient", "WowSrp.Props.Source.ApiLinkedLogin", "WowSrp.Props.Source.ApiLinkedClient"]
THEOREMS = ["C01_case_invariant", "C01_storage_round_trip", "C01_secrets_agree", "C01_public_keys_accepted", "C01_same_padding", "C01_intoProof_panics_iff", "C01_login_exact", "C01_login_agrees", "C01_real_assumptions", "C01_real", "C01_source_no_hidden_state", "C01_source_structural_impls", "C01_translated_strip_rule", "C01_translated_formulas", "C01_source_glue_srp", "C01_source_shapes", "C01_translated_calculate_x", "C01_translated_interleaved", "C01_translated_from_database_values", "C02_translated_into_server", "C02_translated_verify_server_proof", "C03_translated_client_new", "C02_linked_into_server", "C03_translated_setup_signatures", "C02_translated_into_server_signature", "C03_translated_client_signatures", "C02_linked_verify_server_proof", "C03_linked_client_new"]
RULE = ("complete honest exchanges with injected salt, a, b, challenge: credentials of every length 1..16 over the printable "
        "range with random letter-case flips on the client side, with/without storage round trip, special private keys/salts "
        "(tiny, high-order zero bytes, low-order zero bytes, all-ones); sessions whose S has 1 (thorough: 2) low-order zero bytes "
        "found by search over a; client calls under other announced groups interleaved before logins on the same thread (hidden state); server-side interleave on S with 0..31 low-order zero bytes through v=1,b=1 (S=A). "
        "distinct = distinct lines; non-trivial = every exchange (all are complete logins); classes counted in input_distribution")
EXPLANATION = "agreement theorem over the model for all credentials/salts/keys + differential run + oracle 'both accept, keys equal'"
ASSUMPTIONS = ["big-integer semantics as in Model/Deps.lean", "SHA-1 abstract in the theorems, real in the runs"]

def agree(out):
    t = out.split(" ")
    if t[0] != "ok":
        return "honest login did not complete: " + out[:80]
    if t[1] != t[2]:
        return "session keys differ"
    if len(t[1]) != 80:
        return "session key is not 40 bytes"
    return None

def generate(rng, tier):
    cs = []
    n = 2000 if tier == "quick" else 60000
    # every credential length 1..16
    for lu in range(1, 17):
        for lp in (1, 8, 16):
            us, ps = cred(rng, lu, lu), cred(rng, lp, lp)
            r = honest_login_case(rng, fixed=(us, ps, rbytes(rng, 32), rbytes(rng, 32), rbytes(rng, 32)))
            if r: cs.append(Case(r[0], "cred-lengths", agree, r[1]))
    for _ in range(n):
        r = honest_login_case(rng)
        if r is None: continue
        line, s, _ = r
        cs.append(Case(line, "+".join(session_class(s)) or "plain", agree, s))
    # S with low-order zero bytes, by search
    want = [(1, 12 if tier == "quick" else 60, 4000)]
    if tier == "thorough":
        want.append((2, 2, 400000))
    for zeros, count, budget in want:
        found = 0
        while found < count:
            us, ps = cred(rng), cred(rng)
            f = find_low_zero_session(rng, us, ps, zeros, budget)
            if f is None: break
            s, salt, b, a = f
            r = honest_login_case(rng, fixed=(us, ps, salt, b, a))
            cs.append(Case(r[0], "S-low-zeros=%d(searched)" % zeros, agree, s))
            found += 1
    # the server's interleave on any S: database verifier v = 1, b = 1  =>  S = A, B = 10
    for zeros in range(0, 32):
        for rep in range(2):
            A = bytes(zeros) + bytes([rng.randint(1, 255)]) + rbytes(rng, 31 - zeros)
            if int.from_bytes(A, "little") >= N:
                A = A[:31] + bytes([A[31] & 0x7f])
            if zeros == 31: A = bytes(31) + bytes([rng.randint(1, 0x88)])
            salt = rbytes(rng, 32)
            K = pyref.interleave(A)
            B32 = le32(10)
            m1 = pyref.M1(b"ALICE", salt, A, B32, K)
            m2 = pyref.M2(A, m1, K)
            chal = rbytes(rng, 16)
            line = "srv.server %s %s %s %s %s | %s%s" % (enc("alice"), le32(1).hex(), salt.hex(), A.hex(), m1.hex(), le32(1).hex(), chal.hex())
            cs.append(Case(line, "server-interleave-S-low-zeros=%d" % zeros, "ok %s %s %s ~48" % (K.hex(), m2.hex(), chal.hex())))
    for zeros in range(31):
        body = bytearray(b if b else 1 for b in rbytes(rng, 32))
        for i in range(zeros): body[i] = 0
        if zeros + 1 < 31: body[zeros + 1] = 0
        body[31] = (body[31] & 0x7f) or 1
        A = bytes(body); salt = rbytes(rng, 32); chal = rbytes(rng, 16)
        K = pyref.interleave(A); m1 = pyref.M1(b"ALICE", salt, A, le32(10), K)
        cs.append(Case("srv.server %s %s %s %s %s | %s%s" % (enc("alice"), le32(1).hex(), salt.hex(), A.hex(), m1.hex(), le32(1).hex(), chal.hex()),
                       "server-interleave-inner-zero-after-run", "ok %s %s %s ~48" % (K.hex(), pyref.M2(A, m1, K).hex(), chal.hex())))
    # hidden state between calls would break honest logins only after a particular history (e.g. a client that
    # first talked to a server announcing its own group): interleave such calls with the logins so that every
    # shard of the run sees standard logins *after* non-standard-group client calls on the same thread
    # the same account used with a wrong and then the right password on one thread (and the other way round)
    hist = []
    for _ in range(40 if tier == "quick" else 600):
        us, ps, wrong = cred(rng), cred(rng), cred(rng)
        if pyref.normalize(wrong) == pyref.normalize(ps): continue
        salt, b, a1, a2, a3 = rbytes(rng, 32), rbytes(rng, 32), rbytes(rng, 32), rbytes(rng, 32), rbytes(rng, 32)
        s = pyref.Session(us, ps, salt, b, a2)
        if s.A % N == 0 or s.B % N == 0: continue
        def cnew(pw, a, kind):
            e = client_expect(us, pw, 7, N, s.B32, salt, a)
            return Case("cli.new %s %s 7 %s %s %s | %s" % (enc(us), enc(pw), N_LE.hex(), s.B32.hex(), salt.hex(), a.hex()), kind, "ok %s %s ~32" % (e["A32"].hex(), e["M1"].hex()))
        hist.append(cnew(wrong, a1, "history:wrong-password-first"))
        hist.append(Case(login_line(us, ps, flipcase(rng, us), flipcase(rng, ps), rng.randrange(6), salt, b, a2, rbytes(rng, 16)), "history:right-password-after-wrong", agree, s))
        hist.append(cnew(wrong, a3, "history:wrong-password-after-right"))
    cs += hist
    inter = []
    for i, c in enumerate(cs):
        if i % 40 == 0:
            g, n_ = rng.randint(2, 255), rand_prime(rng, rng.choice([2, 8, 31, 32]))
            us, ps, salt, a, B32 = cred(rng), cred(rng), rbytes(rng, 32), rbytes(rng, 32), rbytes(rng, 32)
            e = client_expect(us, ps, g, n_, B32, salt, a)
            if e is not None and B32 not in (Z32, N_LE):
                inter.append(Case("cli.new %s %s %d %s %s %s | %s" % (enc(us), enc(ps), g, le32(n_).hex(), B32.hex(), salt.hex(), a.hex()),
                                  "history:announced-group-before-login", "ok %s %s ~32" % (e["A32"].hex(), e["M1"].hex())))
        inter.append(c)
    return inter

def nontrivial(case, out):
    return case.line
