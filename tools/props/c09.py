"""C09 — Wrath header streams are RC4-drop1024 under direction-specific HMAC keys"""
from verif import Case
from gen_util import *
import pyref

MODULES = ["WowSrp.Props.C09", "WowSrp.Props.Source.C09", "WowSrp.Props.Source.Structural.C09", "WowSrp.Props.C09Directions", "WowSrp.Props.Source.Rc4Prga", "WowSrp.Props.Source.Glue.Wrath", "WowSrp.Props.Source.Shape.C09", "WowSrp.Props.Source.Rc4Ksa", "WowSrp.Props.Source.HashesWrathKey"]
THEOREMS = ["C09_new_ok", "C09_new_empty_key", "C09_step_no_panic", "C09_no_panic", "C09_keystream_indep_of_data", "C09_state_depends_on_length_only", "C09_chunking", "C09_involution", "C09_directions", "C09_direction_values", "C09_drop", "C09_key_derivation", "C09_halves", "C09_roundtrip_c2s", "C09_roundtrip_s2c", "C09_roundtrip_from_equal_states", "C09_rc4_refines", "C09_rc4_refines_stream", "C09_inner_refines", "C09_source_layout", "C09_source_structural_impls", "C09_prga_bijective", "C09_shared_state_gives_key_collision", "C09_shared_state_gives_key_collision_halves", "C09_no_key_collision_gives_disjoint_states", "C09_test_no_key_collision", "C09_test_directions_differ", "C09_translated_prga", "C09_source_glue_wrath", "C09_source_shapes", "C09_translated_ksa", "C09_translated_inner_new"]
RULE = ("per session key: the client object encrypts a client->server stream and decrypts a server->client stream, the server object the "
        "converse; all four halves' output compared with an independent HMAC-SHA1 / RC4-drop1024 (Python); streams cross 256 and 65 536 bytes "
        "(RC4 counter wraps), random partitions incl. empty calls; cross-direction keystreams compared per key (test, not theorem). "
        "distinct = distinct lines; non-trivial = stream length >= 1")
EXPLANATION = "theorems (RC4 total under the 256-entry invariant, keystream independent of data, chunking, involution, client-enc/server-dec and server-enc/client-dec start equal and stay equal, constant assignment S/R, drop 1024) + differential run + independent RC4/HMAC oracle"
ASSUMPTIONS = ["'the two directions never share a keystream' for ALL keys is not a theorem (RC4/HMAC are not injective): constant assignment proved, inequality tested per sampled key"]

def wrath_pair_cases(rng, K, n1, n2, kind):
    p1 = rbytes(rng, n1)   # client -> server plaintext
    p2 = rbytes(rng, n2)   # server -> client plaintext
    ksS = pyref.wrath_stream(K, pyref.WRATH_S).stream(n1 + 16)
    ksR = pyref.wrath_stream(K, pyref.WRATH_R).stream(n2 + 16)
    c1 = bytes(a ^ b for a, b in zip(p1, ksS))
    c2 = bytes(a ^ b for a, b in zip(p2, ksR))
    out = []
    for role, enc_plain, enc_cipher, dec_cipher, dec_plain, ks_e, ks_d in (
            ("c", p1, c1, c2, p2, ksS, ksR), ("s", p2, c2, c1, p1, ksR, ksS)):
        ech = partition(rng, enc_plain, max_chunk=rng.choice([1, 5, 64, 300, 5000, 70000]))
        dch = partition(rng, dec_cipher, max_chunk=rng.choice([1, 6, 100, 4096, 70000]))
        line = "hdr w %s %s %s %s pr" % (role, K.hex(), " ".join("e:" + hx(c) for c in ech), " ".join("d:" + hx(c) for c in dch))
        line = " ".join(line.split())
        def exp(o, ech=ech, dch=dch, enc_cipher=enc_cipher, dec_plain=dec_plain, ks_e=ks_e, ks_d=ks_d, ne=len(enc_plain), nd=len(dec_cipher)):
            t = o.split(" ")
            if t[-1] != "~0": return "error/unexpected rng use: " + o[:60]
            t = t[:-1]
            if b"".join(unhx(x) for x in t[:len(ech)]) != enc_cipher: return "encrypted bytes differ from RC4-drop1024(HMAC(direction constant, K))"
            if b"".join(unhx(x) for x in t[len(ech):len(ech) + len(dch)]) != dec_plain: return "decrypter did not recover the peer's bytes"
            pr = t[-1].split(":")
            if unhx(pr[0]) != ks_e[ne:ne + 16] or unhx(pr[1]) != ks_d[nd:nd + 16]: return "keystream position after traffic is wrong"
            return None
        out.append(Case(line, kind + "-" + role, exp, dict(n=n1 + n2)))
    if ksS[:16] == ksR[:16]:
        out.append(Case("hdr w c %s pr" % K.hex(), "DIRECTIONS-SHARE-KEYSTREAM", "impossible"))
    return out

def generate(rng, tier):
    cs = []
    for n in (0, 1, 255, 256, 257, 1023, 1024, 1025):
        cs += wrath_pair_cases(rng, special_key(rng), n, n, "boundary-length")
    cs += wrath_pair_cases(rng, rbytes(rng, 40), 70000, 66000, "crosses-65536")
    for _ in range(60 if tier == "quick" else 3000):
        cs += wrath_pair_cases(rng, special_key(rng), rng.randint(0, 2000), rng.randint(0, 2000), "random-stream")
    Kb = rbytes(rng, 40)
    for i in range(40):
        k2 = bytearray(Kb); k2[i] ^= rng.choice([1, 0x80, 0xff])
        cs += wrath_pair_cases(rng, Kb if i % 5 == 0 else bytes(k2), 40, 40, "sibling-keys-on-one-thread")
    # the pairing also holds at the header level: what the client's encrypter emits for a client header is what the
    # server's decrypter decodes (typed helper and read-based call, the latter fed in arbitrary fragments)
    import struct
    for _ in range(40 if tier == "quick" else 600):
        K = special_key(rng)
        hdrs = [(rng.getrandbits(16), rng.getrandbits(32)) for _ in range(rng.randint(1, 8))]
        ks = pyref.wrath_stream(K, pyref.WRATH_S)
        wires = [ks.apply(pyref.client_header_plain(sz, op)) for sz, op in hdrs]
        cs.append(Case("hdr w c %s %s" % (K.hex(), " ".join("ec:%d:%d" % h for h in hdrs)), "client-header-emit", " ".join(w.hex() for w in wires) + " ~0", dict(n=1)))
        ops = []; exp = []
        for (sz, op), w in zip(hdrs, wires):
            if rng.random() < 0.5:
                ops.append("dc:" + w.hex()); exp.append("%d:%d" % (sz, op))
            else:
                fr = partition(rng, w, max_chunk=3, p_empty=0)
                ops.append("rc:" + ",".join("D" + f.hex() for f in fr if f)); exp.append("ok:%d:%d:u6" % (sz, op))
        cs.append(Case("hdr w s %s %s" % (K.hex(), " ".join(ops)), "server-decodes-client-headers", " ".join(exp) + " ~0", dict(n=1)))
    # every entry point and object form of both Wrath roles in random order (typed helpers, Read/Write wrappers, two-step large header also
    # completed through the raw call, split, clone), long sessions crossing the 256-byte counter wrap
    import hdr_mix
    cs += hdr_mix.big_call_cases(rng, Case, [("w", "s"), ("w", "c")])
    cs += hdr_mix.cases(rng, Case, [("w", "s"), ("w", "c")], 100 if tier == "quick" else 3000, 120, special_key=special_key)
    if tier == "thorough":
        for _ in range(6):
            cs += wrath_pair_cases(rng, rbytes(rng, 40), 1 << 20, 70000, "1MiB-stream")
    return cs

def nontrivial(case, out):
    if case.meta and case.meta.get("n", 1) == 0: return None
    return case.line
