"""C10 — Wrath server headers of both lengths round-trip and keep the stream in step"""
from verif import Case
from gen_util import *
import pyref

MODULES = ["WowSrp.Props.C10", "WowSrp.Props.Source.Structural.C10", "WowSrp.Props.Source.LayoutsWrath", "WowSrp.Props.Source.Glue.Wrath", "WowSrp.Props.Source.Shape.C10"]
THEOREMS = ["C10_constants", "C10_len", "C10_marker", "C10_decode_encode", "C10_server_emits", "C10_roundtrip_read", "C10_roundtrip_read_stream", "C10_roundtrip_attempt", "C10_sequence", "C10_sequence_fresh", "C10_source_structural_impls", "C10_translated_layout_wrath", "C10_translated_parse_wrath", "C10_source_glue_wrath", "C10_source_shapes"]
RULE = ("boundary sizes (0, 1, 0x7FFF, 0x8000, 0xFFFF, 0x10000, 0x3FFFFF, 0x400000, 0x7FFFFF) x opcodes (0, 0xFF, 0x100, 0xFFFF, random); random mixed "
        "sequences of short/long headers on one connection: server output compared with an independent encoder+RC4, then fed to the client through "
        "the read-based call and through attempt + one more byte; sweeps (digest on both sides, zero decode mismatches required): quick 2^17 sizes "
        "around the threshold, thorough all 2^23 sizes x 4 opcodes and all 2^16 opcodes x 9 boundary sizes. distinct = distinct lines; non-trivial = all")
EXPLANATION = "codec theorems (length, marker bit, decode(encode)=id for all sizes <= 0x7FFFFF and opcodes, both client paths, any sequence keeps client-decrypt state = server-encrypt state) + differential run + Python oracle"
ASSUMPTIONS = ["sizes above 0x7FFFFF are outside the property (the top byte is truncated by the encoder)"]

BS = [0, 1, 0x7FFF, 0x8000, 0xFFFF, 0x10000, 0x3FFFFF, 0x400000, 0x7FFFFF]
BO = [0, 0xFF, 0x100, 0xFFFF]

def seq_cases(rng, K, hdrs, kind):
    ks = pyref.wrath_stream(K, pyref.WRATH_R)
    wire = []
    for (s, o) in hdrs:
        wire.append(ks.apply(pyref.wrath_server_header_plain(s, o)))
    srv = "hdr w s %s %s" % (K.hex(), " ".join("es:%d:%d" % h for h in hdrs))
    cs = [Case(srv, kind + "-server-emit", " ".join(w.hex() for w in wire) + " ~0")]
    # client, read path: the whole byte stream arrives fragmented arbitrarily
    ops = []; exp = []
    stream = b"".join(wire)
    pos = 0
    for (s, o), w in zip(hdrs, wire):
        rest = stream[pos:]
        # give the reader everything that is still to come, fragmented; only this header's bytes must be consumed
        frags = partition(rng, rest[:len(w) + rng.randint(0, 3)], max_chunk=3, p_empty=0)
        evs = []
        for f in frags:
            if not f: continue
            if rng.random() < 0.2: evs.append("I")      # interruptions between fragments change nothing
            evs.append("D" + f.hex())
        ops.append("rs:" + ",".join(evs))
        exp.append("ok:%d:%d:u%d" % (s, o, len(w)))
        pos += len(w)
    cs.append(Case("hdr w c %s %s pr" % (K.hex(), " ".join(ops)), kind + "-client-read", None, None))
    cs[-1].expect = (lambda out, exp=exp: None if out.split(" ")[:len(exp)] == exp else "client read path decoded " + " ".join(out.split(" ")[:len(exp)])[:120] + " expected " + " ".join(exp)[:120])
    # client, attempt path
    ops = []; exp = []
    for (s, o), w in zip(hdrs, wire):
        ops.append("at:" + w[:4].hex())
        if len(w) == 5:
            exp.append("more"); ops.append("lg:" + w[4:].hex()); exp.append("%d:%d" % (s, o))
        else:
            exp.append("h:%d:%d" % (s, o))
    cs.append(Case("hdr w c %s %s pr" % (K.hex(), " ".join(ops)), kind + "-client-attempt",
                   (lambda out, exp=exp: None if out.split(" ")[:len(exp)] == exp else "client attempt path decoded wrongly")))
    return cs

def generate(rng, tier):
    cs = []
    for s in BS:
        for o in BO + [rng.getrandbits(16)]:
            cs += seq_cases(rng, rbytes(rng, 40), [(s, o)], "boundary")
    for _ in range(60 if tier == "quick" else 1500):
        n = rng.randint(1, 30) if rng.random() < 0.8 else rng.randint(30, 500)
        hdrs = []
        for _ in range(n):
            r = rng.random()
            s = rng.choice(BS) if r < 0.3 else rng.randint(0, 0x7FFF) if r < 0.65 else rng.randint(0x8000, 0x7FFFFF)
            hdrs.append((s, rng.choice(BO) if rng.random() < 0.3 else rng.getrandbits(16)))
        cs += seq_cases(rng, rbytes(rng, 40), hdrs, "mixed-sequence")
    import hdr_mix
    cs += hdr_mix.cases(rng, Case, [("w", "s"), ("w", "c")], 80 if tier == "quick" else 3000, 160, special_key=special_key)
    cs += hdr_mix.wrath_size_boundaries(rng, Case)
    K = rbytes(rng, 40)
    def sweep(lo, hi, opc):
        return Case("w.sweep %s %d %d %d" % (K.hex(), lo, hi, opc), "sweep",
                    lambda out: None if out.split(" ")[2:] == ["bad=0", "~0"] else "sweep reports decode mismatches: " + out)
    if tier == "quick":
        cs.append(sweep(0, 0x7FFF + 98304, 0x1234))
        cs.append(sweep(0x7FFFFF - 4096, 0x800000, 0xFFFF))
    else:
        for opc in (0, 0xFF, 0x100, 0xFFFF):
            for lo in range(0, 0x800000, 0x10000):
                cs.append(sweep(lo, lo + 0x10000, opc))
    return cs

def post_check(cases, outs):
    return []

def nontrivial(case, out):
    return case.line
