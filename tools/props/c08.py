"""C08 — TBC header cipher: HMAC-derived 20-byte key, same recurrence, exact inverse"""
from verif import Case
from gen_util import *
import pyref
from props.c07 import session_case, step_table_cases, sibling_key_cases, typed_at_every_position_cases

MODULES = ["WowSrp.Props.C08", "WowSrp.Props.Source.C08", "WowSrp.Props.Source.Structural.C08", "WowSrp.Props.Source.CipherLoopsTbc", "WowSrp.Props.Source.Glue.Tbc", "WowSrp.Props.Source.HashesTbcKey"]
THEOREMS = ["C08_constants", "C08_seed_same", "C08_seed_value", "C08_key_derivation", "C08_keys_equal", "C08_fresh_inv", "C08_step_bounds", "C08_recurrence", "C08_recurrence_vanilla", "C08_chunking", "C08_empty_call", "C08_inverse_step", "C08_roundtrip", "C08_source_layout", "C08_source_structural_impls", "C08_translated_encrypt_step", "C08_translated_decrypt_step", "C08_translated_moduli", "C08_roundtrip_from_equal_states", "C08_source_glue_tbc", "C08_translated_enc_new", "C08_translated_dec_new"]
RULE = ("as C07 with the TBC objects: streams under random/special 40-byte session keys, random partitions on both sides; the encrypter half and "
        "the decrypter half derive their keys separately in the Rust, so mutually inverse traffic from byte 0 checks both derivations; the "
        "ciphertext is compared with an independent HMAC-SHA1(seed, K) + recurrence; mixed sessions drive one object through every entry point and object form (typed helpers, Read/Write wrappers, split, clone) in random order. distinct = distinct lines; non-trivial = stream length >= 1")
EXPLANATION = "theorems (both halves use the same generated seed; key = HMAC(seed, K); recurrence over 20 bytes = Spec; chunking; exact inverse; round trip) + differential run + Python oracle"
ASSUMPTIONS = ["HMAC-SHA1 abstract in the theorems (any C with 20-byte output), real in the runs"]

def generate(rng, tier):
    cs = []
    nstreams = 300 if tier == "quick" else 3000
    maxlen = 4096 if tier == "quick" else 65536
    for L in [0, 1, 2, 19, 20, 21, 39, 40, 41, 255, 256, 257]:
        cs.append(session_case(rng, special_key(rng), rbytes(rng, L), "boundary-length", "t"))
    for i in range(nstreams):
        r = rng.random()
        L = rng.randint(0, 64) if r < 0.4 else rng.randint(0, 600) if r < 0.8 else rng.randint(0, maxlen)
        cs.append(session_case(rng, special_key(rng), rbytes(rng, L), "random-stream", "t"))
    if tier == "thorough":
        for i in range(8):
            cs.append(session_case(rng, special_key(rng), rbytes(rng, 1 << 20), "1MiB-stream", "t"))
    cs += sibling_key_cases(rng, "t")
    cs += typed_at_every_position_cases(rng, "t")
    import hdr_mix
    cs += hdr_mix.big_call_cases(rng, Case, [("t", "s"), ("t", "c")])
    cs += hdr_mix.cases(rng, Case, [("t", "s"), ("t", "c")], 100 if tier == "quick" else 3000, 90, special_key=special_key)
    if tier == "thorough":
        cs += step_table_cases(rng, "t")
    return cs

def nontrivial(case, out):
    if case.meta and case.meta.get("n", 1) == 0: return None
    return case.line
