"""C06 — world-login proof is accepted iff name, session key and both seeds match"""
from verif import Case
from gen_util import *
import pyref, struct

MODULES = ["WowSrp.Props.C06", "WowSrp.Props.Source.C06", "WowSrp.Props.Source.Structural.C06", "WowSrp.Props.Source.C06Calls", "WowSrp.Props.Source.Shape.C06", "WowSrp.Props.Source.HashesWorld", "WowSrp.Props.Source.ApiWorld", "WowSrp.Props.Source.ApiLinkedWorld"]
THEOREMS = ["C06_client_proof", "C06_client_proof_wrath", "C06_server_eq", "C06_server_iff", "C06_server_error", "C06_server_eq_wrath", "C06_server_iff_wrath", "C06_server_error_wrath", "C06_pairing", "C06_pairing_wrath", "C06_pairing_text", "C06_changed_bit_refused", "C06_flipped_proof_refused", "C06_changed_field_collision_core", "C06_changed_field_collision", "C06_changed_field_collision_wrath", "C06_swapped_seeds", "C06_swapped_seeds_entry", "C06_seed_accessor", "C06_seed_accessor_wrath", "C06_three_modules", "C06_source_layout", "C06_source_structural_impls", "C06_source_seed_argument_order", "C06_source_shapes", "C06_translated_world_proof", "C06_translated_into_client", "C06_translated_into_server", "C06_translated_wrath_into_client", "C06_translated_wrath_into_server", "C06_translated_world_signatures", "C06_linked_into_server", "C06_linked_into_client", "C06_linked_tbc_into_server", "C06_linked_wrath_into_server"]
RULE = ("all three expansion modules; seeds injected through the RNG shim (0, 0xFFFFFFFF, equal, swapped, random); client proof and server "
        "decision recomputed independently; client->server pairing both ways; single-bit changes of the proof, of the session key, of the "
        "name, of either seed; on success the returned header crypto is probed (16 bytes each direction) and compared with the model. "
        "distinct = distinct lines; non-trivial = perturbed or boundary-seed cases")
EXPLANATION = "decision theorems (proof = SHA1(U|0000|client seed LE|server seed LE|K); server accepts iff equal; error carries both proofs; layout injective => explicit collision witness; three modules are one function) + differential run + Python oracle"
ASSUMPTIONS = ["next_u32 of the injected RNG = little-endian u32 of the 4 drawn bytes"]

def flip(b, i):
    x = bytearray(b); x[i // 8] ^= 1 << (i % 8); return bytes(x)

SEEDS = [0, 1, 0xFFFFFFFF, 0x80000000, 0x01020304, 0x04030201]

def generate(rng, tier):
    cs = []
    n = 300 if tier == "quick" else 30000
    for exp in "vtw":
        for i in range(n):
            user = cred(rng)
            if rng.random() < 0.1: user = (cred(rng, 1, 12) + rng.choice([" ", "  ", " ."]))[:16]
            U = pyref.normalize(user).encode()
            K = special_key(rng) if rng.random() < 0.15 else rbytes(rng, 40)      # all-zero / all-ones / counting / constant keys too
            cseed = rng.choice(SEEDS) if rng.random() < 0.4 else rng.getrandbits(32)
            sseed = cseed if rng.random() < 0.1 else (rng.choice(SEEDS) if rng.random() < 0.4 else rng.getrandbits(32))
            proof = pyref.world_proof(U, K, cseed, sseed)
            # client: own seed is drawn, server seed is an argument
            def cexp(out, proof=proof, cseed=cseed):
                t = out.split(" ")
                if t[0] != "ok" or t[-1] != "~4": return "client did not produce a proof"
                if t[1] != proof.hex(): return "client proof is not SHA1(U|0000|client seed|server seed|K)"
                if t[2] != str(cseed): return "seed accessor does not report the seed used"
                return None
            cs.append(Case("world.cli %s %s %s %d | %s" % (exp, enc(user), K.hex(), sseed, struct.pack("<I", cseed).hex()), "client-proof-" + exp, cexp))
            # server: decision
            r = rng.random()
            kind = "accept"; pres = proof; su = user; sK = K; scs = cseed; sss = sseed
            if r < 0.1: kind = "proof-bit-flip"; pres = flip(proof, rng.randrange(160))
            elif r < 0.15: kind = "proof-two-place-change"; pres = rng.choice(two_place_flips(rng, proof, 4))
            elif r < 0.24: kind = "key-bit-flip"; sK = flip(K, rng.randrange(320))
            elif r < 0.3:
                kind = "key-symmetry-relative"; sK = rng.choice([K[::-1], K[20:] + K[:20], bytes(K[i ^ 1] for i in range(40)), K[1:] + K[:1]])
                if sK == K: kind = "accept"
            elif r < 0.4:
                kind = "other-name"; su = cred(rng)
                if rng.random() < 0.5:   # names that differ only in trailing / leading blanks or punctuation
                    su = rng.choice([user.rstrip(" "), user + " " if len(user) < 16 else user[:-1], user.strip(), " " + user if len(user) < 16 else user[1:]]) or "x"
                if pyref.normalize(su) == pyref.normalize(user): kind = "accept"
            elif r < 0.5: kind = "client-seed-bit-flip"; scs = cseed ^ (1 << rng.randrange(32))
            elif r < 0.6: kind = "server-seed-bit-flip"; sss = sseed ^ (1 << rng.randrange(32))
            elif r < 0.7:
                kind = "swapped-seeds"; scs, sss = sseed, cseed
                if cseed == sseed: kind = "accept"
            sproof = pyref.world_proof(pyref.normalize(su).encode(), sK, scs, sss)
            def sexp(out, pres=pres, sproof=sproof, sss=sss):
                t = out.split(" ")
                if pres == sproof:
                    if t[0] != "ok" or t[1] != str(sss): return "server refused a matching proof / wrong seed reported"
                else:
                    want = "err %s %s %d ~4" % (pres.hex(), sproof.hex(), sss)
                    if out != want: return "expected " + want
                return None
            cs.append(Case("world.srv %s %s %s %s %d | %s" % (exp, enc(su), sK.hex(), pres.hex(), scs, struct.pack("<I", sss).hex()), "server-%s-%s" % (kind, exp), sexp))
    return cs

def nontrivial(case, out):
    return None if "-accept-" in case.kind else case.line
