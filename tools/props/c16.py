"""C16 — PIN hashes follow the keypad-remap scheme; verification is exact"""
from verif import Case
from gen_util import *
import pyref

MODULES = ["WowSrp.Props.C16", "WowSrp.Props.Source.C16", "WowSrp.Props.Source.Structural.C16", "WowSrp.Props.Source.LoopsPin", "WowSrp.Props.Source.Shape.C16"]
THEOREMS = ["C16_constants", "C16_spec_digits", "C16_digits", "C16_digits_zero", "C16_layout_spec", "C16_layout_perm", "C16_spec_layout", "C16_layout_mod", "C16_hash", "C16_none_iff", "C16_verify_iff", "C16_source_layout", "C16_source_no_hidden_state", "C16_source_structural_impls", "C16_translated_pin_to_bytes", "C16_translated_remap_pin_grid", "C16_source_shapes", "C16_translated_signatures"]
RULE = ("PINs of every digit count 0..10 (incl. 0, 999, 1000, 9999, u32::MAX), grid seeds incl. 0, 10!-1, 10!, u32::MAX and seeds congruent mod 10!, random "
        "salts; hash compared with an independent SHA1(cs | SHA1(ss | remapped ASCII digits)) over the Lehmer-code layout; verify with the right hash and "
        "with each of its 160 single-bit changes; seed sweeps with the 10-digit PIN 1023456789 (exposes the whole layout), digest on both sides "
        "(quick: 60 000 seeds strided over all residues; thorough: all 3 628 800 residues). distinct = distinct lines; non-trivial = PIN >= 1000")
EXPLANATION = "theorems (digits, None iff pin < 1000, layout is a permutation for every seed = Lehmer code of seed mod 10!, hash formula, verify iff) + differential run + Python oracle"
ASSUMPTIONS = []
F10 = 3628800

def hash_case(rng, pin, seed, kind):
    ss, cs_ = rbytes(rng, 16), rbytes(rng, 16)
    r = rng.random()
    if r < 0.06: cs_ = ss                      # the same 16 bytes in both roles
    elif r < 0.09: cs_ = ss[::-1]
    elif r < 0.12: ss = bytes(16)
    elif r < 0.15: cs_ = bytes(16)
    h = pyref.pin_hash(pin, seed, ss, cs_)
    out = [Case("pin.hash %d %d %s %s" % (pin, seed, ss.hex(), cs_.hex()), kind, ("some %s ~0" % h.hex()) if h else "none ~0")]
    if h:
        out.append(Case("pin.verify %d %d %s %s %s" % (pin, seed, ss.hex(), cs_.hex(), h.hex()), kind + "-verify", "1 ~0"))
        i = rng.randrange(160); x = bytearray(h); x[i // 8] ^= 1 << (i % 8)
        out.append(Case("pin.verify %d %d %s %s %s" % (pin, seed, ss.hex(), cs_.hex(), bytes(x).hex()), kind + "-verify-bitflip", "0 ~0"))
        if rng.random() < 0.2:
            out.append(Case("pin.verify %d %d %s %s %s" % (pin, seed, ss.hex(), cs_.hex(), rng.choice(two_place_flips(rng, h, 3)).hex()), kind + "-verify-two-place-change", "0 ~0"))
    else:
        out.append(Case("pin.verify %d %d %s %s %s" % (pin, seed, ss.hex(), cs_.hex(), rbytes(rng, 20).hex()), kind + "-verify", "0 ~0"))
    return out

def generate(rng, tier):
    cs = []
    pins = [0, 1, 9, 10, 99, 100, 999, 1000, 1001, 9999, 10000, 123456, 1234567, 99999999, 100000000, 999999999, 1000000000, 1023456789, 4294967295, 4000000000]
    seeds = [0, 1, 9, 10, F10 - 1, F10, F10 + 1, 2 * F10 + 5, 4294967295, 4294967295 - F10]
    for p in pins:
        for s in seeds[:4] + [rng.getrandbits(32)]:
            cs += hash_case(rng, p, s, "boundary-pin")
    for s in seeds:
        cs += hash_case(rng, 1023456789, s, "boundary-seed")
    # a PIN that has no hash (< 1000) verifies against NOTHING: all-zero, all-ones, the hash of a neighbouring valid PIN, of the
    # zero-padded PIN, random
    for p in [0, 1, 9, 10, 99, 100, 999, 123, 7]:
        for sd in (0, 1, rng.getrandbits(32)):
            ss, c2 = rbytes(rng, 16), rbytes(rng, 16)
            for hh in [bytes(20), b"\xff" * 20, pyref.pin_hash(1000, sd, ss, c2), pyref.pin_hash(p + 1000, sd, ss, c2), pyref.pin_hash(p * 10000 + 1000, sd, ss, c2),
                       pyref.sha1(c2 + pyref.sha1(ss)), pyref.sha1(b""), rbytes(rng, 20)]:
                cs.append(Case("pin.verify %d %d %s %s %s" % (p, sd, ss.hex(), c2.hex(), hh.hex()), "invalid-pin-verifies-against-nothing", "0 ~0"))
    # seeds at the factorial boundaries of the layout's mixed-radix decomposition: multiples of k! for every k <= 10, and neighbours
    f = 1
    for k in range(1, 11):
        f *= k
        for m in sorted(set([1, 2, 3, 7, 9, 10, 11, rng.randint(1, 4294967295 // f), 4294967295 // f])):
            for d in (0, -1, 1):
                sd = m * f + d
                if 0 <= sd < (1 << 32):
                    cs += hash_case(rng, 1023456789, sd, "seed-multiple-of-%d!" % k)
    # seed only matters mod 10!
    for _ in range(20):
        s = rng.randrange(F10); ss, c2 = rbytes(rng, 16), rbytes(rng, 16)
        h = pyref.pin_hash(9876543210 % (1 << 32), s, ss, c2)
    # digit-splitting boundaries: PINs of the form q*10^j - 1 (a run of trailing 9s under a large head: where a reciprocal-multiplication
    # or a split into digit groups first goes wrong), q*10^j and q*10^j + 1, for every j and heads near the top of u32
    for j in range(1, 10):
        top = ((1 << 32) - 1) // 10 ** j
        for q in sorted(set([1, 2, top, top - 1, max(1, top // 2), rng.randint(1, top), rng.randint(max(1, top * 3 // 4), top), rng.randint(max(1, top * 3 // 4), top)])):
            for d in (-1, 0, 1):
                pin = q * 10 ** j + d
                if 0 <= pin < (1 << 32):
                    cs += hash_case(rng, pin, rng.getrandbits(32), "pin-at-multiple-of-10^%d" % j)
    # binary boundaries of the PIN (where a narrower integer type, a shift or a mask first goes wrong): 2^k - 1, 2^k, 2^k + 1 for every k
    for k in range(10, 33):
        for d in (-1, 0, 1):
            pin = (1 << k) + d
            if 1000 <= pin < (1 << 32):
                cs += hash_case(rng, pin, rng.choice([0, 1, rng.getrandbits(32)]), "pin-at-2^%d" % k)
    # literals of the source under test (gen_util.source_dictionary): as PINs and as seeds
    for v in new_ints(0, (1 << 32) - 1) + rng.sample(dict_ints(0, (1 << 32) - 1), 12):
        cs += hash_case(rng, v, rng.getrandbits(32), "source-literal-as-pin")
        cs += hash_case(rng, rng.randrange(1000, 1 << 32), v, "source-literal-as-seed")
    n = 4000 if tier == "quick" else 200000
    for _ in range(n):
        d = rng.randint(1, 10)
        pin = rng.randrange(10 ** (d - 1), min(10 ** d, 1 << 32))
        sd = rng.getrandbits(32)
        cs += hash_case(rng, pin, sd, "random-%d-digits" % d)
        if rng.random() < 0.1:
            # a call with a related seed right afterwards on the same thread (the layout must depend on the seed of
            # THIS call only): seed / 10!, seed mod 10!, seed + 10!, 0
            cs += hash_case(rng, pin, rng.choice([sd // F10, sd % F10, (sd + F10) % (1 << 32), 0, 1]), "seed-history")
    # all 160 bit flips of one hash
    ss, c2 = rbytes(rng, 16), rbytes(rng, 16); h = pyref.pin_hash(24681357, 777, ss, c2)
    for i in range(160):
        x = bytearray(h); x[i // 8] ^= 1 << (i % 8)
        cs.append(Case("pin.verify 24681357 777 %s %s %s" % (ss.hex(), c2.hex(), bytes(x).hex()), "all-160-bitflips", "0 ~0"))
    # sweeps
    ss, c2 = rbytes(rng, 16), rbytes(rng, 16)
    def sweep(lo, hi, step):
        def exp(out, lo=lo, hi=hi, step=step):
            h = 0xcbf29ce484222325
            n = 0
            for seed in range(lo, hi, step):
                for b in pyref.pin_hash(1023456789, seed, ss, c2):
                    h = ((h ^ b) * 0x100000001b3) & 0xFFFFFFFFFFFFFFFF
                n += 1
            want = "fnv %016x n=%d ~0" % (h, n)
            return None if out == want else "sweep digest differs from the independent computation: expected " + want
        return Case("pin.sweep 1023456789 %d %d %d %s %s" % (lo, hi, step, ss.hex(), c2.hex()), "seed-sweep", exp)
    if tier == "quick":
        for k in range(6):
            cs.append(sweep(k * 7, F10, 61 * 6))      # 6 x ~9 900 seeds strided over all residues
    else:
        blk = F10 // 64
        for k in range(64):
            cs.append(sweep(k * blk, (k + 1) * blk if k < 63 else F10, 1))
        cs.append(sweep(F10, F10 + 50000, 1))
        cs.append(sweep(4294967295 - 50000, 4294967296, 1))
    return cs

def nontrivial(case, out):
    return None if " none" in out or out.startswith("none") else case.line
