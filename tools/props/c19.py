"""C19 — both big-integer back ends produce identical results"""
from verif import Case
from gen_util import *
from srp_cases import *
import pyref
from props import c01, c02, c03, c04

MODULES = ["WowSrp.Props.C19", "WowSrp.Props.C19Backends", "WowSrp.Props.Source.Glue.Srp", "WowSrp.Props.Source.Structural.C19"]
THEOREMS = ["C19_modpow_agree", "C19_modpow_panic_iff", "C19_modpow_sameOutcome", "C19_bytes_agree", "C19_bytes_agree_32", "C19_toBytesLe_value", "C19_agree_calculatePasswordVerifier", "C19_agree_tryFromBigint", "C19_agree_calculateServerPublicKey", "C19_agree_calculateS", "C19_agree_calculateSessionKey", "C19_agree_fromUsernameAndPassword", "C19_agree_withSpecificPrivateKey", "C19_agree_intoProof", "C19_agree_intoServer", "C19_agree_clientTryFromBigint", "C19_agree_calculateClientPublicKey", "C19_agree_calculateClientS", "C19_agree_clientChallenge", "C19_agree_clientChallenge_eq", "C19_agree_clientChallenge_builtin", "C19_agree_runLogin_eq", "C19_agree_runLogin", "C19_neg_base_sign_fixup", "C19_no_sign_fixup", "C19_num_modpow_faithful", "C19_rug_pow_mod", "C19_rug_secure_pow_mod", "C19_rug_modpow_faithful", "C19_backends_agree_from_library_semantics", "C19_backends_agree_eq", "C19_prefix_rug_diverges", "C19_toBytesLe_faithful", "C19_source_glue_srp", "C19_source_structural_impls"]
BOTH_BACKENDS = True
RULE = ("the C01-C04 case streams (complete logins with negative and non-negative B-k*v, zero-padded results, perturbed proofs/keys, announced groups, the public-key "
        "family) run through two builds of the real crate (srp-default-math = num-bigint, srp-fast-math = rug/GMP) and both model back ends; plus the former divergence "
        "classes: private-key draw of all zeros (exponent 0), even announced moduli, modulus 1, zero modulus. Every output line must be identical across the two builds. "
        "distinct = distinct lines; non-trivial = all")
EXPLANATION = "theorem: every API-level model function returns the same outcome under both back-end instances, for all inputs, + the same case stream through both real builds compared line by line"
ASSUMPTIONS = ["rug builds against the sandbox's system GMP 6.2.1 via a version-shim header (harness/gmp_compat/gmp.h)"]

def generate(rng, tier):
    cs = []
    cs += c01.generate(rng, "quick")
    cs += c03.generate(rng, "quick")
    cs += [c for c in c02.generate(rng, "quick")][:1500]
    cs += [c for c in c04.generate(rng, "quick") if not c.line.startswith("pk.sweep")][:1500]
    if tier == "thorough":
        cs += c03.generate(rng, "quick")
        cs += c01.generate(rng, "quick")
    # negative multiples of N as the base of the client's modpow (B = k*v mod N with k*v > N), S = 0 / 1 / N-1
    for _ in range(200 if tier == "quick" else 2000):
        us, ps = cred(rng), cred(rng)
        salt, a = rbytes(rng, 32), rbytes(rng, 32)
        x = pyref.calc_x(pyref.normalize(us).encode(), pyref.normalize(ps).encode(), salt); v = pow(7, x, N)
        Bv = rng.choice([(3 * v) % N, (3 * v + 1) % N, (3 * v - 1) % N])
        if Bv + N < (1 << 256) and rng.random() < 0.3: Bv += N
        B32 = Bv.to_bytes(32, "little")
        if B32 in (Z32, N_LE): continue
        e = client_expect(us, ps, 7, N, B32, salt, a)
        if e is None: continue
        base = "%s %s 7 %s %s %s" % (enc(us), enc(ps), N_LE.hex(), B32.hex(), salt.hex())
        cs.append(Case("cli.new %s | %s" % (base, a.hex()), "client-base-multiple-of-N", "ok %s %s ~32" % (e["A32"].hex(), e["M1"].hex())))
        cs.append(Case("cli.verify %s %s | %s" % (base, e["M2"].hex(), a.hex()), "client-base-multiple-of-N-verify", "ok %s ~32" % e["K"].hex()))
    # the server's own key B = 3v + g^b is congruent to 0: both builds refuse it, and with the SAME error kind (the kind is the tail of the
    # `expect` message of into_proof, which the comparison between the two builds keeps) — for many drawn b, v := -g^b / 3 mod N
    inv3 = pow(3, -1, N)
    for bb in [1, 2, 3, 255, 256, N - 1] + [pyref.le(rbytes(rng, 32)) % N for _ in range(12)]:
        if bb == 0: continue
        v = ((0 - pow(7, bb, N)) * inv3) % N
        cs.append(Case("srv.proof 41 %s %s | %s" % (le32(v).hex(), Z32.hex(), le32(bb).hex()), "server-self-B-is-zero", "panic"))
    # former divergence classes
    B = le32(5).hex()
    for g in (0, 1, 2, 7, 10, 255):
        for np_ in (0, 1, 2, 4, 10, 256, 65536, 1 << 255, (1 << 256) - 2, N - 1, N + 1):
            for a in (0, 1, 2, 5, pyref.le(rbytes(rng, 32))):
                line = "cli.new %s %s %d %s %s %s | %s" % (enc("a"), enc("b"), g, le32(np_).hex(), B, Z32.hex(), le32(a).hex())
                if np_ == 0:
                    exp = "panic"
                else:
                    e = client_expect("a", "b", g, np_, le32(5), Z32, le32(a))
                    exp = "panic" if e is None else "ok %s %s ~32" % (e["A32"].hex(), e["M1"].hex())
                cs.append(Case(line, "edge-modulus-%s-exp-%s" % ("zero" if np_ == 0 else "even" if np_ % 2 == 0 else "odd", "zero" if a == 0 else "pos"), exp))
    for v in (1, 2, N - 1, pyref.le(rbytes(rng, 31))):
        for b in (0, 1, 2):
            Bv = pyref.server_B(v, b)
            cs.append(Case("srv.proof %s %s %s | %s" % (enc("a"), le32(v).hex(), Z32.hex(), le32(b).hex()), "edge-server-private-key-%d" % b,
                           "panic" if Bv == 0 else "ok %s %s ~32" % (le32(Bv).hex(), Z32.hex())))
    return cs

def nontrivial(case, out):
    return case.line
