"""C15 — every ephemeral secret, salt, challenge and seed is freshly random per use  (PARTIAL by nature)"""
from verif import Case
from gen_util import *
from srp_cases import *
import pyref, struct

MODULES = ["WowSrp.Props.C15", "WowSrp.Props.C15Rng", "WowSrp.Props.Source.Structural.C15", "WowSrp.Props.Source.Shape.C15", "WowSrp.Props.Source.ApiDraws", "WowSrp.Props.Source.ApiReconnect", "WowSrp.Props.Source.ApiIntoServer", "WowSrp.Props.Source.ApiLinkedCtors"]
THEOREMS = ["C15_salt", "C15_login_challenge", "C15_reconnect_refresh", "C15_client_challenge", "C15_seed", "C15_private_key_value", "C15_server_private_key", "C15_client_private_key", "C15_uniform_constants", "C15_digits_exact", "C15_digits", "C15_rng_constants", "C15_convenience_generators", "C15_pin_grid_seed_differs", "C15_generators_sequential", "C15_source_structural_impls", "C15_source_shapes", "C15_translated_from_username_and_password", "C15_translated_into_proof", "C05_translated_verify_reconnection_attempt", "C05_translated_calculate_reconnect_values", "C02_translated_into_server", "C15_translated_draw_signatures", "C15_linked_from_username_and_password", "C15_linked_into_proof"]
RULE = ("every documented call site with injected draws: the bytes consumed (count checked via the ~n suffix) and the value produced must be the "
        "documented injective function of exactly those bytes (identity for salts/challenges/seeds, g^(LE of all 32 bytes) for private keys, accepted "
        "samples for card digits), compared with an independent computation; single-byte changes of a draw at every position change the output; "
        "thorough/quick: statistical TEST (not proof) with the shim in pass-through mode: n draws per site, no repeats, every byte position takes "
        ">= 200 values (card digits: exactly the values 0..9). distinct = distinct lines; non-trivial = all")
EXPLANATION = "theorems: each output is an injective function of exactly the drawn bytes; digits <= 9 under rand's widening-multiply rule. What no model can exhibit — unpredictability and non-repetition of ThreadRng — is the trusted rand crate; the statistical run is a test, labelled so"
ASSUMPTIONS = ["rand::thread_rng() is a CSPRNG (trusted, not modelled)", "the harness replaces thread_rng()/random() by an injectable source via [patch.crates-io]"]

def generate(rng, tier):
    cs = []
    n = 60 if tier == "quick" else 5000
    for _ in range(n):
        us, ps = cred(rng), cred(rng); U = pyref.normalize(us).encode()
        salt, b, a, chal = rbytes(rng, 32), rbytes(rng, 32), rbytes(rng, 32), rbytes(rng, 16)
        extra = rbytes(rng, 8)     # more bytes than needed: over-consumption would show in ~n
        v = pyref.verifier(U, pyref.normalize(ps).encode(), salt)
        cs.append(Case("srv.register %s %s | %s" % (enc(us), enc(ps), (salt + extra).hex()), "site:registration-salt", "ok %s %s %s ~32" % (U.hex(), le32(v).hex(), salt.hex())))
        B = pyref.server_B(v, pyref.le(b))
        if B:
            cs.append(Case("srv.proof %s %s %s | %s" % (enc(us), le32(v).hex(), salt.hex(), (b + extra).hex()), "site:server-private-key", "ok %s %s ~32" % (le32(B).hex(), salt.hex())))
            # every byte of the draw matters
            i = rng.randrange(32); b2 = bytearray(b); b2[i] ^= 1 << rng.randrange(8)
            B2 = pyref.server_B(v, pyref.le(bytes(b2)))
            if B2:
                cs.append(Case("srv.proof %s %s %s | %s" % (enc(us), le32(v).hex(), salt.hex(), bytes(b2).hex()), "site:server-private-key-one-byte-changed", "ok %s %s ~32" % (le32(B2).hex(), salt.hex())))
        s = pyref.Session(us, ps, salt, b, a)
        if s.A % N and s.B % N:
            cs.append(Case("srv.server %s %s %s %s %s | %s" % (enc(us), le32(s.v).hex(), salt.hex(), s.A32.hex(), s.M1.hex(), (b + chal + extra).hex()),
                           "site:login-challenge", "ok %s %s %s ~48" % (s.K.hex(), s.M2.hex(), chal.hex())))
            cs.append(Case("cli.new %s %s 7 %s %s %s | %s" % (enc(us), enc(ps), N_LE.hex(), s.B32.hex(), salt.hex(), (a + extra).hex()), "site:client-private-key",
                           "ok %s %s ~32" % (s.A32.hex(), s.M1.hex())))
            for np in (65537, 0x010000000001, (1 << 255) + 1, 251, int.from_bytes(bytes([0x11, 0x00] * 16), "little") | 1):
                from srp_cases import client_expect
                Bx = rbytes(rng, 32)
                e = client_expect(us, ps, 7, np, Bx, salt, a)
                if e is not None and Bx not in (Z32, N_LE):
                    cs.append(Case("cli.new %s %s 7 %s %s %s | %s" % (enc(us), enc(ps), le32(np).hex(), Bx.hex(), salt.hex(), (a + extra).hex()),
                                   "site:client-private-key-under-announced-modulus", "ok %s %s ~32" % (e["A32"].hex(), e["M1"].hex())))
            cd, sc = rbytes(rng, 16), rbytes(rng, 16)
            cs.append(Case("cli.recon %s %s %s | %s" % (enc(us), enc(ps), sc.hex(), (salt + b + a + chal + cd + extra).hex()), "site:client-reconnect-challenge",
                           "ok %s %s ~128" % (cd.hex(), pyref.reconnect_proof(s.U, cd, sc, s.K).hex())))
            # refresh after accepted and after rejected attempts
            d1, d2 = rbytes(rng, 16), rbytes(rng, 16)
            good = pyref.reconnect_proof(s.U, cd, chal, s.K)
            bad = rbytes(rng, 20)
            cs.append(Case("recon %s %s 2 %s %s %s %s | %s" % (enc(us), enc(ps), cd.hex(), good.hex(), cd.hex(), bad.hex(), (salt + b + a + chal + d1 + d2 + extra).hex()),
                           "site:challenge-refresh-both-verdicts", "ok %s 1 %s 0 %s ~144" % (chal.hex(), d1.hex(), d2.hex())))
        for exp in "vtw":
            sd = rng.choice([0, 0xFFFFFFFF, rng.getrandbits(32)])
            cs.append(Case("rng.proofseed %s | %s" % (exp, (struct.pack("<I", sd) + extra).hex()), "site:world-seed-" + exp, "%d ~4" % sd))
            sd = rng.choice([0, 0xFFFFFFFF, rng.getrandbits(32), rng.getrandbits(32)])
            cs.append(Case("rng.proofseed.default %s | %s" % (exp, (struct.pack("<I", sd) + extra).hex()), "site:world-seed-default-impl-" + exp, "%d ~4" % sd))
        sd = rng.getrandbits(32)
        cs.append(Case("rng.pinseed | %s" % (struct.pack("<I", sd) + extra).hex(), "site:pin-grid-seed", "%d ~4" % sd))
        x = rbytes(rng, 16)
        cs.append(Case("rng.pinsalt | %s" % (x + extra).hex(), "site:pin-salt", "%s ~16" % x.hex()))
        cs.append(Case("rng.integsalt | %s" % (x + extra).hex(), "site:integrity-salt", "%s ~16" % x.hex()))
        sd = rng.getrandbits(64)
        cs.append(Case("rng.mcseed | %s" % (struct.pack("<Q", sd) + extra).hex(), "site:matrix-card-seed", "%d ~8" % sd))
        d, h, w = rng.randint(1, 3), rng.randint(1, 5), rng.randint(1, 5)
        draws = []
        while len(pyref.uniform_digit_stream(draws)) < d * h * w:
            draws.append(rng.choice([0xFFFFFFFF, 0xFFFFFFFA, 0xFFFFFFF9]) if rng.random() < 0.15 else rng.getrandbits(32))
        dg = pyref.uniform_digit_stream(draws)[:d * h * w]
        cs.append(Case("mc.new %d %d %d | %s" % (d, h, w, (b"".join(struct.pack("<I", v) for v in draws) + extra).hex()), "site:matrix-card-digits",
                       lambda out, dg=dg, k=4 * len(draws): None if out == "ok %s ~%d" % (bytes(dg).hex(), k) and max(dg) <= 9 else "card digits are not the accepted samples / exceed 9"))
    # statistical test against the real ThreadRng (pass-through): a TEST, not a theorem
    ns = 2000 if tier == "quick" else 10000
    for site, width in [("salt", 32), ("b", 32), ("a", 32), ("chal", 16), ("refresh", 16), ("cd", 16), ("seedv", 4), ("seedt", 4), ("seedw", 4), ("seedvd", 4), ("seedtd", 4), ("seedwd", 4),
                        ("integsalt", 16), ("pinsalt", 16), ("pinseed", 4), ("mcseed", 8), ("mcdigits", 32)]:
        def exp(out, site=site, width=width, ns=ns):
            f = dict(t.split("=") for t in out.split(" ") if "=" in t)
            if int(f.get("n", 0)) != ns or int(f.get("width", 0)) != width: return "unexpected shape: " + out
            # 32-bit seeds: a birthday collision among n draws has probability about n^2 / 2^33 (0.05% for 2 000,
            # 1.2% for 10 000), so one or two repeats are not evidence of anything; wider values must never repeat
            allowed = 2 if width <= 4 else 0
            if ns - int(f["distinct"]) > allowed: return "drawn values repeated within %d draws (%s distinct)" % (ns, f["distinct"])
            if site == "mcdigits":
                return None if int(f["min_values_per_byte"]) == 10 and int(f["max_byte"]) == 9 else "card digits do not cover exactly 0..9"
            # B and A are values mod N: the top byte is < 0x8A, all others vary over (nearly) the full range
            need = 120 if site in ("a", "b") else 200
            return None if int(f["min_values_per_byte"]) >= need else "a byte position takes only %s values" % f["min_values_per_byte"]
        cs.append(Case("rng.stat %s %d" % (site, ns), "statistical-test:" + site, exp, dict(impl_only=True)))
    # "a fresh challenge after EVERY attempt": the reconnect histories of C05 (right, wrong, replayed, stale proofs; client data equal to the
    # challenge on offer or to an earlier one), whose expected output contains the challenge after each attempt and the number of bytes drawn
    import importlib
    c05 = importlib.import_module("props.c05") if "props" in __name__ else importlib.import_module("c05")
    for _ in range(120 if tier == "quick" else 4000):
        c = c05.history_case(rng, 12)
        if c: cs.append(c)
    return cs

def nontrivial(case, out):
    return case.line
