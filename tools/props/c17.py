"""C17 — integrity hashes depend only on the concatenated files, salt and key"""
from verif import Case
from gen_util import *
import pyref

MODULES = ["WowSrp.Props.C17", "WowSrp.Props.Source.C17", "WowSrp.Props.Source.Structural.C17", "WowSrp.Props.Source.Shape.C17", "WowSrp.Props.Source.HashesIntegrity"]
THEOREMS = ["C17_all_equal", "C17_generic", "C17_split_indep", "C17_one_buffer", "C17_reconnect", "C17_changed_input_collision", "C17_changed_input_collision_files", "C17_flipped_bit_is_change", "C17_reconnect_changed_salt_collision", "C17_source_layout", "C17_source_no_hidden_state", "C17_source_structural_impls", "C17_changed_files_collision", "C17_changed_input_collision_anysalt", "C17_changed_input_collision_files_anysalt", "C17_source_shapes", "C17_translated_finalise", "C17_translated_checksum", "C17_translated_generic", "C17_translated_windows", "C17_translated_mac", "C17_translated_reconnect"]
RULE = ("byte strings of length 0..4096 (thorough: up to 1 MiB) distributed over the five file arguments in random and boundary ways (empty files, splits at "
        "0, 1, 63, 64, 65 — the SHA-1/HMAC block edges), Windows, Mac and single-buffer entry points + reconnect check, compared with an independent "
        "SHA1(pk | HMAC-SHA1(salt, files)); single-bit changes of a file byte, the salt and the key must change the digest. "
        "distinct = distinct lines; non-trivial = total length >= 1")
EXPLANATION = "theorems (all three entry points = SHA1(pk | HMAC(salt, f1++..++f5)), any two 5-splits agree, reconnect = SHA1(salt | 0^20), changed input => explicit HMAC/SHA-1 collision pair) + differential run + Python oracle"
ASSUMPTIONS = ["the hmac crate's update() is concatenation (exercised by every split in the correspondence run)"]

def split5(rng, data, cuts=None):
    if cuts is None:
        cuts = sorted(rng.randint(0, len(data)) for _ in range(4))
    parts = []
    prev = 0
    for c in cuts + [len(data)]:
        c = max(prev, min(c, len(data)))
        parts.append(data[prev:c]); prev = c
    return parts

def generate(rng, tier):
    cs = []
    n, maxlen = (600, 4096) if tier == "quick" else (8000, 65536)
    # totals at the powers of two where a narrower counter, a block buffer or a window size would wrap (each with both neighbours)
    lens = [0, 1, 63, 64, 65, 127, 128, 129, 255, 256, 257, 511, 512, 513, 1023, 1024, 1025, 4095, 4096, 4097, 65535, 65536, 65537, 131072] + [rng.randint(0, 200) for _ in range(n // 2)] + [rng.randint(0, maxlen) for _ in range(n // 4)]
    if tier == "thorough": lens += [1 << 20, (1 << 20) + 1]
    def special(n):
        r = rng.random()
        if r < 0.7: return rbytes(rng, n)
        k = rng.randint(1, n)
        c = rng.randrange(4)
        if c == 0: return rbytes(rng, n - k) + bytes(k)          # trailing zero bytes
        if c == 1: return bytes(k) + rbytes(rng, n - k)          # leading zero bytes
        if c == 2: return bytes(n)
        return bytes([0xff]) * n
    for L in lens:
        data, salt, pk = rbytes(rng, L), special(16), special(32)
        want = pyref.integrity(data, salt, pk).hex() + " ~0"
        cs.append(Case("integ.gen %s %s %s" % (hx(data), salt.hex(), pk.hex()), "generic", want, dict(n=L)))
        for cuts in (None, [0, 0, 0, 0], [L, L, L, L], [0, 1, min(63, L), min(64, L)], [min(64, L), min(65, L), L, L]):
            f = split5(rng, data, cuts)
            which = rng.choice(["win", "mac"])
            cs.append(Case("integ.%s %s %s %s" % (which, " ".join(hx(x) for x in f), salt.hex(), pk.hex()), which + "-split", want, dict(n=L)))
        if L:
            i = rng.randrange(L * 8); d2 = bytearray(data); d2[i // 8] ^= 1 << (i % 8)
            f = split5(rng, bytes(d2))
            cs.append(Case("integ.win %s %s %s" % (" ".join(hx(x) for x in f), salt.hex(), pk.hex()), "file-bit-flip",
                           lambda out, want=want, d2=bytes(d2), salt=salt, pk=pk: None if out == pyref.integrity(d2, salt, pk).hex() + " ~0" and out != want else "changed file does not change the digest as the definition requires"))
        i = rng.randrange(128); s2 = bytearray(salt); s2[i // 8] ^= 1 << (i % 8)
        cs.append(Case("integ.mac %s %s %s" % (" ".join(hx(x) for x in split5(rng, data)), bytes(s2).hex(), pk.hex()), "salt-bit-flip", pyref.integrity(data, bytes(s2), pk).hex() + " ~0", dict(n=L)))
        i = rng.randrange(256); p2 = bytearray(pk); p2[i // 8] ^= 1 << (i % 8)
        cs.append(Case("integ.gen %s %s %s" % (hx(data), salt.hex(), bytes(p2).hex()), "key-bit-flip", pyref.integrity(data, salt, bytes(p2)).hex() + " ~0", dict(n=L)))
    # the five arguments are FILES: contents that begin or end with a format marker (byte-order marks, executable / plist / XML magics, line
    # ends, NULs) or with a byte string that is a literal of the source under test — in every slot, for both five-file functions. The
    # digest is over the bytes as they are; nothing may be trimmed, skipped or normalised.
    markers = [b"\xef\xbb\xbf", b"\xff\xfe", b"\xfe\xff", b"MZ", b"\x7fELF", b"\xca\xfe\xba\xbe", b"\xcf\xfa\xed\xfe", b"<?xml", b"bplist00", b"\r\n", b"\n", b"\x00", b" ", b"\x1a"]
    markers += [b for b in new_literals()[1]] + [b for b in source_dictionary()[1] if len(b) <= 16]
    for mk in markers:
        for slot in range(5):
            for where in ("head", "tail"):
                f = [rbytes(rng, rng.randint(0, 12)) for _ in range(5)]
                f[slot] = (mk + f[slot]) if where == "head" else (f[slot] + mk)
                salt, pk = rbytes(rng, 16), rbytes(rng, 32)
                want = pyref.integrity(b"".join(f), salt, pk).hex() + " ~0"
                for which in ("win", "mac"):
                    cs.append(Case("integ.%s %s %s %s" % (which, " ".join(hx(x) for x in f), salt.hex(), pk.hex()), "file-%ss-with-a-format-marker" % ("start" if where == "head" else "end"), want, dict(n=sum(map(len, f)))))
    # contents BUILT from the byte strings the change introduced (empty on the unchanged tree): new literal as head, random filling up to every
    # small length the source mentions, new literal (or nothing) as tail — a special case keyed on "starts with X, N bytes long, ends with Y"
    nb = new_literals()[1]
    if nb:
        lens = sorted(set(dict_ints(1, 64)) | set(range(0, 13)))
        for head in nb:
            for tail_ in [b""] + nb:
                for n_ in lens:
                    if n_ < len(head): continue
                    content = head + rbytes(rng, n_ - len(head)) + tail_
                    slot = rng.randrange(5)
                    for slot in sorted(set([slot, 4, 0])):
                        f = [rbytes(rng, rng.randint(0, 6)) for _ in range(5)]
                        f[slot] = content
                        salt, pk = rbytes(rng, 16), rbytes(rng, 32)
                        want = pyref.integrity(b"".join(f), salt, pk).hex() + " ~0"
                        for which in ("win", "mac"):
                            cs.append(Case("integ.%s %s %s %s" % (which, " ".join(hx(x) for x in f), salt.hex(), pk.hex()), "file-built-from-new-source-literals", want, dict(n=sum(map(len, f)))))
    # files with EQUAL contents next to each other, equal files apart, empty files between equal ones, a periodic buffer cut at its period:
    # every file counts, however it compares with its neighbours
    for _ in range(10 if tier == "quick" else 300):
        a_, b_, c_, d_ = (rbytes(rng, rng.randint(1, 20)) for _ in range(4))
        for f in ([a_, b_, b_, c_, d_], [a_, a_, a_, a_, a_], [a_, b_, b"", b_, a_], [b_, b_, c_, c_, d_], [a_, b"", b"", a_, a_], [b_[:1]] * 5):
            salt, pk = rbytes(rng, 16), rbytes(rng, 32)
            want = pyref.integrity(b"".join(f), salt, pk).hex() + " ~0"
            for which in ("win", "mac"):
                cs.append(Case("integ.%s %s %s %s" % (which, " ".join(hx(x) for x in f), salt.hex(), pk.hex()), "equal-files-next-to-each-other", want, dict(n=sum(map(len, f)))))
    # calls in a row with the same salt and same-length but different contents (nothing may be remembered between calls),
    # and the two key values the SRP code refuses (the integrity hash has no such exception)
    for L in (1, 50, 64, 300):
        salt, pk = rbytes(rng, 16), rbytes(rng, 32)
        for _ in range(6):
            data = rbytes(rng, L)
            cs.append(Case("integ.gen %s %s %s" % (hx(data), salt.hex(), pk.hex()), "same-salt-same-length-sequence", pyref.integrity(data, salt, pk).hex() + " ~0", dict(n=L)))
            cs.append(Case("integ.win %s %s %s" % (" ".join(hx(x) for x in split5(rng, data)), salt.hex(), pk.hex()), "same-salt-same-length-sequence", pyref.integrity(data, salt, pk).hex() + " ~0", dict(n=L)))
    for pk in (bytes(32), pyref.N_LE, bytes([0xff]) * 32):
        for _ in range(4):
            data, salt = rbytes(rng, rng.randint(0, 100)), rbytes(rng, 16)
            which = rng.choice(["win", "mac"])
            cs.append(Case("integ.gen %s %s %s" % (hx(data), salt.hex(), pk.hex()), "key-zero-or-N", pyref.integrity(data, salt, pk).hex() + " ~0", dict(n=len(data))))
            cs.append(Case("integ.%s %s %s %s" % (which, " ".join(hx(x) for x in split5(rng, data)), salt.hex(), pk.hex()), "key-zero-or-N", pyref.integrity(data, salt, pk).hex() + " ~0", dict(n=len(data))))
    for _ in range(200):
        salt = special(16)
        cs.append(Case("integ.recon " + salt.hex(), "reconnect", pyref.integrity_reconnect(salt).hex() + " ~0"))
    return cs

def nontrivial(case, out):
    if case.meta and case.meta.get("n") == 0: return None
    return case.line
