"""C02 — wrong credentials or any altered handshake value are always rejected"""
from verif import Case
from gen_util import *
from srp_cases import *
import pyref

MODULES = ["WowSrp.Props.C02", "WowSrp.Props.C02Password", "WowSrp.Props.Source.C02", "WowSrp.Props.Source.Structural.C02", "WowSrp.Props.Source.Glue.Srp", "WowSrp.Props.Source.Shape.C02", "WowSrp.Props.Source.HashesSrp", "WowSrp.Props.Source.ApiIntoServer", "WowSrp.Props.Source.ApiClient", "WowSrp.Props.Source.C13Ctors", "WowSrp.Props.Source.ApiLinkedLogin", "WowSrp.Props.Source.ApiLinkedClient"]
THEOREMS = ["C02_server_eq", "C02_server_iff", "C02_server_error", "C02_server_panic", "C02_client_eq", "C02_client_iff", "C02_client_error", "C02_M1_layout", "C02_client_M1", "C02_changed_bit_refused", "C02_flipped_M1_refused", "C02_changed_bit_refused_M2", "C02_flipped_M2_refused", "C02_changed_field_gives_collision", "C02_changed_username_gives_collision", "C02_changed_field_accepted_gives_collision", "C02_wrong_password_partial", "C02_source_whole_array_equality", "C02_source_layout_M1", "C02_source_structural_impls", "C02_source_glue_srp", "C02_accepted_text_inj", "C02_x_collision", "C02_residual_is_congruence", "C02_wrong_password_three_way_of_text", "C02_wrong_password_three_way", "C02_interleave_collision", "C02_session_key_collision", "C02_wrong_username_collision", "C02_wrong_username_three_way", "C02_source_shapes", "C02_translated_client_proof", "C02_translated_server_proof", "C02_translated_calculate_x", "C02_translated_into_server", "C02_translated_verify_server_proof", "C13_source_constructors_delegate", "C02_linked_into_server", "C02_translated_into_server_signature", "C03_translated_client_signatures", "C02_linked_verify_server_proof"]
RULE = ("per baseline session (shared injected salt, a, b): all 160 single-bit changes of M1 and of M2, every single-bit change of A, "
        "of B and of the salt (3 x 256), other passwords / usernames including case-only variants (which must succeed), prefixes, "
        "suffixes; decision and both error fields recomputed independently. distinct = distinct lines; non-trivial = perturbed cases")
EXPLANATION = "exact-decision theorems (accepted iff presented proof equals the computed one; error carries both proofs), injectivity of the M1 layout giving explicit collision witnesses, + differential run + Python oracle"
ASSUMPTIONS = ["no collision resistance assumed anywhere: changed-field theorems return explicit collision pairs"]

def flip(b, i):
    x = bytearray(b); x[i // 8] ^= 1 << (i % 8); return bytes(x)

def server_line(user, v32, salt, A32, m1, b, chal):
    return "srv.server %s %s %s %s %s | %s%s" % (enc(user), v32.hex(), salt.hex(), A32.hex(), m1.hex(), b.hex(), chal.hex())

def server_expect(U, v, salt, A32, m1, b, chal):
    """independent: what the server must answer"""
    if A32 == Z32: return "badA zero ~32"
    if A32 == N_LE: return "badA modzero ~32"
    B = pyref.server_B(v, pyref.le(b))
    B32 = le32(B)
    u = pyref.calc_u(A32, B32)
    S = pyref.server_S(pyref.le(A32), v, u, pyref.le(b))
    K = pyref.interleave(le32(S))
    m1s = pyref.M1(U, salt, A32, B32, K)
    if m1 == m1s:
        return "ok %s %s %s ~48" % (K.hex(), pyref.M2(A32, m1s, K).hex(), chal.hex())
    return "err %s %s ~32" % (m1.hex(), m1s.hex())

def generate(rng, tier):
    cs = []
    nsess = 6 if tier == "quick" else 120
    bits_per = 256
    for si in range(nsess):
        us, ps = cred(rng), cred(rng)
        salt, b, a, chal = rbytes(rng, 32), rbytes(rng, 32), rbytes(rng, 32), rbytes(rng, 16)
        s = pyref.Session(us, ps, salt, b, a)
        if s.A % N == 0 or s.B % N == 0: continue
        v32 = le32(s.v)
        U = s.U
        def srv(A32, m1, kind):
            cs.append(Case(server_line(us, v32, salt, A32, m1, b, chal), kind, server_expect(U, s.v, salt, A32, m1, b, chal)))
        srv(s.A32, s.M1, "baseline-accept")
        for i in range(160):
            srv(s.A32, flip(s.M1, i), "M1-bit-flip")
        for i in range(256):
            srv(flip(s.A32, i), s.M1, "A-bit-flip")
        for m in two_place_flips(rng, s.M1):
            srv(s.A32, m, "M1-two-place-change")
        for m in two_place_flips(rng, s.A32, 6):
            srv(m, s.M1, "A-two-place-change")
        # the all-zero proof and other constant proofs (also what a lazy client sends)
        for m in (bytes(20), b"\xff" * 20, bytes(19) + b"\x01"):
            srv(s.A32, m, "M1-constant")
        # a public key that is congruent to A modulo N but has different bytes (A + N fits in 32 bytes for A < 2^256 - N)
        if s.A + N < (1 << 256):
            srv((s.A + N).to_bytes(32, "little"), s.M1, "A-plus-N-same-residue")
        # B altered in transit: the client computes with B'
        for i in range(0, 256, 1 if tier == "thorough" else 4):
            Bp = flip(s.B32, i)
            if Bp in (Z32, N_LE): continue
            e = client_expect(us, ps, 7, N, Bp, salt, a)
            if e is None: continue
            srv(s.A32, e["M1"], "B-bit-flip")
        for i in range(0, 256, 1 if tier == "thorough" else 4):
            sp = flip(salt, i)
            e = client_expect(us, ps, 7, N, s.B32, sp, a)
            srv(s.A32, e["M1"], "salt-bit-flip")
        # other credentials on the client
        variants = [(flipcase(rng, us), flipcase(rng, ps), "case-only-variant(accept)")]
        for _ in range(6):
            variants.append((us, cred(rng), "other-password"))
            variants.append((cred(rng), ps, "other-username"))
        if len(ps) > 1: variants.append((us, ps[:-1], "password-prefix"))
        if len(ps) < 16: variants.append((us, ps + "x", "password-suffix"))
        if len(us) > 1: variants.append((us[:-1], ps, "username-prefix"))
        if len(us) < 16: variants.append((us + "x", ps, "username-suffix"))
        for uc, pc, kind in variants:
            e = client_expect(uc, pc, 7, N, s.B32, salt, a)
            # the server looks the account up by the name the client sent: for another username the server
            # uses ITS stored record (username us) and must reject
            srv(s.A32, e["M1"], kind)
        # over-long credentials that BEGIN with the right ones (total length = real length + 256*k): refused before anything else happens
        for pad in (256, 512, 768, 65536):
            for uc, pc, kind in ((us, ps + "x" * pad, "over-long-password-with-right-prefix"), (us + "Y" * pad, ps, "over-long-username-with-right-prefix"),
                                 (us, ps + " " * pad, "over-long-password-with-right-prefix")):
                cs.append(Case(login_line(us, ps, uc, pc, 0, salt, b, a, chal), kind, "fail credentials ~0"))
        # client side: M2 flips
        base = "%s %s 7 %s %s %s" % (enc(us), enc(ps), N_LE.hex(), s.B32.hex(), salt.hex())
        cs.append(Case("cli.verify %s %s | %s" % (base, s.M2.hex(), a.hex()), "baseline-accept-M2", "ok %s ~32" % s.K.hex()))
        for i in range(160):
            m2p = flip(s.M2, i)
            cs.append(Case("cli.verify %s %s | %s" % (base, m2p.hex(), a.hex()), "M2-bit-flip", "err %s %s ~32" % (s.M2.hex(), m2p.hex())))
        for m2p in two_place_flips(rng, s.M2):
            cs.append(Case("cli.verify %s %s | %s" % (base, m2p.hex(), a.hex()), "M2-two-place-change", "err %s %s ~32" % (s.M2.hex(), m2p.hex())))
    # proofs computed over OTHER ENCODINGS of the right numbers are not the proof: sessions whose A (small private key) or B has high-order
    # zero bytes, with M1 hashed over the zero-stripped / big-endian / reversed forms of A, B, K, the salt
    for a_small in ([1, 2, 3, 5, 40] if tier == "quick" else list(range(1, 60))):
        us, ps = cred(rng), cred(rng)
        salt, b, chal = rbytes(rng, 32), rbytes(rng, 32), rbytes(rng, 16)
        a = a_small.to_bytes(32, "little")
        s = pyref.Session(us, ps, salt, b, a)
        if s.A % N == 0 or s.B % N == 0: continue
        v32 = le32(s.v)
        strip = lambda x: x.rstrip(b"\0")
        alts = [pyref.M1(s.U, salt, strip(s.A32), s.B32, s.K), pyref.M1(s.U, salt, strip(s.A32), strip(s.B32), s.K), pyref.M1(s.U, salt, s.A32[::-1], s.B32[::-1], s.K),
                pyref.M1(s.U, salt, s.A32, s.B32, s.K[::-1]), pyref.M1(s.U, salt[::-1], s.A32, s.B32, s.K), pyref.M1(s.U.lower(), salt, s.A32, s.B32, s.K),
                pyref.M1(s.U, strip(salt), s.A32, s.B32, s.K)]
        cs.append(Case(server_line(us, v32, salt, s.A32, s.M1, b, chal), "small-A-baseline-accept", server_expect(s.U, s.v, salt, s.A32, s.M1, b, chal)))
        for m in alts:
            if m != s.M1:
                cs.append(Case(server_line(us, v32, salt, s.A32, m, b, chal), "M1-over-another-encoding", server_expect(s.U, s.v, salt, s.A32, m, b, chal)))
        # and the same on the client: a server proof M2 hashed over another encoding of A, M1 or K is not the server proof
        base = "%s %s 7 %s %s %s" % (enc(us), enc(ps), N_LE.hex(), s.B32.hex(), salt.hex())
        cs.append(Case("cli.verify %s %s | %s" % (base, s.M2.hex(), a.hex()), "small-A-baseline-accept-M2", "ok %s ~32" % s.K.hex()))
        for m2p in (pyref.M2(strip(s.A32), s.M1, s.K), pyref.M2(s.A32[::-1], s.M1, s.K), pyref.M2(strip(s.A32)[::-1], s.M1, s.K), pyref.M2(s.A32, s.M1[::-1], s.K),
                    pyref.M2(s.A32, s.M1, s.K[::-1]), pyref.M2(s.A32, s.M1, strip(s.K)), pyref.sha1(s.A32, s.M1), pyref.M2(s.B32, s.M1, s.K)):
            if m2p != s.M2:
                cs.append(Case("cli.verify %s %s | %s" % (base, m2p.hex(), a.hex()), "M2-over-another-encoding", "err %s %s ~32" % (s.M2.hex(), m2p.hex())))
    # sessions whose B has a zero top byte need a search over b (1 in 256)
    found = 0
    for _ in range(3000):
        if found >= (2 if tier == "quick" else 20): break
        us, ps = cred(rng), cred(rng)
        salt, b, a, chal = rbytes(rng, 32), rbytes(rng, 32), rbytes(rng, 32), rbytes(rng, 16)
        s = pyref.Session(us, ps, salt, b, a)
        if s.B32[31] != 0 or s.A % N == 0 or s.B % N == 0: continue
        found += 1
        m = pyref.M1(s.U, salt, s.A32, s.B32.rstrip(b"\0"), s.K)
        cs.append(Case(server_line(us, le32(s.v), salt, s.A32, m, b, chal), "M1-over-another-encoding", server_expect(s.U, s.v, salt, s.A32, m, b, chal)))
    # credentials that LOOK like the right ones: characters whose Unicode upper-casing is ASCII (long s, dotless i, sharp s, ligatures, Kelvin
    # sign), through every constructor on the client side (tens digit of the last argument)
    for us, ps in (("bob", "password1"), ("fisher", "kiss"), ("alice", "strasse")):
        salt, b, a, chal = rbytes(rng, 32), rbytes(rng, 32), rbytes(rng, 32), rbytes(rng, 16)
        for ctor in range(5):
            for uc, pc in ((us, ps.replace("s", "\u017f")), (us.replace("i", "\u0131"), ps), (us, ps.replace("ss", "\u00df")), (us.replace("fi", "\ufb01"), ps), (us, ps.replace("k", "\u212a"))):
                if (uc, pc) != (us, ps):
                    cs.append(Case(login_line(us, ps, uc, pc, 10 * ctor, salt, b, a, chal), "unicode-lookalike-credentials", "fail credentials ~0"))
            # ... or that are the right ones plus something a lenient constructor might strip: trailing / leading NUL (a C string, a
            # zero-padded field), line ends, DEL, a non-breaking space — every one is a refused credential, through every constructor
            for pad in ("\0", "\0\0\0", "\n", "\r\n", "\t", "\x7f", "\u00a0"):
                for uc, pc in ((us, ps + pad), (us + pad, ps), (us, pad + ps), (us, (ps + pad * 16)[:16])):
                    cs.append(Case(login_line(us, ps, uc, pc, 10 * ctor, salt, b, a, chal), "padded-credentials", "fail credentials ~0"))
            cs.append(Case(login_line(us, ps, us.upper(), ps.upper(), 10 * ctor + 1, salt, b, a, chal), "client-constructor-%d-accepts" % ctor, None))
    return cs

def nontrivial(case, out):
    return None if case.kind.startswith("baseline") else case.line
