"""C04 — public keys are refused exactly when they are congruent to zero modulo N"""
from verif import Case
from gen_util import *
import pyref
N = pyref.N; NLE = pyref.N_LE

MODULES = ["WowSrp.Props.C04", "WowSrp.Props.Source.Glue.Srp", "WowSrp.Props.Source.Structural.C04"]
THEOREMS = ["C04_constants", "C04_accept_iff", "C04_accept_unchanged", "C04_err_zero", "C04_err_mod", "C04_only_two", "C04_refused_iff_mod_zero", "C04_exactly_two", "C04_server_self", "C04_server_key", "C04_client_key", "C04_client_zero_modulus", "C04_client_self", "C04_source_glue_srp", "C04_source_structural_impls"]
RULE = ("32-byte arrays: members of the 2^32 family 'every byte is 0 or N's byte' (all 32 one-byte and 496 two-byte "
        "members, random members, sweeps of 10^5..5*10^6 members digested on both sides), arrays within 1-3 bytes of 0 and "
        "of N, N+-1, 2N mod 2^256, random; the server's own B steered to any target t through v=(t-7)/3 mod N, b=1; the "
        "client's own A under announced moduli for which g^a = 0 mod N'. distinct = distinct arrays; non-trivial = not the all-random class")
EXPLANATION = "decision theorems (accept iff value is neither 0 nor N; error kinds; only two multiples of N below 2^256; server/client self-check) + differential run + independent oracle 'Err iff array is 0 or N'"
ASSUMPTIONS = ["array equality and iterator all() modelled as list operations"]

def expect_pk(key):
    if key == bytes(32): return "err zero ~0"
    if key == NLE: return "err modzero ~0"
    return "ok %s ~0" % key.hex()

def pk_case(key, kind):
    return Case("pk.from " + key.hex(), kind, expect_pk(key))

def generate(rng, tier):
    cs = [pk_case(bytes(32), "zero"), pk_case(NLE, "N")]
    for d in (1, 2, 3, 255, 256, 65536, 1 << 248):
        for base in (0, N):
            for s in (1, -1):
                v = (base + s * d) % (1 << 256)
                cs.append(pk_case(v.to_bytes(32, "little"), "near-0-or-N"))
    cs.append(pk_case(((2 * N) % (1 << 256)).to_bytes(32, "little"), "2N-mod-2^256"))
    for i in range(32):
        k = bytearray(32); k[i] = NLE[i]
        cs.append(pk_case(bytes(k), "family-1byte"))
        k = bytearray(NLE); k[i] = 0
        cs.append(pk_case(bytes(k), "family-31bytes"))
        for j in range(i + 1, 32):
            k = bytearray(32); k[i] = NLE[i]; k[j] = NLE[j]
            cs.append(pk_case(bytes(k), "family-2byte"))
    for i in range(32):          # one byte different from N / from zero
        for delta in (1, 0x80, 0xff):
            k = bytearray(NLE); k[i] ^= delta
            cs.append(pk_case(bytes(k), "N-one-byte-changed"))
            k = bytearray(32); k[i] ^= delta
            cs.append(pk_case(bytes(k), "zero-one-byte-changed"))
    # relatives of N and of 0 under word-level symmetries (a comparison done on words, halves, folds or
    # with combined differences must still single out exactly N)
    rel = [NLE[16:] + NLE[:16], NLE[::-1], bytes(a ^ b for a, b in zip(NLE[:16], NLE[16:])) + bytes(16),
           bytes(16) + bytes(a ^ b for a, b in zip(NLE[:16], NLE[16:])), NLE[:16] + bytes(16), bytes(16) + NLE[16:],
           NLE[:16] + NLE[:16], NLE[16:] + NLE[16:], bytes(NLE[i ^ 1] for i in range(32)), bytes(b ^ 0xff for b in NLE)]
    for k in rel:
        cs.append(pk_case(k, "N-symmetry-relative"))
    for w in (2, 4, 8, 16):
        for i in range(0, 32 - w, max(1, w // 2)):
            for delta in (1, 0x80, rng.randint(1, 255)):
                k = bytearray(NLE); k[i] ^= delta; k[i + w] ^= delta       # same change in two places one word apart
                cs.append(pk_case(bytes(k), "N-same-delta-two-places"))
                k = bytearray(32); k[i] ^= delta; k[i + w] ^= delta
                cs.append(pk_case(bytes(k), "zero-same-delta-two-places"))
    n = 3000 if tier == "quick" else 100000
    for _ in range(n):
        mask = rng.getrandbits(32)
        k = bytes(NLE[i] if (mask >> i) & 1 else 0 for i in range(32))
        cs.append(pk_case(k, "family-random"))
    for _ in range(n // 3):
        cs.append(pk_case(rbytes(rng, 32), "random"))
    # sweeps, digest-summarised; the oracle recomputes the counts: members other than mask 0 / mask 2^32-1 are accepted
    for s in range(4 if tier == "quick" else 16):
        cnt = 100000 if tier == "quick" else 1000000
        seed = rng.getrandbits(40)
        def exp(out, seed=seed, cnt=cnt):
            # recompute which members are 0 / N
            x = seed; z = m = 0
            for _ in range(cnt):
                x = (x * 6364136223846793005 + 1442695040888963407) & ((1 << 64) - 1)
                mask = (x >> 16) & 0xffffffff
                if mask == 0: z += 1
                elif mask == 0xffffffff: m += 1
            want = "ok=%d zero=%d mod=%d ~0" % (cnt - z - m, z, m)
            return None if out.split(" ", 2)[2] == want else "sweep counts differ: expected " + want
        cs.append(Case("pk.sweep %d %d" % (seed, cnt), "family-sweep", exp))
    # server's own B: v := (t - 7) / 3 mod N, b := 1  =>  B = t
    inv3 = pow(3, -1, N)
    for t in [0, 1, 2, N - 1, 183, 0x9b00] + [rng.randrange(N) for _ in range(20)]:
        v = ((t - 7) * inv3) % N
        b = (1).to_bytes(32, "little")
        line = "srv.proof 41 %s %s | %s" % (v.to_bytes(32, "little").hex(), bytes(32).hex(), b.hex())
        exp = "panic" if t % N == 0 else "ok %s %s ~32" % (t.to_bytes(32, "little").hex(), bytes(32).hex())
        cs.append(Case(line, "server-self-B", exp))
    # client's own A relative to an announced modulus: g^a = 0 mod N' (e.g. N' | g^a) must panic, else A = g^a mod N'
    B = (5).to_bytes(32, "little").hex()
    for g, np, a in [(1, 6, 5), (1, N, 7), (7, 6, 3), (3, 16, 4), (2, 4, 1), (3, 9, 1), (5, 25, 1), (2, 6, 1), (4, 12, 1), (255, 510, 1), (13, 13 * 17, 1),
                     (2, 8, 3), (2, 8, 2), (6, 36, 2), (6, 36, 1), (7, 49, 2), (7, 49, 1), (7, 1, 5), (10, 1000, 3), (10, 1000, 2), (255, 255, 1), (255, 65025, 2)]:
        A = pow(g, a, np)
        line = "cli.new 41 42 %d %s %s %s | %s" % (g, np.to_bytes(32, "little").hex(), B, bytes(32).hex(), a.to_bytes(32, "little").hex())
        if A == 0:
            cs.append(Case(line, "client-self-A-zero", "panic"))
        else:
            cs.append(Case(line, "client-self-A", lambda out, A=A: None if out.startswith("ok " + A.to_bytes(32, "little").hex() + " ") else "client A is not g^a mod N'"))
    # the client's own key against the announced modulus is a test of the NUMBER g^a mod N', not of its serialized bytes: keys that are
    # short (high-order zero bytes) and coincide with the low-order bytes of N', keys that are a byte-prefix / suffix / rotation of N'
    def self_case(g, np, a, kind):
        A = pow(g, a, np)
        line = "cli.new 41 42 %d %s %s %s | %s" % (g, np.to_bytes(32, "little").hex(), B, bytes(32).hex(), a.to_bytes(32, "little").hex())
        if A == 0:
            cs.append(Case(line, kind + "-zero", "panic"))
        else:
            cs.append(Case(line, kind, lambda out, A=A: None if out.startswith("ok " + A.to_bytes(32, "little").hex() + " ") else "client A is not g^a mod N'"))
    for g in [1, 2, 7, 16, 128, 255] + [rng.randint(1, 255) for _ in range(6)]:
        for nbytes in (1, 2, 8, 31):
            r = rng.getrandbits(8 * nbytes) | 1
            self_case(g, g + 256 * r, 1, "client-self-A-is-low-byte-of-N'")             # A = g = N' mod 256
        self_case(g, g * g + 65536 * (rng.getrandbits(64) | 1), 2, "client-self-A-is-low-bytes-of-N'")   # A = g^2 = N' mod 65536
    for np in (257, 65537, N, N - 1, (1 << 255) + 1):
        for g, a in ((1, 5), (16, 2), (16, 1), (2, 8), (2, 16), (4, 4)):
            self_case(g, np, a, "client-self-A-small-under-special-N'")
    # the client's own key is zero as a NUMBER, not in its low machine words: announced moduli m * 2^k (m odd > 1) with an even generator
    # make A = g^a mod N' a non-zero value whose low k bits are all zero (k = 8, 16, 32, 64, 128, 192)
    for k in (8, 16, 32, 64, 128, 192):
        for m in (3, 5, 255, (rng.getrandbits(32) | 1) + 2):
            for g in (2, 4, 6, 254):
                for a in (k, k + 1, 255):
                    if m * (1 << k) < (1 << 256):
                        self_case(g, m << k, a, "client-self-A-low-%d-bits-zero" % k)
    return cs

def nontrivial(case, out):
    return None if case.kind == "random" else case.line
