"""C14 — peer-controlled bytes can never crash the server or the client"""
from verif import Case
from gen_util import *
from srp_cases import *
import pyref, pyhdr, struct, re

MODULES = ["WowSrp.Props.C14", "WowSrp.Props.Source.Facade", "WowSrp.Props.Source.StripRule", "WowSrp.Props.Source.Glue.Vanilla", "WowSrp.Props.Source.Glue.Tbc", "WowSrp.Props.Source.Glue.Wrath", "WowSrp.Props.Source.Glue.Srp", "WowSrp.Props.Source.Structural.C14", "WowSrp.Props.Source.Shape.C14", "WowSrp.Props.Source.Interleave"]
THEOREMS = ["C14_server_register", "C14_server_login", "C14_server_login_api", "C14_server_secret", "C14_interleaved", "C14_into_proof", "C14_into_proof_only_documented", "C14_with_specific_private_key", "C14_server_reconnect", "C14_client", "C14_client_verify", "C14_client_reconnect", "C14_client_zero_secret", "C14_client_announced", "C14_client_announced_zero", "C14_world_server", "C14_world_client", "C14_world_wrath_server", "C14_world_wrath_client", "C14_rc4_new", "C14_headers_fresh", "C14_headerKeyOk_vanilla", "C14_headerKeyOk_tbc", "C14_headers", "C14_headers_history", "C14_headers_chunks", "C14_headers_facade", "C14_wrath_client", "C14_wrath_server", "C14_wrath_server_enc", "C14_wrath_history", "C14_source_facade_delegates", "C14_headers_facade_io", "C14_translated_strip_rule", "C14_source_glue_vanilla", "C14_source_glue_tbc", "C14_source_glue_wrath", "C14_source_glue_srp", "C14_source_structural_impls", "C14_source_shapes", "C14_translated_interleaved"]
RULE = ("every public call under catch_unwind with adversarial peer-controlled values: server: A in {1, 2, N-1, N+1, 2^256-1, many-zero-byte encodings, random} x verifiers "
        "{1, 2, N-1, random} x random M1, reconnect data/proofs, world-login proofs/seeds; client (built-in group): B = k*v mod N (drives S to 0), k*v +- 1, B >= N, "
        "1, N-1, special salts, random M2; random header garbage of random length on all decrypt / read entry points of the three expansions. The outcome must be "
        "Ok/Err/bool, never a panic (the values themselves are compared with the model only). distinct = distinct lines; non-trivial = all")
EXPLANATION = "no-panic theorems over the panic-explicit model (every Rust panic site is an explicit outcome; S = 0 handled by the bounded scan; N prime) + differential run + catch_unwind oracle"
ASSUMPTIONS = ["allocation failure / stack overflow are outside the model"]

def no_panic(out):
    if out.startswith("panic") or out.startswith("<no-output") or out == "rng-exhausted" or out == "bad-op":
        return "call did not return an orderly result: " + out
    return None

def generate(rng, tier):
    cs = []
    n = 150 if tier == "quick" else 20000
    As = [1, 2, 3, N - 1, N - 2, N + 1, N + 2, (1 << 256) - 1, (1 << 255), 256, 1 << 248, 0x0100000000000000000000000000000000000000000000000000000000000000 >> 8]
    vs = [1, 2, N - 1, N - 2, 3]
    for _ in range(n):
        us = cred(rng); U = pyref.normalize(us).encode()
        v = rng.choice(vs) if rng.random() < 0.5 else rng.randrange(1, N)
        A = rng.choice(As) if rng.random() < 0.6 else pyref.le(special32(rng))
        salt, b, chal = special32(rng), special32(rng), rbytes(rng, 16)
        if pyref.server_B(v, pyref.le(b)) == 0: continue
        if rng.random() < 0.08:
            A = pyref.server_B(v, pyref.le(b))          # the peer has seen B before it sends A: it can send it back
        A32 = A.to_bytes(32, "little")
        m1 = rbytes(rng, 20) if rng.random() < 0.8 else rng.choice([bytes(20), b"\xff" * 20, bytes(19) + b"\x01", b"\x01" + bytes(19)])   # constant proofs too
        from props.c02 import server_expect
        cs.append(Case("srv.server %s %s %s %s %s | %s%s" % (enc(us), le32(v).hex(), salt.hex(), A32.hex(), m1.hex(), b.hex(), chal.hex()), "server-adversarial-A-M1", no_panic))
    # client: values that drive intermediate results to 0, 1, N-1
    for _ in range(n):
        us, ps = cred(rng), cred(rng)
        salt, a = special32(rng), special32(rng)
        U = pyref.normalize(us).encode(); P = pyref.normalize(ps).encode()
        x = pyref.calc_x(U, P, salt); v = pow(7, x, N)
        r = rng.random()
        if r < 0.3: B = (3 * v) % N; kind = "client-B=k*v(S=0)"
        elif r < 0.45: B = (3 * v + 1) % N; kind = "client-B=k*v+1(S=1)"
        elif r < 0.6: B = (3 * v - 1) % N; kind = "client-B=k*v-1"
        elif r < 0.7: B = (3 * v) % N + N if (3 * v) % N + N < (1 << 256) else 1; kind = "client-B>=N"
        elif r < 0.8: B = rng.choice([1, N - 1, N + 1, (1 << 256) - 1, 1 << 255]); kind = "client-B-special"
        else: B = pyref.le(special32(rng)); kind = "client-B-random"
        B32 = B.to_bytes(32, "little")
        if B32 in (Z32, N_LE): continue
        e = client_expect(us, ps, 7, N, B32, salt, a)
        if e is None: continue
        base = "%s %s 7 %s %s %s" % (enc(us), enc(ps), N_LE.hex(), B32.hex(), salt.hex())
        cs.append(Case("cli.new %s | %s" % (base, a.hex()), kind, no_panic))
        m2 = rbytes(rng, 20) if rng.random() < 0.6 else e["M2"] if rng.random() < 0.7 else rng.choice([bytes(20), b"\xff" * 20])
        cs.append(Case("cli.verify %s %s | %s" % (base, m2.hex(), a.hex()), kind + "-verify", no_panic))
    # runs of refused reconnect attempts past 2^8 (thorough: past 2^16) on one session: only the NUMBER of earlier failures differs
    from props.c05 import refusal_run_case
    for run in ([256, 300] if tier == "quick" else [256, 300, 65536]):
        c = refusal_run_case(rng, run, 2)
        cs.append(Case(c.line, "reconnect-run-of-%d-refusals" % run, no_panic))
    # reconnect garbage
    for _ in range(n // 3):
        us, ps = cred(rng), cred(rng)
        k = rng.randint(1, 6)
        toks = " ".join(rbytes(rng, 16).hex() + " " + rbytes(rng, 20).hex() for _ in range(k))
        cs.append(Case("recon %s %s %d %s | %s" % (enc(us), enc(ps), k, toks, rbytes(rng, 112 + 16 * k).hex()), "reconnect-garbage", no_panic))
    # world login garbage
    for _ in range(n // 3):
        exp = rng.choice("vtw")
        cs.append(Case("world.srv %s %s %s %s %d | %s" % (exp, enc(cred(rng)), special_key(rng).hex(), (rbytes(rng, 20) if rng.random() < 0.8 else rng.choice([bytes(20), b"\xff" * 20])).hex(), rng.choice([0, 0xFFFFFFFF, rng.getrandbits(32)]), rbytes(rng, 4).hex()),
                       "world-garbage-" + exp, no_panic))
    # header garbage, any order and amount
    for _ in range(n):
        exp, role = rng.choice([("v", "s"), ("t", "s"), ("w", "s"), ("w", "c")])
        K = special_key(rng)
        ops = []
        for _ in range(rng.randint(1, 25)):
            r = rng.randrange(8)
            if r == 0: ops.append("d:" + hx(rbytes(rng, rng.choice([0, 1, 3, 4, 5, 6, 7, 39, 40, 41, 300]))))
            elif r == 1: ops.append("ds:" + rbytes(rng, 4).hex())
            elif r == 2: ops.append("dc:" + rbytes(rng, 6).hex())
            elif r == 3: ops.append("at:" + rbytes(rng, 4).hex())
            elif r == 4: ops.append("lg:" + rbytes(rng, 1).hex())
            elif r == 5:
                evs = []
                for _ in range(rng.randint(0, 5)):
                    q = rng.randrange(5)
                    evs.append("D" + rbytes(rng, rng.randint(0, 7)).hex() if q < 2 else "I" if q == 2 else "E%d" % rng.choice([3, 6, 7, 11, 12]) if q == 3 else "Z")
                ops.append(rng.choice(["rs:", "rc:"]) + (",".join(evs) or "-"))
            elif r == 6: ops.append("e:" + hx(rbytes(rng, rng.randint(0, 50))))
            else: ops.append(rng.choice(["split", "clone", "pr"]))
        ops.append("pr")
        cs.append(Case("hdr %s %s %s %s" % (exp, role, K.hex(), " ".join(ops)), "header-garbage-" + exp + role, no_panic))
    # well-formed traffic with boundary sizes / opcodes (size 0..3, opcode >= 0x10000, large headers) through every entry point,
    # with injected reader / writer failures: a peer chooses those values too
    import hdr_mix
    for c in hdr_mix.cases(rng, Case, [("v", "s"), ("v", "c"), ("t", "s"), ("t", "c"), ("w", "s"), ("w", "c")], 40 if tier == "quick" else 2000, 80, kind_prefix="wellformed-mixed", faults=0.25, special_key=special_key):
        c.expect = no_panic
        cs.append(c)
    # a reader that ends (or fails) exactly after the four bytes of what decrypts to a large-header marker
    for _ in range(n):
        K = special_key(rng)
        tail = rng.choice(["", ",Z", ",E3", ",I", ",D", ",I,Z"])
        ops = ["rs:D%s%s" % (rbytes(rng, 4).hex(), tail), "pr", "rs:D%s" % rbytes(rng, rng.randint(0, 6)).hex(), "pr"]
        cs.append(Case("hdr w c %s %s" % (K.hex(), " ".join(ops)), "wrath-client-read-ends-after-4", no_panic))
    return cs

def in_domain(line):
    """the property's own restrictions: client calls only with the built-in group; server calls only for a stored verifier that is not a
    multiple of N (for those the server's own public key can be 0: the documented `into_proof` panic).  The generic relation layer
    (tools/verif.py) replaces arguments by all-zero / 0xFF / reversed values and so leaves this domain; those lines are still compared
    with the model and the reference, but "never a panic" is not claimed for them."""
    a = line.partition(" | ")[0].split()
    try:
        if a[0] in ("cli.new", "cli.verify") and len(a) > 4 and (a[3] != "7" or a[4] != N_LE.hex()):
            return False
        if a[0] in ("srv.proof", "srv.server") and len(a) > 2 and re.fullmatch(r"[0-9a-f]{64}", a[2]):
            if pyref.le(bytes.fromhex(a[2])) % N == 0:
                return False
    except Exception:
        pass
    return True

def check_output(case, out):
    if isinstance(case.meta, dict) and case.meta.get("sib") and not in_domain(case.line):
        return None
    return no_panic(out)

def nontrivial(case, out):
    return case.line
