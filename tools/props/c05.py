"""C05 — reconnect proofs verify only against the current, single-use challenge"""
from verif import Case
from gen_util import *
from srp_cases import *
import pyref

MODULES = ["WowSrp.Props.C05", "WowSrp.Props.Source.C05", "WowSrp.Props.Source.Structural.C05", "WowSrp.Props.Source.Shape.C05", "WowSrp.Props.Source.HashesReconnect", "WowSrp.Props.Source.ApiReconnect", "WowSrp.Props.Source.ApiLinkedReconnect"]
THEOREMS = ["C05_verdict", "C05_proof_layout", "C05_verdict_iff", "C05_refresh", "C05_history_list", "C05_history", "C05_state_after", "C05_legit_forever", "C05_legit_run", "C05_changed_proof_refused", "C05_flipped_proof_refused", "C05_flipped_proof_refused_160", "C05_other_inputs_collision", "C05_replay", "C05_replay_in_history", "C05_wrong_key", "C05_wrong_username", "C05_changed_client_data", "C05_source_layout", "C05_source_structural_impls", "C05_challenge_width", "C05_draws_are_segments", "C05_draws_width", "C05_history_rng", "C05_replay_refused_when_draws_distinct", "C05_replay_accepted_when_offers_equal", "C05_replay_accepted_when_draws_equal", "C05_source_shapes", "C05_translated_reconnect_proof", "C05_translated_verify_reconnection_attempt", "C05_translated_calculate_reconnect_values", "C05_linked_verify_reconnection_attempt", "C05_translated_reconnect_signatures", "C05_linked_calculate_reconnect_values"]
RULE = ("random histories of reconnect attempts after a full login (injected salt/a/b/challenge and one injected 16-byte draw per attempt): "
        "kinds {correct for the current challenge, replay of any earlier pair, proof for a stale challenge, wrong session key, wrong username, "
        "single-bit change of proof / of client data, client data equal to the current or an earlier server challenge (right and wrong proof), usernames "
        "ending in spaces / punctuation}; verdict sequence and the challenge after every attempt recomputed independently; "
        "client side: calculate_reconnect_values with injected client challenge. distinct = distinct histories; non-trivial = length >= 2")
EXPLANATION = "history theorem (verdict i iff proof hashes the draw made after attempt i-1; challenge replaced after every attempt; legitimate client accepted forever; accepted replay under a different challenge yields an explicit SHA-1 collision) + differential run + Python oracle"
ASSUMPTIONS = ["residual outside the model: the RNG repeating a 128-bit challenge"]

def flip(b, i):
    x = bytearray(b); x[i // 8] ^= 1 << (i % 8); return bytes(x)

def history_case(rng, maxlen):
    us, ps = cred(rng), cred(rng)
    if rng.random() < 0.15:
        us = (cred(rng, 1, 12) + rng.choice([" ", "  ", " x ", ".", "~"]))[:16]
    salt, b, a, chal0 = rbytes(rng, 32), rbytes(rng, 32), rbytes(rng, 32), rbytes(rng, 16)
    s = pyref.Session(us, ps, salt, b, a)
    if s.A % N == 0 or s.B % N == 0: return None
    k = rng.randint(1, maxlen)
    cur = chal0
    hist = []        # (cd, proof) pairs presented so far
    chals = [chal0]
    toks = []; draws = []; exp = ["ok", chal0.hex()]
    kinds = set()
    for i in range(k):
        r = rng.random()
        cd = rbytes(rng, 16)
        if rng.random() < 0.12:
            cd = rng.choice([bytes(16), b"\xff" * 16, bytes(15) + b"\x01", b"\x01" + bytes(15), b"\x80" + bytes(15)])   # any 16 bytes are a valid client challenge
        if r < 0.06:
            # the client's challenge bytes are arbitrary 16 bytes: in particular they may equal the server
            # challenge on offer (anyone who saw the challenge can send it back), with a right or a wrong proof
            kind = "cd-equals-server-challenge"; cd = cur
            proof = pyref.reconnect_proof(s.U, cd, cur, s.K) if rng.random() < 0.5 else rbytes(rng, 20)
        elif r < 0.1 and hist:
            kind = "cd-equals-earlier-challenge"; cd = rng.choice(chals)
            proof = pyref.reconnect_proof(s.U, cd, cur, s.K) if rng.random() < 0.5 else rbytes(rng, 20)
        elif r < 0.35 or not hist:
            kind = "correct"; proof = pyref.reconnect_proof(s.U, cd, cur, s.K)
        elif r < 0.55:
            kind = "replay"; cd, proof = rng.choice(hist)
        elif r < 0.65:
            kind = "stale-challenge"; proof = pyref.reconnect_proof(s.U, cd, rng.choice(chals[:-1] or [rbytes(rng, 16)]), s.K)
        elif r < 0.73:
            kind = "wrong-key"; proof = pyref.reconnect_proof(s.U, cd, cur, flip(s.K, rng.randrange(320)))
        elif r < 0.81:
            kind = "wrong-user"; proof = pyref.reconnect_proof(s.U + b"X" if len(s.U) < 16 else s.U[:-1], cd, cur, s.K)
        elif r < 0.86:
            kind = "proof-bit-flip"; proof = flip(pyref.reconnect_proof(s.U, cd, cur, s.K), rng.randrange(160))
        elif r < 0.9:
            kind = "proof-two-place-change"; proof = rng.choice(two_place_flips(rng, pyref.reconnect_proof(s.U, cd, cur, s.K), 4))
        else:
            kind = "cd-bit-flip"; proof = pyref.reconnect_proof(s.U, cd, cur, s.K); cd = flip(cd, rng.randrange(128))
        kinds.add(kind)
        verdict = 1 if proof == pyref.reconnect_proof(s.U, cd, cur, s.K) else 0
        hist.append((cd, proof))
        d = rbytes(rng, 16) if rng.random() > 0.02 else cur   # rarely: the RNG repeats the challenge
        draws.append(d)
        toks += [cd.hex(), proof.hex()]
        cur = d; chals.append(d)
        exp += [str(verdict), d.hex()]
    line = "recon %s %s %d %s | %s%s%s%s%s" % (enc(us), enc(ps), k, " ".join(toks), salt.hex(), b.hex(), a.hex(), chal0.hex(), "".join(x.hex() for x in draws))
    return Case(line, "history-len-%s(%d attempt kinds)" % ("1" if k == 1 else "2..8" if k <= 8 else "9..64" if k <= 64 else ">64", len(kinds)), " ".join(exp) + " ~%d" % (112 + 16 * k), dict(k=k))

def refusal_run_case(rng, run, tail):
    """a long run of consecutive REFUSED attempts (past 2^8, in the thorough tier past 2^16: any per-session count of failures lives
    in some machine integer), then the legitimate client still gets in, then a replay of that accepted pair is refused"""
    while True:
        us, ps = cred(rng), cred(rng)
        salt, b, a, chal0 = rbytes(rng, 32), rbytes(rng, 32), rbytes(rng, 32), rbytes(rng, 16)
        s = pyref.Session(us, ps, salt, b, a)
        if s.A % N != 0 and s.B % N != 0: break
    cur = chal0; toks = []; draws = []; exp = ["ok", chal0.hex()]
    good = None
    for i in range(run + tail):
        cd = rbytes(rng, 16)
        if i < run:
            proof = rbytes(rng, 20) if i % 3 else flip(pyref.reconnect_proof(s.U, cd, cur, s.K), rng.randrange(160))
        elif i == run or good is None:
            proof = pyref.reconnect_proof(s.U, cd, cur, s.K); good = (cd, proof)
        else:
            cd, proof = good if i % 2 else (cd, pyref.reconnect_proof(s.U, cd, cur, s.K))
        verdict = 1 if proof == pyref.reconnect_proof(s.U, cd, cur, s.K) else 0
        d = rbytes(rng, 16); draws.append(d); toks += [cd.hex(), proof.hex()]; cur = d
        exp += [str(verdict), d.hex()]
    k = run + tail
    line = "recon %s %s %d %s | %s%s%s%s%s" % (enc(us), enc(ps), k, " ".join(toks), salt.hex(), b.hex(), a.hex(), chal0.hex(), "".join(x.hex() for x in draws))
    return Case(line, "run-of-%d-refusals-then-legitimate" % run, " ".join(exp) + " ~%d" % (112 + 16 * k), dict(k=k))

def generate(rng, tier):
    cs = []
    n, maxlen = (400, 40) if tier == "quick" else (20000, 1000)
    for run in ([255, 256, 257, 300] if tier == "quick" else [255, 256, 257, 1000, 65536, 65537]):
        cs.append(refusal_run_case(rng, run, 4))
    for _ in range(n):
        c = history_case(rng, maxlen if rng.random() < 0.3 else 8)
        if c: cs.append(c)
    for _ in range(n // 4):
        us, ps = cred(rng), cred(rng)
        salt, b, a, chal0, cd, sc = rbytes(rng, 32), rbytes(rng, 32), rbytes(rng, 32), rbytes(rng, 16), rbytes(rng, 16), rbytes(rng, 16)
        s = pyref.Session(us, ps, salt, b, a)
        if s.A % N == 0 or s.B % N == 0: continue
        cs.append(Case("cli.recon %s %s %s | %s%s%s%s%s" % (enc(us), enc(ps), sc.hex(), salt.hex(), b.hex(), a.hex(), chal0.hex(), cd.hex()),
                       "client-reconnect-values", "ok %s %s ~128" % (cd.hex(), pyref.reconnect_proof(s.U, cd, sc, s.K).hex())))
    return cs

def nontrivial(case, out):
    if case.meta and case.meta.get("k", 2) < 2: return None
    return case.line
