"""C03 — every handshake value is byte-exact WoW SRP6, for any announced group"""
from verif import Case
from gen_util import *
from srp_cases import *
import pyref

MODULES = ["WowSrp.Props.C03", "WowSrp.Props.Source.C03", "WowSrp.Props.Source.StripRule", "WowSrp.Props.Source.Formulas", "WowSrp.Props.Source.Glue.Srp", "WowSrp.Props.Source.Structural.C03", "WowSrp.Props.Source.Shape.C03", "WowSrp.Props.Source.HashesSrp", "WowSrp.Props.Source.Interleave", "WowSrp.Props.Source.ApiSetup", "WowSrp.Props.Source.ApiClient", "WowSrp.Props.Source.ApiLinkedClient"]
THEOREMS = ["C03_constants", "C03_verifier", "C03_server_public_key", "C03_server_public_key_accepted", "C03_client_public_key", "C03_server_S", "C03_client_S", "C03_client_S_range", "C03_interleave", "C03_strip_rule", "C03_session_key", "C03_M1_client", "C03_M1_server", "C03_M1_server_spec", "C03_xor_hash_real", "C03_M2", "C03_api_verifier", "C03_api_server_public_key", "C03_api_client", "C03_api_server", "C03_api_client_key", "C03_api", "C03_source_layout_x", "C03_source_layout_u", "C03_source_layout_M2", "C03_source_layout_xor", "C03_hA_of_prime", "C03_hA_iff_of_prime", "C03_api_client_prime", "C03_api_client_prime_small_g", "C03_api_client_prime_dvd_panics", "C03_translated_strip_rule", "C03_translated_verifier", "C03_translated_server_public_key", "C03_translated_server_S", "C03_translated_client_public_key", "C03_translated_client_S", "C03_source_glue_srp", "C03_source_structural_impls", "C03_source_shapes", "C03_translated_calculate_x", "C03_translated_calculate_u", "C03_translated_server_proof", "C03_translated_client_proof", "C03_translated_xor_hash", "C03_translated_xor_hash_needs_digest_length", "C03_translated_client_proof_custom", "C03_translated_interleaved", "C03_translated_calculate_session_key", "C03_translated_with_specific_private_key", "C03_translated_with_specific_salt", "C03_translated_client_new", "C03_translated_setup_signatures", "C03_translated_client_signatures", "C03_linked_client_new"]
RULE = ("every value leaving the public API (verifier, B, A, M1, M2, K on both sides) recomputed independently in Python from the "
        "injected salt/a/b: full exchanges; registration; server public key; client under announced groups (generators 2..255 x primes "
        "of 2, 3, 8, 31, 32 bytes incl. top bit set and the built-in one), where small primes make low-order-zero classes of the client's "
        "S frequent; server interleave on all 32 zero-count classes via v=1,b=1. distinct = distinct lines; non-trivial = all")
EXPLANATION = "refinement theorems Model = Spec for each value + constants (N one number in two byte orders, prime by Pratt certificate, g=7, k=3, xor hash) + differential run + independent Python oracle"
ASSUMPTIONS = ["SHA-1 abstract in theorems (real one for the xor-hash constant)", "big-integer semantics as in Model/Deps.lean"]

def generate(rng, tier):
    cs = []
    n = 1500 if tier == "quick" else 40000
    for _ in range(n):
        r = honest_login_case(rng)
        if r is None: continue
        line, s, _ = r
        exp = "ok %s %s %s %s %s %s %s ~112" % (s.K.hex(), s.K.hex(), s.A32.hex(), s.B32.hex(), s.M1.hex(), s.M2.hex(), le32(s.v).hex())
        cs.append(Case(line, "login:" + "+".join(session_class(s)), exp))
    for _ in range(n // 5):
        us, ps, salt = cred(rng), cred(rng), special32(rng)
        U = pyref.normalize(us); v = pyref.verifier(U.encode(), pyref.normalize(ps).encode(), salt)
        cs.append(Case("srv.register %s %s | %s" % (enc(us), enc(ps), salt.hex()), "register",
                       "ok %s %s %s ~32" % (U.encode().hex(), le32(v).hex(), salt.hex())))
        vv = rng.randrange(1, N); b = special32(rng)
        B = pyref.server_B(vv, pyref.le(b))
        if B != 0:
            cs.append(Case("srv.proof %s %s %s | %s" % (enc(us), le32(vv).hex(), salt.hex(), b.hex()), "server-public-key",
                           "ok %s %s ~32" % (le32(B).hex(), salt.hex())))
    # announced groups on the client
    groups = [(7, N)] + [(g, N) for g in (2, 3, 5, 11, 255)] + [(7, rand_prime(rng, nb)) for nb in (2, 8, 31, 32, 32)]
    ng = 60 if tier == "quick" else 1500
    for i in range(ng):
        nb = rng.choice([2, 2, 3, 8, 31, 32])
        groups.append((rng.randint(2, 255), rand_prime(rng, nb, top_bit=(nb == 32 and rng.random() < 0.7))))
    # NEIGHBOURS of the built-in group: the built-in prime with ONE byte changed (most significant, least significant, one in the middle —
    # the client needs no primality, it computes with what it is told), with the built-in generator and with others; and the built-in
    # prime with every kind of generator.  A shortcut that recognises "the default group" has to look at all 33 bytes.
    for pos in (31, 30, 0, 1, rng.randrange(2, 30)):
        for _ in range(2):
            nb_ = bytearray(N_LE); nb_[pos] ^= rng.randint(1, 255)
            n2 = pyref.le(bytes(nb_))
            if n2 > 1:
                groups.append((7, n2)); groups.append((rng.choice([2, 3, 5, 6, 8, 128, 255]), n2))
    groups += [(g, N) for g in (6, 8, 1, 128, 254)]
    # one-byte primes, in particular with the generator byte ABOVE the prime (g is hashed as the announced byte, not as g mod N'),
    # equal to it plus one, and just below it
    for p1 in (3, 5, 7, 11, 13, 127, 131, 193, 251):
        for g in sorted(set([p1 + 1, min(255, p1 + 2), 255, 200, rng.randint(p1 + 1, 255), max(2, p1 - 1), 2])):
            if g % p1: groups.append((g, p1))
    reps = 12 if tier == "quick" else 40
    for g, n_ in groups:
        for _ in range(reps):
            us, ps, salt, a = cred(rng), cred(rng), rbytes(rng, 32), special32(rng)
            B32 = rbytes(rng, 32)
            if B32 == Z32 or B32 == N_LE: continue
            e = client_expect(us, ps, g, n_, B32, salt, a)
            if e is None or e["S"] == 0:
                continue   # degenerate: own key invalid (C04) / S = 0 (C14)
            lz = low_zero_count(le32(e["S"]))
            kind = "client-group-%dB" % ((n_.bit_length() + 7) // 8) + ("-S-low-zeros=%d" % lz if lz else "")
            base = "%s %s %d %s %s %s" % (enc(us), enc(ps), g, le32(n_).hex(), B32.hex(), salt.hex())
            cs.append(Case("cli.new %s | %s" % (base, a.hex()), kind, "ok %s %s ~32" % (e["A32"].hex(), e["M1"].hex())))
            cs.append(Case("cli.verify %s %s | %s" % (base, e["M2"].hex(), a.hex()), kind + "-verify", "ok %s ~32" % e["K"].hex()))
    # client-side low-order-zero classes of S under small announced primes, found by search over a
    for zeros, nb, count in [(1, 2, 6), (1, 3, 6), (2, 3, 2 if tier == "quick" else 10)]:
        found = 0; tries = 0
        while found < count and tries < 400000:
            g, n_ = rng.randint(2, 255), rand_prime(rng, nb)
            us, ps, salt, B32 = cred(rng), cred(rng), rbytes(rng, 32), rbytes(rng, 32)
            for _ in range(3000):
                tries += 1
                a = rbytes(rng, 32)
                e = client_expect(us, ps, g, n_, B32, salt, a)
                if e and e["S"] != 0 and e["S"] % (256 ** zeros) == 0:
                    base = "%s %s %d %s %s %s" % (enc(us), enc(ps), g, le32(n_).hex(), B32.hex(), salt.hex())
                    kind = "client-group-%dB-S-low-zeros=%d(searched)" % (nb, low_zero_count(le32(e["S"])))
                    cs.append(Case("cli.new %s | %s" % (base, a.hex()), kind, "ok %s %s ~32" % (e["A32"].hex(), e["M1"].hex())))
                    cs.append(Case("cli.verify %s %s | %s" % (base, e["M2"].hex(), a.hex()), kind + "-verify", "ok %s ~32" % e["K"].hex()))
                    found += 1
                    break
    # zero bytes *inside* S right after the low-order zero run (and elsewhere): the strip rule must look at the
    # run only, not at later zero bytes
    for zeros in range(31):
        for pat in ("z", "zz", "znz"):
            body = bytearray(rbytes(rng, 32))
            for i in range(32):
                if body[i] == 0: body[i] = 1
            for i in range(zeros): body[i] = 0
            q = zeros + 1
            for ch in pat:
                if q < 31:
                    if ch == "z": body[q] = 0
                    q += 1
            body[31] &= 0x7f
            if body[31] == 0: body[31] = 1
            A = bytes(body)
            salt = rbytes(rng, 32); chal = rbytes(rng, 16)
            K = pyref.interleave(A); m1 = pyref.M1(b"BOB", salt, A, le32(10), K)
            cs.append(Case("srv.server %s %s %s %s %s | %s%s" % (enc("bob"), le32(1).hex(), salt.hex(), A.hex(), m1.hex(), le32(1).hex(), chal.hex()),
                           "server-S-low-zeros=%d-then-inner-zero" % zeros, "ok %s %s %s ~48" % (K.hex(), pyref.M2(A, m1, K).hex(), chal.hex())))
    # a refused login hands out the server's own M1 next to the presented one: that value is a handshake value too
    for _ in range(20 if tier == "quick" else 400):
        us, ps = cred(rng), cred(rng)
        salt, b, a, chal = rbytes(rng, 32), rbytes(rng, 32), rbytes(rng, 32), rbytes(rng, 16)
        s = pyref.Session(us, ps, salt, b, a)
        if s.A % N == 0 or s.B % N == 0: continue
        bad = bytearray(s.M1); bad[rng.randrange(20)] ^= 1 << rng.randrange(8)
        cs.append(Case("srv.server %s %s %s %s %s | %s%s" % (enc(us), le32(s.v).hex(), salt.hex(), s.A32.hex(), bytes(bad).hex(), b.hex(), chal.hex()),
                       "server-M1-in-refusal", "err %s %s ~32" % (bytes(bad).hex(), s.M1.hex())))
    # server interleave classes (S = A through v = 1, b = 1)
    for zeros in range(32):
        A = bytes(zeros) + bytes([rng.randint(1, 127)]) + (rbytes(rng, 30 - zeros) + b"\x01" if zeros < 31 else b"")
        A = A[:32]
        salt = rbytes(rng, 32); chal = rbytes(rng, 16)
        K = pyref.interleave(A); m1 = pyref.M1(b"BOB", salt, A, le32(10), K)
        cs.append(Case("srv.server %s %s %s %s %s | %s%s" % (enc("bob"), le32(1).hex(), salt.hex(), A.hex(), m1.hex(), le32(1).hex(), chal.hex()),
                       "server-S-low-zeros=%d" % zeros, "ok %s %s %s ~48" % (K.hex(), pyref.M2(A, m1, K).hex(), chal.hex())))
    return cs

def nontrivial(case, out):
    return case.line
