#!/usr/bin/env python3
"""dev helper: run a property's generator through impl + model + oracle without the Lean phase"""
import sys, random, importlib, time
sys.path.insert(0, '/verif/tools')
import verif
pid = sys.argv[1].lower(); tier = sys.argv[2] if len(sys.argv) > 2 else 'quick'
mod = importlib.import_module('props.' + pid)
t=time.time(); cases = mod.generate(random.Random(int(sys.argv[3]) if len(sys.argv)>3 else 1), tier); tg=time.time()-t
lines = [c.line for c in cases]
bins=[('num','/verif/harness/target/release/wowsrp_impl')]
if getattr(mod,'BOTH_BACKENDS',False): bins.append(('rug','/verif/harness/target-fast/release/wowsrp_impl'))
bad = 0
for name,b in bins:
    t=time.time(); o1 = verif.run_lines([b], lines); ti=time.time()-t
    t=time.time(); o2 = verif.run_lines(['/verif/lean/.lake/build/bin/wowsrp_model', name], lines); tm=time.time()-t
    kinds={}
    for c, a, b2 in zip(cases, o1, o2):
        kinds[c.kind]=kinds.get(c.kind,0)+1
        f = None
        if c.expect is not None:
            f = c.expect(a) if callable(c.expect) else (None if c.expect == a else 'expected ' + c.expect)
        if f is None and hasattr(mod,'check_output'): f = mod.check_output(c,a)
        io = isinstance(c.meta, dict) and c.meta.get('impl_only')
        if (a != b2 and not io) or f:
            bad += 1
            if bad < 6: print(name, c.kind, c.line[:300], '\n impl ', a[:300], '\n model', b2[:300], '\n oracle', f)
    print(name, len(cases), 'cases; bad', bad, 'gen %.1fs impl %.1fs model %.1fs'%(tg,ti,tm), kinds)
if hasattr(mod,'post_check'):
    print('post', mod.post_check(cases, o1))
