#!/usr/bin/env python3
"""One-off generator of the shape-fact Lean modules: for every `shapeX` definition in Gen/Facts.lean (as generated from the tree the
machinery is validated against) writes Props/Source/Shape/X.lean with the expected value and `shapeX_ok`, and for every property a module
Props/Source/Shape/Cxx.lean with the obligation `Cxx_source_shapes` over the files that property reads.  Re-run only when /repo
legitimately changes (the expected values are what the model was written against)."""
import re, os
V = os.path.dirname(os.path.dirname(os.path.abspath(__file__)))
facts = open(os.path.join(V, "lean/WowSrp/Gen/Facts.lean")).read()
D = os.path.join(V, "lean/WowSrp/Props/Source/Shape")
os.makedirs(D, exist_ok=True)
names = {}
for m in re.finditer(r"/-- ([^\n]*?) -/\ndef (shape\w+) : List \(List String\) := (\[\[.*?\]\])\n", facts, re.S):
    names[m.group(2)] = (m.group(1), m.group(3))
for n, (doc, val) in names.items():
    mod = n[len("shape"):]
    open(os.path.join(D, mod + ".lean"), "w").write(f"""/-
Translator leg: the SHAPE of the functions of {doc.split(':')[0]}.  For every function tools/gen_constants.py lists, on every run, the ordered calls, the
control-flow keywords (with `?`) and the comparison / boolean operators — not the text (locals may be renamed, expressions reformatted),
but enough that "compare, THEN draw the new challenge, unconditionally", "refuse iff the proofs differ", "read_exact before decrypt" cannot
silently become something else.  The model functions were written against exactly these shapes.  (Generated once by tools/mk_shape_modules.py.)
-/
import WowSrp.Gen.Facts
namespace WowSrp

def expected_{n} : List (List String) := {val}

theorem {n}_ok : Gen.{n} = expected_{n} := by decide +kernel

end WowSrp
""")
USE = {
 "C01": ["Server", "Client", "SrpInternal", "SrpInternalClient", "NStr"],
 "C02": ["Server", "Client", "SrpInternal", "SrpInternalClient"],
 "C03": ["Server", "Client", "SrpInternal", "SrpInternalClient"],
 "C05": ["Server", "Client", "SrpInternal"],
 "C06": ["VanillaInternal", "VanillaMod", "TbcMod", "WrathMod"],
 "C09": ["Rc4"],
 "C10": ["WrathMod"],
 "C11": ["VanillaMod", "TbcMod", "WrathMod"],
 "C12": ["VanillaMod", "TbcMod", "WrathMod"],
 "C13": ["NStr"],
 "C14": ["Server", "Client"],
 "C15": ["Server", "Client"],
 "C16": ["Pin"],
 "C17": ["Integrity"],
 "C18": ["MatrixCard", "Rc4"],
}
for p, mods in USE.items():
    stmt = " ∧ ".join("Gen.shape%s = expected_shape%s" % (m, m) for m in mods)
    proof = "⟨" + ", ".join("shape%s_ok" % m for m in mods) + "⟩" if len(mods) > 1 else "shape%s_ok" % mods[0]
    open(os.path.join(D, p + ".lean"), "w").write("".join("import WowSrp.Props.Source.Shape.%s\n" % m for m in mods) + f"""namespace WowSrp

/-- {p}: the functions of the files this property reads ({", ".join(mods)}) have the shapes the model was written against -/
theorem {p}_source_shapes :
    {stmt} :=
  {proof}

end WowSrp
""")
print("wrote", len(names), "file modules and", len(USE), "property modules")
