"""Independent Python simulation of the header-crypto objects and of std's read_exact / write_all,
used as the oracle for hdr sessions (C11, C12, C14). Mirrors the *documented* behaviour, not the Rust code."""
import struct, copy
import pyref
from gen_util import hx, unhx

class Rec:
    """one direction of the Vanilla/TBC recurrence cipher"""
    def __init__(self, key):
        self.key, self.i, self.p = key, 0, 0
    def enc(self, data):
        out, self.i, self.p = pyref.vanilla_encrypt(self.key, data, self.i, self.p)
        return out
    def dec(self, data):
        out, self.i, self.p = pyref.vanilla_decrypt(self.key, data, self.i, self.p)
        return out

class Rc4Dir:
    def __init__(self, K, const):
        self.r = pyref.wrath_stream(K, const)
    def enc(self, data):
        return self.r.apply(data)
    dec = enc

def read_exact(events, n):
    """returns (bytes|None, errkind|None, delivered, remaining events)"""
    evs = list(events)
    buf = b""
    delivered = 0
    while len(buf) < n:
        if not evs:
            return None, 11, delivered, evs
        e = evs.pop(0)
        if e[0] == "I":
            continue
        if e[0] == "E":
            return None, e[1], delivered, evs
        if e[0] == "Z" or (e[0] == "D" and len(e[1]) == 0):
            return None, 11, delivered, evs
        d = e[1]
        k = min(len(d), n - len(buf))
        buf += d[:k]
        delivered += k
        if k < len(d):
            evs.insert(0, ("D", d[k:]))
    return buf, None, delivered, evs

def write_all(events, buf):
    """returns (errkind|None, sink)"""
    evs = list(events)
    sink = b""
    while buf:
        if not evs:
            sink += buf
            return None, sink
        e = evs.pop(0)
        if e[0] == "I":
            continue
        if e[0] == "E":
            return e[1], sink
        n = min(e[1], len(buf))
        if n == 0:
            return 10, sink
        sink += buf[:n]
        buf = buf[n:]
    return None, sink

def parse_rscript(s):
    if s == "-": return []
    out = []
    for t in s.split(","):
        if t[0] == "D": out.append(("D", unhx(t[1:])))
        elif t[0] == "I": out.append(("I",))
        elif t[0] == "E": out.append(("E", int(t[1:])))
        else: out.append(("Z",))
    return out

def parse_wscript(s):
    if s == "-": return []
    out = []
    for t in s.split(","):
        if t[0] == "A": out.append(("A", int(t[1:])))
        elif t[0] == "I": out.append(("I",))
        elif t[0] == "E": out.append(("E", int(t[1:])))
        else: out.append(("A", 0))
    return out

class Session:
    """exp in v,t,w ; role in s,c"""
    def __init__(self, exp, role, K):
        self.exp, self.role = exp, role
        if exp == "v":
            self.e, self.d = Rec(K), Rec(K)
        elif exp == "t":
            k = pyref.tbc_key(K)
            self.e, self.d = Rec(k), Rec(k)
        else:
            if role == "s":
                self.e, self.d = Rc4Dir(K, pyref.WRATH_R), Rc4Dir(K, pyref.WRATH_S)
            else:
                self.e, self.d = Rc4Dir(K, pyref.WRATH_S), Rc4Dir(K, pyref.WRATH_R)
        self.stash = b"\0\0\0\0"   # wrath client: the four bytes kept by attempt
        self.K = K
        self.split = False

    def probe(self):
        c = copy.deepcopy(self)
        e = c.e.enc(bytes(16)); d = c.d.dec(bytes(16))
        if self.exp == "w" and self.role == "c":
            c2 = copy.deepcopy(self)
            b = c2.d.dec(b"\0")
            buf = c2.stash + b
            size = ((buf[0] & 0x7F) << 16) | (buf[1] << 8) | buf[2]
            op = buf[3] | (buf[4] << 8)
            return "%s:%s:%d:%d" % (hx(e), hx(d), size, op)
        return "%s:%s" % (hx(e), hx(d))

    def op(self, tok):
        p = tok.split(":")
        k = p[0]
        w, s, c = self.exp == "w", self.role == "s", self.role == "c"
        if k in ("e", "ae"): return hx(self.e.enc(unhx(p[1])))
        if k in ("d", "ad"): return hx(self.d.dec(unhx(p[1])))
        if k == "es":
            if w and c: return "na"
            size, opc = int(p[1]), int(p[2])
            plain = pyref.wrath_server_header_plain(size, opc) if w else pyref.server_header_plain(size, opc)
            return hx(self.e.enc(plain))
        if k == "ec":
            if w and s: return "na"
            return hx(self.e.enc(pyref.client_header_plain(int(p[1]), int(p[2]))))
        if k == "ds":
            if w: return "na"
            b = self.d.dec(unhx(p[1]))
            return "%d:%d" % (struct.unpack(">H", b[:2])[0], struct.unpack("<H", b[2:4])[0])
        if k == "dc":
            if w and c: return "na"
            b = self.d.dec(unhx(p[1]))
            return "%d:%d" % (struct.unpack(">H", b[:2])[0], struct.unpack("<I", b[2:6])[0])
        if k == "rs":
            if w and s: return "na"
            evs = parse_rscript(p[1])
            buf, err, used, rest = read_exact(evs, 4)
            if err is not None:
                return "err:%d:u%d:same1" % (err, used)
            b = self.d.dec(buf)
            if not w:
                return "ok:%d:%d:u%d" % (struct.unpack(">H", b[:2])[0], struct.unpack("<H", b[2:4])[0], used)
            if b[0] & 0x80:
                self.stash = b
                buf2, err, used2, rest = read_exact(rest, 1)
                if err is not None:
                    return "err:%d:u%d:same0" % (err, used + used2)
                b5 = self.d.dec(buf2)
                size = ((b[0] & 0x7F) << 16) | (b[1] << 8) | b[2]
                return "ok:%d:%d:u%d" % (size, b[3] | (b5[0] << 8), used + used2)
            return "ok:%d:%d:u%d" % (struct.unpack(">H", b[:2])[0], struct.unpack("<H", b[2:4])[0], used)
        if k == "rc":
            if w and c: return "na"
            evs = parse_rscript(p[1])
            buf, err, used, rest = read_exact(evs, 6)
            if err is not None:
                return "err:%d:u%d:same1" % (err, used)
            b = self.d.dec(buf)
            return "ok:%d:%d:u%d" % (struct.unpack(">H", b[:2])[0], struct.unpack("<I", b[2:6])[0], used)
        if k == "ws":
            if w and c: return "na"
            size, opc = int(p[1]), int(p[2])
            plain = pyref.wrath_server_header_plain(size, opc) if w else pyref.server_header_plain(size, opc)
            err, sink = write_all(parse_wscript(p[3]), self.e.enc(plain))
            return ("ok:%s" % hx(sink)) if err is None else "err:%d:%s" % (err, hx(sink))
        if k == "wc":
            if w and s: return "na"
            err, sink = write_all(parse_wscript(p[3]), self.e.enc(pyref.client_header_plain(int(p[1]), int(p[2]))))
            return ("ok:%s" % hx(sink)) if err is None else "err:%d:%s" % (err, hx(sink))
        if k == "at":
            if not (w and c): return "na"
            b = self.d.dec(unhx(p[1]))
            if b[0] & 0x80:
                self.stash = b
                return "more"
            return "h:%d:%d" % (struct.unpack(">H", b[:2])[0], struct.unpack("<H", b[2:4])[0])
        if k == "lg":
            if not (w and c): return "na"
            b5 = self.d.dec(unhx(p[1])[:1] or b"\0")
            b = self.stash
            return "%d:%d" % (((b[0] & 0x7F) << 16) | (b[1] << 8) | b[2], b[3] | (b5[0] << 8))
        if k == "split":
            self.split = True
            return "ok"
        if k == "unsplit":
            if self.exp != "v" or not self.split: return "na"
            self.split = False
            return "ok"
        if k == "pairwith":
            if self.exp != "v": return "na"
            same = unhx(p[1]) == self.K
            return "%d:%d:%s" % (same, same, "ok" if same else "err")
        if k == "clone": return "ok"
        if k == "pr": return self.probe()
        raise ValueError(tok)

def expected_line(exp, role, K, ops):
    s = Session(exp, role, K)
    return " ".join(s.op(t) for t in ops) + " ~0"
