#!/bin/bash
# matrix.sh <nworkers> <outdir> [mutant-dir ...]
# Self-test of the machinery against the seeded changes, in ISOLATION from /repo and /verif:
# each worker owns a private copy of /verif (with its build output) and a private clone of /repo, so the real
# /repo is never touched and the registered checks can keep running meanwhile. Results: <outdir>/<id>.log, <outdir>/<id>.json
# MATRIX_PROPS=target runs only the check of the property the change breaks (default: all 19).
# Copies live under /root/mx (outside /repo and /verif) and are removed at the end.
set -u
NW=${1:-3}; OUT=${2:-/verif/work/matrix}; shift 2 || true
VERIF=/verif
mkdir -p "$OUT"
if [ $# -gt 0 ]; then LIST=("$@"); else
  LIST=(); for d in $VERIF/seeded/*/ $VERIF/selftest/*/; do [ -f "$d/patch.diff" ] && LIST+=("${d%/}"); done
fi
BASE=/root/mx/$$
mkdir -p $BASE
worker() {
  local w=$1; shift
  local V=$BASE/w$w/verif R=$BASE/w$w/repo
  rm -rf $BASE/w$w; mkdir -p $BASE/w$w
  git clone -q /repo $R
  rsync -a --exclude work/ --exclude .git/ $VERIF/ $V/
  mkdir -p $V/work
  sed -i "s#path = \"/repo\"#path = \"$R\"#" $V/harness/Cargo.toml
  for d in "$@"; do
    local id; id=$(basename $d); case $d in */selftest/*) id="selftest:$id";; esac
    local PR=""
    if [ "${MATRIX_PROPS:-all}" = "target" ]; then
      local t; t=$(python3 -c "import json,sys; m=json.load(open('$d/meta.json')) if __import__('os').path.exists('$d/meta.json') else {}; print(m.get('breaks_property') or m.get('breaks') or '')")
      [ -z "$t" ] && t=$(basename $d | cut -c1-3)
      PR="--props $t"
    fi
    ( cd $V && VERIF_REPO=$R python3 tools/run_mutant.py $d/patch.diff --repo $R --json "$OUT/$id.json" $PR ) > "$OUT/$id.log" 2>&1
    echo "done $id"
  done
  rm -rf $BASE/w$w
}
# round-robin split
for ((w=0; w<NW; w++)); do
  MY=(); for ((i=w; i<${#LIST[@]}; i+=NW)); do MY+=("${LIST[$i]}"); done
  [ ${#MY[@]} -gt 0 ] && worker $w "${MY[@]}" &
done
wait
rmdir $BASE /root/mx 2>/dev/null
echo matrix done
