#!/usr/bin/env python3
"""Translator (logic leg, session-key interleaving): `calculate_interleaved` (src/srp_internal.rs) -> a `MiniIlv.IlvProg`
(lean/WowSrp/Model/MiniIlv.lean), written to Gen/CodeIlv.lean on every run.   gen_ilv.py <repo> <out.lean>

The whole body (comments stripped, white space normalised) has to match ONE frame (see Model/MiniIlv.lean); every hole of the frame reaches
the term as a number or a small parsed term: the array lengths (constant expressions with Rust integer semantics), the fill values, the
`skip` / `step_by` arguments, the divisor of each slice bound, which array each hash reads, the order of the `zip`, the two index
expressions of the result loop (recursive descent: the counter, literals, `+`, `*`, parentheses), which tuple field each write stores and
what the fill loops store.  Anything else sets `unsupported`, whose meaning is a panic, so the equivalence theorem in
Props/Source/Interleave.lean fails instead of anything being guessed."""
import re, sys, os
sys.path.insert(0, os.path.dirname(os.path.abspath(__file__)))
import gen_constants as gc
import gen_guard as gg

REL = "src/srp_internal.rs"
FN = "calculate_interleaved"

class Unsupported(Exception):
    pass

def lean_str(x):
    return '"' + x.replace("\\", "\\\\").replace('"', '\\"').replace("\n", " ") + '"'

def num(t):
    m = re.fullmatch(r"(0x[0-9a-fA-F_]+|\d[\d_]*?)(?:_?(?:u8|usize))?", t.strip())
    if not m: raise Unsupported("number " + t)
    return int(m.group(1).replace("_", ""), 0)

def squeeze(t):
    """white space normalised: one blank between two word characters, none anywhere else"""
    t = re.sub(r"\s+", " ", t).strip()
    return re.sub(r"(?<![A-Za-z0-9_]) | (?![A-Za-z0-9_])", "", t)

def iexpr(txt, I):
    """index expression over the loop counter I: literals, `+`, `*`, parentheses (usual precedence, left associative)"""
    toks = re.findall(r"[A-Za-z_]\w*|0x[0-9a-fA-F_]+|\d\w*|[()+*]", txt)
    if "".join(toks) != re.sub(r"\s+", "", txt): raise Unsupported("index expression: " + txt)
    pos = [0]
    def peek(): return toks[pos[0]] if pos[0] < len(toks) else None
    def eat(x=None):
        t = peek()
        if t is None or (x is not None and t != x): raise Unsupported("expected %r, found %r in %s" % (x, t, txt))
        pos[0] += 1; return t
    def primary():
        t = eat()
        if t == I: return "IExpr.i"
        if t == "(":
            a = expr(); eat(")"); return a
        if re.fullmatch(r"0x[0-9a-fA-F_]+|\d\w*", t): return "IExpr.lit %d" % num(t)
        raise Unsupported("token %s in index expression %s" % (t, txt))
    def term():
        a = primary()
        while peek() == "*":
            eat("*"); a = "IExpr.mul (%s) (%s)" % (a, primary())
        return a
    def expr():
        a = term()
        while peek() == "+":
            eat("+"); a = "IExpr.add (%s) (%s)" % (a, term())
        return a
    a = expr()
    if peek() is not None: raise Unsupported("trailing text in index expression " + txt)
    return a

def constants(repo):
    """the crate's scalar constants an array length may name (resolved in dependency order, as gen_code.py does)"""
    c = gc.Consts()
    for rel, names in (("src/primes.rs", ["LARGE_SAFE_PRIME_LENGTH", "GENERATOR_LENGTH"]),
                       ("src/key.rs", ["SALT_LENGTH", "PRIVATE_KEY_LENGTH", "PUBLIC_KEY_LENGTH", "SHA1_HASH_LENGTH", "PASSWORD_VERIFIER_LENGTH", "PROOF_LENGTH", "S_LENGTH",
                                       "RECONNECT_CHALLENGE_DATA_LENGTH", "SESSION_KEY_LENGTH"])):
        try:
            text = gc.load(repo, rel)
        except gc.Missing:
            continue
        for n in names:
            try: c.scalar(text, n, rel)
            except gc.Missing: pass
    return c

def fill_loop(arr, s, i, e):
    """`let mut A = [fill; len]; for (i, e) in S.iter()[.skip(k)].step_by(n).enumerate() { A[i] = <*e | literal>; }`  (5 groups + names)"""
    return (r"let mut (?P<%s>[A-Za-z_]\w*)=\[(?P<%sfill>\w+);(?P<%slen>[^\]\[;{}]+)\];" % (arr, arr, arr) +
            r"for\((?P<%s>[A-Za-z_]\w*),(?P<%s>[A-Za-z_]\w*)\)in (?P=%s)\.iter\(\)(?:\.skip\((?P<%sskip>\w+)\))?\.step_by\((?P<%sstep>\w+)\)\.enumerate\(\)" % (i, e, s, arr, arr) +
            r"\{(?P=%s)\[(?P=%s)\]=(?P<%sstore>\*(?P=%s)|\d\w*);\}" % (arr, i, arr, e))
def hash_of(h, s, arr):
    return (r"let (?P<%s>[A-Za-z_]\w*)=Sha1::new\(\)\.chain_update\(&(?P<%sreads>[A-Za-z_]\w*)\[\.\.(?P=%s)\.len\(\)/(?P<%sdiv>\w+)\]\)\.finalize\(\);" % (h, h, s, h))

FRAME = (r"let (?P<S>[A-Za-z_]\w*)=(?P<param>[A-Za-z_]\w*)\.as_equal_slice\(\);" +
         fill_loop("E", "S", "i1", "e1") + hash_of("G", "S", "E") +
         fill_loop("F", "S", "i2", "e2") + hash_of("H", "S", "F") +
         r"let mut (?P<R>[A-Za-z_]\w*)=\[(?P<Rfill>\w+);(?P<Rlen>[^\]\[;{}]+)\];"
         r"let (?P<Z>[A-Za-z_]\w*)=(?P<zipfst>[A-Za-z_]\w*)\.iter\(\)\.zip\((?P<zipsnd>[A-Za-z_]\w*)\.iter\(\)\);"
         r"for\((?P<i3>[A-Za-z_]\w*),(?P<r>[A-Za-z_]\w*)\)in (?P=Z)\.enumerate\(\)"
         r"\{(?P=R)\[(?P<idx1>[^\]\[;{}]+)\]=\*(?P=r)\.(?P<sel1>[01]);(?P=R)\[(?P<idx2>[^\]\[;{}]+)\]=\*(?P=r)\.(?P<sel2>[01]);\}"
         r"SessionKey::from_le_bytes\((?P=R)\)")

def translate(repo):
    bad = lambda why: ("{ e := ⟨0, 0, 0, 0, Src.elem⟩, gReads := 0, gDiv := 0, f := ⟨0, 0, 0, 0, Src.elem⟩, hReads := 0, hDiv := 0, resLen := 0, resFill := 0,\n"
                       "    zipFst := 0, zipSnd := 0, idx1 := IExpr.i, sel1 := 0, idx2 := IExpr.i, sel2 := 0, sha1Once := false, fromLeBytes := false,\n"
                       "    unsupported := some %s }" % lean_str(why))
    try:
        text = gc.load(repo, REL)
        body = gc.fn_body(text, FN, REL, unique=True)            # the only function of its name in the file (test modules are cut)
        msk = gc.mask_literals(text)
        sig = re.search(r"((?:#\s*!?\s*\[[^\]]*\]\s*)*)(?:pub(?:\([^)]*\))?\s+)?fn\s+" + FN + r"\s*\(\s*([A-Za-z_]\w*)\s*:\s*&\s*SKey\s*,?\s*\)\s*->\s*SessionKey\s*\{", msk)
        if not sig: raise Unsupported("signature of %s is not `(S: &SKey) -> SessionKey`" % FN)
        for attr in re.findall(r"#\s*!?\s*\[[^\]]*\]", sig.group(1)):
            if "cfg" in attr: raise Unsupported("%s is behind a cfg attribute: %s" % (FN, attr))
            if not re.fullmatch(r"#\s*\[\s*(allow|inline|must_use|doc)\b[^\]]*\]", attr): raise Unsupported("attribute %s on %s" % (attr, FN))
        t = squeeze(body.strip()[1:-1])
        m = re.fullmatch(FRAME, t)
        if not m: raise Unsupported("%s outside its frame: %s" % (FN, t[:240]))
        g = m.groupdict()
        if g["param"] != sig.group(2): raise Unsupported("`%s.as_equal_slice()` is not applied to the parameter %s" % (g["param"], sig.group(2)))
        outer = [g[k] for k in ("S", "E", "G", "F", "H", "R", "Z")]
        if len(set(outer)) != len(outer): raise Unsupported("local names are not distinct: %s" % outer)
        for names in ((g["i1"], g["e1"]), (g["i2"], g["e2"]), (g["i3"], g["r"])):
            if names[0] == names[1] or set(names) & set(outer): raise Unsupported("loop variable names %s shadow each other or a local" % (names,))
        c = constants(repo)
        def length(txt):
            # casts only to usize, every named constant imported once from the crate or defined once here (tools/gen_guard.py)
            try: return gg.const_expr(repo, text, REL, txt, c)
            except (gc.Missing, gg.Unsupported) as ex: raise Unsupported("array length %s: %s" % (txt, ex))
        try:
            gg.hash_types(text, REL, False)        # Sha1 / Digest are the sha1 crate's; no local item or trait of that name
            gg.fn_header(text, REL, FN)            # nothing but doc / allow attributes, `pub` and `const` in front of the function
            gg.never_bound(text, REL, ["as_equal_slice", "from_le_bytes"])
        except gg.Unsupported as ex: raise Unsupported(str(ex))
        def loop(a, e):
            st = "Src.elem" if g[a + "store"] == "*" + g[e] else "Src.lit %d" % num(g[a + "store"])
            return "⟨%d, %d, %d, %d, %s⟩" % (length(g[a + "len"]), num(g[a + "fill"]), num(g[a + "skip"]) if g[a + "skip"] is not None else 0, num(g[a + "step"]), st)
        def which(name, table, what):
            if name not in table: raise Unsupported("%s names %s, expected one of %s" % (what, name, table))
            return table.index(name)
        arrays, hashes = [g["E"], g["F"]], [g["G"], g["H"]]
        return ("{ e := %s, gReads := %d, gDiv := %d,\n    f := %s, hReads := %d, hDiv := %d,\n    resLen := %d, resFill := %d, zipFst := %d, zipSnd := %d,\n"
                "    idx1 := %s, sel1 := %d,\n    idx2 := %s, sel2 := %d,\n    sha1Once := true, fromLeBytes := true, unsupported := none }" % (
                    loop("E", "e1"), which(g["Greads"], arrays, "the slice of the first hash"), num(g["Gdiv"]),
                    loop("F", "e2"), which(g["Hreads"], arrays, "the slice of the second hash"), num(g["Hdiv"]),
                    length(g["Rlen"]), num(g["Rfill"]), which(g["zipfst"], hashes, "the zip"), which(g["zipsnd"], hashes, "the zip"),
                    iexpr(g["idx1"], g["i3"]), int(g["sel1"]), iexpr(g["idx2"], g["i3"]), int(g["sel2"])))
    except (Unsupported, gc.Missing) as ex:
        return bad(str(ex))
    except Exception as ex:
        return bad("translator error %s: %s" % (type(ex).__name__, ex))

def main(repo, outp):
    text = ("/- GENERATED by tools/gen_ilv.py from the Rust sources on every run. Do not edit. -/\nimport WowSrp.Model.MiniIlv\n"
            "namespace WowSrp.Gen.CodeIlv\nopen WowSrp.MiniIlv\n\n/-- `calculate_interleaved` in src/srp_internal.rs -/\ndef interleaved : IlvProg :=\n  %s\n\nend WowSrp.Gen.CodeIlv\n" % translate(repo))
    old = open(outp).read() if os.path.exists(outp) else None
    if old != text:
        os.makedirs(os.path.dirname(outp), exist_ok=True)
        open(outp, "w").write(text); print("gen_ilv: wrote", outp)
    else:
        print("gen_ilv: unchanged")
    return 3 if "unsupported := some " in text else 0

if __name__ == "__main__":
    sys.exit(main(sys.argv[1], sys.argv[2]))
