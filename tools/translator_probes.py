#!/usr/bin/env python3
"""Regression corpus of the adversarial review of tools/gen_hash.py, gen_api.py, gen_ilv.py (notes/audit_g/): every patch under
notes/audit_g/findings/ is applied to a scratch copy of /repo/src (never to /repo), the three translators are re-run, and the generated files are
compared with those of the unchanged tree.  IDENTICAL is acceptable only for the three control probes (14, 32, 55: behaviour-preserving edits);
for every other probe the term must change or become `unsupported`.   usage: translator_probes.py   (exit 1 if a non-control probe is identical)"""
import os, subprocess, shutil, glob, re, sys
base="/root/translator_probes_%d" % os.getpid(); shutil.rmtree(base, ignore_errors=True); os.makedirs(base)
def gen(repo,out):
    os.makedirs(out,exist_ok=True)
    for t,f in (("gen_hash","CodeHash.lean"),("gen_api","CodeApi.lean"),("gen_ilv","CodeIlv.lean")):
        subprocess.run([sys.executable,"/verif/tools/%s.py"%t,repo,os.path.join(out,f)],capture_output=True)
    return {f:open(os.path.join(out,f)).read() for f in ("CodeHash.lean","CodeApi.lean","CodeIlv.lean")}
REPO=os.environ.get("VERIF_REPO","/repo"); shutil.copytree(REPO+"/src", base+"/r0/src"); shutil.copy(REPO+"/Cargo.toml", base+"/r0/")
g0=gen(base+"/r0", base+"/g0")
bad=0
for d in sorted(glob.glob("/verif/notes/audit_g/findings/*.diff")):
    r=base+"/r1"; shutil.rmtree(r, ignore_errors=True); shutil.copytree(base+"/r0", r)
    p=subprocess.run(["patch","-p1","-s","-d",r,"-i",d],capture_output=True,text=True)
    if p.returncode: print(os.path.basename(d),"PATCH-FAIL"); continue
    g1=gen(r, base+"/g1")
    res=[]
    for f in g0:
        if g0[f]!=g1[f]:
            new=[l for l in g1[f].splitlines() if l not in g0[f].splitlines()]
            res.append(f[:-5]+(":unsupported" if any(', some "' in l or 'unsupported := some' in l for l in new) else ":changed"))
    print("%-48s %s" % (os.path.basename(d), " ".join(res) if res else "IDENTICAL"))
    if not res and os.path.basename(d)[:2] not in ("14", "32", "55"): bad += 1
shutil.rmtree(base, ignore_errors=True)
print("%d blind spots" % bad)
sys.exit(1 if bad else 0)
