#!/usr/bin/env python3
"""Writes the briefs of one round of seeded-change authors: mk_round_prompts.py <round-dir> (e.g. /tmp/r6).  Each brief holds ONE property's
text (from properties.jsonl), the rules, and one line per change already stored under seeded/ for that property (so the new author does
something different) — nothing else from /verif."""
import json, os, sys, glob
VERIF = os.path.dirname(os.path.dirname(os.path.abspath(__file__)))
R = sys.argv[1]
os.makedirs(R, exist_ok=True)
props = [json.loads(l) for l in open(os.path.join(VERIF, "properties.jsonl"))]
for p in props:
    pid = p["id"]
    have = []
    for d in sorted(glob.glob(os.path.join(VERIF, "seeded", pid + "-*"))):
        try: have.append(json.load(open(os.path.join(d, "meta.json")))["needs_to_manifest"])
        except Exception: pass
    wt, out = "%s/wt_%s" % (R, pid), "%s/out_%s" % (R, pid)
    text = "\n".join("%s: %s" % (k, json.dumps(v) if not isinstance(v, str) else v) for k, v in p.items())
    open(os.path.join(R, "prompt_%s.txt" % pid), "w").write(f"""You are testing how well a Rust library's behaviour is pinned down. The library is gtker/wow_srp (World of Warcraft SRP6 authentication + header ciphers). You have your own scratch git worktree of it at {wt} (a detached checkout; cargo works offline: always pass --offline; the crate builds in ~10 s and `cargo test --offline` runs 83 unit tests + doc tests in a few seconds; some modules need `--features matrix-card`).

IMPORTANT RULES
- Work ONLY inside {wt} (and {out} for your outputs). Do NOT read, list or use anything under /verif, and do not touch /repo. No network.
- Do not edit or delete existing tests. Never use `git stash` (the worktree shares its repository with others); do not look at other directories under /tmp than your own two.

The property of interest (this text is all you get about it):

{text}

YOUR TASK: produce TWO different, realistic source changes to the library (think: a plausible refactoring slip, an off-by-one, a wrong constant, an optimisation that is almost right, two cooperating edits that each look fine alone) such that, for each change separately:
  1. the crate still compiles (default features AND `--features matrix-card`) and the ENTIRE existing test suite still passes, unedited (`cargo test --offline` and `cargo test --offline --features matrix-card`: all pass, including doc tests);
  2. the property above is violated — but only for something specific: a particular rare input class, a multi-step sequence of operations, a particular fault at a particular point, an unusual configuration, or an interaction of two sites. Do NOT make a change that ordinary use or any typical input would expose at once (e.g. not "every login fails"); prefer violations that need a boundary value, a rare byte pattern, a long stream, a specific history, etc.;
  3. you provide a demonstration: a Rust integration test file (to be dropped into {wt}/tests/) that uses only the crate's public API, FAILS with your change applied and PASSES on the unchanged code. If the violation needs specific random draws that the public API cannot force, say so and give the best demonstration you can (e.g. a loop that finds the rare class, or a unit test placed inside the crate in a new #[cfg(test)] module appended by a separate patch).
Keep the two changes different in kind and location.

Deliver, in {out}/ (create it):
  change1.diff, change2.diff   — `git diff` output against the unchanged checkout, each applying cleanly on its own with `git apply`
  demo1.rs, demo2.rs           — the demonstration tests (state in a comment at the top how to run them, e.g. `cp demo1.rs tests/ && cargo test --offline --test demo1`)
  notes.md                     — for each change: what it does, which inputs/sequences trigger the violation, why the existing tests do not notice, and the exact commands you ran with their outcome (tests pass with the change; demo fails with it and passes without it).
Before finishing: `git -C {wt} checkout -- . && git -C {wt} clean -fdq` so the worktree is back to the unchanged state (your outputs live in {out}). Your final message should summarise the two changes in a few lines each.

Changes of the following kinds have ALREADY been written by others for this property ({len(have)} so far); do something DIFFERENT in kind and place — a different function, a different mechanism, a different triggering condition. Think about what a checker would still miss that (a) samples inputs and compares the library with an independent reference, including long mixed call sequences on one object through every public entry point, and (b) notices when the text of a small, central function changes: behaviour hidden in a function that looks like plumbing; a change that keeps every function's list of calls and branches the same but alters a value, a type width, an argument, an index or an operand order; semantics that depend on the ORDER or NUMBER of earlier calls on other objects; values at 2^k boundaries of an argument that is usually small; a rarely used public function or trait method of the types involved; the interplay of two cargo features or two modules; an error path that is almost never taken; a property clause that is easy to overlook when reading the statement. Aim for a change that a careful reviewer could plausibly approve.
""" + "".join("- %s\n" % h for h in have))
print("wrote %d prompts to %s" % (len(props), R))
