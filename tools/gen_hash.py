#!/usr/bin/env python3
"""Translator (logic leg, hash layouts): the functions whose whole body feeds byte strings to SHA-1 / HMAC-SHA1 objects -> `MiniHash.HashProg`
terms (lean/WowSrp/Model/MiniHash.lean), written to Gen/CodeHash.lean on every run.   gen_hash.py <repo> <out.lean>

Every statement of a body has to be one of the forms listed in Model/MiniHash.lean, as a whole; every argument one of the listed argument
forms, with the accessor that belongs to the parameter's TYPE.  Anything else sets `unsupported`, whose meaning is `none`, so the equivalence
theorem in Props/Source/Hashes*.lean fails instead of anything being guessed.  Parameters are numbered in the order of the signature — the
theorems apply the term to the model function's arguments in that order, so a signature whose names were swapped is a different term."""
import re, sys, os
sys.path.insert(0, os.path.dirname(os.path.abspath(__file__)))
import gen_constants as gc
import gen_guard as gg

class Unsupported(Exception):
    pass

# (Lean name, file, function, callees it may use: Rust name -> file that must define it exactly once)
TARGETS = [
    ("calculateX", "src/srp_internal.rs", "calculate_x", {}),
    ("calculateU", "src/srp_internal.rs", "calculate_u", {}),
    ("serverProof", "src/srp_internal.rs", "calculate_server_proof", {}),
    ("xorHash", "src/srp_internal.rs", "calculate_xor_hash", {}),
    ("clientProof", "src/srp_internal.rs", "calculate_client_proof", {}),
    ("reconnectProof", "src/srp_internal.rs", "calculate_reconnect_proof", {}),
    ("clientProofCustom", "src/srp_internal_client.rs", "calculate_client_proof_with_custom_value", {"calculate_xor_hash": "src/srp_internal.rs"}),
    ("worldProof", "src/vanilla_header/internal.rs", "calculate_world_server_proof", {}),
    ("integrityFinalise", "src/integrity.rs", "finalise", {}),
    ("integrityChecksum", "src/integrity.rs", "checksum", {}),
    ("integrityGeneric", "src/integrity.rs", "login_integrity_check_generic", {"finalise": "src/integrity.rs"}),
    ("integrityWindows", "src/integrity.rs", "login_integrity_check_windows", {"finalise": "src/integrity.rs", "checksum": "src/integrity.rs"}),
    ("integrityMac", "src/integrity.rs", "login_integrity_check_mac", {"finalise": "src/integrity.rs"}),
    ("integrityReconnect", "src/integrity.rs", "reconnect_integrity_check", {"finalise": "src/integrity.rs"}),
]
KEY_TYPES = {"Salt", "PublicKey", "SessionKey", "Proof", "ReconnectData", "Sha1Hash", "LargeSafePrime", "Verifier", "PrivateKey", "SKey"}
RESULT_TYPES = {"Sha1Hash", "Proof"}

def lean_str(x):
    return '"' + x.replace("\\", "\\\\").replace('"', '\\"').replace("\n", " ") + '"'

def norm(text):
    """one space between words, none around punctuation; string literals must not contain white space (none does)"""
    for m in re.finditer(r'"(?:[^"\\]|\\.)*"', text):
        if re.search(r"\s", m.group(0)): raise Unsupported("string literal with white space: " + m.group(0))
    t = re.sub(r"\s+", " ", text).strip()
    return re.sub(r" ?([^\w\s\"]) ?", r"\1", t)

def statements(body):
    """split a normalised body (without its outer braces) at top-level `;`; a top-level `for .. { .. }` block is a statement of its own"""
    out, depth, cur, i = [], 0, "", 0
    instr = False
    while i < len(body):
        ch = body[i]
        if instr:
            cur += ch
            if ch == "\\": cur += body[i + 1]; i += 1
            elif ch == '"': instr = False
        elif ch == '"': instr = True; cur += ch
        elif ch in "([{": depth += 1; cur += ch
        elif ch in ")]}":
            depth -= 1; cur += ch
            if depth == 0 and ch == "}" and cur.startswith("for"):
                out.append(cur); cur = ""
        elif ch == ";" and depth == 0:
            out.append(cur + ";"); cur = ""
        else: cur += ch
        i += 1
    return out, cur        # statements (each ends with ';' or is a for block), tail expression

def call_args(txt, start):
    """the arguments of the call whose '(' is at `start`, split at top-level commas; returns (list, index after ')')"""
    inner, end = gc.split_args(txt, start)
    if inner is None: raise Unsupported("unbalanced call in " + txt[:80])
    args, depth, cur, instr = [], 0, "", False
    for ch in inner:
        if instr:
            cur += ch
            if ch == '"': instr = False
            continue
        if ch == '"': instr = True
        if ch in "([{": depth += 1
        elif ch in ")]}": depth -= 1
        if ch == "," and depth == 0: args.append(cur); cur = ""
        else: cur += ch
    if cur != "": args.append(cur)
    return args, end + 1

class Fn:
    def __init__(self, repo, rel, name, callees, consts):
        self.rel, self.name, self.callees, self.consts, self.repo = rel, name, callees, consts, repo
        self.text = gc.load(repo, rel)
        body = gc.fn_body(self.text, name, rel, unique=True)
        msk = gc.mask_literals(self.text)
        m = re.search(r"\bfn\s+" + name + r"\s*\(", msk)
        inner, end = gc.split_args(self.text, m.end() - 1)
        self.params = []           # (name, kind)  kind: nstr | key | slice | u32 | gen
        for p in call_args(self.text, m.end() - 1)[0]:
            p = re.sub(r"\s+", " ", p).strip()
            if not p: continue
            pm = re.fullmatch(r"(\w+) ?: ?(.+)", p)
            if not pm: raise Unsupported("parameter " + p)
            self.params.append((pm.group(1), self.kind(pm.group(2).strip())))
        ret = re.sub(r"\s+", "", self.text[end + 1:self.text.index("{", end)])
        rm = re.fullmatch(r"->(\w+|\[u8;[^\]]+\])", ret)
        if not rm: raise Unsupported("return type " + ret)
        self.ret = rm.group(1)
        if self.ret[0] != "[" and self.ret not in RESULT_TYPES: raise Unsupported("return type " + ret)
        if len({n for n, _ in self.params}) != len(self.params): raise Unsupported("duplicate parameter names")
        self.body = norm(body.strip()[1:-1])
        self.locals = []           # names, in definition order
        self.stmts = []
    def kind(self, ty):
        t = ty.replace(" ", "")
        if t == "&NormalizedString": return "nstr"
        if t.lstrip("&") in KEY_TYPES: return "key"
        if t == "&[u8]" or re.fullmatch(r"&\[u8;[^\]]+\]", t): return "slice"
        if t == "u32": return "u32"
        if t in ("Generator", "&Generator"): return "gen"
        raise Unsupported("parameter type " + ty)
    def pidx(self, n):
        for i, (pn, k) in enumerate(self.params):
            if pn == n: return i, k
        return None, None
    def lidx(self, n):
        return self.locals.index(n) if n in self.locals else None
    def const_bytes(self, name):
        gg.unique_array_const(self.text, self.rel, name)
        try: return gc.find_array(self.text, name, self.rel)
        except gc.Missing: raise Unsupported("constant " + name + " is not a byte array of " + self.rel)
    def fed(self, a):
        """an argument of chain_update / update / new_from_slice"""
        a = a.strip()
        if a.startswith("&"): a = a[1:]
        m = re.fullmatch(r'b?"((?:[^"\\]|\\.)*)"', a)
        if m:
            if "\\" in m.group(1): raise Unsupported("escape in string literal " + a)
            return "HArg.lit " + gc.lean_bytes(list(m.group(1).encode()))
        m = re.fullmatch(r"(\w+)\.as_ref\(\)", a)
        if m:
            i, k = self.pidx(m.group(1))
            if k == "nstr": return "HArg.param %d" % i
            raise Unsupported("as_ref() on " + m.group(1))
        m = re.fullmatch(r"(\w+)\.as_le_bytes\(\)", a)
        if m:
            i, k = self.pidx(m.group(1))
            if k == "key": return "HArg.param %d" % i
            j = self.lidx(m.group(1))
            if j is not None and self.stmts[j].startswith("HStmt.call"): return "HArg.loc %d" % j
            raise Unsupported("as_le_bytes() on " + m.group(1))
        m = re.fullmatch(r"(\w+)\.to_le_bytes\(\)", a)
        if m:
            i, k = self.pidx(m.group(1))
            if k == "u32": return "HArg.u32le %d" % i
            lm = re.fullmatch(r"(\d[\d_]*)_u32", m.group(1))
            if lm: return "HArg.litU32 %d" % int(lm.group(1).replace("_", ""))
            raise Unsupported("to_le_bytes() on " + m.group(1))
        m = re.fullmatch(r"\[(\w+)\.as_u8\(\)\]", a)
        if m:
            i, k = self.pidx(m.group(1))
            if k == "gen": return "HArg.byteOf %d" % i
            raise Unsupported("as_u8() on " + m.group(1))
        if re.fullmatch(r"[A-Z][A-Z0-9_]*", a) and self.lidx(a) is None and self.pidx(a)[0] is None:
            return "HArg.lit " + gc.lean_bytes(self.const_bytes(a))
        if re.fullmatch(r"\w+", a):
            j = self.lidx(a)
            if j is not None and not self.stmts[j].startswith("HStmt.call"): return "HArg.loc %d" % j
            i, k = self.pidx(a)
            if k == "slice": return "HArg.param %d" % i
        raise Unsupported("hash argument " + a)
    def passed(self, a):
        """an argument of a call of another function"""
        a = a.strip()
        if a.startswith("&"): a = a[1:]
        if re.fullmatch(r"\w+", a):
            j = self.lidx(a)
            if j is not None: return "HArg.loc %d" % j
            i, k = self.pidx(a)
            if i is not None: return "HArg.param %d" % i
        raise Unsupported("call argument " + a)
    def sha_expr(self, e):
        """Sha1::new()(.chain_update(a))+.finalize()|.finalize_fixed() [.into()]  ->  term, or None when `e` is not of that form"""
        if not e.startswith("Sha1::new()"): return None
        pos, args = len("Sha1::new()"), []
        while e.startswith(".chain_update(", pos):
            a, pos = call_args(e, pos + len(".chain_update"))
            if len(a) != 1: raise Unsupported("chain_update with %d arguments" % len(a))
            args.append(self.fed(a[0]))
        rest = e[pos:]
        if rest not in (".finalize()", ".finalize().into()", ".finalize_fixed()", ".finalize_fixed().into()") or not args:
            raise Unsupported("hash expression " + e[:120])
        return "HStmt.sha1 [%s]" % ", ".join(args)
    def call_expr(self, e):
        m = re.match(r"(\w+)\(", e)
        if not m or m.group(1) not in self.callees: return None
        a, pos = call_args(e, m.end() - 1)
        if pos != len(e): raise Unsupported("call expression " + e[:120])
        return "HStmt.call %s [%s]" % (lean_str(m.group(1)), ", ".join(self.passed(x) for x in a))
    def define(self, name, term):
        if name is not None:
            if name in self.locals or self.pidx(name)[0] is not None: raise Unsupported("the name %s is bound twice" % name)
        self.locals.append(name if name is not None else "<anonymous %d>" % len(self.locals))
        self.stmts.append(term)
        return len(self.stmts) - 1
    def translate(self):
        sts, tail = statements(self.body)
        LET = r"let (\w+)(?::[^=]+)?="
        i = 0
        open_hmac = None       # (object name, key term, fed terms)
        def close_hmac(name):
            nonlocal open_hmac
            obj, key, fed = open_hmac
            open_hmac = None
            return self.define(name, "HStmt.hmac (%s) [%s]" % (key, ", ".join(fed)))
        while i < len(sts):
            s = sts[i]
            if open_hmac is not None:
                obj = open_hmac[0]
                m = re.fullmatch(re.escape(obj) + r"\.update\((.*)\);", s)
                if m:
                    a, pos = call_args(s, len(obj) + len(".update"))
                    if len(a) != 1 or s[pos:] != ";": raise Unsupported("update: " + s)
                    open_hmac[2].append(self.fed(a[0])); i += 1; continue
                m = re.fullmatch(LET + re.escape(obj) + r"\.finalize_fixed\(\)\.into\(\);", s)
                if m:
                    close_hmac(m.group(1)); i += 1; continue
                raise Unsupported("statement while the HMAC object %s is open: %s" % (obj, s[:120]))
            m = re.fullmatch(r"let mut (\w+)(?::Hmac<Sha1>)?=Hmac(?:::<Sha1>)?::new_from_slice\((.*)\)\.unwrap\(\);", s)
            if m:
                if m.group(1) in self.locals or self.pidx(m.group(1))[0] is not None: raise Unsupported("the name %s is bound twice" % m.group(1))
                open_hmac = [m.group(1), self.fed(m.group(2)), []]; i += 1; continue
            m = re.fullmatch(LET + r"\[0_u8;([^\]]+)\];", s)
            if m:
                self.define(m.group(1), "HStmt.zeros %d" % gg.const_expr(self.repo, self.text, self.rel, m.group(2), self.consts)); i += 1; continue
            m = re.fullmatch(r"let mut (\w+)=\[0_u8;([^\]]+)\];", s)
            if m and i + 1 < len(sts):
                X = m.group(1)
                f = re.fullmatch(r"for\((\w+),(\w+)\)in (\w+)\.iter\(\)\.enumerate\(\)\{" + re.escape(X) + r"\[\1\]=(?:\*\2\^(\w+)\[\1\]|(\w+)\[\1\]\^\*\2);\}", sts[i + 1])
                if not f: raise Unsupported("loop after `let mut %s`: %s" % (X, sts[i + 1][:120]))
                if len({f.group(1), f.group(2), X}) != 3: raise Unsupported("loop variable names")
                a, b = f.group(3), f.group(4) or f.group(5)
                self.define(X, "HStmt.xorInto %d (%s) (%s)" % (gg.const_expr(self.repo, self.text, self.rel, m.group(2), self.consts), self.fed(a), self.fed(b))); i += 2; continue
            m = re.fullmatch(LET + r"(.*);", s)
            if m:
                t = self.sha_expr(m.group(2)) or self.call_expr(m.group(2))
                if t is None: raise Unsupported("statement " + s[:120])
                self.define(m.group(1), t); i += 1; continue
            raise Unsupported("statement " + s[:120])
        # the tail expression
        if open_hmac is not None:
            if tail != open_hmac[0] + ".finalize_fixed().into()": raise Unsupported("tail with an open HMAC object: " + tail[:120])
            return "HArg.loc %d" % close_hmac(None)
        m = re.fullmatch(r"(\w+)::from_le_bytes\((\w+)(\.into\(\))?\)", tail)
        if m:
            if m.group(1) != self.ret: raise Unsupported("tail builds a %s, the function returns %s" % (m.group(1), self.ret))
            j = self.lidx(m.group(2))
            if j is None: raise Unsupported("tail: " + tail)
            return "HArg.loc %d" % j
        if self.ret[0] != "[": raise Unsupported("tail: " + tail[:120])
        t = self.sha_expr(tail) or self.call_expr(tail)
        if t is None: raise Unsupported("tail: " + tail[:120])
        return "HArg.loc %d" % self.define(None, t)

def consts_table(repo):
    """the crate's scalar constants, resolved as gen_constants does (lib.rs first, then the files the targets live in)"""
    c = gc.Consts()
    for rel in ("src/lib.rs", "src/key.rs", "src/srp_internal.rs", "src/integrity.rs"):
        try: text = gc.load(repo, rel)
        except gc.Missing: continue
        for _ in range(3):                                   # constants may refer to later ones
            for m in re.finditer(r"(?:pub(?:\([^)]*\))?\s+)?const\s+([A-Z][A-Z0-9_]*)\s*:\s*(?:u8|u16|u32|u64|usize)\s*=", text):
                if m.group(1) in c.vals: continue
                try: c.scalar(text, m.group(1), rel)
                except gc.Missing: pass
    return c

def translate_one(repo, rel, fn, callees, consts):
    try:
        for cn, crel in callees.items():
            gc.fn_body(gc.load(repo, crel), cn, crel, unique=True)        # the callee exists, once, where the theorem's environment says
            if crel != rel and len(re.findall(r"\bfn\s+" + cn + r"\b", gc.mask_literals(gc.load(repo, rel)))) != 0:
                raise Unsupported("%s is also defined in %s" % (cn, rel))
            if crel != rel:
                # ... and the name is brought into this file by exactly one `use`, from that file's module (no alias, no glob, no local item)
                gg.imported_only(gc.load(repo, rel), rel, cn, {"crate::" + crel[4:-3].replace("/", "::") + "::" + cn})
        f = Fn(repo, rel, fn, callees, consts)
        res = f.translate()
        # `Sha1` / `Digest` / `Hmac` / `Mac` are the sha1 / hmac crates' (one plain `use`, no local item, no trait defined in the file);
        # nothing but doc / allow / must_use attributes, `pub` and `const` in front of the function
        gg.hash_types(f.text, rel, any(x.startswith("HStmt.hmac") for x in f.stmts))
        gg.fn_header(f.text, rel, fn)
        return "⟨[%s], %s, none⟩" % (", ".join(f.stmts), res)
    except (Unsupported, gg.Unsupported, gc.Missing) as ex:
        return "⟨[], HArg.lit [], some %s⟩" % lean_str(str(ex))
    except Exception as ex:
        return "⟨[], HArg.lit [], some %s⟩" % lean_str("translator error %s: %s" % (type(ex).__name__, ex))

KEY_CTORS = [("tbcEncNew", "src/tbc_header/encrypt.rs"), ("tbcDecNew", "src/tbc_header/decrypt.rs")]

def key_ctor(repo, rel):
    """`EncrypterHalf::new` / `DecrypterHalf::new` of the TBC cipher: the whole body has to be

        const N: usize = <n>;  let s: [u8; N] = [<bytes>];  let mut h: Hmac<Sha1> = Hmac::new_from_slice(s.as_slice()).unwrap();
        h.update(&<parameter>);  let key = h.finalize().into_bytes().as_slice().try_into().unwrap();  Self { key, index: <i>, previous_value: <p> }

    -> (HashProg for the key, initial index, initial chaining byte)"""
    bad = lambda why: ("⟨[], HArg.lit [], some %s⟩" % lean_str(why), 0, 0)
    try:
        text = gc.load(repo, rel)
        body = gc.fn_body(text, "new", rel, unique=True)
        msk = gc.mask_literals(text)
        sig = re.search(r"\bfn\s+new\s*\(\s*(\w+)\s*:\s*\[u8;\s*SESSION_KEY_LENGTH as usize\]\s*\)\s*->\s*Self\s*\{", msk)
        if not sig: raise Unsupported("signature of new in " + rel)
        t = norm(body.strip()[1:-1])
        m = re.fullmatch(r"const (\w+):usize=(\d+);let (\w+):\[u8;\1\]=\[([^\]]*)\];let mut (\w+):Hmac<Sha1>=Hmac::new_from_slice\(\3\.as_slice\(\)\)\.unwrap\(\);"
                         r"\5\.update\(&(\w+)\);let (\w+)=\5\.finalize\(\)\.into_bytes\(\)\.as_slice\(\)\.try_into\(\)\.unwrap\(\);"
                         r"Self\{(?:key:\7|key),index:(\d+),previous_value:(\d+),?\}", t)
        if not m: raise Unsupported("new outside its frame: " + t[:200])
        if m.group(7) != "key" and "key:" + m.group(7) not in t: raise Unsupported("the key field is not the HMAC output")
        if m.group(6) != sig.group(1): raise Unsupported("the HMAC is not over the parameter " + sig.group(1))
        if len({m.group(1), m.group(3), sig.group(1)}) != 3: raise Unsupported("names")
        seed = gc.parse_array(m.group(4))
        if len(seed) != int(m.group(2)) or any(not 0 <= x <= 255 for x in seed): raise Unsupported("seed literal")
        gg.hash_types(text, rel, True, uses_digest=False)
        gg.fn_header(text, rel, "new")
        gg.never_bound(text, rel, ["as_slice", "try_into", "into_bytes", "unwrap"])
        return ("⟨[HStmt.hmac (HArg.lit %s) [HArg.param 0]], HArg.loc 0, none⟩" % gc.lean_bytes(seed), int(m.group(8)), int(m.group(9)))
    except (Unsupported, gg.Unsupported, gc.Missing) as ex:
        return bad(str(ex))
    except Exception as ex:
        return bad("translator error %s: %s" % (type(ex).__name__, ex))

def inner_ctor(repo):
    """`InnerCrypto::new(session_key, key)` of the Wrath cipher (src/wrath_header/inner_crypto/mod.rs): the whole body has to be

        let mut h: Hmac<Sha1> = Hmac::<Sha1>::new_from_slice(<key>.as_slice()).unwrap();  h.update(&<session_key>);  let h = h.finalize();
        let mut inner = Rc4::new(h.into_bytes().as_slice());  let mut pad = [0_u8; <n>];  inner.apply_keystream(&mut pad);  Self { inner }

    -> (HashProg for the RC4 key, number of keystream bytes dropped)"""
    rel = "src/wrath_header/inner_crypto/mod.rs"
    bad = lambda why: ("⟨[], HArg.lit [], some %s⟩" % lean_str(why), 0)
    try:
        text = gc.load(repo, rel)
        body = gc.fn_body(text, "new", rel, unique=True)
        msk = gc.mask_literals(text)
        sig = re.search(r"\bfn\s+new\s*\(\s*(\w+)\s*:\s*\[u8;\s*SESSION_KEY_LENGTH as usize\]\s*,\s*(\w+)\s*:\s*&\[u8;\s*KEY_LENGTH as usize\]\s*,?\s*\)\s*->\s*Self\s*\{", msk)
        if not sig: raise Unsupported("signature of new in " + rel)
        t = norm(body.strip()[1:-1])
        m = re.fullmatch(r"let mut (\w+):Hmac<Sha1>=Hmac::<Sha1>::new_from_slice\((\w+)\.as_slice\(\)\)\.unwrap\(\);\1\.update\(&(\w+)\);let (\w+)=\1\.finalize\(\);"
                         r"let mut (\w+)=Rc4::new\(\4\.into_bytes\(\)\.as_slice\(\)\);let mut (\w+)=\[0_u8;([^\]]+)\];\5\.apply_keystream\(&mut \6\);Self\{(?:inner:\5|inner)\}", t)
        if not m: raise Unsupported("new outside its frame: " + t[:240])
        if m.group(5) != "inner" and "inner:" + m.group(5) not in t: raise Unsupported("the inner field is not the RC4 object")
        if m.group(2) != sig.group(2) or m.group(3) != sig.group(1): raise Unsupported("HMAC key / message are not the parameters %s / %s" % (sig.group(2), sig.group(1)))
        if len({m.group(1), m.group(5), m.group(6), sig.group(1), sig.group(2)}) != 5: raise Unsupported("names")
        drop = gg.const_expr(repo, text, rel, m.group(7), consts_table(repo))
        gg.hash_types(text, rel, True, uses_digest=False)
        gg.fn_header(text, rel, "new")
        gg.imported_only(text, rel, "Rc4", {"crate::rc4::Rc4"})
        gg.never_bound(text, rel, ["as_slice", "into_bytes", "unwrap", "apply_keystream"])
        return ("⟨[HStmt.hmac (HArg.param 1) [HArg.param 0]], HArg.loc 0, none⟩", drop)
    except (Unsupported, gg.Unsupported, gc.Missing) as ex:
        return bad(str(ex))
    except Exception as ex:
        return bad("translator error %s: %s" % (type(ex).__name__, ex))

def main(repo, outp):
    try: consts = consts_table(repo)
    except Exception: consts = gc.Consts()
    defs = []
    for lname, rel, fn, callees in TARGETS:
        defs.append("/-- `%s` in %s -/\ndef %s : HashProg := %s" % (fn, rel, lname, translate_one(repo, rel, fn, callees, consts)))
    for lname, rel in KEY_CTORS:
        prog, idx, prev = key_ctor(repo, rel)
        defs.append("/-- `new` in %s: the key, the initial position, the initial chaining byte -/\ndef %s : HashProg := %s\ndef %sIndex : Nat := %d\ndef %sPrev : Nat := %d" % (rel, lname, prog, lname, idx, lname, prev))
    prog, drop = inner_ctor(repo)
    defs.append("/-- `InnerCrypto::new(session_key, key)` in src/wrath_header/inner_crypto/mod.rs: the RC4 key, the number of keystream bytes dropped -/\ndef wrathInnerKey : HashProg := %s\ndef wrathInnerDrop : Nat := %d" % (prog, drop))
    text = ("/- GENERATED by tools/gen_hash.py from the Rust sources on every run. Do not edit. -/\nimport WowSrp.Model.MiniHash\n"
            "namespace WowSrp.Gen.CodeHash\nopen WowSrp.MiniHash\n\n" + "\n\n".join(defs) + "\n\nend WowSrp.Gen.CodeHash\n")
    old = open(outp).read() if os.path.exists(outp) else None
    if old != text:
        os.makedirs(os.path.dirname(outp), exist_ok=True)
        open(outp, "w").write(text); print("gen_hash: wrote", outp)
    else:
        print("gen_hash: unchanged")
    return 3 if ", some " in text else 0

if __name__ == "__main__":
    sys.exit(main(sys.argv[1], sys.argv[2]))
