#!/usr/bin/env python3
"""Which generated definitions (Gen/Constants.lean, Gen/Facts.lean, Gen/Code.lean) does a patch change?   usage: fact_diff.py patch.diff ...
Applies each patch to a scratch copy of /repo (never to /repo), re-runs both translators and lists the definitions whose text differs from
the ones generated for the unchanged tree.  Every generated definition has a proof obligation, so a listed name is an obligation that the
patch breaks (or, for Constants, a changed model) — a quick way to see what the static leg of the tie notices, without building anything."""
import os, re, sys, shutil, subprocess, tempfile
VERIF = os.path.dirname(os.path.dirname(os.path.abspath(__file__)))
REPO = os.environ.get("VERIF_REPO", "/repo")

def gen(repo, out):
    os.makedirs(out, exist_ok=True)
    subprocess.run([sys.executable, os.path.join(VERIF, "tools", "gen_code.py"), repo, os.path.join(out, "Code.lean")], capture_output=True)
    subprocess.run([sys.executable, os.path.join(VERIF, "tools", "gen_constants.py"), repo, os.path.join(out, "Constants.lean")], capture_output=True)
    defs = {}
    for f in ("Code.lean", "CodeImp.lean", "CodeStr.lean", "CodeKsa.lean", "CodeHash.lean", "CodeIlv.lean", "CodeApi.lean", "Constants.lean", "Facts.lean"):
        p = os.path.join(out, f)
        if not os.path.exists(p): continue
        for m in re.finditer(r"^(?:def|abbrev) (\w+)[^\n]*(?:\n(?!def |abbrev |/--|end |namespace ).*)*", open(p).read(), re.M):
            defs[f[:-5] + "." + m.group(1)] = m.group(0)
    return defs

def main():
    tmp = tempfile.mkdtemp(prefix="factdiff_", dir="/root")
    try:
        base = os.path.join(tmp, "base"); os.makedirs(base); shutil.copytree(os.path.join(REPO, "src"), os.path.join(base, "src"))
        shutil.copy(os.path.join(REPO, "Cargo.toml"), base)
        d0 = gen(base, os.path.join(tmp, "g0"))
        for i, patch in enumerate(sys.argv[1:]):
            d = os.path.join(tmp, "p%d" % i); shutil.copytree(base, d)
            r = subprocess.run(["patch", "-p1", "-s", "-d", d, "-i", os.path.abspath(patch)], capture_output=True, text=True)
            if r.returncode != 0:
                print("%s: patch does not apply (%s)" % (patch, (r.stdout + r.stderr).strip()[:100])); continue
            d1 = gen(d, os.path.join(tmp, "g%d" % (i + 1)))
            ch = sorted(k for k in set(d0) | set(d1) if d0.get(k) != d1.get(k))
            print("%s: %s" % (patch, ", ".join(ch) if ch else "no generated definition changes"))
    finally:
        shutil.rmtree(tmp, ignore_errors=True)

if __name__ == "__main__":
    main()
