#!/usr/bin/env python3
"""one-time search (minutes) for honest logins in the rare classes of C01's quantifier that a run cannot reach by chance:
S with two high-order zero bytes (must be zero-padded by TWO bytes), S with two low-order zero bytes, A / B with two high-order zero
bytes.  Writes corpus/C01/rare_classes.case (protocol lines with their injected draws; expected output recomputed by the reference)."""
import sys, os, random
sys.path.insert(0, os.path.dirname(os.path.abspath(__file__)))
import pyref, pydriver
from srp_cases import login_line
from pyref import le32
rng = random.Random(20260930)
def rb(n): return bytes(rng.getrandbits(8) for _ in range(n))
out = []
want = {"S-high2": 4, "S-low2": 2, "A-high2": 2, "B-high2": 2}
tries = 0
creds = [("alice", "password123"), ("Bob", "hunter2"), ("A", "A"), ("0123456789abcdef", "~!@#$%^&*()_+{}|")]
while any(v > 0 for v in want.values()) and tries < 3_000_000:
    us, ps = creds[tries % len(creds)]
    salt, b = rb(32), rb(32)
    for _ in range(2000):
        tries += 1
        a = rb(32)
        s = pyref.Session(us, ps, salt, b, a)
        if s.A % pyref.N == 0 or s.B % pyref.N == 0 or s.S == 0: continue
        S32, A32, B32 = le32(s.S), s.A32, s.B32
        cls = None
        if S32[30:] == b"\0\0": cls = "S-high2"
        elif S32[:2] == b"\0\0": cls = "S-low2"
        elif A32[30:] == b"\0\0": cls = "A-high2"
        elif B32[30:] == b"\0\0": cls = "B-high2"
        if cls and want[cls] > 0:
            want[cls] -= 1
            via = rng.randrange(6)
            line = login_line(us, ps, us.swapcase(), ps.swapcase(), via, salt, b, a, rb(16))
            exp = pydriver.expected(line)
            out.append("# %s (found after %d tries)" % (cls, tries))
            out.append(line + "\t=> " + exp)
            print(cls, tries, flush=True)
d = os.path.join(os.path.dirname(os.path.dirname(os.path.abspath(__file__))), "corpus", "C01")
os.makedirs(d, exist_ok=True)
open(os.path.join(d, "rare_classes.case"), "w").write("\n".join(out) + "\n")
print("wrote", len(out) // 2, "cases; left:", want)
