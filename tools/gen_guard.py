#!/usr/bin/env python3
"""Guards shared by tools/gen_hash.py, gen_api.py, gen_ilv.py: what a translator resolves BY TEXT must be what rustc resolves by scope.
Every check here came out of the adversarial review kept in notes/audit_g/REPORT.md (findings F1–F9): a name that the translator reads as
"the function / type / constant of that name in the crate" can be rebound by an import, an alias, a glob, a local item, a local constant,
a trait that lends a method to a type; a length written with a narrowing cast is not the number the expression evaluator sees.  A
guard that fails raises Unsupported, whose meaning is "no meaning": the equivalence theorem fails rather than anything being guessed."""
import re, os, sys
sys.path.insert(0, os.path.dirname(os.path.abspath(__file__)))
import gen_constants as gc

class Unsupported(Exception):
    pass

def use_imports(text):
    """name -> list of full paths for every item the `use` declarations of a (test-free, comment-free) file bring into scope; `a as b` is
    listed under b with the path of a; a glob import is listed under '*'"""
    out = {}
    msk = gc.mask_literals(text)
    for m in re.finditer(r"\b(?:pub(?:\([^)]*\))?\s+)?use\s+([^;]+);", msk):
        def expand(prefix, tree):
            tree = tree.strip()
            depth, cur, parts = 0, "", []
            for ch in tree:
                if ch == "{": depth += 1
                elif ch == "}": depth -= 1
                if ch == "," and depth == 0: parts.append(cur); cur = ""
                else: cur += ch
            if cur.strip(): parts.append(cur)
            for part in parts:
                part = part.strip()
                bm = re.fullmatch(r"((?:[\w]+\s*::\s*)*)\{(.*)\}", part, re.S)
                if bm:
                    expand(prefix + re.sub(r"\s+", "", bm.group(1)), bm.group(2)); continue
                am = re.fullmatch(r"((?:\w+\s*::\s*)*)(\w+|\*)(?:\s+as\s+(\w+))?", part)
                if not am:
                    out.setdefault("?", []).append(prefix + part); continue
                path = prefix + re.sub(r"\s+", "", am.group(1)) + am.group(2)
                name = am.group(3) or am.group(2)
                if name == "self": name = (prefix.rstrip(":").split("::") or ["self"])[-1]; path = prefix.rstrip(":")
                out.setdefault(name, []).append(path)
        expand("", m.group(1))
    return out

ITEM = r"\b(?:fn|struct|enum|union|trait|type|const|static|mod|macro_rules!)\s+"

def items_named(text, name):
    return len(re.findall(ITEM + re.escape(name) + r"\b", gc.mask_literals(text)))

def no_foreign_globs(text, rel):
    imp = use_imports(text)
    globs = [p for p in imp.get("*", []) if not p.startswith(("core::", "std::"))]
    if globs: raise Unsupported("%s: glob import %s could supply any name" % (rel, globs))
    if "?" in imp: raise Unsupported("%s: use declaration not understood: %s" % (rel, imp["?"]))
    if re.search(r"\binclude!\s*\(", gc.mask_literals(text)): raise Unsupported("%s: include! pulls in text the translator does not read" % rel)
    return imp

def imported_only(text, rel, name, expected_paths):
    """`name` is brought into this file by exactly one `use`, from one of `expected_paths`, and no item of the file has that name"""
    imp = no_foreign_globs(text, rel)
    paths = imp.get(name, [])
    if items_named(text, name) != 0 or len(paths) != 1 or paths[0] not in expected_paths:
        raise Unsupported("%s: the name %s is defined %d times here and imported from %s (expected: one import from %s)" % (rel, name, items_named(text, name), paths, sorted(expected_paths)))

def never_bound(text, rel, names):
    """none of `names` (prelude constructors, the identity accessors of key.rs) is defined or imported in this file"""
    imp = no_foreign_globs(text, rel)
    for n in names:
        if items_named(text, n) or imp.get(n):
            raise Unsupported("%s: %s is defined or imported here (the translator reads it as the prelude's / key.rs's)" % (rel, n))

def hash_types(text, rel, uses_hmac, uses_digest=True):
    """`Sha1`, `Digest` (and `Hmac`, `Mac`, `FixedOutput` when used) are the sha1 / hmac crates' (one plain `use` each, no local item)"""
    imp = no_foreign_globs(text, rel)
    need = {"Sha1": ["sha1::Sha1"]}
    if uses_digest: need["Digest"] = ["sha1::Digest"]
    elif imp.get("Digest", ["sha1::Digest"]) != ["sha1::Digest"]: raise Unsupported("%s: Digest imported from %s" % (rel, imp.get("Digest")))
    if uses_hmac: need.update({"Hmac": ["hmac::Hmac"], "Mac": ["hmac::Mac"]})
    for tn, paths in need.items():
        if imp.get(tn) != paths or items_named(text, tn):
            raise Unsupported("%s: %s is not (only) %s: imported from %s, %d local items" % (rel, tn, paths[0], imp.get(tn), items_named(text, tn)))
    if "FixedOutput" in imp and imp["FixedOutput"] != ["hmac::digest::FixedOutput"]:
        raise Unsupported("%s: FixedOutput imported from %s" % (rel, imp["FixedOutput"]))
    for tr in re.findall(r"\btrait\s+(\w+)", gc.mask_literals(text)):
        raise Unsupported("%s: a trait (%s) is defined in a file whose method calls the translator resolves by name" % (rel, tr))

def fn_header(text, rel, name):
    """attributes and qualifiers in front of `fn name`: only doc / allow / must_use / inline attributes, `pub`, `pub(crate)`, `const`"""
    msk = gc.mask_literals(text)
    m = re.search(r"\bfn\s+" + re.escape(name) + r"\b", msk)
    if not m: raise Unsupported("%s: fn %s not found" % (rel, name))
    j = max(msk.rfind("}", 0, m.start()), msk.rfind(";", 0, m.start()), msk.rfind("{", 0, m.start()))
    head = msk[j + 1:m.start()]
    # attributes may contain ']' inside strings (masked) — strip bracket groups one by one
    while True:
        a = re.search(r"#\s*\[", head)
        if not a: break
        d, k = 0, a.end() - 1
        while k < len(head):
            if head[k] == "[": d += 1
            elif head[k] == "]":
                d -= 1
                if d == 0: break
            k += 1
        attr = head[a.start():k + 1]
        if not re.fullmatch(r"#\s*\[\s*(allow|inline|must_use|doc)\b.*\]", attr, re.S): raise Unsupported("%s: attribute %s on fn %s" % (rel, re.sub(r"\s+", " ", attr)[:60], name))
        head = head[:a.start()] + head[k + 1:]
    if not re.fullmatch(r"\s*(pub(\s*\(\s*crate\s*\))?\s+)?(const\s+)?", head):
        raise Unsupported("%s: qualifiers %r in front of fn %s" % (rel, re.sub(r"\s+", " ", head).strip(), name))

def const_expr(repo, text, rel, expr, table):
    """value of a constant expression used as an array length: casts only to usize / `_` (a narrowing cast is not the number the
    evaluator computes), every named constant either imported into this file by one `use` from the crate or defined exactly once in it
    (then THAT definition is evaluated), never both"""
    if re.search(r"\bas\s+(?!usize\b|_\b)\w+", expr): raise Unsupported("%s: cast other than `as usize` in the length %s" % (rel, expr))
    imp = no_foreign_globs(text, rel)
    local = gc.Consts()
    local.vals = dict(table.vals)
    for n in set(re.findall(r"\b[A-Z][A-Z0-9_]*\b", expr)):
        defs = items_named(text, n)
        paths = imp.get(n, [])
        qualified = re.search(r"\bcrate\s*::\s*" + n + r"\b", expr) is not None
        if defs == 0 and ((len(paths) == 1 and paths[0].startswith("crate::") and paths[0].endswith("::" + n)) or (qualified and not paths)):
            if n not in table.vals: raise Unsupported("%s: constant %s is not in the crate's table" % (rel, n))
            continue
        if defs == 1 and not paths and not qualified:
            try: local.scalar(text, n, rel)
            except gc.Missing as ex: raise Unsupported(str(ex))
            continue
        raise Unsupported("%s: constant %s is defined %d times here and imported from %s" % (rel, n, defs, paths))
    try: return local.eval(expr)
    except gc.Missing as ex: raise Unsupported(str(ex))

def unique_array_const(text, rel, name):
    """a byte-array constant the translator resolves to its bytes: exactly one item of that name in the file, at brace depth 0"""
    msk = gc.mask_literals(text)
    ms = list(re.finditer(r"\b(?:const|static)\s+" + re.escape(name) + r"\b", msk))
    if len(ms) != 1 or items_named(text, name) != 1: raise Unsupported("%s: %d definitions of %s" % (rel, len(ms), name))
    if msk[:ms[0].start()].count("{") != msk[:ms[0].start()].count("}"): raise Unsupported("%s: %s is not a module-level constant" % (rel, name))
    if use_imports(text).get(name): raise Unsupported("%s: %s is also imported" % (rel, name))
