#!/usr/bin/env python3
"""Which part of gtker/wow_srp do the correspondence runs actually execute?

Builds the harness with `-C instrument-coverage` (nightly, offline, separate target dir), pipes every property's
generated cases (quick tier by default) through it, merges the profiles and reports region/line coverage of
/repo/src per file plus the list of functions never entered.  The result is written to data/coverage.json
(committed) and summarised in DESIGN.md: it is how "which code is inside the tie" is measured rather than asserted.

usage: coverage.py [quick|thorough] [C01,C02,...]
"""
import sys, os, json, subprocess, random, importlib, glob, shutil, re, hashlib
VERIF = os.path.dirname(os.path.dirname(os.path.abspath(__file__)))
sys.path.insert(0, os.path.join(VERIF, "tools"))
import verif
REPO = verif.REPO
TOOLS = glob.glob(os.path.expanduser("~/.rustup/toolchains/nightly-x86_64-*/lib/rustlib/*/bin"))[0]

def main():
    tier = sys.argv[1] if len(sys.argv) > 1 else "quick"
    props = sys.argv[2].split(",") if len(sys.argv) > 2 else ["C%02d" % i for i in range(1, 20)]
    H = os.path.join(VERIF, "harness")
    env = dict(os.environ, RUSTFLAGS="-C instrument-coverage -C link-dead-code", CARGO_NET_OFFLINE="true")
    subprocess.run(["cargo", "+nightly", "build", "--release", "--offline", "--target-dir", "target-cov"], cwd=H, env=env, check=True,
                   stdout=subprocess.DEVNULL, stderr=subprocess.DEVNULL)
    binp = os.path.join(H, "target-cov", "release", "wowsrp_impl")
    cov = os.path.join(VERIF, "work", "cov")
    shutil.rmtree(cov, ignore_errors=True)
    os.makedirs(cov)
    per_prop = {}
    for pid in props:
        mod = importlib.import_module("props." + pid.lower())
        rng = random.Random(20260930 * 1000003 + int(hashlib.sha1(pid.encode()).hexdigest()[:8], 16))
        cases = mod.generate(rng, tier)
        lines = [c.line for c in cases]
        cd = os.path.join(VERIF, "corpus", pid)
        if os.path.isdir(cd):
            for f in sorted(os.listdir(cd)):
                if f.endswith(".case"):
                    lines += [l.rstrip("\n").split("\t=> ")[0] for l in open(os.path.join(cd, f)) if l.strip() and not l.startswith("#")]
        d = os.path.join(cov, pid)
        os.makedirs(d)
        verif.run_lines([binp], lines, env={"LLVM_PROFILE_FILE": os.path.join(d, "%p-%m.profraw")})
        prof = os.path.join(cov, pid + ".profdata")
        subprocess.run([os.path.join(TOOLS, "llvm-profdata"), "merge", "-sparse", "-o", prof] + glob.glob(os.path.join(d, "*.profraw")), check=True)
        per_prop[pid] = summary(binp, prof)
        shutil.rmtree(d)
        print(pid, len(lines), "lines ->", per_prop[pid]["totals"], flush=True)
    allp = os.path.join(cov, "all.profdata")
    subprocess.run([os.path.join(TOOLS, "llvm-profdata"), "merge", "-sparse", "-o", allp] + [os.path.join(cov, p + ".profdata") for p in props], check=True)
    tot = summary(binp, allp, functions=True)
    out = dict(tier=tier, properties=props, total=tot, per_property={p: per_prop[p]["totals"] for p in props})
    json.dump(out, open(os.path.join(VERIF, "data", "coverage.json"), "w"), indent=1)
    print("TOTAL", tot["totals"])
    for f, v in sorted(tot["files"].items()):
        print("  %-40s lines %5.1f%%  regions %5.1f%%  functions %d/%d" % (f, v["lines"], v["regions"], v["fn_cov"], v["fn"]))
    print("functions never entered:")
    for f in tot["uncovered_functions"]:
        print("  ", f)
    print("functions in the source never instantiated in the harness binary (%d of %d):" % (len(tot["never_instantiated"]), tot["source_functions"]))
    for f in tot["never_instantiated"]:
        print("  ", f)

def demangle(names):
    p = subprocess.run(["rustfilt"], input="\n".join(names), capture_output=True, text=True) if shutil.which("rustfilt") else None
    return p.stdout.split("\n") if p and p.returncode == 0 else names

def summary(binp, prof, functions=False):
    r = subprocess.run([os.path.join(TOOLS, "llvm-cov"), "export", "-format=text", "-instr-profile", prof, binp,
                        "-ignore-filename-regex", r"(\.cargo|rustc|harness)"] + ([] if functions else ["-summary-only"]),
                       capture_output=True, text=True, check=True)
    j = json.loads(r.stdout)["data"][0]
    files = {}
    for f in j["files"]:
        name = f["filename"]
        if "/src/" not in name or not name.startswith(REPO):
            continue
        s = f["summary"]
        files[os.path.relpath(name, REPO)] = dict(lines=round(s["lines"]["percent"], 1), regions=round(s["regions"]["percent"], 1),
                                                 fn=s["functions"]["count"], fn_cov=s["functions"]["covered"],
                                                 lines_n=s["lines"]["count"], lines_cov=s["lines"]["covered"],
                                                 regions_n=s["regions"]["count"], regions_cov=s["regions"]["covered"])
    tl = sum(v["lines_n"] for v in files.values()); cl = sum(v["lines_cov"] for v in files.values())
    tr = sum(v["regions_n"] for v in files.values()); cr = sum(v["regions_cov"] for v in files.values())
    tf = sum(v["fn"] for v in files.values()); cf = sum(v["fn_cov"] for v in files.values())
    res = dict(totals=dict(lines="%d/%d" % (cl, tl), regions="%d/%d" % (cr, tr), functions="%d/%d" % (cf, tf)), files=files)
    if functions:
        # a generic function is instantiated several times: it counts as entered if any instantiation was
        seen = {}
        for fn in j.get("functions", []):
            fns = [x for x in fn["filenames"] if x.startswith(REPO) and "/src/" in x]
            if not fns:
                continue
            r0 = fn["regions"][0]
            key = "%s:%d" % (os.path.relpath(fns[0], REPO), r0[0])
            seen[key] = max(seen.get(key, 0), fn["count"])
        res["uncovered_functions"] = sorted(k for k, v in seen.items() if v == 0)
        res["functions_distinct"] = "%d/%d" % (sum(1 for v in seen.values() if v), len(seen))
        # functions that exist in the source but were never even instantiated in the harness binary (llvm-cov does not
        # list those at all): every `fn` of the non-test part of every source file is looked up by its line
        import gen_constants
        never = []
        nsrc = 0
        for root, _, fs in os.walk(os.path.join(REPO, "src")):
            for f in fs:
                if not f.endswith(".rs") or f == "test.rs":
                    continue
                rel = os.path.relpath(os.path.join(root, f), REPO)
                text = open(os.path.join(root, f)).read()
                m = re.search(r'#\[cfg\(test\)\]\s*(#\[[^\]]*\]\s*)*mod\s+\w+\s*\{', text)
                if m:
                    text = text[:m.start()]
                for ln, line in enumerate(text.split("\n"), 1):
                    mm = re.match(r'\s*(?:pub(?:\([^)]*\))?\s+)?(?:const\s+)?fn\s+(\w+)', line)
                    if mm:
                        nsrc += 1
                        if ("%s:%d" % (rel, ln)) not in seen:
                            never.append("%s:%d %s" % (rel, ln, mm.group(1)))
        res["source_functions"] = nsrc
        res["never_instantiated"] = sorted(never)
    return res

if __name__ == "__main__":
    main()
