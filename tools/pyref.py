"""Independent reference implementation (Python stdlib only: hashlib, hmac, pow) of what the
properties say wow_srp computes. Used (a) by the case generators to craft valid / near-valid
inputs and (b) as the implementation-side oracle: the property evaluated directly on what the
real crate returned. It shares no code with the Lean model or the Rust crate.
"""
import hashlib, hmac as _hmac, struct

N_BE_HEX = "894B645E89E1535BBDAD5B8B290650530801B18EBFBF5E8FAB3C82872A3E9BB7"
N = int(N_BE_HEX, 16)
N_LE = N.to_bytes(32, "little")
G = 7
K = 3

def sha1(*parts):
    h = hashlib.sha1()
    for p in parts:
        h.update(p)
    return h.digest()

def hmac_sha1(key, msg):
    return _hmac.new(key, msg, hashlib.sha1).digest()

def md5(b):
    return hashlib.md5(b).digest()

def le(b):
    return int.from_bytes(b, "little")

def le32(n):
    return n.to_bytes(32, "little")

def normalize(s):
    """None if not accepted; else upper-cased text"""
    b = s.encode("utf-8")
    if not (1 <= len(b) <= 16):
        return None
    for ch in s:
        if not (0x20 <= ord(ch) <= 0x7E):
            return None
    return "".join(chr(ord(c) - 32) if "a" <= c <= "z" else c for c in s)

def ns_result(s):
    """expected output line of ns.new"""
    b = s.encode("utf-8")
    if len(b) > 16 or len(b) == 0:
        return "err toolong"
    for ch in s:
        if not (0x20 <= ord(ch) <= 0x7E):
            return "err char %d" % ord(ch)
    return "ok " + normalize(s).encode().hex()

def calc_x(U, P, salt):
    return le(sha1(salt, sha1(U + b":" + P)))

def verifier(U, P, salt, g=G, n=N):
    return pow(g, calc_x(U, P, salt), n)

def server_B(v, b, g=G, n=N):
    return (K * v + pow(g, b, n)) % n

def calc_u(A32, B32):
    return le(sha1(A32, B32))

def interleave(S32):
    """SHA_Interleave over LE32(S): strip low-order zero bytes, one more if an odd number remain"""
    s = S32
    lead = 0
    while lead < len(s) and s[lead] == 0:
        lead += 1
    if lead % 2:
        lead += 1
    s = s[lead:]
    g = sha1(s[0::2])
    h = sha1(s[1::2])
    out = bytearray(40)
    out[0::2] = g
    out[1::2] = h
    return bytes(out)

def server_S(A, v, u, b, n=N):
    return pow(A * pow(v, u, n), b, n)

def client_S(B, x, a, u, g=G, n=N):
    return pow((B - K * pow(g, x, n)) % n, a + u * x, n)

def xor_hash(n_le=N_LE, g=G):
    return bytes(x ^ y for x, y in zip(sha1(n_le), sha1(bytes([g]))))

def M1(U, salt, A32, B32, K40, n_le=N_LE, g=G):
    return sha1(xor_hash(n_le, g), sha1(U), salt, A32, B32, K40)

def M2(A32, m1, K40):
    return sha1(A32, m1, K40)

def reconnect_proof(U, cd, sd, K40):
    return sha1(U, cd, sd, K40)

def world_proof(U, K40, client_seed, server_seed):
    return sha1(U, b"\0\0\0\0", struct.pack("<I", client_seed), struct.pack("<I", server_seed), K40)

class Session:
    """a complete honest exchange computed independently"""
    def __init__(self, user, pw, salt, b, a, g=G, n=N, n_le=N_LE):
        self.U = normalize(user).encode()
        self.P = normalize(pw).encode()
        self.salt = salt
        self.x = calc_x(self.U, self.P, salt)
        self.v = pow(g, self.x, n)
        self.b = le(b)
        self.a = le(a)
        self.B = (K * self.v + pow(g, self.b, n)) % n
        self.A = pow(g, self.a, n)
        self.A32 = le32(self.A)
        self.B32 = le32(self.B)
        self.u = calc_u(self.A32, self.B32)
        self.S = pow(self.A * pow(self.v, self.u, n), self.b, n)
        self.Sc = pow((self.B - K * self.v) % n, self.a + self.u * self.x, n)
        self.K = interleave(le32(self.S))
        self.M1 = M1(self.U, salt, self.A32, self.B32, self.K, n_le, g)
        self.M2 = M2(self.A32, self.M1, self.K)
        self.neg_base = self.B - K * self.v < 0

# ---- header ciphers -------------------------------------------------------------------------

def vanilla_encrypt(key, data, index=0, prev=0):
    out = bytearray()
    L = len(key)
    for x in data:
        c = ((x ^ key[index]) + prev) & 0xFF
        index = (index + 1) % L
        prev = c
        out.append(c)
    return bytes(out), index, prev

def vanilla_decrypt(key, data, index=0, prev=0):
    out = bytearray()
    L = len(key)
    for c in data:
        x = ((c - prev) & 0xFF) ^ key[index]
        index = (index + 1) % L
        prev = c
        out.append(x)
    return bytes(out), index, prev

TBC_SEED = bytes([0x38, 0xA7, 0x83, 0x15, 0xF8, 0x92, 0x25, 0x30, 0x71, 0x98, 0x67, 0xB1, 0x8C, 0x4, 0xE2, 0xAA])
WRATH_S = bytes([0xC2, 0xB3, 0x72, 0x3C, 0xC6, 0xAE, 0xD9, 0xB5, 0x34, 0x3C, 0x53, 0xEE, 0x2F, 0x43, 0x67, 0xCE])
WRATH_R = bytes([0xCC, 0x98, 0xAE, 0x04, 0xE8, 0x97, 0xEA, 0xCA, 0x12, 0xDD, 0xC0, 0x93, 0x42, 0x91, 0x53, 0x57])

def tbc_key(K40):
    return hmac_sha1(TBC_SEED, K40)

class RC4:
    def __init__(self, key):
        S = list(range(256))
        j = 0
        for i in range(256):
            j = (j + S[i] + key[i % len(key)]) & 0xFF
            S[i], S[j] = S[j], S[i]
        self.S, self.i, self.j = S, 0, 0
    def stream(self, n):
        S, i, j = self.S, self.i, self.j
        out = bytearray(n)
        for k in range(n):
            i = (i + 1) & 0xFF
            j = (j + S[i]) & 0xFF
            S[i], S[j] = S[j], S[i]
            out[k] = S[(S[i] + S[j]) & 0xFF]
        self.i, self.j = i, j
        return bytes(out)
    def apply(self, data):
        ks = self.stream(len(data))
        return bytes(a ^ b for a, b in zip(data, ks))

def wrath_stream(K40, direction_key):
    r = RC4(hmac_sha1(direction_key, K40))
    r.stream(1024)
    return r

def wrath_server_header_plain(size, opcode):
    op = struct.pack("<H", opcode)
    if size > 0x7FFF:
        return bytes([((size >> 16) & 0xFF) | 0x80, (size >> 8) & 0xFF, size & 0xFF]) + op
    return bytes([(size >> 8) & 0xFF, size & 0xFF]) + op

def server_header_plain(size, opcode):
    return struct.pack(">H", size) + struct.pack("<H", opcode)

def client_header_plain(size, opcode):
    return struct.pack(">H", size) + struct.pack("<I", opcode)

# ---- PIN ------------------------------------------------------------------------------------

def pin_layout(seed):
    """Lehmer-code permutation of seed mod 10!"""
    grid = list(range(10))
    out = []
    for i in range(10, 0, -1):
        r = seed % i
        seed //= i
        out.append(grid.pop(r))
    return out

def pin_hash(pin, seed, server_salt, client_salt):
    if pin < 1000:
        return None
    digits = [int(c) for c in str(pin)]
    layout = pin_layout(seed)
    remapped = bytes(0x30 + layout.index(d) for d in digits)
    return sha1(client_salt, sha1(server_salt, remapped))

# ---- integrity ------------------------------------------------------------------------------

def integrity(all_files, salt, pk):
    return sha1(pk, hmac_sha1(salt, all_files))

def integrity_reconnect(salt):
    return sha1(salt, b"\0" * 20)

# ---- matrix card ----------------------------------------------------------------------------

def mc_coordinates(width, height, count, seed):
    idx = list(range(width * height))
    out = []
    for i in range(count):
        c = len(idx)
        k = seed % c
        out.append(idx.pop(k))
        seed //= c
    return out

def mc_proof(seed, K40, digits):
    key = md5(struct.pack("<Q", seed) + K40)
    r = RC4(key)
    return hmac_sha1(key, r.apply(bytes(digits)))

def uniform_digit_stream(draws):
    """rand 0.8 UniformInt<u8> 0..=9 over u32 draws: returns accepted digits"""
    zone = (1 << 32) - 1 - (((1 << 32) - 10) % 10)
    out = []
    for v in draws:
        m = v * 10
        if (m & 0xFFFFFFFF) <= zone:
            out.append(m >> 32)
    return out
