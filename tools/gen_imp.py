#!/usr/bin/env python3
"""Translator (logic leg, imperative loops): `pin_to_bytes`, `remap_pin_grid` (src/pin.rs) and `generate_coordinates`
(src/matrix_card.rs) -> terms of WowSrp.MiniImp (lean/WowSrp/Model/MiniImp.lean), written to Gen/CodeImp.lean on every run.

The subset: `let [mut] x [: T] = e;`, `x = e;`, `x op= e;`, `a[i] = e;`, `for x in lo..hi {}`, `for (k, x) in (lo..=hi).rev().enumerate() {}`,
`while a != b {}`, `a[lo..hi].reverse();`, array literals, `vec![0_u8; n]`, copies of arrays; expressions over unsigned integers with
`+ - * / %`, `as T`, `.into()`, indexing, named constants of the file.  The translator does the TYPING (every `+` / `*` is emitted with the
bit width of its Rust type, a narrowing `as` becomes a truncation, a widening one disappears) and the SCOPING (every binding gets a fresh
slot, so shadowing is respected).  Anything else becomes `Stmt.unsupported "<source>"`, whose meaning is a panic, so the equivalence theorems
in Props/Source/Loops*.lean fail instead of anything being guessed."""
import re, sys, os
sys.path.insert(0, os.path.dirname(os.path.abspath(__file__)))
import gen_constants as gc

class Unsupported(Exception):
    pass

WIDTH = {"u8": 8, "u16": 16, "u32": 32, "u64": 64, "usize": 64}
TOK = re.compile(r"\s*(0x[0-9A-Fa-f_]+(?:_?(?:u8|u16|u32|u64|usize))?|\d[\d_]*?(?:_?(?:u8|u16|u32|u64|usize))?(?![\w])|[A-Za-z_][A-Za-z0-9_]*!?|\.\.=|\.\.|!=|==|<=|>=|&&|\|\||[-+*/%]=|[-+*/%=<>!&.,;:(){}\[\]])")

def lean_str(x):
    return '"' + x.replace("\\", "\\\\").replace('"', '\\"').replace("\n", " ") + '"'

def tokens(s):
    out, i = [], 0
    s = s.strip()
    while i < len(s):
        m = TOK.match(s, i)
        if not m or m.end() == i:
            raise Unsupported("cannot tokenise at: " + s[i:i + 40])
        out.append(m.group(1)); i = m.end()
    return out

def lit_of(tok):
    m = re.fullmatch(r"(0x[0-9A-Fa-f_]+?|\d[\d_]*?)_?(u8|u16|u32|u64|usize)?", tok)
    if not m:
        return None
    return int(m.group(1).replace("_", ""), 0), m.group(2)

class Tr:
    def __init__(self, toks, consts, params):
        self.t, self.i = toks, 0
        self.consts = consts                   # name -> (value, type)
        self.scopes = [{}]                     # name -> ("var", slot, type) | ("arr", slot)
        self.nvar = 0; self.narr = 0
        self.untyped_index_vars = set()
        for name, ty in params:
            if ty == "arr":
                self.scopes[0][name] = ("arr", self.narr); self.narr += 1
            else:
                self.scopes[0][name] = ("var", self.nvar, ty); self.nvar += 1
    # -- token helpers
    def peek(self, k=0):
        return self.t[self.i + k] if self.i + k < len(self.t) else None
    def eat(self, x=None):
        t = self.peek()
        if t is None or (x is not None and t != x):
            raise Unsupported("expected %r, found %r" % (x, t))
        self.i += 1
        return t
    def lookup(self, name):
        for sc in reversed(self.scopes):
            if name in sc:
                return sc[name]
        return None
    def bind_var(self, name, ty):
        if name.startswith("self_") or name in ("self", "vec", "Vec"):
            raise Unsupported("a local named %s" % name)
        slot = self.nvar; self.nvar += 1
        self.scopes[-1][name] = ("var", slot, ty)
        return slot
    def bind_arr(self, name):
        if name.startswith("self_") or name in ("self", "vec", "Vec"):
            raise Unsupported("a local named %s" % name)
        slot = self.narr; self.narr += 1
        self.scopes[-1][name] = ("arr", slot)
        return slot
    # -- expressions: returns (lean_term, type-or-None, is_array_slot)
    def unify(self, ta, tb, what):
        if ta is None: return tb
        if tb is None: return ta
        if ta != tb:
            raise Unsupported("operands of %s have types %s and %s" % (what, ta, tb))
        return ta
    def expr(self):
        a, ta = self.term()
        while self.peek() in ("+", "-"):
            op = self.eat(); b, tb = self.term()
            ty = self.unify(ta, tb, op)
            if op == "+":
                if ty is None: raise Unsupported("`+` on untyped literals")
                a = "Expr.add %d (%s) (%s)" % (WIDTH[ty], a, b)
            else:
                a = "Expr.sub (%s) (%s)" % (a, b)
            ta = ty
        return a, ta
    def term(self):
        a, ta = self.cast()
        while self.peek() in ("*", "/", "%"):
            op = self.eat(); b, tb = self.cast()
            ty = self.unify(ta, tb, op)
            if op == "*":
                if ty is None: raise Unsupported("`*` on untyped literals")
                a = "Expr.mul %d (%s) (%s)" % (WIDTH[ty], a, b)
            elif op == "/":
                a = "Expr.div (%s) (%s)" % (a, b)
            else:
                a = "Expr.rem (%s) (%s)" % (a, b)
            ta = ty
        return a, ta
    def cast(self):
        a, ta = self.postfix()
        while self.peek() == "as":
            self.eat(); ty = self.eat()
            if ty not in WIDTH:
                raise Unsupported("cast to " + ty)
            if isinstance(ta, tuple):
                raise Unsupported("`as` after .into()")
            if ta is not None and WIDTH[ty] < WIDTH[ta]:
                a = "Expr.cast %d (%s)" % (WIDTH[ty], a)
            elif ta is None:
                # only a single literal that fits takes the type; an untyped constant EXPRESSION is an i32 computation in Rust
                m = re.fullmatch(r"Expr\.lit (\d+)", a)
                if not m or int(m.group(1)) >= 1 << WIDTH[ty]:
                    raise Unsupported("`as %s` applied to an untyped constant expression" % ty)
            ta = ty
        return a, ta
    def postfix(self):
        a, ta = self.primary()
        while True:
            if self.peek() == "." and self.peek(1) == "into" and self.peek(2) == "(" and self.peek(3) == ")":
                self.i += 4
                ta = ("into", ta)                     # widening conversion, target decided by the context
            else:
                return a, ta
    def primary(self):
        t = self.eat()
        if t == "(":
            a, ta = self.expr(); self.eat(")"); return a, ta
        l = lit_of(t)
        if l is not None:
            return "Expr.lit %d" % l[0], l[1]
        if re.fullmatch(r"[A-Za-z_]\w*", t):
            b = self.lookup(t)
            if b is None:
                if t in self.consts:
                    v, ty = self.consts[t]
                    return "Expr.lit %d" % v, ty
                raise Unsupported("unknown name " + t)
            if b[0] == "arr":
                if self.peek() != "[":
                    raise Unsupported("array %s used as a value" % t)
                self.eat("[")
                ix, ti = self.expr()
                self.eat("]")
                ti = self.resolve_into(ti, "usize")
                if ti not in (None, "usize"):
                    raise Unsupported("index of type %s" % ti)
                return "Expr.idx %d (%s)" % (b[1], ix), "u8"
            return "Expr.var %d" % b[1], b[2]
        raise Unsupported("token " + t)
    def resolve_into(self, ty, target):
        """`x.into()`: a widening conversion to the type the context asks for"""
        if isinstance(ty, tuple):
            src = ty[1]
            if src is None or WIDTH[src] <= WIDTH[target]:
                return target
            raise Unsupported(".into() from %s to %s" % (src, target))
        return ty
    def typed(self, want=None):
        a, ta = self.expr()
        if isinstance(ta, tuple):
            if want is None:
                raise Unsupported(".into() without a known target type")
            ta = self.resolve_into(ta, want)
        return a, ta
    # -- statements
    def block(self):
        self.eat("{")
        self.scopes.append({})
        out = []
        tail = None
        while self.peek() != "}":
            if self.peek() is None:
                raise Unsupported("unterminated block")
            s = self.stmt()
            if isinstance(s, tuple):
                tail = s; break
            out.append(s)
        self.eat("}")
        self.scopes.pop()
        return out, tail
    def seq(self, stmts):
        if not stmts:
            return "Stmt.skip"
        r = stmts[-1]
        for s in reversed(stmts[:-1]):
            r = "Stmt.seq (%s) (%s)" % (s, r)
        return r
    def stmt(self):
        t = self.peek()
        if t == "let":
            self.eat()
            if self.peek() == "mut": self.eat()
            name = self.eat()
            ann = None
            if self.peek() == ":":
                self.eat(); ann = self.eat()
                if ann not in WIDTH: raise Unsupported("let with type " + ann)
            self.eat("=")
            # array initialisers
            if self.peek() == "vec!":
                self.eat(); self.eat("[")
                z = lit_of(self.eat())
                if z is None or z[0] != 0 or z[1] not in (None, "u8"): raise Unsupported("vec! fill other than 0_u8")
                self.eat(";")
                n, tn = self.typed("usize")
                if tn not in (None, "usize"): raise Unsupported("vec! length of type %s" % tn)
                self.eat("]"); self.eat(";")
                return "Stmt.arrNew %d (%s)" % (self.bind_arr(name), n)
            if self.peek() == "[":
                self.eat()
                vals = []
                while self.peek() != "]":
                    l = lit_of(self.eat())
                    if l is None or l[1] not in (None, "u8") or not 0 <= l[0] <= 255: raise Unsupported("array literal element")
                    vals.append(l[0])
                    if self.peek() == ",": self.eat()
                self.eat("]"); self.eat(";")
                return "Stmt.arrLit %d [%s]" % (self.bind_arr(name), ", ".join(map(str, vals)))
            if re.fullmatch(r"[A-Za-z_]\w*", self.peek() or "") and self.peek(1) == ";":
                b = self.lookup(self.peek())
                if b is not None and b[0] == "arr":
                    self.eat(); self.eat(";")
                    return "Stmt.arrCopy %d %d" % (self.bind_arr(name), b[1])
            e, te = self.typed(ann)
            self.eat(";")
            ty = self.unify(ann, te, "let " + name)
            if ty is None:
                if name in self.untyped_index_vars: ty = "usize"
                else: raise Unsupported("cannot type `let %s`" % name)
            return "Stmt.set %d (%s)" % (self.bind_var(name, ty), e)
        if t == "for":
            self.eat()
            if self.peek() == "(":
                self.eat("("); k = self.eat(); self.eat(","); x = self.eat(); self.eat(")")
                self.eat("in"); self.eat("(")
                lo, tl = self.cast(); self.eat("..="); hi, th = self.cast(); self.eat(")")
                for m in ("rev", "enumerate"):
                    self.eat("."); self.eat(m); self.eat("("); self.eat(")")
                ty = self.unify(tl, th, "range")
                if ty is None: raise Unsupported("untyped range")
                self.scopes.append({})
                ks = self.bind_var(k, "usize"); xs = self.bind_var(x, ty)
                body, tail = self.block()
                self.scopes.pop()
                if tail: raise Unsupported("tail expression in a loop body")
                return "Stmt.forDownEnum %d %d (%s) (%s) (%s)" % (ks, xs, lo, hi, self.seq(body))
            x = self.eat(); self.eat("in")
            lo, tl = self.range_bound(); self.eat(".."); hi, th = self.range_bound()
            ty = self.unify(tl, th, "range")
            if ty is None: raise Unsupported("untyped range")
            self.scopes.append({})
            xs = self.bind_var(x, ty)
            body, tail = self.block()
            self.scopes.pop()
            if tail: raise Unsupported("tail expression in a loop body")
            return "Stmt.forUp %d (%s) (%s) (%s)" % (xs, lo, hi, self.seq(body))
        if t == "while":
            self.eat()
            a, ta = self.expr(); self.eat("!="); b, tb = self.expr()
            self.unify(ta if not isinstance(ta, tuple) else None, tb if not isinstance(tb, tuple) else None, "!=")
            body, tail = self.block()
            if tail: raise Unsupported("tail expression in a loop body")
            return "Stmt.whileNe 64 (%s) (%s) (%s)" % (a, b, self.seq(body))
        # tail expressions
        if t == "&":
            self.eat();
            if self.peek() == "mut": self.eat()
            name = self.eat(); b = self.lookup(name)
            if b is None or b[0] != "arr": raise Unsupported("tail &%s" % name)
            if self.peek() == "}":
                return ("arr", b[1])
            self.eat("["); lo, tl = self.expr(); self.eat(".."); hi, th = self.expr(); self.eat("]")
            return ("slice", b[1], lo, hi)
        if re.fullmatch(r"[A-Za-z_]\w*", t or ""):
            b = self.lookup(t)
            if b is not None and b[0] == "arr" and self.peek(1) == "}":
                self.eat(); return ("arr", b[1])
            if b is not None and b[0] == "arr":
                self.eat(); self.eat("[")
                lo, tl = self.expr()
                if self.peek() == "..":
                    self.eat(); hi, th = self.expr(); self.eat("]")
                    self.eat("."); self.eat("reverse"); self.eat("("); self.eat(")"); self.eat(";")
                    return "Stmt.reverse %d (%s) (%s)" % (b[1], lo, hi)
                self.eat("]")
                tl = self.resolve_into(tl, "usize")
                if tl not in (None, "usize"): raise Unsupported("index of type %s" % tl)
                self.eat("=")
                e, te = self.typed("u8"); self.eat(";")
                if te not in (None, "u8"): raise Unsupported("storing a %s into a byte array" % te)
                return "Stmt.store %d (%s) (%s)" % (b[1], lo, e)
            if b is not None and b[0] == "var" and self.peek(1) not in ("=", "+=", "-=", "*=", "/=", "%="):
                e, te = self.expr()
                if self.peek() != "}": raise Unsupported("expression statement")
                if isinstance(te, tuple): raise Unsupported(".into() in the returned value")
                return ("val", e, te)
            if b is not None and b[0] == "var":
                self.eat(); op = self.eat()
                e, te = self.typed(b[2]); self.eat(";")
                ty = self.unify(b[2], te, op)
                v = "Expr.var %d" % b[1]
                if op == "=": rhs = e
                elif op == "+=": rhs = "Expr.add %d (%s) (%s)" % (WIDTH[ty], v, e)
                elif op == "-=": rhs = "Expr.sub (%s) (%s)" % (v, e)
                elif op == "*=": rhs = "Expr.mul %d (%s) (%s)" % (WIDTH[ty], v, e)
                elif op == "/=": rhs = "Expr.div (%s) (%s)" % (v, e)
                elif op == "%=": rhs = "Expr.rem (%s) (%s)" % (v, e)
                else: raise Unsupported("assignment operator " + op)
                return "Stmt.set %d (%s)" % (b[1], rhs)
        raise Unsupported("statement starting with %r" % t)
    def range_bound(self):
        if self.peek() == "(":
            self.eat("("); a, ta = self.expr(); self.eat(")")
            while self.peek() == "as":
                self.eat(); ty = self.eat()
                if ty not in WIDTH or ta is None or isinstance(ta, tuple):
                    raise Unsupported("`as %s` on a parenthesised range bound of unknown type" % ty)
                if WIDTH[ty] < WIDTH[ta]: a = "Expr.cast %d (%s)" % (WIDTH[ty], a)
                ta = ty
            return a, ta
        return self.cast()

def fold_self(toks):
    """`self . name` -> one token `self_name` (the fields of `&self` are parameters of the translated function)"""
    out, i = [], 0
    while i < len(toks):
        if toks[i] == "self" and i + 2 < len(toks) and toks[i + 1] == "." and re.fullmatch(r"[A-Za-z_]\w*", toks[i + 2]) and (i + 3 >= len(toks) or toks[i + 3] != "("):
            out.append("self_" + toks[i + 2]); i += 3
        else:
            out.append(toks[i]); i += 1
    return out

def struct_fields(text, sname):
    ms = list(re.finditer(r"\bstruct\s+%s\b\s*\{(.*?)\}" % re.escape(sname), text, re.S))
    if len(ms) != 1: raise Unsupported("%d definitions of struct %s" % (len(ms), sname))
    m = ms[0]
    out = []
    for part in m.group(1).split(","):
        part = part.strip()
        if not part: continue
        mm = re.fullmatch(r"(?:pub(?:\([^)]*\))?\s+)?(\w+)\s*:\s*(.+)", part, re.S)
        if not mm: raise Unsupported("field " + part)
        ty = re.sub(r"\s+", " ", mm.group(2).strip())
        if ty in WIDTH: out.append(("self_" + mm.group(1), ty))
        elif ty in ("Vec<u8>",) or re.fullmatch(r"\[u8; .+\]", ty): out.append(("self_" + mm.group(1), "arr"))
        else: raise Unsupported("field type " + ty)
    return out

def params_of(sig):
    """[(name, type)] of a function signature's parameter list: unsigned scalars and `&mut [u8; N]` / `&[u8]` arrays"""
    out = []
    depth = 0; cur = ""; parts = []
    for ch in sig:
        if ch in "[(<": depth += 1
        if ch in "])>": depth -= 1
        if ch == "," and depth == 0:
            parts.append(cur); cur = ""
        else:
            cur += ch
    if cur.strip(): parts.append(cur)
    for p in parts:
        if re.fullmatch(r"\s*&\s*(mut\s+)?self\s*", p): continue
        m = re.fullmatch(r"\s*(?:mut\s+)?(\w+)\s*:\s*(.+?)\s*", p, re.S)
        if not m: raise Unsupported("parameter " + p.strip())
        name, ty = m.group(1), re.sub(r"\s+", " ", m.group(2))
        if ty in WIDTH: out.append((name, ty))
        elif re.fullmatch(r"&(mut )?\[u8(; .+)?\]", ty): out.append((name, "arr"))
        else: raise Unsupported("parameter type " + ty)
    return out

def translate_fn(repo, rel, fname, const_names, self_struct=None, scalar=False):
    """-> (body term, result term); self_struct: the struct whose fields `self.x` refers to; scalar: the function returns a number"""
    bad = lambda why: ("Stmt.unsupported %s" % lean_str(why), "Result.arr 0")
    try:
        text = gc.load(repo, rel)
        body = gc.fn_body(text, fname, rel, unique=True)
    except gc.Missing as ex:
        return bad(str(ex))
    m = re.search(r"fn\s+%s\s*\((.*?)\)\s*(?:->\s*[^{]+)?\{" % re.escape(fname), text, re.S)
    if not m:
        return bad("signature of %s not found" % fname)
    try:
        params = params_of(m.group(1))
        if self_struct:
            fields = dict(struct_fields(text, self_struct))
            # Rust binds fields by NAME: the slots are fixed by this table (the order the theorems instantiate), not by the declaration order
            want = SELF_FIELDS[self_struct]
            if set(fields) != set(n for n, _ in want) or any(fields[n] != t for n, t in want):
                raise Unsupported("fields of %s are %s, expected %s" % (self_struct, sorted(fields.items()), want))
            params += want
        consts = {}
        c = gc.Consts()
        for n in const_names:
            mms = list(re.finditer(r"\bconst\s+%s\s*:\s*(\w+)\s*=" % n, text))
            if len(mms) > 1: raise Unsupported("%d definitions of the constant %s" % (len(mms), n))
            mm = mms[0] if mms else None
            if mm and mm.group(1) in WIDTH:
                try: consts[n] = (c.scalar(text, n, rel), mm.group(1))
                except gc.Missing: pass
        tr = Tr(fold_self(tokens(body)), consts, params)
        # untyped `let mut i = 0;` that is used as an index or a slice bound is a usize
        for mm in re.finditer(r"let\s+(?:mut\s+)?(\w+)\s*=\s*\d+\s*;", body):
            nm = mm.group(1)
            bound = len(re.findall(r"\blet\s+(?:mut\s+)?%s\b" % nm, body)) + len(re.findall(r"\bfor\s+(?:\(\s*\w+\s*,\s*)?%s\b" % nm, body)) + len(re.findall(r"\bfor\s+\(\s*%s\s*," % nm, body)) + len(re.findall(r"\|[^|]*\b%s\b[^|]*\|" % nm, body))
            if bound == 1 and re.search(r"\[\s*(?:\d+\s*\.\.\s*)?%s\s*\]" % nm, body) and not re.search(r"\b%s\s*(?:\*=|-=|/=|%%=|<<|>>)" % nm, body):
                tr.untyped_index_vars.add(nm)
        stmts, tail = tr.block()
        if tr.peek() is not None:
            raise Unsupported("text after the function body")
        if tail is None:
            raise Unsupported("no tail expression")
        if scalar:
            if tail[0] != "val": raise Unsupported("the returned value is not a number")
            return tr.seq(stmts), tail[1]
        if tail[0] == "val": raise Unsupported("the returned value is not an array")
        res = "Result.arr %d" % tail[1] if tail[0] == "arr" else "Result.slice %d (%s) (%s)" % (tail[1], tail[2], tail[3])
        return tr.seq(stmts), res
    except Unsupported as ex:
        return bad("%s: %s" % (fname, ex))
    except Exception as ex:          # anything the parser did not foresee is outside the subset, never a crash of the run
        return bad("%s: translator error %s: %s" % (fname, type(ex).__name__, ex))

SELF_FIELDS = {"MatrixCard": [("self_digit_count", "u8"), ("self_width", "u8"), ("self_height", "u8"), ("self_data", "arr")]}

FUNCS = [("pinToBytes", "src/pin.rs", "pin_to_bytes", ["MAX_PIN_LENGTH", "MIN_PIN_LENGTH"]),
         ("remapPinGrid", "src/pin.rs", "remap_pin_grid", ["MAX_PIN_LENGTH", "MIN_PIN_LENGTH"]),
         ("generateCoordinates", "src/matrix_card.rs", "generate_coordinates", [])]

def signature_of(repo, rel, fname, const_names):
    """the parameter and return TYPES of a translated function, array lengths evaluated — nothing of them reaches the term (`-`, `/`, `%`
    and widening casts carry no width, an array parameter's length is not in the body), but the theorems' hypotheses are exactly these
    types, so they are a fact with its own obligation"""
    try:
        text = gc.load(repo, rel)
        msk = gc.mask_literals(text)
        ms = list(re.finditer(r"\bfn\s+%s\b\s*(?:<[^>(]*>)?\s*\(" % re.escape(fname), msk))
        if len(ms) != 1:
            return "%s: %d definitions" % (fname, len(ms))
        sp = gc.body_span(text, ms[0].end() - 1)
        if sp is None:
            return "%s: no body" % fname
        sig = re.sub(r"\s+", " ", text[ms[0].end():sp[0]]).strip()
        c = gc.Consts()
        for n in const_names:
            try: c.scalar(text, n, rel)
            except gc.Missing: pass
        def norm(ty):
            ty = ty.strip()
            m = re.fullmatch(r"(&(?:mut )?)?\[u8; (.+)\]", ty)
            if m:
                try: return "%s[u8;%d]" % ((m.group(1) or "").replace(" ", ""), c.eval(m.group(2)))
                except gc.Missing: return "%s[u8;?%s]" % (m.group(1) or "", m.group(2))
            return ty.replace(" ", "")
        m = re.fullmatch(r"(.*)\)\s*(?:->\s*(.+?))?\s*(?:where .*)?", sig, re.S)
        if not m:
            return "%s: %s" % (fname, sig)
        params = []
        depth = 0; cur = ""
        for ch in m.group(1):
            if ch in "[(<": depth += 1
            if ch in "])>": depth -= 1
            if ch == "," and depth == 0:
                params.append(cur); cur = ""
            else:
                cur += ch
        if cur.strip(): params.append(cur)
        ps = []
        for q in params:
            q = q.strip()
            if re.fullmatch(r"&\s*(mut\s+)?self", q): ps.append(q.replace(" ", "")); continue
            mm = re.fullmatch(r"(?:mut\s+)?\w+\s*:\s*(.+)", q, re.S)
            ps.append(norm(mm.group(1)) if mm else "?" + q)
        return "%s: (%s) -> %s" % (fname, ", ".join(ps), norm(m.group(2) or "()"))
    except Exception as ex:
        return "%s: %s" % (fname, ex)

def main(repo, outp):
    L = []
    for name, rel, fn, cn in FUNCS:
        body, res = translate_fn(repo, rel, fn, cn)
        L.append("/-- `%s` in %s, translated from the working tree -/\ndef %s : Fn := ⟨%s,\n  %s⟩" % (fn, rel, name, body, res))
    body, res = translate_fn(repo, "src/matrix_card.rs", "get_number_at_coordinates", [], self_struct="MatrixCard")
    L.append("/-- `MatrixCard::get_number_at_coordinates` in src/matrix_card.rs (scalar slots: x, y, then the struct's integer fields in declaration order; array slot 0: data) -/\ndef getNumberAtCoordinates : Fn := ⟨%s,\n  %s⟩" % (body, res))
    body, res = translate_fn(repo, "src/matrix_card.rs", "get_matrix_card_size", [], scalar=True)
    if res.startswith("Result."): res = "Expr.unsupported \"no scalar result\""
    L.append("/-- `MatrixCard::get_matrix_card_size` in src/matrix_card.rs -/\ndef getMatrixCardSize : FnNat := ⟨%s,\n  %s⟩" % (body, res))
    sp = [signature_of(repo, rel, fn, cn) for _, rel, fn, cn in FUNCS if rel == "src/pin.rs"]
    sc = [signature_of(repo, rel, fn, cn) for _, rel, fn, cn in FUNCS if rel == "src/matrix_card.rs"] + [signature_of(repo, "src/matrix_card.rs", f, []) for f in ("get_number_at_coordinates", "get_matrix_card_size")]
    try:
        sc.append("MatrixCard: " + ", ".join("%s:%s" % (n[5:], t) for n, t in struct_fields(gc.load(repo, "src/matrix_card.rs"), "MatrixCard")))
    except Exception as ex:
        sc.append("MatrixCard: %s" % ex)
    L.append("/-- parameter and return types of the translated functions of src/pin.rs (array lengths evaluated) -/\ndef signaturesPin : List String := [%s]" % ", ".join(lean_str(x) for x in sp))
    L.append("/-- the same for src/matrix_card.rs, and the field types of `MatrixCard` -/\ndef signaturesCard : List String := [%s]" % ", ".join(lean_str(x) for x in sc))
    text = ("/- GENERATED by tools/gen_imp.py from the Rust sources on every run. Do not edit. -/\nimport WowSrp.Model.MiniImp\n"
            "namespace WowSrp.Gen.CodeImp\nopen WowSrp.MiniImp\n\n" + "\n\n".join(L) + "\n\nend WowSrp.Gen.CodeImp\n")
    old = open(outp).read() if os.path.exists(outp) else None
    if old != text:
        os.makedirs(os.path.dirname(outp), exist_ok=True)
        open(outp, "w").write(text)
        print("gen_imp: wrote", outp)
    else:
        print("gen_imp: unchanged")
    return 3 if "unsupported" in text else 0

if __name__ == "__main__":
    sys.exit(main(sys.argv[1], sys.argv[2]))
