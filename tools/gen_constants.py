#!/usr/bin/env python3
"""Translator: /repo/src/*.rs (current working tree) -> lean/WowSrp/Gen/Constants.lean

Every constant the Lean model uses is read from the Rust source on every run, so the
theorems are re-checked against what the code says now.  If a constant cannot be found
a PLACEHOLDER of the right type is emitted (0 / [] / false), the name is listed in
`Gen.missingConstants`, and the generator exits 3 after writing the file: every theorem that depends
on that constant's value (each property has a `Cxx_constants` theorem) then fails to check, and the
model driver disagrees with the implementation wherever the constant matters — a broken tie for
exactly the properties that depend on it, never guessed around, and no alarm for the others.

Usage: gen_constants.py <repo> <out.lean>     (writes only when the content changed)
"""
import re, sys, os

SHAPE_FILES = [("shapeServer", "src/server.rs"), ("shapeClient", "src/client.rs"), ("shapeSrpInternal", "src/srp_internal.rs"),
               ("shapeSrpInternalClient", "src/srp_internal_client.rs"), ("shapeNStr", "src/normalized_string.rs"),
               ("shapeVanillaMod", "src/vanilla_header/mod.rs"), ("shapeTbcMod", "src/tbc_header/mod.rs"), ("shapeWrathMod", "src/wrath_header/mod.rs"),
               ("shapeVanillaInternal", "src/vanilla_header/internal.rs"), ("shapePin", "src/pin.rs"), ("shapeIntegrity", "src/integrity.rs"),
               ("shapeMatrixCard", "src/matrix_card.rs"), ("shapeRc4", "src/rc4.rs")]

class Missing(Exception):
    pass

def die(msg):
    raise Missing(msg)

import functools
@functools.lru_cache(maxsize=256)
def lex_rust(src):
    """One left-to-right pass over Rust source that knows string, raw-string, byte-string and char literals, `//` comments and NESTED
    `/* */` comments.  Returns (text, masked): `text` is the source with every comment replaced by one space; `masked` has the same
    length as `text` with the CONTENTS of every string / char literal replaced by `_` (so braces, quotes, `//`, `#[cfg(test)]` inside a
    literal can never be taken for structure).  All structural searches (function headers, brace matching, test-module cutting) run on
    `masked`; what is handed to the translators is sliced out of `text` at the same offsets."""
    out, msk = [], []
    i, n = 0, len(src)
    def emit(t, m=None):
        out.append(t); msk.append(t if m is None else m)
    while i < n:
        c = src[i]
        if c == '/' and i + 1 < n and src[i + 1] == '/':
            j = src.find('\n', i)
            j = n if j < 0 else j
            emit(' '); i = j
        elif c == '/' and i + 1 < n and src[i + 1] == '*':
            depth, j = 1, i + 2
            while j < n and depth:
                if src.startswith('/*', j): depth += 1; j += 2
                elif src.startswith('*/', j): depth -= 1; j += 2
                else: j += 1
            emit(' '); i = j
        elif c == '"' or (c in 'br' and re.match(r'(?:b?r#*"|b")', src[i:i + 12]) and (i == 0 or not (src[i - 1].isalnum() or src[i - 1] == '_'))):
            m = re.match(r'b?r(#*)"', src[i:])
            if m:                                  # raw string: ends at `"` followed by the same number of `#`
                end = src.find('"' + m.group(1), i + m.end())
                end = n if end < 0 else end + 1 + len(m.group(1))
                body = src[i:end]
                emit(body, body[:m.end()] + '_' * max(0, len(body) - m.end() - 1 - len(m.group(1))) + body[len(body) - 1 - len(m.group(1)):] if len(body) > m.end() else body)
                i = end
            else:
                j = i + (2 if c == 'b' else 1)
                while j < n and src[j] != '"':
                    j += 2 if src[j] == '\\' else 1
                j = min(j + 1, n)
                body = src[i:j]
                k = 2 if c == 'b' else 1
                emit(body, body[:k] + '_' * max(0, len(body) - k - 1) + body[-1:])
                i = j
        elif c == "'":
            m = re.match(r"'(?:\\(?:x[0-9a-fA-F]{2}|u\{[0-9a-fA-F_]{1,8}\}|.)|[^'\\\n])'", src[i:])
            if m:                                  # a char literal (a lifetime has no closing quote right after one character)
                body = m.group(0)
                emit(body, "'" + '_' * (len(body) - 2) + "'"); i += len(body)
            else:
                emit(c); i += 1
        else:
            emit(c); i += 1
    return ''.join(out), ''.join(msk)

def strip_comments(src):
    return lex_rust(src)[0]

def mask_literals(text):
    """`text` (comments already removed) with the contents of its string / char literals masked; same length"""
    t, m = lex_rust(text)
    return m if len(m) == len(text) else text

def cut_tests(src):
    # drop every `#[cfg(test)] mod name { ... }` block (brace-balanced), keep whatever follows it; structure is read off the masked text
    while True:
        msk = mask_literals(src)
        m = re.search(r'#\[cfg\(test\)\]\s*(#\[[^\]]*\]\s*)*mod\s+\w+\s*\{', msk)
        if not m:
            return src
        depth = 0
        end = len(src)
        for j in range(m.end() - 1, len(msk)):
            if msk[j] == '{': depth += 1
            elif msk[j] == '}':
                depth -= 1
                if depth == 0:
                    end = j + 1
                    break
        src = src[:m.start()] + src[end:]

def load(repo, rel):
    p = os.path.join(repo, rel)
    if not os.path.exists(p):
        die("missing source file " + rel)
    return cut_tests(strip_comments(open(p).read()))

def parse_int(tok):
    tok = tok.strip().replace('_u8', '').replace('_u16', '').replace('_u32', '').replace('_u64', '').replace('_usize', '').replace('_', '')
    tok = re.sub(r'(u8|u16|u32|u64|usize)$', '', tok)
    return int(tok, 0)

def parse_array(body):
    return [parse_int(t) for t in body.replace('\n', ' ').split(',') if t.strip()]

def find_array(src, name, what, kw=r'(?:pub(?:\([^)]*\))?\s+)?(?:const|static)'):
    m = re.search(kw + r'\s+' + name + r'\s*:\s*\[[^;\]]+;[^\]]+\]\s*=\s*\[([^\]]*)\]\s*;', src)
    if not m:
        die("array constant %s not found in %s" % (name, what))
    return parse_array(m.group(1))

def find_let_array(src, name, what):
    m = re.search(r'let\s+' + name + r'\s*:\s*\[[^;\]]+;[^\]]+\]\s*=\s*\[([^\]]*)\]\s*;', src)
    if not m:
        die("local array %s not found in %s" % (name, what))
    return parse_array(m.group(1))

class Consts:
    def __init__(self):
        self.vals = {}
    def eval(self, expr):
        e = expr.strip()
        e = re.sub(r'core::mem::size_of::<u(\d+)>\(\)', lambda m: str(int(m.group(1)) // 8), e)
        e = re.sub(r'\bas\s+(u8|u16|u32|u64|usize)\b', '', e)
        e = re.sub(r'\b(\d[\d_]*)_?(u8|u16|u32|u64|usize)\b', r'\1', e)
        e = re.sub(r'\bcrate::', '', e)
        def sub(m):
            n = m.group(0)
            if n in self.vals:
                return str(self.vals[n])
            die("cannot resolve identifier %s in constant expression %r" % (n, expr))
        e = re.sub(r'\b[A-Z][A-Z0-9_]*\b', sub, e)
        if not re.fullmatch(r'[\d\sxXa-fA-F_+*()\-/]+', e):
            die("unsupported constant expression %r" % expr)
        v = eval(re.sub(r'(?<!/)/(?!/)', '//', e.replace('_', '')), {"__builtins__": {}})      # Rust integer division
        if not isinstance(v, int) or v < 0 or v >= 1 << 64:
            die("constant expression %r is not an unsigned integer" % expr)
        return v
    def scalar(self, src, name, what):
        ms = list(re.finditer(r'(?:pub(?:\([^)]*\))?\s+)?const\s+' + name + r'\s*:\s*(u8|u16|u32|u64|usize)\s*=\s*([^;]+);', src))
        if not ms:
            die("scalar constant %s not found in %s" % (name, what))
        if len(ms) != 1:
            die("%d definitions of the constant %s in %s" % (len(ms), name, what))
        m = ms[0]
        v = self.eval(m.group(2))
        if v >= 1 << {"u8": 8, "u16": 16, "u32": 32, "u64": 64, "usize": 64}[m.group(1)]:
            die("constant %s does not fit its type %s in %s" % (name, m.group(1), what))
        self.vals[name] = v
        return v

def fn_body(src, name, what, unique=False):
    msk = mask_literals(src)
    ms = list(re.finditer(r'\bfn\s+(?:r#)?' + name + r'\b', msk))
    if not ms:
        die("function %s not found in %s" % (name, what))
    if unique and len(ms) != 1:
        die("%d functions named %s in %s (a tied function must be the only one of its name there)" % (len(ms), name, what))
    m = ms[0]
    if 'r#' in m.group(0):
        die("function %s is written with a raw identifier in %s" % (name, what))
    i = msk.index('{', m.end())
    depth = 0
    for j in range(i, len(msk)):
        if msk[j] == '{': depth += 1
        elif msk[j] == '}':
            depth -= 1
            if depth == 0:
                return src[i:j + 1]
    die("unbalanced braces in %s" % name)

def body_span(text, paren_open):
    """for a `fn name(` whose '(' is at paren_open: (start, end) of the body braces, or None for a declaration without body.
    A `;` inside the parameter list or the return type (`[u8; N]`) is not the end of a declaration."""
    text = mask_literals(text)
    depth = 0
    j = paren_open
    n = len(text)
    while j < n:                       # the parameter list
        if text[j] in '([': depth += 1
        elif text[j] in ')]':
            depth -= 1
            if depth == 0:
                break
        j += 1
    j += 1
    depth = 0
    while j < n:                       # return type / where clause
        ch = text[j]
        if ch in '([<': depth += 1
        elif ch in ')]':
            depth -= 1
        elif ch == '>' and text[j - 1] != '-':
            depth -= 1
        elif ch == ';' and depth <= 0:
            return None
        elif ch == '{' and depth <= 0:
            break
        j += 1
    if j >= n:
        return None
    i = j
    depth = 0
    instr = False
    while j < n:
        ch = text[j]
        if instr:
            if ch == '\\': j += 1
            elif ch == '"': instr = False
        elif ch == '"': instr = True
        elif ch == '{': depth += 1
        elif ch == '}':
            depth -= 1
            if depth == 0:
                return i, j + 1
        j += 1
    return None

def no_strings(body):
    return re.sub(r'"(?:[^"\\]|\\.)*"', '""', body)

def split_args(call_src, start):
    """argument text of the call whose '(' is at `start`"""
    depth = 0
    for j in range(start, len(call_src)):
        if call_src[j] in '([{': depth += 1
        elif call_src[j] in ')]}':
            depth -= 1
            if depth == 0:
                return call_src[start + 1:j], j
    return None, None

def hash_layout(src, name, what):
    """the sequence of byte strings fed to each hash object in function `name`, in source order:
    one list per `Sha1::new()` / `Hmac::new_from_slice(..)` / `Context::new()` object"""
    body = fn_body(src, name, what)
    groups = []
    pos = 0
    pat = re.compile(r'(Sha1::new\(\)|new_from_slice\s*\(|Context::new\(\))|(?:\.chain_update|\.update|\.consume)\s*\(')
    while True:
        m = pat.search(body, pos)
        if not m:
            break
        if m.group(1):
            if m.group(1).startswith('new_from_slice'):
                arg, end = split_args(body, m.end() - 1)
                groups.append(["key:" + re.sub(r'\s+', '', arg)])
                pos = end
            else:
                groups.append([])
                pos = m.end()
            continue
        arg, end = split_args(body, m.end() - 1)
        if not groups:
            groups.append([])
        groups[-1].append(re.sub(r'\s+', '', arg).lstrip('&'))
        pos = end
    return groups

def hash_shape(src, name, what):
    """what else happens in a function whose hash field order is listed: constructors other than `new()`, one-shot digests, resets,
    control flow, rebinding of names, and the tail expression — so that 'same fields in the same order' cannot hide a different use"""
    body = fn_body(src, name, what, unique=True)
    flat = re.sub(r'\s+', '', body)
    ctors = sorted(re.findall(r'(Sha1::\w+|Hmac(?:::<[^>]*>)?::\w+|Context::\w+|md5::\w+|Md5::\w+)\(', body))
    meths = sorted(re.findall(r'\.(chain_update|update|consume|finalize\w*|reset|compute|into_bytes|digest|reverse|rev|truncate|take|skip|step_by)\(', body))
    ctrl = sorted(re.findall(r'\b(if|for|while|loop|match|return|break)\b', body))
    lets = re.findall(r'\blet\s+(?:mut\s+)?(\w+)', body)
    rebound = sorted(set(n for n in lets if lets.count(n) > 1))
    tail = flat[:-1].split(";")[-1]
    return ["ctors:" + ",".join(ctors), "methods:" + ",".join(meths), "control:" + ",".join(ctrl), "rebound:" + ",".join(rebound), "tail:" + tail]

def lean_str(x):
    return '"' + x.replace('\\', '\\\\').replace('"', '\\"') + '"'

def lean_bytes(xs):
    return "[" + ", ".join("0x%02x" % x for x in xs) + "]"

def main():
    repo, out = sys.argv[1], sys.argv[2]
    c = Consts()
    L = []          # Gen/Constants.lean: numbers, byte strings and booleans the MODEL is built from
    F = []          # Gen/Facts.lean: source facts (field orders, bodies, structural lists) that only the Props/Source obligations read
    missing = []
    def put(kind, name, thunk, origin):
        try:
            v = thunk()
        except Missing as e:
            missing.append("%s: %s" % (name, e))
            origin = "NOT FOUND IN THE SOURCE (placeholder): " + str(e)
            v = {"nat": 0, "bytes": [], "bool": False, "layout": []}[kind]
        if kind == "nat":
            L.append("/-- %s -/\ndef %s : Nat := %d" % (origin, name, v))
        elif kind == "bytes":
            L.append("/-- %s -/\ndef %s : List UInt8 := %s" % (origin, name, lean_bytes(v)))
        elif kind == "bool":
            L.append("/-- %s -/\ndef %s : Bool := %s" % (origin, name, "true" if v else "false"))
        else:
            F.append("/-- %s -/\ndef %s : List (List String) := [%s]" % (origin, name,
                     ", ".join("[" + ", ".join(lean_str(a) for a in grp) + "]" for grp in v)))
    def src(rel):
        try:
            return load(repo, rel)
        except Missing:
            return ""
    def rx(pattern, text, what, conv=parse_int, flags=0):
        m = re.search(pattern, text, flags)
        if not m:
            die(what + " not found")
        return conv(m.group(1))

    primes = src("src/primes.rs")
    put("nat", "largeSafePrimeLength", lambda: c.scalar(primes, "LARGE_SAFE_PRIME_LENGTH", "primes.rs"), "primes.rs LARGE_SAFE_PRIME_LENGTH")
    put("bytes", "largeSafePrimeBE", lambda: find_array(primes, "LARGE_SAFE_PRIME_BIG_ENDIAN", "primes.rs"), "primes.rs LARGE_SAFE_PRIME_BIG_ENDIAN")
    put("bytes", "largeSafePrimeLE", lambda: find_array(primes, "LARGE_SAFE_PRIME_LITTLE_ENDIAN", "primes.rs"), "primes.rs LARGE_SAFE_PRIME_LITTLE_ENDIAN")
    put("nat", "generator", lambda: c.scalar(primes, "GENERATOR", "primes.rs"), "primes.rs GENERATOR")
    put("nat", "generatorLength", lambda: c.scalar(primes, "GENERATOR_LENGTH", "primes.rs"), "primes.rs GENERATOR_LENGTH")
    put("nat", "kValue", lambda: c.scalar(primes, "K_VALUE", "primes.rs"), "primes.rs K_VALUE")
    put("bool", "defaultPrimeIsLE", lambda: rx(r'impl\s+Default\s+for\s+LargeSafePrime\s*\{.*?prime\s*:\s*(\w+)', primes, "Default for LargeSafePrime", str, re.S) == "LARGE_SAFE_PRIME_LITTLE_ENDIAN",
        "primes.rs: LargeSafePrime::default() uses LARGE_SAFE_PRIME_LITTLE_ENDIAN")
    put("bool", "defaultGeneratorIsG", lambda: rx(r'impl\s+Default\s+for\s+Generator\s*\{.*?generator\s*:\s*(\w+)', primes, "Default for Generator", str, re.S) == "GENERATOR",
        "primes.rs: Generator::default() uses GENERATOR")
    # `LargeSafePrime::to_bigint` must convert the prime it holds (self.prime), with no other state
    put("bool", "primeToBigintIsPure", lambda: re.sub(r'\s+', '', fn_body(primes[primes.find("impl LargeSafePrime"):], "to_bigint", "primes.rs")) == "{bigint::Integer::from_bytes_le(&self.prime)}",
        "primes.rs: LargeSafePrime::to_bigint is exactly `bigint::Integer::from_bytes_le(&self.prime)`")

    key = src("src/key.rs")
    for rn, ln in [("SALT_LENGTH", "saltLength"), ("PRIVATE_KEY_LENGTH", "privateKeyLength"),
                   ("PUBLIC_KEY_LENGTH", "publicKeyLength"), ("SHA1_HASH_LENGTH", "sha1HashLength"),
                   ("PASSWORD_VERIFIER_LENGTH", "passwordVerifierLength"), ("PROOF_LENGTH", "proofLength"),
                   ("S_LENGTH", "sLength"), ("RECONNECT_CHALLENGE_DATA_LENGTH", "reconnectDataLength"),
                   ("SESSION_KEY_LENGTH", "sessionKeyLength")]:
        put("nat", ln, lambda rn=rn: c.scalar(key, rn, "key.rs"), "key.rs " + rn)
    # the proof/key wrappers must compare by derived (whole-array) equality
    put("bool", "keyWrapperDerivesEq", lambda: rx(r'macro_rules!\s*key_wrapper\s*\{.*?#\[derive\(([^)]*)\)\]\s*pub\s+struct\s+\$name', key, "derive list of key_wrapper!", lambda t: "PartialEq" in t and "Eq" in t, re.S),
        "key.rs: key_wrapper! structs #[derive(PartialEq, Eq)] (whole-array equality)")

    srpi = src("src/srp_internal.rs")
    put("bytes", "precalculatedXorHash", lambda: find_array(srpi, "PRECALCULATED_XOR_HASH", "srp_internal.rs"), "srp_internal.rs PRECALCULATED_XOR_HASH")

    ns = src("src/normalized_string.rs")
    put("nat", "maximumStringLength", lambda: c.scalar(ns, "MAXIMUM_STRING_LENGTH_IN_BYTES", "normalized_string.rs"), "normalized_string.rs MAXIMUM_STRING_LENGTH_IN_BYTES")

    lib = src("src/lib.rs")
    put("nat", "integritySaltLength", lambda: c.scalar(lib, "INTEGRITY_SALT_LENGTH", "lib.rs"), "lib.rs INTEGRITY_SALT_LENGTH")
    put("bool", "forbidUnsafe", lambda: re.search(r'#!\[forbid\(unsafe_code\)\]', lib) is not None, "lib.rs has #![forbid(unsafe_code)]")

    tbe = src("src/tbc_header/encrypt.rs")
    tbd = src("src/tbc_header/decrypt.rs")
    def tbc_seed(text, what):
        # the seed literal of this half; when the half no longer holds its own copy (key derivation moved into a shared helper) the
        # seed is the ONE 16-byte literal of the TBC module — if there are several different ones it is not guessed
        try:
            a = find_let_array(text, "s", what)
            if len(re.findall(r'\blet\s+(?:mut\s+)?s\b', text)) != 1:
                die("the seed `s` is bound more than once in " + what)
            return a
        except Missing as ex:
            if "more than once" in str(ex):
                raise
            lits = set()
            for t in (tbe, tbd, src("src/tbc_header/mod.rs")):
                for m in re.finditer(r':\s*\[\s*u8\s*;\s*(?:16|SEED_LENGTH|[A-Z_]+)\s*\]\s*=\s*\[([^\]]*)\]\s*;', t):
                    try:
                        a = parse_array(m.group(1))
                    except Exception:
                        continue
                    if len(a) == 16:
                        lits.add(tuple(a))
            if len(lits) == 1:
                return list(lits.pop())
            die("seed literal of %s not found (and the TBC module holds %d different 16-byte literals)" % (what, len(lits)))
    put("bytes", "tbcSeedEnc", lambda: tbc_seed(tbe, "tbc_header/encrypt.rs"), "tbc_header/encrypt.rs EncrypterHalf::new seed `s` (or the module's single 16-byte literal)")
    put("bytes", "tbcSeedDec", lambda: tbc_seed(tbd, "tbc_header/decrypt.rs"), "tbc_header/decrypt.rs DecrypterHalf::new seed `s` (or the module's single 16-byte literal)")

    wm = src("src/wrath_header/mod.rs")
    put("bytes", "wrathS", lambda: find_array(wm, "S", "wrath_header/mod.rs"), "wrath_header/mod.rs S (client->server)")
    put("bytes", "wrathR", lambda: find_array(wm, "R", "wrath_header/mod.rs"), "wrath_header/mod.rs R (server->client)")
    we = src("src/wrath_header/encrypt.rs")
    wd = src("src/wrath_header/decrypt.rs")
    def wrath_threshold():
        body = fn_body(we, "encrypt_server_header", "wrath_header/encrypt.rs")
        hits = re.findall(r'\bsize\s*>\s*([A-Za-z0-9_]+)', body)
        if len(set(hits)) != 1:
            die("exactly one comparison `size > X` expected in encrypt_server_header, found %r" % (hits,))
        tok = hits[0]
        if re.fullmatch(r'0x[0-9A-Fa-f_]+|\d[\d_]*', tok):
            return parse_int(tok)
        # a named constant of the same file
        return rx(r'const\s+' + tok + r'\s*:\s*\w+\s*=\s*(0x[0-9A-Fa-f_]+|\d[\d_]*)\s*;', we, "constant %s in wrath_header/encrypt.rs" % tok)
    put("nat", "wrathLargeThreshold", wrath_threshold, "wrath_header/encrypt.rs: `if size > X` in encrypt_server_header (literal or named constant)")
    put("nat", "wrathSetMask", lambda: rx(r'fn\s+set_large_header\s*\(\s*v\s*:\s*u8\s*\)\s*->\s*u8\s*\{\s*v\s*\|\s*(0x[0-9A-Fa-f]+|\d+)\s*\}', we, "set_large_header body `v | LIT`"),
        "wrath_header/encrypt.rs set_large_header: v | LIT")
    put("nat", "wrathClearMask", lambda: rx(r'fn\s+clear_large_header\s*\(\s*v\s*:\s*u8\s*\)\s*->\s*u8\s*\{\s*v\s*&\s*(0x[0-9A-Fa-f]+|\d+)\s*\}', wd, "clear_large_header body `v & LIT`"),
        "wrath_header/decrypt.rs clear_large_header: v & LIT")
    put("nat", "wrathTestMask", lambda: rx(r'fn\s+large_header\s*\(\s*v\s*:\s*u8\s*\)\s*->\s*bool\s*\{\s*v\s*&\s*(0x[0-9A-Fa-f]+|\d+)\s*!=\s*0\s*\}', wd, "large_header body `v & LIT != 0`"),
        "wrath_header/decrypt.rs large_header: v & LIT != 0")
    ic = src("src/wrath_header/inner_crypto/mod.rs")
    put("nat", "wrathKeyLength", lambda: c.scalar(ic, "KEY_LENGTH", "inner_crypto/mod.rs"), "wrath_header/inner_crypto KEY_LENGTH")
    def wrath_drop():
        n = rx(r'let\s+mut\s+pad_data\s*=\s*\[\s*0_?u8\s*;\s*(\d+)\s*\]', ic, "pad_data drop length in inner_crypto/mod.rs", int)
        if len(re.findall(r'apply_keystream\s*\(\s*&mut\s+pad_data\s*\)', ic)) != 1 or len(re.findall(r'pad_data', ic)) != 2:
            die("the pad is not applied exactly once and as a whole (`inner.apply_keystream(&mut pad_data)`)")
        return n
    put("nat", "wrathDrop", wrath_drop,
        "wrath_header/inner_crypto: keystream bytes discarded")
    def half_const(text, struct):
        return rx(r'impl\s+' + struct + r'\s*\{.*?fn\s+new\s*\(.*?InnerCrypto::new\s*\(\s*session_key\s*,\s*&\s*(\w+)\s*\)', text, "InnerCrypto::new(session_key, &X) of " + struct, str, re.S)
    put("bool", "wrathServerEncUsesR", lambda: half_const(we, "ServerEncrypterHalf") == "R", "ServerEncrypterHalf::new keys with R")
    put("bool", "wrathClientEncUsesS", lambda: half_const(we, "ClientEncrypterHalf") == "S", "ClientEncrypterHalf::new keys with S")
    put("bool", "wrathServerDecUsesS", lambda: half_const(wd, "ServerDecrypterHalf") == "S", "ServerDecrypterHalf::new keys with S")
    put("bool", "wrathClientDecUsesR", lambda: half_const(wd, "ClientDecrypterHalf") == "R", "ClientDecrypterHalf::new keys with R")

    pin = src("src/pin.rs")
    put("nat", "pinSaltSize", lambda: c.scalar(pin, "PIN_SALT_SIZE", "pin.rs"), "pin.rs PIN_SALT_SIZE")
    put("nat", "pinHashSize", lambda: c.scalar(pin, "PIN_HASH_SIZE", "pin.rs"), "pin.rs PIN_HASH_SIZE")
    put("nat", "minPinLength", lambda: c.scalar(pin, "MIN_PIN_LENGTH", "pin.rs"), "pin.rs MIN_PIN_LENGTH")
    put("nat", "maxPinLength", lambda: c.scalar(pin, "MAX_PIN_LENGTH", "pin.rs"), "pin.rs MAX_PIN_LENGTH")
    def byte_lit(tok, text, what):
        """a u8 written as a number, as b'c', or as the name of a constant of the same file defined in one of those ways"""
        tok = tok.strip()
        m = re.fullmatch(r"b'(\\?.)'", tok)
        if m:
            ch = m.group(1)
            return ord(ch[-1]) if not ch.startswith("\\") else {"n": 10, "t": 9, "0": 0, "\\": 92, "'": 39}[ch[1]]
        if re.fullmatch(r'0x[0-9A-Fa-f_]+|\d[\d_]*(?:u8)?', tok):
            return parse_int(tok)
        return byte_lit(rx(r'const\s+' + re.escape(tok) + r"\s*:\s*u8\s*=\s*([^;]+);", text, "constant %s in %s" % (tok, what), str), text, what)
    put("nat", "pinAsciiOffset", lambda: byte_lit(rx(r"\*b\s*\+=\s*([A-Za-z0-9_']+)\s*;", pin, "`*b += X` (ASCII offset) in pin.rs", str), pin, "pin.rs"),
        "pin.rs: ASCII offset added to remapped digits (number, byte literal or named constant)")
    put("bytes", "pinInitialGrid", lambda: rx(r'let\s+mut\s+grid\s*=\s*\[([^\]]*)\]', pin, "initial grid in pin.rs", parse_array), "pin.rs remap_pin_grid initial grid")

    mc = src("src/matrix_card.rs")
    put("nat", "minMatrixCardValue", lambda: c.scalar(mc, "MIN_MATRIX_CARD_VALUE", "matrix_card.rs"), "matrix_card.rs MIN_MATRIX_CARD_VALUE")
    put("nat", "maxMatrixCardValue", lambda: c.scalar(mc, "MAX_MATRIX_CARD_VALUE", "matrix_card.rs"), "matrix_card.rs MAX_MATRIX_CARD_VALUE")

    van = src("src/vanilla_header/mod.rs")
    put("nat", "vanillaClientHeaderLength", lambda: c.scalar(van, "CLIENT_HEADER_LENGTH", "vanilla_header/mod.rs"), "vanilla_header CLIENT_HEADER_LENGTH")
    put("nat", "vanillaServerHeaderLength", lambda: c.scalar(van, "SERVER_HEADER_LENGTH", "vanilla_header/mod.rs"), "vanilla_header SERVER_HEADER_LENGTH")
    c2 = Consts()
    put("nat", "wrathClientHeaderLength", lambda: c2.scalar(wm, "CLIENT_HEADER_LENGTH", "wrath_header/mod.rs"), "wrath_header CLIENT_HEADER_LENGTH")
    put("nat", "wrathServerHeaderMinLength", lambda: c2.scalar(wm, "SERVER_HEADER_MINIMUM_LENGTH", "wrath_header/mod.rs"), "wrath_header SERVER_HEADER_MINIMUM_LENGTH")
    put("nat", "wrathServerHeaderMaxLength", lambda: c2.scalar(wm, "SERVER_HEADER_MAXIMUM_LENGTH", "wrath_header/mod.rs"), "wrath_header SERVER_HEADER_MAXIMUM_LENGTH")

    # the recurrence ciphers: key byte index and the modulus of the index update
    for rel, nm in [("src/vanilla_header/encrypt.rs", "vanillaEncMod"), ("src/vanilla_header/decrypt.rs", "vanillaDecMod"),
                    ("src/tbc_header/encrypt.rs", "tbcEncMod"), ("src/tbc_header/decrypt.rs", "tbcDecMod")]:
        text = src(rel)
        def modulus(text=text, rel=rel):
            if not re.search(r'session_key\[\s*\*index\s+as\s+usize\s*\]', text):
                die("key byte selection `session_key[*index as usize]` in " + rel)
            return rx(r'\*index\s*=\s*\(\s*\*index\s*\+\s*1\s*\)\s*%\s*([A-Za-z0-9_x]+)\s*;', text, "index update `*index = (*index + 1) % X` in " + rel, c.eval)
        put("nat", nm, modulus, rel + ": modulus of the index update")

    bad = re.compile(r'\b(Cell|RefCell|Mutex|RwLock|Atomic\w*|static\s+mut|thread_local!|UnsafeCell|Rc|Arc|lazy_static|OnceCell|OnceLock)\b')
    hits = []
    for rel in ["src/vanilla_header/mod.rs", "src/vanilla_header/encrypt.rs", "src/vanilla_header/decrypt.rs",
                "src/tbc_header/mod.rs", "src/tbc_header/encrypt.rs", "src/tbc_header/decrypt.rs",
                "src/wrath_header/mod.rs", "src/wrath_header/encrypt.rs", "src/wrath_header/decrypt.rs",
                "src/wrath_header/inner_crypto/mod.rs", "src/rc4.rs"]:
        text = src(rel)
        if not text or bad.search(text) or re.search(r'\bstatic\b', text):
            hits.append(rel)
    put("bool", "headerModulesHaveNoSharedState", lambda: not hits, "no Cell/RefCell/Mutex/Atomic*/static/thread_local!/Rc/Arc in header modules and rc4.rs" + (" — found in: " + ", ".join(hits) if hits else ""))
    # the SRP modules hold no state between calls either (C01/C03 quantify over histories of calls implicitly)
    hits2 = []
    for rel in ["src/primes.rs", "src/bigint.rs", "src/key.rs", "src/srp_internal.rs", "src/srp_internal_client.rs", "src/server.rs", "src/client.rs", "src/normalized_string.rs"]:
        text = src(rel)
        if not text or bad.search(text) or re.search(r'\bstatic\b', text):
            hits2.append(rel)
    put("bool", "srpModulesHaveNoSharedState", lambda: not hits2, "no Cell/RefCell/Mutex/Atomic*/static/thread_local!/Rc/Arc in the SRP modules" + (" — found in: " + ", ".join(hits2) if hits2 else ""))

    for nm, rels in [("pinModuleHasNoSharedState", ["src/pin.rs"]), ("integrityModuleHasNoSharedState", ["src/integrity.rs"]),
                     ("matrixCardModuleHasNoSharedState", ["src/matrix_card.rs", "src/rc4.rs"])]:
        hh = []
        for rel in rels:
            text = src(rel)
            if not text or bad.search(text) or re.search(r'\bstatic\b', text):
                hh.append(rel)
        put("bool", nm, lambda hh=hh: not hh, "no Cell/RefCell/Mutex/Atomic*/static/thread_local!/Rc/Arc in " + ", ".join(rels) + (" — found in: " + ", ".join(hh) if hh else ""))

    # field order of every hash computation (translator leg for C02/C03/C05/C06/C08/C09/C16/C17/C18)
    srpc = src("src/srp_internal_client.rs")
    vint = src("src/vanilla_header/internal.rs")
    integ = src("src/integrity.rs")
    i = mc.find("impl MatrixCardVerifier")
    mcv = mc[i:] if i >= 0 else ""
    for lname, text, fname, what in [
            ("layoutCalculateX", srpi, "calculate_x", "srp_internal.rs"),
            ("layoutCalculateU", srpi, "calculate_u", "srp_internal.rs"),
            ("layoutServerProof", srpi, "calculate_server_proof", "srp_internal.rs"),
            ("layoutXorHash", srpi, "calculate_xor_hash", "srp_internal.rs"),
            ("layoutClientProof", srpi, "calculate_client_proof", "srp_internal.rs"),
            ("layoutReconnectProof", srpi, "calculate_reconnect_proof", "srp_internal.rs"),
            ("layoutClientProofCustom", srpc, "calculate_client_proof_with_custom_value", "srp_internal_client.rs"),
            ("layoutWorldProof", vint, "calculate_world_server_proof", "vanilla_header/internal.rs"),
            ("layoutIntegrityGeneric", integ, "login_integrity_check_generic", "integrity.rs"),
            ("layoutIntegrityMac", integ, "login_integrity_check_mac", "integrity.rs"),
            ("layoutIntegrityChecksum", integ, "checksum", "integrity.rs"),
            ("layoutIntegrityFinalise", integ, "finalise", "integrity.rs"),
            ("layoutPinHash", pin, "calculate_hash", "pin.rs"),
            ("layoutMatrixCardNew", mcv, "new", "matrix_card.rs MatrixCardVerifier::new"),
            ("layoutMatrixCardEnter", mcv, "enter_value", "matrix_card.rs MatrixCardVerifier::enter_value"),
            ("layoutTbcEncKey", tbe, "new", "tbc_header/encrypt.rs"),
            ("layoutTbcDecKey", tbd, "new", "tbc_header/decrypt.rs"),
            ("layoutWrathInnerNew", ic, "new", "wrath_header/inner_crypto/mod.rs")]:
        put("layout", lname, lambda text=text, fname=fname, what=what: hash_layout(text, fname, what) + [hash_shape(text, fname, what)],
            "%s: arguments fed to each hash object of `%s`, in source order; last group: constructors / methods / control flow / rebound names / tail expression of the function" % (what, fname))

    # thin wrappers the model defines as plain delegation: the body of each is listed (whitespace removed) so that the obligation
    # "facade method = the half's method on the half it owns", "every constructor = new", "the three expansions hash (name, key,
    # client seed, server seed) with the seeds in these argument positions" is about what the source says now
    def impl_block(text, header):
        msk = mask_literals(text)
        ms = list(re.finditer(header, msk))
        if not ms:
            die("impl block %s not found" % header)
        if len(ms) != 1:
            die("%d impl blocks match %s" % (len(ms), header))
        m = ms[0]
        i = msk.index("{", m.end() - 1)
        depth = 0
        for j in range(i, len(msk)):
            if msk[j] == "{": depth += 1
            elif msk[j] == "}":
                depth -= 1
                if depth == 0:
                    return text[i:j + 1]
        die("unbalanced impl block")
    def bodies(text, header, names, what):
        blk = impl_block(text, header)
        out = []
        for n in names:
            try:
                out.append("%s: %s" % (n, re.sub(r"\s+", "", fn_body(blk, n, what))))
            except Missing:
                out.append("%s: <absent>" % n)
        return out
    FACADE = ["encrypt", "write_encrypted_server_header", "write_encrypted_client_header", "encrypt_server_header", "encrypt_client_header",
              "decrypt", "read_and_decrypt_server_header", "read_and_decrypt_client_header", "decrypt_server_header", "decrypt_client_header", "split"]
    tbm = src("src/tbc_header/mod.rs")
    def layout_put(name, thunk, origin):
        put("layout", name, lambda: [thunk()], origin)
    layout_put("facadeBodiesVanilla", lambda: bodies(van, r"impl\s+HeaderCrypto\s*\{", FACADE, "vanilla_header/mod.rs"), "vanilla_header/mod.rs: bodies of the HeaderCrypto facade methods")
    layout_put("facadeBodiesTbc", lambda: bodies(tbm, r"impl\s+HeaderCrypto\s*\{", FACADE, "tbc_header/mod.rs"), "tbc_header/mod.rs: bodies of the HeaderCrypto facade methods")
    layout_put("facadeBodiesWrathClient", lambda: bodies(wm, r"impl\s+ClientCrypto\s*\{", ["encrypt", "write_encrypted_client_header", "encrypt_client_header", "decrypt",
                "attempt_decrypt_server_header", "decrypt_large_server_header", "read_and_decrypt_server_header", "split"], "wrath_header/mod.rs"), "wrath_header/mod.rs: bodies of the ClientCrypto facade methods")
    layout_put("facadeBodiesWrathServer", lambda: bodies(wm, r"impl\s+ServerCrypto\s*\{", ["encrypt", "write_encrypted_server_header", "encrypt_server_header", "decrypt",
                "read_and_decrypt_client_header", "decrypt_client_header", "split"], "wrath_header/mod.rs"), "wrath_header/mod.rs: bodies of the ServerCrypto facade methods")
    def ctor_bodies():
        out = bodies(ns, r"impl\s+NormalizedString\s*\{", ["from_str", "from_string"], "normalized_string.rs")
        for hdr, nm in ((r"impl\s+TryFrom<&str>\s+for\s+NormalizedString\s*\{", "TryFrom<&str>::try_from"), (r"impl\s+TryFrom<String>\s+for\s+NormalizedString\s*\{", "TryFrom<String>::try_from"),
                        (r"impl\s+Display\s+for\s+NormalizedString\s*\{", "Display::fmt")):
            out.append(nm + ": " + re.sub(r"\s+", "", fn_body(impl_block(ns, hdr), nm.split("::")[1], "normalized_string.rs")))
        return out
    layout_put("nstrConstructorBodies", ctor_bodies, "normalized_string.rs: bodies of from_str / from_string / the TryFrom impls / Display")
    def world_calls(text, what):
        out = []
        for m in re.finditer(r"(\w+)\s*=\s*calculate_world_server_proof\s*\(", text):
            arg, _ = split_args(text, m.end() - 1)
            # which method the call is in
            fm = None
            for f in re.finditer(r"fn\s+(\w+)", text[:m.start()]):
                fm = f.group(1)
            out.append("%s: %s=(%s)" % (fm, m.group(1), re.sub(r"\s+", "", arg)))
        if not out:
            die("no calculate_world_server_proof call in " + what)
        if re.search(r'\bfn\s+calculate_world_server_proof\b', text) or re.search(r'calculate_world_server_proof\s+as\b|\bas\s+calculate_world_server_proof\b', text):
            die("a local function or alias named calculate_world_server_proof in " + what)
        return out
    layout_put("worldProofCallsVanilla", lambda: world_calls(van, "vanilla_header/mod.rs"), "vanilla_header/mod.rs: calls of calculate_world_server_proof (enclosing fn, bound name, arguments)")
    layout_put("worldProofCallsTbc", lambda: world_calls(tbm, "tbc_header/mod.rs"), "tbc_header/mod.rs: calls of calculate_world_server_proof")
    layout_put("worldProofCallsWrath", lambda: world_calls(wm, "wrath_header/mod.rs"), "wrath_header/mod.rs: calls of calculate_world_server_proof")

    # GLUE between the translated / modelled cores and the public API: small functions whose whole body is listed (whitespace removed).
    # The functions translated by tools/gen_code.py (cipher loops, header builders and parsers, strip rule, RC4 step, big-integer
    # formulas) are NOT listed here — they have a semantic obligation instead.
    def all_fn_bodies(text, what, skip=()):
        out = []
        for m in re.finditer(r'\bfn\s+(\w+)\s*(?:<[^>]*>)?\s*\(', text):
            n = m.group(1)
            if n in skip:
                continue
            sp = body_span(text, m.end() - 1)
            if sp is None:
                continue                      # a declaration without body
            i, j = sp
            out.append("%s %s" % (re.sub(r'\s+', '', text[m.start():i]), re.sub(r'\s+', '', text[i:j])))
        return out
    TRANSLATED_V = ("encrypt_server_header", "encrypt_client_header")
    def half_glue(enc_text, dec_text, what):
        # the free functions `encrypt` / `decrypt` (translated) are the LAST of their name; the methods of the same name are listed
        def drop_free(text, name):
            ms = list(re.finditer(r'\bfn\s+' + name + r'\s*\(', text))
            if len(ms) != 2:
                die("expected the method and the free function `%s` in %s, found %d" % (name, what, len(ms)))
            return text[:ms[1].start()]
        return all_fn_bodies(drop_free(enc_text, "encrypt"), what, TRANSLATED_V) + all_fn_bodies(drop_free(dec_text, "decrypt"), what)
    vane, vand = src("src/vanilla_header/encrypt.rs"), src("src/vanilla_header/decrypt.rs")
    layout_put("glueVanilla", lambda: half_glue(vane, vand, "vanilla_header"), "vanilla_header/{encrypt,decrypt}.rs: signature and body of every function except the translated ones")
    layout_put("glueTbc", lambda: half_glue(tbe, tbd, "tbc_header"), "tbc_header/{encrypt,decrypt}.rs: signature and body of every function except the translated ones")
    layout_put("glueWrath", lambda: all_fn_bodies(we, "wrath_header/encrypt.rs", ("encrypt_server_header", "encrypt_client_header")) + all_fn_bodies(wd, "wrath_header/decrypt.rs")
               + all_fn_bodies(ic, "wrath_header/inner_crypto/mod.rs"), "wrath_header/{encrypt,decrypt,inner_crypto}.rs: signature and body of every function except the translated builders")
    bigi = src("src/bigint.rs")
    layout_put("glueSrp", lambda: all_fn_bodies(key, "key.rs", ("as_equal_slice",)) + all_fn_bodies(bigi, "bigint.rs") + all_fn_bodies(primes, "primes.rs"),
               "key.rs, bigint.rs, primes.rs: signature and body of every function (conversions between byte arrays and big integers, key checks) except the translated strip rule")

    # SHAPE of the API-level logic (server.rs, client.rs, srp_internal*.rs, the three header mod.rs, pin / integrity / matrix_card): for every
    # function the ordered list of calls, the control-flow keywords and the comparison / boolean operators.  Not the text (locals may be
    # renamed, expressions reformatted) but enough that "compare, THEN draw the new challenge, unconditionally" or "refuse iff the proofs
    # differ" cannot turn into something else unnoticed.
    def fn_shapes(text, what):
        out = []
        for m in re.finditer(r'\bfn\s+(\w+)\s*(?:<[^>]*>)?\s*\(', text):
            sp = body_span(text, m.end() - 1)
            if sp is None:
                continue
            body = no_strings(text[sp[0]:sp[1]])
            calls = re.findall(r'([A-Za-z_][A-Za-z0-9_]*(?:::[A-Za-z_][A-Za-z0-9_]*)*)\s*(?:::<[^>]*>)?\(|([A-Za-z_][A-Za-z0-9_]*!)\s*[(\[{]', body)
            calls = [a_ or b_ for a_, b_ in calls]     # function / method calls, and macro invocations (`assert!`, `debug_assert!`, `format!`, `vec!` ...)
            calls = [c for c in calls if c not in ("if", "while", "for", "match", "Some", "Ok", "Err", "Self")]
            ctrl = re.findall(r'\b(if|else|for|while|loop|match|return|break|continue)\b|(\?)', body)
            ctrl = [a or b for a, b in ctrl]
            ops = re.findall(r'==|!=|<=|>=|&&|\|\||(?<![-=<>])<(?![<=])|(?<![-=>])>(?![>=])', re.sub(r'::<[^>]*>|->|=>', '', body))
            out.append("%s: calls=%s; control=%s; ops=%s" % (m.group(1), ",".join(calls), ",".join(ctrl), ",".join(ops)))
        return out
    # one fact per FILE, so that a rewrite in pin.rs breaks the obligations of the properties that read pin.rs and no others
    for sname, rel in SHAPE_FILES:
        layout_put(sname, lambda rel=rel: fn_shapes(src(rel), rel[4:]), rel[4:] + ": per function the ordered calls, control-flow keywords and comparison operators")

    # semantics the model takes from `#[derive(..)]`: Clone is a field-wise copy, == / Ord / Hash are structural over all fields,
    # nothing runs on drop, Default is what the listed impls say.  The translator lists (a) every hand-written impl of one of those
    # traits and (b) the derive list of every struct / enum, for the non-test part of every source file
    STRUCT_TRAITS = ("Clone", "Copy", "PartialEq", "Eq", "Hash", "Ord", "PartialOrd", "Default", "Drop")
    manual, derives = [], []
    srcdir = os.path.join(repo, "src")
    for root, _, files in sorted(os.walk(srcdir)):
        for f in sorted(files):
            if not f.endswith(".rs") or f == "test.rs":
                continue
            rel = os.path.relpath(os.path.join(root, f), repo)
            text = src(rel)
            for m in re.finditer(r'\bimpl\s*(?:<[^>{]*>\s*)?(?:[\w:]+::)?(\w+)(?:<[^>{]*>)?\s+for\s+(\$?\w+)', text):
                if m.group(1) in STRUCT_TRAITS:
                    manual.append("%s for %s @%s" % (m.group(1), m.group(2), rel))
            for m in re.finditer(r'#\[derive\(([^)]*)\)\]\s*(?:#\[[^\]]*\]\s*)*(?:pub(?:\([^)]*\))?\s+)?(?:struct|enum)\s+(\$?\w+)[^{;]*(\{[^}]*\})?', text):
                ds = [d.strip().split("::")[-1] for d in m.group(1).split(",") if d.strip()]
                # field (variant) names in declaration order: derived Ord / PartialOrd / Hash follow that order
                fields = re.findall(r'(?:pub(?:\([^)]*\))?\s+)?(\w+)\s*(?::|,|\(|\})', (m.group(3) or "")[1:]) if m.group(3) else []
                derives.append("%s @%s: %s | %s" % (m.group(2), rel, " ".join(d for d in ds if d in STRUCT_TRAITS), " ".join(fields)))
            # code that exists only when a feature is OFF is never compiled into the harness (which turns every feature on and builds the two
            # math back ends): the model has one behaviour per back end, so every `cfg(.. not(..) ..)` fork is listed
            for m in re.finditer(r'#\[cfg\(((?:[^()]|\([^()]*\)|\((?:[^()]|\([^()]*\))*\))*)\)\]', text):
                a = re.sub(r"\s+", "", m.group(1))
                if a != "test":
                    manual.append("cfg %s @%s" % (a, rel))
            # things that change WHICH text is the code: macro definitions (a function or a `vec!` can come out of one), `#[path]`
            # (the file read here may not be the module that is compiled), raw identifiers (`fn r#name` is `name`), aliases of the
            # primitive integer types, and — for lib.rs — the module declarations themselves
            mtext = mask_literals(text)
            for m in re.finditer(r'\bmacro_rules!\s*(\w+)', mtext):
                manual.append("macro %s @%s" % (m.group(1), rel))
            for m in re.finditer(r'#\[path\b[^\]]*\]', mtext):
                manual.append("path-attribute @%s" % rel)
            for m in re.finditer(r'\br#(\w+)', mtext):
                manual.append("raw-identifier %s @%s" % (m.group(1), rel))
            for m in re.finditer(r'\btype\s+(\w+)\s*(?:<[^>]*>)?\s*=\s*([^;]+);', mtext):
                if m.group(1) in ("u8", "u16", "u32", "u64", "usize", "Vec", "String") or re.fullmatch(r'\s*(u8|u16|u32|u64|u128|usize|i8|i16|i32|i64|isize)\s*', m.group(2)):
                    manual.append("type-alias %s=%s @%s" % (m.group(1), re.sub(r"\s+", "", m.group(2)), rel))
            for m in re.finditer(r'\buse\s+[^;]*\bas\s+(u8|u16|u32|u64|usize|Vec|vec)\b', mtext):
                manual.append("use-as %s @%s" % (m.group(1), rel))
            # the model has ONE behaviour, whatever the build profile, the wall clock, the environment or the thread: every construct that
            # can make the code behave differently under those is listed (none in the tree the model was written against)
            for m in re.finditer(r'\b(debug_assert(?:_eq|_ne)?!|debug_assertions|overflow_checks|Instant|SystemTime|UNIX_EPOCH|Duration|std::time|core::time|'
                                 r'std::env|option_env!|env!|thread::sleep|std::fs|std::net|std::process|available_parallelism|ThreadId|thread::current|'
                                 r'TypeId|type_name|target_pointer_width|target_endian|target_os|target_arch|catch_unwind|AtomicU?\w*|Ordering::Relaxed|OnceLock|OnceCell|Lazy\w*|lazy_static!|thread_local!|static\s+mut)\b', mtext):
                manual.append("environment-dependent %s @%s" % (re.sub(r"\s+", " ", m.group(1)), rel))
            if rel == os.path.join("src", "lib.rs"):
                for m in re.finditer(r'((?:#\[[^\]]*\]\s*)*)(pub(?:\([^)]*\))?\s+)?mod\s+(\w+)\s*([;{])', mtext):
                    attrs = re.sub(r"\s+", "", text[m.start(1):m.end(1)]) if len(mtext) == len(text) else "?"
                    manual.append("mod %s%s%s @%s" % (m.group(3), "" if m.group(4) == ";" else " (inline)", (" " + attrs) if attrs else "", rel))
            # a struct / enum with no derive attribute at all still matters (it then has none of the traits)
            for m in re.finditer(r'(?<!\]\n)(?<!\] )\b(?:pub(?:\([^)]*\))?\s+)?(?:struct|enum)\s+(\$?\w+)', text):
                if not any(d.startswith(m.group(1) + " @" + rel + ":") for d in derives):
                    derives.append("%s @%s: " % (m.group(1), rel))
    groups = [("structuralSrp", ("src/key.rs", "src/server.rs", "src/client.rs", "src/primes.rs", "src/bigint.rs", "src/srp_internal.rs", "src/srp_internal_client.rs", "src/lib.rs", "src/error.rs", "src/hex.rs")),
              ("structuralNStr", ("src/normalized_string.rs",)),
              ("structuralVanilla", ("src/vanilla_header/",)), ("structuralTbc", ("src/tbc_header/",)),
              ("structuralWrath", ("src/wrath_header/", "src/rc4.rs")),
              ("structuralAux", ("src/pin.rs", "src/integrity.rs", "src/matrix_card.rs"))]
    allf = sorted(manual) + sorted(set(derives))
    seen = set()
    for gname, prefixes in groups:
        mine = [x for x in allf if any(("@" + p) in x for p in prefixes)]
        seen.update(mine)
        F.append("/-- hand-written impls of, and derive lists restricted to, Clone/Copy/PartialEq/Eq/Hash/Ord/PartialOrd/Default/Drop in %s -/\ndef %s : List String := [%s]"
                 % (", ".join(prefixes), gname, ",\n  ".join(lean_str(x) for x in mine)))
    F.append("/-- the same for source files outside the groups above (new files) -/\ndef structuralOther : List String := [%s]"
             % ", ".join(lean_str(x) for x in allf if x not in seen))
    L.append("/-- constants the translator could not find in the source (placeholders were emitted for them) -/\ndef missingConstants : List String := [%s]"
             % ", ".join(lean_str(m.split(":")[0]) for m in missing))
    text = ("/- GENERATED by tools/gen_constants.py from the Rust sources on every run. Do not edit. -/\n"
            "namespace WowSrp.Gen\n\n" + "\n\n".join(L) + "\n\nend WowSrp.Gen\n")
    ftext = ("/- GENERATED by tools/gen_constants.py from the Rust sources on every run. Do not edit.\n   Source FACTS (text-level): kept apart from Constants.lean so that an edit which changes no constant does not rebuild the model. -/\n"
             "namespace WowSrp.Gen\n\n" + "\n\n".join(F) + "\n\nend WowSrp.Gen\n")
    for path, t in ((out, text), (os.path.join(os.path.dirname(out), "Facts.lean") if os.path.basename(out) == "Constants.lean" else out + ".facts", ftext)):
        old = open(path).read() if os.path.exists(path) else None
        if old != t:
            os.makedirs(os.path.dirname(path), exist_ok=True)
            with open(path, "w") as f:
                f.write(t)
            print("gen_constants: wrote", path)
        else:
            print("gen_constants: unchanged", path)
    if missing:
        for m in missing:
            print("gen_constants: BROKEN TIE (placeholder emitted): " + m, file=sys.stderr)
        sys.exit(3)

if __name__ == "__main__":
    main()
