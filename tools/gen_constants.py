#!/usr/bin/env python3
"""Translator: /repo/src/*.rs (current working tree) -> lean/WowSrp/Gen/Constants.lean

Every constant the Lean model uses is read from the Rust source on every run, so the
theorems are re-checked against what the code says now.  If a constant cannot be found
the generator fails loudly (exit 2): that is a broken tie, never guessed around.

Usage: gen_constants.py <repo> <out.lean>     (writes only when the content changed)
"""
import re, sys, os

def die(msg):
    print("gen_constants: BROKEN TIE: " + msg, file=sys.stderr)
    sys.exit(2)

def strip_comments(src):
    src = re.sub(r'/\*.*?\*/', '', src, flags=re.S)
    src = re.sub(r'//[^\n]*', '', src)
    return src

def cut_tests(src):
    # drop `#[cfg(test)] mod test { ... }` tails (always last in this crate)
    m = re.search(r'#\[cfg\(test\)\]\s*(#\[[^\]]*\]\s*)*mod\s+\w+\s*\{', src)
    return src[:m.start()] if m else src

def load(repo, rel):
    p = os.path.join(repo, rel)
    if not os.path.exists(p):
        die("missing source file " + rel)
    return cut_tests(strip_comments(open(p).read()))

def parse_int(tok):
    tok = tok.strip().replace('_u8', '').replace('_u16', '').replace('_u32', '').replace('_u64', '').replace('_usize', '').replace('_', '')
    tok = re.sub(r'(u8|u16|u32|u64|usize)$', '', tok)
    return int(tok, 0)

def parse_array(body):
    return [parse_int(t) for t in body.replace('\n', ' ').split(',') if t.strip()]

def find_array(src, name, what, kw=r'(?:pub(?:\([^)]*\))?\s+)?(?:const|static)'):
    m = re.search(kw + r'\s+' + name + r'\s*:\s*\[[^;\]]+;[^\]]+\]\s*=\s*\[([^\]]*)\]\s*;', src)
    if not m:
        die("array constant %s not found in %s" % (name, what))
    return parse_array(m.group(1))

def find_let_array(src, name, what):
    m = re.search(r'let\s+' + name + r'\s*:\s*\[[^;\]]+;[^\]]+\]\s*=\s*\[([^\]]*)\]\s*;', src)
    if not m:
        die("local array %s not found in %s" % (name, what))
    return parse_array(m.group(1))

class Consts:
    def __init__(self):
        self.vals = {}
    def eval(self, expr):
        e = expr.strip()
        e = re.sub(r'core::mem::size_of::<u(\d+)>\(\)', lambda m: str(int(m.group(1)) // 8), e)
        e = re.sub(r'\bas\s+(u8|u16|u32|u64|usize)\b', '', e)
        e = re.sub(r'\b(\d[\d_]*)_?(u8|u16|u32|u64|usize)\b', r'\1', e)
        e = re.sub(r'\bcrate::', '', e)
        def sub(m):
            n = m.group(0)
            if n in self.vals:
                return str(self.vals[n])
            die("cannot resolve identifier %s in constant expression %r" % (n, expr))
        e = re.sub(r'\b[A-Z][A-Z0-9_]*\b', sub, e)
        if not re.fullmatch(r'[\d\sxXa-fA-F_+*()\-/]+', e):
            die("unsupported constant expression %r" % expr)
        return int(eval(e.replace('_', ''), {"__builtins__": {}}))
    def scalar(self, src, name, what):
        m = re.search(r'(?:pub(?:\([^)]*\))?\s+)?const\s+' + name + r'\s*:\s*(?:u8|u16|u32|u64|usize)\s*=\s*([^;]+);', src)
        if not m:
            die("scalar constant %s not found in %s" % (name, what))
        v = self.eval(m.group(1))
        self.vals[name] = v
        return v

def lean_bytes(xs):
    return "[" + ", ".join("0x%02x" % x for x in xs) + "]"

def main():
    repo, out = sys.argv[1], sys.argv[2]
    c = Consts()
    L = []  # (name, leantype, value, origin)
    def emit_nat(name, v, origin):
        L.append("/-- %s -/\ndef %s : Nat := %d" % (origin, name, v))
    def emit_bytes(name, v, origin):
        L.append("/-- %s -/\ndef %s : List UInt8 := %s" % (origin, name, lean_bytes(v)))
    def emit_bool(name, v, origin):
        L.append("/-- %s -/\ndef %s : Bool := %s" % (origin, name, "true" if v else "false"))

    primes = load(repo, "src/primes.rs")
    emit_nat("largeSafePrimeLength", c.scalar(primes, "LARGE_SAFE_PRIME_LENGTH", "primes.rs"), "primes.rs LARGE_SAFE_PRIME_LENGTH")
    emit_bytes("largeSafePrimeBE", find_array(primes, "LARGE_SAFE_PRIME_BIG_ENDIAN", "primes.rs"), "primes.rs LARGE_SAFE_PRIME_BIG_ENDIAN")
    emit_bytes("largeSafePrimeLE", find_array(primes, "LARGE_SAFE_PRIME_LITTLE_ENDIAN", "primes.rs"), "primes.rs LARGE_SAFE_PRIME_LITTLE_ENDIAN")
    emit_nat("generator", c.scalar(primes, "GENERATOR", "primes.rs"), "primes.rs GENERATOR")
    emit_nat("generatorLength", c.scalar(primes, "GENERATOR_LENGTH", "primes.rs"), "primes.rs GENERATOR_LENGTH")
    emit_nat("kValue", c.scalar(primes, "K_VALUE", "primes.rs"), "primes.rs K_VALUE")
    m = re.search(r'impl\s+Default\s+for\s+LargeSafePrime\s*\{.*?prime\s*:\s*(\w+)', primes, flags=re.S)
    if not m: die("Default for LargeSafePrime not found")
    emit_bool("defaultPrimeIsLE", m.group(1) == "LARGE_SAFE_PRIME_LITTLE_ENDIAN", "primes.rs: LargeSafePrime::default() uses LARGE_SAFE_PRIME_LITTLE_ENDIAN")
    m = re.search(r'impl\s+Default\s+for\s+Generator\s*\{.*?generator\s*:\s*(\w+)', primes, flags=re.S)
    if not m: die("Default for Generator not found")
    emit_bool("defaultGeneratorIsG", m.group(1) == "GENERATOR", "primes.rs: Generator::default() uses GENERATOR")

    key = load(repo, "src/key.rs")
    for rn, ln in [("SALT_LENGTH", "saltLength"), ("PRIVATE_KEY_LENGTH", "privateKeyLength"),
                   ("PUBLIC_KEY_LENGTH", "publicKeyLength"), ("SHA1_HASH_LENGTH", "sha1HashLength"),
                   ("PASSWORD_VERIFIER_LENGTH", "passwordVerifierLength"), ("PROOF_LENGTH", "proofLength"),
                   ("S_LENGTH", "sLength"), ("RECONNECT_CHALLENGE_DATA_LENGTH", "reconnectDataLength"),
                   ("SESSION_KEY_LENGTH", "sessionKeyLength")]:
        emit_nat(ln, c.scalar(key, rn, "key.rs"), "key.rs " + rn)

    srpi = load(repo, "src/srp_internal.rs")
    emit_bytes("precalculatedXorHash", find_array(srpi, "PRECALCULATED_XOR_HASH", "srp_internal.rs"), "srp_internal.rs PRECALCULATED_XOR_HASH")

    ns = load(repo, "src/normalized_string.rs")
    emit_nat("maximumStringLength", c.scalar(ns, "MAXIMUM_STRING_LENGTH_IN_BYTES", "normalized_string.rs"), "normalized_string.rs MAXIMUM_STRING_LENGTH_IN_BYTES")

    lib = load(repo, "src/lib.rs")
    emit_nat("integritySaltLength", c.scalar(lib, "INTEGRITY_SALT_LENGTH", "lib.rs"), "lib.rs INTEGRITY_SALT_LENGTH")
    emit_bool("forbidUnsafe", re.search(r'#!\[forbid\(unsafe_code\)\]', lib) is not None, "lib.rs has #![forbid(unsafe_code)]")

    tbe = load(repo, "src/tbc_header/encrypt.rs")
    tbd = load(repo, "src/tbc_header/decrypt.rs")
    emit_bytes("tbcSeedEnc", find_let_array(tbe, "s", "tbc_header/encrypt.rs"), "tbc_header/encrypt.rs EncrypterHalf::new seed `s`")
    emit_bytes("tbcSeedDec", find_let_array(tbd, "s", "tbc_header/decrypt.rs"), "tbc_header/decrypt.rs DecrypterHalf::new seed `s`")

    wm = load(repo, "src/wrath_header/mod.rs")
    emit_bytes("wrathS", find_array(wm, "S", "wrath_header/mod.rs"), "wrath_header/mod.rs S (client->server)")
    emit_bytes("wrathR", find_array(wm, "R", "wrath_header/mod.rs"), "wrath_header/mod.rs R (server->client)")
    we = load(repo, "src/wrath_header/encrypt.rs")
    wd = load(repo, "src/wrath_header/decrypt.rs")
    m = re.search(r'if\s+size\s*>\s*(0x[0-9A-Fa-f_]+|\d[\d_]*)', we)
    if not m: die("`if size > <literal>` not found in wrath_header/encrypt.rs")
    emit_nat("wrathLargeThreshold", parse_int(m.group(1)), "wrath_header/encrypt.rs: `if size > LIT` in encrypt_server_header")
    m = re.search(r'fn\s+set_large_header\s*\(\s*v\s*:\s*u8\s*\)\s*->\s*u8\s*\{\s*v\s*\|\s*(0x[0-9A-Fa-f]+|\d+)\s*\}', we)
    if not m: die("set_large_header body `v | LIT` not found")
    emit_nat("wrathSetMask", parse_int(m.group(1)), "wrath_header/encrypt.rs set_large_header: v | LIT")
    m = re.search(r'fn\s+clear_large_header\s*\(\s*v\s*:\s*u8\s*\)\s*->\s*u8\s*\{\s*v\s*&\s*(0x[0-9A-Fa-f]+|\d+)\s*\}', wd)
    if not m: die("clear_large_header body `v & LIT` not found")
    emit_nat("wrathClearMask", parse_int(m.group(1)), "wrath_header/decrypt.rs clear_large_header: v & LIT")
    m = re.search(r'fn\s+large_header\s*\(\s*v\s*:\s*u8\s*\)\s*->\s*bool\s*\{\s*v\s*&\s*(0x[0-9A-Fa-f]+|\d+)\s*!=\s*0\s*\}', wd)
    if not m: die("large_header body `v & LIT != 0` not found")
    emit_nat("wrathTestMask", parse_int(m.group(1)), "wrath_header/decrypt.rs large_header: v & LIT != 0")
    ic = load(repo, "src/wrath_header/inner_crypto/mod.rs")
    emit_nat("wrathKeyLength", c.scalar(ic, "KEY_LENGTH", "inner_crypto/mod.rs"), "wrath_header/inner_crypto KEY_LENGTH")
    m = re.search(r'let\s+mut\s+pad_data\s*=\s*\[\s*0_?u8\s*;\s*(\d+)\s*\]', ic)
    if not m: die("pad_data drop length not found in inner_crypto/mod.rs")
    emit_nat("wrathDrop", int(m.group(1)), "wrath_header/inner_crypto: keystream bytes discarded")
    # which constant each of the four halves uses
    def half_const(src, struct, what):
        m = re.search(r'impl\s+' + struct + r'\s*\{.*?fn\s+new\s*\(.*?InnerCrypto::new\s*\(\s*session_key\s*,\s*&\s*(\w+)\s*\)', src, flags=re.S)
        if not m: die("InnerCrypto::new(session_key, &X) not found for " + what)
        return m.group(1)
    emit_bool("wrathServerEncUsesR", half_const(we, "ServerEncrypterHalf", "ServerEncrypterHalf") == "R", "ServerEncrypterHalf::new keys with R")
    emit_bool("wrathClientEncUsesS", half_const(we, "ClientEncrypterHalf", "ClientEncrypterHalf") == "S", "ClientEncrypterHalf::new keys with S")
    emit_bool("wrathServerDecUsesS", half_const(wd, "ServerDecrypterHalf", "ServerDecrypterHalf") == "S", "ServerDecrypterHalf::new keys with S")
    emit_bool("wrathClientDecUsesR", half_const(wd, "ClientDecrypterHalf", "ClientDecrypterHalf") == "R", "ClientDecrypterHalf::new keys with R")

    pin = load(repo, "src/pin.rs")
    emit_nat("pinSaltSize", c.scalar(pin, "PIN_SALT_SIZE", "pin.rs"), "pin.rs PIN_SALT_SIZE")
    emit_nat("pinHashSize", c.scalar(pin, "PIN_HASH_SIZE", "pin.rs"), "pin.rs PIN_HASH_SIZE")
    emit_nat("minPinLength", c.scalar(pin, "MIN_PIN_LENGTH", "pin.rs"), "pin.rs MIN_PIN_LENGTH")
    emit_nat("maxPinLength", c.scalar(pin, "MAX_PIN_LENGTH", "pin.rs"), "pin.rs MAX_PIN_LENGTH")
    m = re.search(r'\*b\s*\+=\s*(0x[0-9A-Fa-f]+|\d+)\s*;', pin)
    if not m: die("`*b += LIT` (ASCII offset) not found in pin.rs")
    emit_nat("pinAsciiOffset", parse_int(m.group(1)), "pin.rs: ASCII offset added to remapped digits")
    m = re.search(r'let\s+mut\s+grid\s*=\s*\[([^\]]*)\]', pin)
    if not m: die("initial grid not found in pin.rs")
    emit_bytes("pinInitialGrid", parse_array(m.group(1)), "pin.rs remap_pin_grid initial grid")

    mc = load(repo, "src/matrix_card.rs")
    emit_nat("minMatrixCardValue", c.scalar(mc, "MIN_MATRIX_CARD_VALUE", "matrix_card.rs"), "matrix_card.rs MIN_MATRIX_CARD_VALUE")
    emit_nat("maxMatrixCardValue", c.scalar(mc, "MAX_MATRIX_CARD_VALUE", "matrix_card.rs"), "matrix_card.rs MAX_MATRIX_CARD_VALUE")

    van = load(repo, "src/vanilla_header/mod.rs")
    emit_nat("vanillaClientHeaderLength", c.scalar(van, "CLIENT_HEADER_LENGTH", "vanilla_header/mod.rs"), "vanilla_header CLIENT_HEADER_LENGTH")
    emit_nat("vanillaServerHeaderLength", c.scalar(van, "SERVER_HEADER_LENGTH", "vanilla_header/mod.rs"), "vanilla_header SERVER_HEADER_LENGTH")
    c2 = Consts()
    emit_nat("wrathClientHeaderLength", c2.scalar(wm, "CLIENT_HEADER_LENGTH", "wrath_header/mod.rs"), "wrath_header CLIENT_HEADER_LENGTH")
    emit_nat("wrathServerHeaderMinLength", c2.scalar(wm, "SERVER_HEADER_MINIMUM_LENGTH", "wrath_header/mod.rs"), "wrath_header SERVER_HEADER_MINIMUM_LENGTH")
    emit_nat("wrathServerHeaderMaxLength", c2.scalar(wm, "SERVER_HEADER_MAXIMUM_LENGTH", "wrath_header/mod.rs"), "wrath_header SERVER_HEADER_MAXIMUM_LENGTH")

    # the modulus used by the two recurrence ciphers (`% SESSION_KEY_LENGTH`, `% PROOF_LENGTH`)
    for rel, nm in [("src/vanilla_header/encrypt.rs", "vanillaEncMod"), ("src/vanilla_header/decrypt.rs", "vanillaDecMod"),
                    ("src/tbc_header/encrypt.rs", "tbcEncMod"), ("src/tbc_header/decrypt.rs", "tbcDecMod")]:
        s = load(repo, rel)
        m = re.search(r'\*index\s*=\s*\(\s*\*index\s*\+\s*1\s*\)\s*%\s*([A-Za-z0-9_x]+)\s*;', s)
        if not m: die("index update `*index = (*index + 1) % X` not found in " + rel)
        emit_nat(nm, c.eval(m.group(1)), rel + ": modulus of the index update")

    # syntactic facts used by C12: no interior mutability / shared statics in the header modules
    bad = re.compile(r'\b(Cell|RefCell|Mutex|RwLock|Atomic\w*|static\s+mut|thread_local!|UnsafeCell|Rc|Arc|lazy_static|OnceCell|OnceLock)\b')
    hits = []
    for rel in ["src/vanilla_header/mod.rs", "src/vanilla_header/encrypt.rs", "src/vanilla_header/decrypt.rs",
                "src/tbc_header/mod.rs", "src/tbc_header/encrypt.rs", "src/tbc_header/decrypt.rs",
                "src/wrath_header/mod.rs", "src/wrath_header/encrypt.rs", "src/wrath_header/decrypt.rs",
                "src/wrath_header/inner_crypto/mod.rs", "src/rc4.rs"]:
        s = load(repo, rel)
        if bad.search(s) or re.search(r'\bstatic\b', s):
            hits.append(rel)
    emit_bool("headerModulesHaveNoSharedState", not hits, "no Cell/RefCell/Mutex/Atomic*/static/thread_local!/Rc/Arc in header modules and rc4.rs" + (" — found in: " + ", ".join(hits) if hits else ""))

    text = ("/- GENERATED by tools/gen_constants.py from the Rust sources on every run. Do not edit. -/\n"
            "namespace WowSrp.Gen\n\n" + "\n\n".join(L) + "\n\nend WowSrp.Gen\n")
    old = open(out).read() if os.path.exists(out) else None
    if old != text:
        os.makedirs(os.path.dirname(out), exist_ok=True)
        with open(out, "w") as f:
            f.write(text)
        print("gen_constants: wrote", out)
    else:
        print("gen_constants: unchanged")

if __name__ == "__main__":
    main()
