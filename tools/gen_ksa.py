#!/usr/bin/env python3
"""Translator (logic leg, RC4 key schedule): `Rc4::new` and `Rc4::key_scheduling_algorithm` (src/rc4.rs) -> a `MiniKsa.KsaProg`
(lean/WowSrp/Model/MiniKsa.lean), written to Gen/CodeKsa.lean on every run.   gen_ksa.py <repo> <out.lean>

Both bodies have to match their frame as a whole (see Model/MiniKsa.lean); the update of `j` is parsed by a small recursive-descent parser
(`j`, `self.state[i]`, `*k`, literals, `.wrapping_add(..)`).  Anything else sets `unsupported`, whose meaning is a panic, so the equivalence
theorem in Props/Source/Rc4Ksa.lean fails instead of anything being guessed."""
import re, sys, os
sys.path.insert(0, os.path.dirname(os.path.abspath(__file__)))
import gen_constants as gc

class Unsupported(Exception):
    pass

def lean_str(x):
    return '"' + x.replace("\\", "\\\\").replace('"', '\\"').replace("\n", " ") + '"'

def num(t):
    m = re.fullmatch(r"(0x[0-9a-fA-F_]+|\d[\d_]*?)(?:_?(?:u8|usize))?", t.strip())
    if not m: raise Unsupported("number " + t)
    return int(m.group(1).replace("_", ""), 0)

def jexpr(txt, I, K):
    toks = re.findall(r"[A-Za-z_]\w*|0x[0-9a-fA-F_]+|\d[\d_]*|[.()\[\]*]", txt)
    if "".join(toks) != re.sub(r"\s+", "", txt): raise Unsupported("update of j: " + txt)
    pos = [0]
    def peek(): return toks[pos[0]] if pos[0] < len(toks) else None
    def eat(x=None):
        t = peek()
        if t is None or (x is not None and t != x): raise Unsupported("expected %r, found %r in %s" % (x, t, txt))
        pos[0] += 1; return t
    def primary():
        t = eat()
        if t == "j": return "KExpr.j"
        if t == "*":
            eat(K); return "KExpr.k"
        if t == "self":
            eat("."); eat("state"); eat("["); eat(I); eat("]"); return "KExpr.stateI"
        if t == "(":
            a = expr(); eat(")"); return a
        if re.fullmatch(r"0x[0-9a-fA-F_]+|\d[\d_]*", t): return "KExpr.lit %d" % (num(t) % 256)
        raise Unsupported("token %s in %s" % (t, txt))
    def expr():
        a = primary()
        while peek() == ".":
            eat("."); eat("wrapping_add"); eat("("); b = expr(); eat(")")
            a = "KExpr.wadd (%s) (%s)" % (a, b)
        return a
    a = expr()
    if peek() is not None: raise Unsupported("trailing text in " + txt)
    return a

def translate(repo):
    rel = "src/rc4.rs"
    bad = lambda why: "⟨0, 0, 0, false, 0, 0, false, 0, KExpr.j, some %s⟩" % lean_str(why)
    try:
        text = gc.load(repo, rel)
        blk_new = gc.fn_body(text, "new", rel, unique=True)
        ksa = gc.fn_body(text, "key_scheduling_algorithm", rel, unique=True)
        msk = gc.mask_literals(text)
        if len(re.findall(r"\bkey_scheduling_algorithm\b", msk)) != 2:
            raise Unsupported("key_scheduling_algorithm is mentioned %d times (expected: its definition and the one call in new)" % len(re.findall(r"\bkey_scheduling_algorithm\b", msk)))
        sig = re.search(r"fn\s+new\s*\(\s*(\w+)\s*:\s*&\[u8\]\s*\)\s*->\s*Self", text)
        sig2 = re.search(r"fn\s+key_scheduling_algorithm\s*\(\s*&mut self\s*,\s*(\w+)\s*:\s*&\[u8\]\s*\)\s*\{", text)
        if not sig or not sig2: raise Unsupported("signatures of new / key_scheduling_algorithm")
        t = re.sub(r"\s+", " ", blk_new.strip()[1:-1]).strip()
        m = re.fullmatch(r"let mut (\w+) = Self \{ state: \[(\w+); (\w+)\], i: (\w+), j: (\w+),? \}; \1\.key_scheduling_algorithm\(" + re.escape(sig.group(1)) + r"\); \1", t)
        if not m: raise Unsupported("`new` outside its frame: " + t[:160])
        if num(m.group(2)) != 0: raise Unsupported("table filled with " + m.group(2))
        table, i0, j0 = num(m.group(3)), num(m.group(4)), num(m.group(5))
        sm = re.search(r"struct\s+Rc4\s*\{\s*state\s*:\s*\[u8;\s*(\w+)\]\s*,\s*i\s*:\s*u8\s*,\s*j\s*:\s*u8\s*,?\s*\}", text)
        if not sm or num(sm.group(1)) != table: raise Unsupported("struct Rc4 is not { state: [u8; %d], i: u8, j: u8 }" % table)
        K = sig2.group(1)
        t = re.sub(r"\s+", " ", ksa.strip()[1:-1]).strip()
        f = re.fullmatch(r"self\.state\.iter_mut\(\)\.enumerate\(\)\.for_each\(\|\((\w+), (\w+)\)\| \{ \*\2 = \1 as u8; \}\); "
                         r"let (\w+) = (\w+)\.\.(\w+); let (\w+) = " + re.escape(K) + r"\.iter\(\)(\.cycle\(\))?; let mut j = (\w+); "
                         r"\3\.zip\(\6\)\.for_each\(\|\((\w+), (\w+)\)\| \{ j = (.+?); self\.state\.swap\(\9, j\.into\(\)\); \}\);", t)
        if not f: raise Unsupported("key_scheduling_algorithm outside its frame: " + t[:200])
        lo, hi, cyc, jinit, I, KV, upd = num(f.group(4)), num(f.group(5)), f.group(7) is not None, num(f.group(8)), f.group(9), f.group(10), f.group(11)
        if len({I, KV, "j", "self"}) != 4: raise Unsupported("closure parameter names")
        return "⟨%d, %d, %d, true, %d, %d, %s, %d, %s, none⟩" % (table, i0, j0, lo, hi, "true" if cyc else "false", jinit % 256, jexpr(upd, I, KV))
    except (Unsupported, gc.Missing) as ex:
        return bad(str(ex))
    except Exception as ex:
        return bad("translator error %s: %s" % (type(ex).__name__, ex))

def main(repo, outp):
    text = ("/- GENERATED by tools/gen_ksa.py from the Rust sources on every run. Do not edit. -/\nimport WowSrp.Model.MiniKsa\n"
            "namespace WowSrp.Gen.CodeKsa\nopen WowSrp.MiniKsa\n\n/-- `Rc4::new` with `key_scheduling_algorithm` in src/rc4.rs -/\ndef rc4New : KsaProg := %s\n\nend WowSrp.Gen.CodeKsa\n" % translate(repo))
    old = open(outp).read() if os.path.exists(outp) else None
    if old != text:
        os.makedirs(os.path.dirname(outp), exist_ok=True)
        open(outp, "w").write(text); print("gen_ksa: wrote", outp)
    else:
        print("gen_ksa: unchanged")
    return 3 if ", some " in text else 0

if __name__ == "__main__":
    sys.exit(main(sys.argv[1], sys.argv[2]))
