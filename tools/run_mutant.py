#!/usr/bin/env python3
"""Apply a seeded change to /repo, run the registered checks against it, undo it straight afterwards.
usage: run_mutant.py <patch.diff> [--props C01,C02,...] [--tier quick]
Prints which checks raised a VIOLATION; exit 0 always (this is a self-test of the machinery)."""
import sys, os, subprocess, json, argparse, time
ap = argparse.ArgumentParser()
ap.add_argument("patch")
ap.add_argument("--props", default=None)
ap.add_argument("--tier", default="quick")
ap.add_argument("--repo", default="/repo", help="apply the change to this checkout (tools/matrix.sh uses private clones)")
ap.add_argument("--json", default=None, help="also write the result table to this file")
a = ap.parse_args()
VERIF = os.path.dirname(os.path.dirname(os.path.abspath(__file__)))
REPO = a.repo
if REPO != "/repo":
    os.environ["VERIF_REPO"] = REPO
m = json.load(open(os.path.join(VERIF, "MANIFEST.json")))
props = a.props.split(",") if a.props else [c["property_id"] for c in m["checks"]]
st = subprocess.run(["git", "-C", REPO, "status", "--porcelain"], capture_output=True, text=True).stdout.strip()
if st:
    print("refusing: /repo working tree is not clean:\n" + st); sys.exit(2)
r = subprocess.run(["git", "-C", REPO, "apply", os.path.abspath(a.patch)], capture_output=True, text=True)
if r.returncode:
    print("patch does not apply:", r.stderr); sys.exit(2)
res = {}
try:
    for p in props:
        t = time.time()
        q = subprocess.run(["./check", p, "--tier", a.tier], cwd=VERIF, capture_output=True, text=True)
        viol = [l for l in q.stdout.split("\n") if l.startswith("VIOLATION") or l.startswith("ERROR")]
        res[p] = dict(rc=q.returncode, lines=viol, s=round(time.time() - t, 1))
        tag = "FIRED" if q.returncode == 1 else ("ERROR" if q.returncode else "quiet")
        print("%s %-5s %5.1fs %s" % (p, tag, time.time() - t, " | ".join(viol)[:200]), flush=True)
        if q.returncode == 1:
            for l in q.stdout.split("\n"):
                if "oracle failure" in l or "disagreement" in l or "no longer check" in l:
                    print("      " + l[:400])
finally:
    subprocess.run(["git", "-C", REPO, "checkout", "--", "."])
    subprocess.run(["git", "-C", REPO, "clean", "-fdq", "--", "src", "tests"])
print(json.dumps({p: r["rc"] for p, r in res.items()}))
if a.json:
    json.dump(dict(patch=os.path.abspath(a.patch), results=res), open(a.json, "w"), indent=1)
