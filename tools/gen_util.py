"""helpers shared by the case generators"""
def hx(b):
    return b.hex() if len(b) else "-"
def unhx(s):
    return b"" if s == "-" else bytes.fromhex(s)
def rbytes(rng, n):
    return bytes(rng.getrandbits(8) for _ in range(n)) if n < 64 else rng.getrandbits(8 * n).to_bytes(n, "little")
def partition(rng, data, max_chunk=None, p_empty=0.1):
    """random partition of data into chunks, empty chunks included"""
    out = []
    i = 0
    n = len(data)
    while i < n:
        if rng.random() < p_empty:
            out.append(b"")
            continue
        hi = max_chunk or max(1, n // 3)
        k = rng.randint(1, max(1, hi))
        out.append(data[i:i + k])
        i += k
    if rng.random() < p_empty:
        out.append(b"")
    return out
def special_key(rng, n=40):
    c = rng.randrange(6)
    if c == 0: return bytes(n)
    if c == 1: return bytes([0xff]) * n
    if c == 2: return bytes(range(n))
    if c == 3: return bytes([rng.getrandbits(8)] * n)
    return rbytes(rng, n)
PRINTABLE = [chr(c) for c in range(0x20, 0x7f)]
def cred(rng, lo=1, hi=16):
    n = rng.randint(lo, hi)
    return "".join(rng.choice(PRINTABLE) for _ in range(n))
def flipcase(rng, s):
    return "".join((c.swapcase() if rng.random() < 0.5 else c) for c in s)
def enc(s):
    b = s.encode("utf-8")
    return b.hex() if b else "-"

def two_place_flips(rng, b, n=12):
    """the same change applied in two places 1/2/4/8 bytes apart, and patterns whose per-byte / per-word
    differences cancel under xor or sum to zero"""
    out = []
    L = len(b)
    for _ in range(n):
        w = rng.choice([1, 2, 4, 8])
        i = rng.randrange(L - w)
        d = rng.choice([1, 0x80, rng.randint(1, 255)])
        x = bytearray(b); x[i] ^= d; x[i + w] ^= d
        out.append(bytes(x))
    x = bytearray(b); x[0] ^= 1; x[L - 1] ^= 1; out.append(bytes(x))
    x = bytearray(b); x[0] = (x[0] + 1) & 0xff; x[1] = (x[1] - 1) & 0xff; out.append(bytes(x))
    return out
