"""helpers shared by the case generators"""
def hx(b):
    return b.hex() if len(b) else "-"
def unhx(s):
    return b"" if s == "-" else bytes.fromhex(s)
def rbytes(rng, n):
    return bytes(rng.getrandbits(8) for _ in range(n)) if n < 64 else rng.getrandbits(8 * n).to_bytes(n, "little")
def partition(rng, data, max_chunk=None, p_empty=0.1):
    """random partition of data into chunks, empty chunks included"""
    out = []
    i = 0
    n = len(data)
    while i < n:
        if rng.random() < p_empty:
            out.append(b"")
            continue
        hi = max_chunk or max(1, n // 3)
        k = rng.randint(1, max(1, hi))
        out.append(data[i:i + k])
        i += k
    if rng.random() < p_empty:
        out.append(b"")
    return out
def special_key(rng, n=40):
    c = rng.randrange(6)
    if c == 0: return bytes(n)
    if c == 1: return bytes([0xff]) * n
    if c == 2: return bytes(range(n))
    if c == 3: return bytes([rng.getrandbits(8)] * n)
    return rbytes(rng, n)
PRINTABLE = [chr(c) for c in range(0x20, 0x7f)]
def cred(rng, lo=1, hi=16):
    n = rng.randint(lo, hi)
    return "".join(rng.choice(PRINTABLE) for _ in range(n))
def flipcase(rng, s):
    return "".join((c.swapcase() if rng.random() < 0.5 else c) for c in s)
def enc(s):
    b = s.encode("utf-8")
    return b.hex() if b else "-"

def nibble_moves(b):
    """values that have the same rendering as `b` when its parts are printed WITHOUT zero padding: a zero nibble taken out at one place and
    put back a little later or earlier — `0a bc` -> `ab 0c` (each byte printed with `{:x}`), and the same across 32-, 64- and 128-bit part
    boundaries, reading the bytes in either order (little-endian array or big number).  What a comparison through an unpadded hex /
    decimal string confuses; no bit flip, byte change or reversal produces these."""
    out = []
    for rev in (False, True):
        h = (b[::-1] if rev else b).hex()
        zeros = [p for p in range(len(h)) if h[p] == "0"]
        zeros = zeros[:2] + zeros[-1:]
        for p in zeros:
            for d in (3, 2, 8, 9, 16, 17, 32, 33):
                for q in (p + d, p - d + 1):
                    if q > p and q <= len(h):
                        h2 = h[:p] + h[p + 1:q] + "0" + h[q:]
                    elif 0 <= q < p:
                        h2 = h[:q] + "0" + h[q:p] + h[p + 1:]
                    else:
                        continue
                    if h2 != h and len(h2) == len(h):
                        x = bytes.fromhex(h2)
                        out.append(x[::-1] if rev else x)
    seen, res = set(), []
    for x in out:
        if x not in seen:
            seen.add(x); res.append(x)
    return res[:24]

def two_place_flips(rng, b, n=12):
    """the same change applied in two places 1/2/4/8 bytes apart, and patterns whose per-byte / per-word
    differences cancel under xor or sum to zero"""
    out = []
    L = len(b)
    for _ in range(n):
        w = rng.choice([1, 2, 4, 8])
        i = rng.randrange(L - w)
        d = rng.choice([1, 0x80, rng.randint(1, 255)])
        x = bytearray(b); x[i] ^= d; x[i + w] ^= d
        out.append(bytes(x))
    x = bytearray(b); x[0] ^= 1; x[L - 1] ^= 1; out.append(bytes(x))
    x = bytearray(b); x[0] = (x[0] + 1) & 0xff; x[1] = (x[1] - 1) & 0xff; out.append(bytes(x))
    out += nibble_moves(b)          # same rendering as `b` when printed without zero padding
    return out

# ---- dictionary harvested from the source under test -------------------------------------------------------------------------------
_DICT = None
def source_dictionary():
    """(ints, byte_strings) that occur as literals in the non-test code of the crate AS IT IS NOW ($VERIF_REPO/src): a classic fuzzing
    dictionary.  A branch on a magic value (one opcode, one size, a byte-order mark, a length limit) compares against a literal that is
    in the source, so the generators mix these values — and their neighbours — into sizes, opcodes, PINs, seeds and file contents.
    On the unchanged tree this adds the constants the code already has (40, 0x7FFF, 1024, 0x30 ...)."""
    global _DICT
    if _DICT is not None:
        return _DICT
    import os, re, glob
    repo = os.environ.get("VERIF_REPO", "/repo")
    ints, blobs = set(), set()
    try:
        from gen_constants import cut_tests, strip_comments
    except Exception:
        cut_tests = strip_comments = lambda s: s
    for f in sorted(glob.glob(os.path.join(repo, "src", "**", "*.rs"), recursive=True)):
        try:
            src = cut_tests(strip_comments(open(f, errors="replace").read()))
        except Exception:
            continue
        # string and byte-string literals of at most 32 bytes are byte strings of the dictionary too (a prefix, a suffix, a separator a
        # special case is keyed on); simple escapes are decoded, anything else is skipped
        for m in re.finditer(r'"((?:[^"\\]|\\.)*)"', src):
            t = m.group(1)
            if re.search(r'\\[^nrt0\\"\']', t):
                continue
            b = t.replace('\\n', '\n').replace('\\r', '\r').replace('\\t', '\t').replace('\\0', '\0').replace('\\"', '"').replace("\\'", "'").replace('\\\\', '\\').encode("utf-8", "replace")
            if 1 <= len(b) <= 32:
                blobs.add(b)
        src = re.sub(r'"(?:[^"\\]|\\.)*"', '""', src)
        for m in re.finditer(r"\[((?:\s*(?:0x[0-9a-fA-F_]+|\d[\d_]*)(?:_?u8)?\s*,){1,31}\s*(?:0x[0-9a-fA-F_]+|\d[\d_]*)(?:_?u8)?\s*,?\s*)\]", src):
            try:
                vals = [int(re.sub(r"_?u8$", "", t.strip()).replace("_", ""), 0) for t in m.group(1).split(",") if t.strip()]
            except ValueError:
                continue
            if all(0 <= v <= 255 for v in vals) and 2 <= len(vals) <= 32:
                blobs.add(bytes(vals))
        for m in re.finditer(r"(?<![\w.])(0x[0-9a-fA-F_]+|\d[\d_]*)(?:_?(?:u8|u16|u32|u64|usize|i32|i64))?(?![\w.]*\w)", src):
            try:
                v = int(m.group(1).replace("_", ""), 0)
            except ValueError:
                continue
            if 0 <= v < (1 << 64):
                ints.add(v)
    _DICT = (sorted(ints), sorted(blobs))
    return _DICT

def dict_ints(lo, hi):
    """dictionary integers and their neighbours (v-1, v, v+1) inside [lo, hi]"""
    out = set()
    for v in source_dictionary()[0]:
        for w in (v - 1, v, v + 1):
            if lo <= w <= hi:
                out.add(w)
    return sorted(out)

def new_literals():
    """(ints, byte_strings) that are literals of the source as it is NOW but not of the tree the machinery was last validated against
    (data/source_dictionary.json, written by `python3 tools/gen_util.py --write-baseline`): empty on the unchanged tree; after a change,
    exactly the magic values the change introduced — the generators give them (and their neighbours) a large share of the picks."""
    import os, json
    p = os.path.join(os.path.dirname(os.path.dirname(os.path.abspath(__file__))), "data", "source_dictionary.json")
    try:
        base = json.load(open(p))
    except Exception:
        return ([], [])
    ints, blobs = source_dictionary()
    bi, bb = set(base.get("ints", [])), set(base.get("blobs", []))
    return ([v for v in ints if v not in bi], [b for b in blobs if b.hex() not in bb])

def new_ints(lo, hi):
    out = set()
    for v in new_literals()[0]:
        for w in (v - 1, v, v + 1):
            if lo <= w <= hi:
                out.add(w)
    return sorted(out)

if __name__ == "__main__":
    import sys, json, os
    if "--write-baseline" in sys.argv:
        ints, blobs = source_dictionary()
        p = os.path.join(os.path.dirname(os.path.dirname(os.path.abspath(__file__))), "data", "source_dictionary.json")
        json.dump(dict(ints=ints, blobs=[b.hex() for b in blobs]), open(p, "w"))
        print("wrote", p, len(ints), "ints", len(blobs), "byte strings")
    else:
        print(new_literals())
