#!/usr/bin/env python3
"""matrix_to_meta.py <matrix-outdir> [...] : copy what tools/matrix.sh measured into seeded/<id>/meta.json (fired, target_caught, checks_run).
Later directories override earlier ones per (change, property)."""
import sys, json, os, glob
for outdir in sys.argv[1:]:
    for f in sorted(glob.glob(os.path.join(outdir, "*.json"))):
        name = os.path.basename(f)[:-5]
        if name.startswith("selftest"):
            continue
        mp = "/verif/seeded/%s/meta.json" % name
        if not os.path.exists(mp):
            continue
        m = json.load(open(mp)); d = json.load(open(f))
        fired = dict(m.get("fired") or {})
        for p, r in d["results"].items():
            if r["rc"] == 1:
                fired[p] = "broken tie/proof, no failing input found" if any("no-failing-input-found" in l for l in r["lines"]) else "concrete failing input"
            elif p in fired and r["rc"] == 0:
                del fired[p]
        m["fired"] = fired
        m["target_caught"] = m["breaks_property"] in fired
        m["checks_run"] = "tools/matrix.sh (private clone of /repo with the patch applied; ./check Cxx --tier quick; clone removed afterwards)"
        json.dump(m, open(mp, "w"), indent=1)
        print(name, "target caught" if m["target_caught"] else "TARGET MISSED", sorted(fired))
