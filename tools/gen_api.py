#!/usr/bin/env python3
"""Translator (logic leg, API orchestration): the straight-line functions of src/server.rs, src/client.rs and `calculate_session_key` ->
`MiniApi.ApiFn` terms (lean/WowSrp/Model/MiniApi.lean), written to Gen/CodeApi.lean on every run.   gen_api.py <repo> <out.lean>

The body is tokenised and parsed by a small recursive-descent parser (paths, calls, method calls, struct literals, tuples, `&`, `*`, `?`,
`==`, `!=`), then LOWERED to the statement forms of Model/MiniApi.lean.  Lowering is a whitelist: an argument must be an atom (local, parameter,
`self.field`, `self`) seen through an identity conversion listed in IDENT_CALLS / IDENT_METHODS; a statement must be one of the listed forms.
Anything else sets `unsupported`, whose meaning is `none`, so the equivalence theorem in Props/Source/Api*.lean fails instead of anything
being guessed."""
import re, sys, os
sys.path.insert(0, os.path.dirname(os.path.abspath(__file__)))
import gen_constants as gc
import gen_guard as gg

class Unsupported(Exception):
    pass

TARGETS = [
    ("fromUsernameAndPassword", "src/server.rs", "from_username_and_password"),
    ("fromDatabaseValues", "src/server.rs", "from_database_values"),
    ("intoProof", "src/server.rs", "into_proof"),
    ("withSpecificSalt", "src/server.rs", "with_specific_salt"),
    ("withSpecificPrivateKey", "src/server.rs", "with_specific_private_key"),
    ("intoServer", "src/server.rs", "into_server"),
    ("verifyReconnectionAttempt", "src/server.rs", "verify_reconnection_attempt"),
    ("clientNew", "src/client.rs", "new"),
    ("verifyServerProof", "src/client.rs", "verify_server_proof"),
    ("calculateReconnectValues", "src/client.rs", "calculate_reconnect_values"),
    ("calculateSessionKey", "src/srp_internal.rs", "calculate_session_key"),
    ("vanillaIntoClient", "src/vanilla_header/mod.rs", "into_client_header_crypto"),
    ("vanillaIntoServer", "src/vanilla_header/mod.rs", "into_server_header_crypto"),
    ("tbcIntoClient", "src/tbc_header/mod.rs", "into_client_header_crypto"),
    ("tbcIntoServer", "src/tbc_header/mod.rs", "into_server_header_crypto"),
    ("wrathIntoClient", "src/wrath_header/mod.rs", "into_client_header_crypto"),
    ("wrathIntoServer", "src/wrath_header/mod.rs", "into_server_header_crypto"),
]
# conversions that are the identity on the model's values (src/key.rs, src/primes.rs: bodies pinned by the glue facts)
IDENT_CALLS = {"Proof::from_le_bytes", "ReconnectData::from_le_bytes", "Salt::from_le_bytes", "Verifier::from_le_bytes",
               "LargeSafePrime::from_le_bytes", "Generator::from", "SessionKey::from_le_bytes"}
IDENT_METHODS = {"as_le_bytes"}
MODULE_PREFIXES = ("srp_internal", "srp_internal_client", "crate")

def lean_str(x):
    return '"' + x.replace("\\", "\\\\").replace('"', '\\"').replace("\n", " ") + '"'

TOKEN = re.compile(r'\s*(?:("(?:[^"\\]|\\.)*")|([A-Za-z_]\w*)|(\d\w*)|(::|->|!=|==|=>|&&|\|\||[^\w\s]))')

def tokenize(text):
    toks, pos = [], 0
    text = text.rstrip()
    while pos < len(text):
        m = TOKEN.match(text, pos)
        if not m: raise Unsupported("cannot tokenise at: " + text[pos:pos + 30])
        toks.append(m.group(1) or m.group(2) or m.group(3) or m.group(4))
        pos = m.end()
    return toks

class Parser:
    def __init__(self, toks):
        self.t, self.i = toks, 0
    def peek(self, k=0):
        return self.t[self.i + k] if self.i + k < len(self.t) else None
    def eat(self, x=None):
        t = self.peek()
        if t is None or (x is not None and t != x): raise Unsupported("expected %r, found %r" % (x, t))
        self.i += 1
        return t
    def ident(self):
        t = self.eat()
        if not re.fullmatch(r"[A-Za-z_]\w*", t): raise Unsupported("identifier expected, found " + t)
        return t
    def expr(self):
        e = self.unary()
        if self.peek() in ("!=", "=="):
            op = self.eat(); r = self.unary()
            return ("binop", op, e, r)
        return e
    def unary(self):
        if self.peek() == "&":
            self.eat()
            if self.peek() == "mut": raise Unsupported("&mut expression")
            return ("ref", self.unary())
        if self.peek() == "*":
            self.eat(); return ("deref", self.unary())
        return self.postfix()
    def args(self):
        self.eat("("); out = []
        while self.peek() != ")":
            out.append(self.expr())
            if self.peek() == ",": self.eat()
            elif self.peek() != ")": raise Unsupported("argument list")
        self.eat(")")
        return out
    def postfix(self):
        e = self.primary()
        while True:
            if self.peek() == ".":
                self.eat(); n = self.ident()
                if self.peek() == "(": e = ("mcall", e, n, self.args())
                else: e = ("fieldacc", e, n)
            elif self.peek() == "?":
                self.eat(); e = ("try", e)
            else: return e
    def primary(self):
        t = self.peek()
        if t == "(":
            self.eat(); items = []; trailing = False
            while self.peek() != ")":
                items.append(self.expr()); trailing = False
                if self.peek() == ",": self.eat(); trailing = True
                elif self.peek() != ")": raise Unsupported("tuple")
            self.eat(")")
            if len(items) == 1 and not trailing: return items[0]
            return ("tuple", items)
        if t is not None and t.startswith('"'):
            self.eat(); return ("str", t[1:-1])
        path = [self.ident()]
        while self.peek() == "::":
            self.eat(); path.append(self.ident())
        if self.peek() == "(": return ("call", path, self.args())
        if self.peek() == "{" and path[-1][0].isupper():
            self.eat("{"); fields = []
            while self.peek() != "}":
                n = self.ident()
                if self.peek() == ":":
                    self.eat(); fields.append((n, self.expr()))
                else: fields.append((n, ("path", [n])))
                if self.peek() == ",": self.eat()
                elif self.peek() != "}": raise Unsupported("struct literal")
            self.eat("}")
            return ("struct", path, fields)
        return ("path", path)

# where an unqualified callee name, or the module a qualified one is reached through, has to come from
EXPECTED_IMPORTS = {
    "srp_internal": {"crate::srp_internal"}, "srp_internal_client": {"crate::srp_internal_client"},
    "calculate_reconnect_proof": {"crate::srp_internal::calculate_reconnect_proof"}, "calculate_server_proof": {"crate::srp_internal::calculate_server_proof"},
    "calculate_u": {"crate::srp_internal::calculate_u"}, "calculate_interleaved": {"crate::srp_internal::calculate_interleaved"},
    "calculate_S": {"crate::srp_internal::calculate_S"}, "calculate_client_S": {"crate::srp_internal_client::calculate_client_S"},
    "calculate_client_proof_with_custom_value": {"crate::srp_internal_client::calculate_client_proof_with_custom_value"},
    "calculate_xor_hash": {"crate::srp_internal::calculate_xor_hash"},
    "calculate_world_server_proof": {"crate::vanilla_header::calculate_world_server_proof", "internal::calculate_world_server_proof"},
}

def check_provenance(text, rel, names):
    """every name in `names` (callees written without a path, and the modules qualified callees go through) is imported exactly once, from
    where EXPECTED_IMPORTS says, and is not an item of this file; no glob import or include! could supply it"""
    for n in sorted(names):
        home = next(iter(EXPECTED_IMPORTS.get(n, {""}))).rsplit("::", 1)[0].replace("crate::", "src/").replace("::", "/") + ".rs"
        if rel == home:
            # the callee's own file: defined there exactly once, and not imported on top of that
            imp = gg.no_foreign_globs(text, rel)
            if gg.items_named(text, n) != 1 or imp.get(n): raise Unsupported("%s: %s is defined %d times here and imported from %s" % (rel, n, gg.items_named(text, n), imp.get(n)))
            continue
        gg.imported_only(text, rel, n, EXPECTED_IMPORTS.get(n, set()))

class Fn:
    def __init__(self, repo, rel, name):
        self.rel, self.name = rel, name
        text = gc.load(repo, rel)
        body = gc.fn_body(text, name, rel, unique=True)
        msk = gc.mask_literals(text)
        m = re.search(r"\bfn\s+" + name + r"\s*\(", msk)
        inner, end = gc.split_args(text, m.end() - 1)
        self.params, self.has_self = [], False
        self.sig = re.sub(r"\s+", " ", re.sub(r"\s*([^\w\s])\s*", r"\1", inner + " " + text[end + 1:text.index("{", end)])).strip()
        depth, cur, parts = 0, "", []
        for ch in inner:
            if ch in "([<": depth += 1
            elif ch in ")]>": depth -= 1
            if ch == "," and depth == 0: parts.append(cur); cur = ""
            else: cur += ch
        if cur.strip(): parts.append(cur)
        for p in parts:
            p = re.sub(r"\s+", " ", p).strip()
            if p in ("self", "&self", "&mut self"): self.has_self = True; continue
            pm = re.fullmatch(r"(\w+) ?: ?.+", p)
            if not pm: raise Unsupported("parameter " + p)
            self.params.append(pm.group(1))
        # the enclosing impl (for `Self`, and the type of `self`)
        self.self_type = ""
        depth = 0
        impls = [(im.start(), im.group(1)) for im in re.finditer(r"^impl\s+(\w+)\s*\{", msk, re.M)]
        for st, ty in impls:
            j = msk.index("{", st); d = 0
            for k in range(j, len(msk)):
                if msk[k] == "{": d += 1
                elif msk[k] == "}":
                    d -= 1
                    if d == 0: break
            if st < m.start() < k: self.self_type = ty
        if self.has_self and not self.self_type: raise Unsupported("self without an enclosing impl")
        self.toks = tokenize(body.strip()[1:-1])
        self.locals = list(self.params)
        self.stmts = []
        self.free_names = set()
        self.local_types = set()
        self.key_types = set()
        self.module = rel[4:-3].replace('/mod', '').replace('/', '::')
        self.text = text
    # ---- lowering
    def atom(self, e):
        k = e[0]
        if k in ("ref", "deref"): return self.atom(e[1])
        if k == "path":
            p = e[1]
            if p == ["self"]:
                if not self.has_self: raise Unsupported("self in a free function")
                return "Atom.self_"
            if len(p) == 1 and p[0] in self.locals: return "Atom.var %s" % lean_str(p[0])
            raise Unsupported("name " + "::".join(p))
        if k == "fieldacc" and e[1] == ("path", ["self"]): return "Atom.field %s" % lean_str(e[2])
        if k == "call" and "::".join(e[1]) in IDENT_CALLS and len(e[2]) == 1:
            self.key_types.add(e[1][0]); return self.atom(e[2][0])
        if k == "mcall" and e[2] in IDENT_METHODS and not e[3]: return self.atom(e[1])
        raise Unsupported("not an atom: " + repr(e)[:100])
    def callname(self, path):
        p = list(path)
        if len(p) == 1: self.free_names.add(p[0])
        elif len(p) == 2 and p[0][0].isupper() and p[0] != "Self":
            # `Type::function(..)`: the type has to be an item of THIS file (defined exactly once, not imported) and the emitted name says
            # which module's type it is — `HeaderCrypto::new` in tbc_header/mod.rs is tbc_header::HeaderCrypto::new
            self.local_types.add(p[0])
            return self.module + "::" + "::".join(p)
        elif p[0] in ("srp_internal", "srp_internal_client") and len(p) == 2: self.free_names.add(p[0])
        elif p[0] == "crate" or p[0] == "self" or p[0] == "super": raise Unsupported("call through an absolute / relative path: " + "::".join(p))
        while len(p) > 1 and p[0] in MODULE_PREFIXES: p = p[1:]
        return "::".join(p)
    def rhs(self, e):
        k = e[0]
        if k == "ref": return self.rhs(e[1])
        if k == "call":
            n = "::".join(e[1])
            if n in IDENT_CALLS and len(e[2]) == 1:
                self.key_types.add(e[1][0]); return "Rhs.atom (%s)" % self.atom(e[2][0])
            if e[1][-1] == "randomized" and len(e[1]) == 2 and not e[2]:
                self.key_types.add(e[1][0]); return "Rhs.draw %s" % lean_str(e[1][0])
            if e[1][-1] in ("Ok", "Err", "Some"): raise Unsupported("constructor in value position")
            return "Rhs.call %s [%s]" % (lean_str(self.callname(e[1])), ", ".join(self.atom(a) for a in e[2]))
        if k == "struct":
            name = "::".join(e[1])
            if name == "Self": name = self.self_type
            fs = sorted(e[2], key=lambda f: f[0])
            if len({f[0] for f in fs}) != len(fs): raise Unsupported("struct literal with a repeated field")
            return "Rhs.mk %s [%s]" % (lean_str(name), ", ".join("(%s, %s)" % (lean_str(n), self.atom(x)) for n, x in fs))
        if k == "binop":
            return "Rhs.%s (%s) (%s)" % ("eq" if e[1] == "==" else "ne", self.atom(e[2]), self.atom(e[3]))
        return "Rhs.atom (%s)" % self.atom(e)
    def ret(self, e):
        if e[0] == "call" and e[1] == ["Ok"] and len(e[2]) == 1:
            x = e[2][0]
            if x[0] == "tuple":
                if len(x[1]) != 2: raise Unsupported("tuple of %d" % len(x[1]))
                return "Ret.okTup (%s) (%s)" % (self.rhs(x[1][0]), self.atom(x[1][1]))
            return "Ret.ok (%s)" % self.rhs(x)
        if e[0] == "call" and e[1] == ["Err"] and len(e[2]) == 1: return "Ret.err (%s)" % self.rhs(e[2][0])
        if e[0] == "mcall" and e[2] == "expect" and len(e[3]) == 1 and e[3][0][0] == "str":
            return "Ret.expect (%s) %s" % (self.rhs(e[1]), lean_str(e[3][0][1]))
        if e[0] == "tuple" and len(e[1]) == 2: return "Ret.tup (%s) (%s)" % (self.atom(e[1][0]), self.atom(e[1][1]))
        return "Ret.val (%s)" % self.rhs(e)
    def translate(self):
        p = Parser(self.toks)
        while True:
            t = p.peek()
            if t is None: raise Unsupported("no tail expression")
            if t == "#":
                p.eat("#"); p.eat("[")
                if p.peek() != "allow": raise Unsupported("attribute " + str(p.peek()))
                d = 1
                while d:
                    x = p.eat()
                    if x == "[": d += 1
                    elif x == "]": d -= 1
                continue
            if t == "let":
                p.eat("let")
                if p.peek() == "mut": raise Unsupported("let mut")
                n = p.ident()
                if p.peek() == ":":
                    d = 0
                    while not (p.peek() == "=" and d == 0):
                        x = p.eat()
                        if x in "([<": d += 1
                        elif x in ")]>": d -= 1
                p.eat("=")
                e = p.expr(); p.eat(";")
                if n == "self": raise Unsupported("let self")
                # a `let` of an existing name shadows it: the right-hand side is lowered BEFORE the name is (re)bound, and the meaning
                # (MiniApi.bindVar / lookup) finds the newest binding first, as Rust does
                while e[0] == "ref": e = e[1]
                if e[0] == "try": self.stmts.append("Stmt.letTry %s (%s)" % (lean_str(n), self.rhs(e[1])))
                elif e[0] == "mcall" and e[2] == "expect" and len(e[3]) == 1 and e[3][0][0] == "str":
                    self.stmts.append("Stmt.letExpect %s (%s) %s" % (lean_str(n), self.rhs(e[1]), lean_str(e[3][0][1])))
                else: self.stmts.append("Stmt.let_ %s (%s)" % (lean_str(n), self.rhs(e)))
                if n not in self.locals: self.locals.append(n)
                continue
            if t == "if":
                p.eat("if"); c = p.expr()
                if c[0] != "binop" or c[1] != "!=": raise Unsupported("condition of the if")
                p.eat("{"); p.eat("return"); r = p.expr(); p.eat(";"); p.eat("}")
                if p.peek() == "else": raise Unsupported("else branch")
                self.stmts.append("Stmt.ifNeRet (%s) (%s) (%s)" % (self.atom(c[2]), self.atom(c[3]), self.ret(r)))
                continue
            e = p.expr()
            if p.peek() == ";":
                p.eat(";")
                if e[0] == "mcall" and e[2] == "randomize_data" and not e[3] and e[1][0] == "fieldacc" and e[1][1] == ("path", ["self"]):
                    self.stmts.append("Stmt.drawField %s" % lean_str(e[1][2])); continue
                raise Unsupported("expression statement " + repr(e)[:100])
            if p.peek() is not None: raise Unsupported("text after the tail expression: " + str(p.peek()))
            return self.ret(e)

SIGS = {}

def translate_one(repo, rel, fn):
    try:
        f = Fn(repo, rel, fn)
        tail = f.translate()
        check_provenance(f.text, rel, f.free_names)
        for ty in sorted(f.local_types):
            if gg.items_named(f.text, ty) != 1 or gg.no_foreign_globs(f.text, rel).get(ty):
                raise Unsupported("%s: the type %s is defined %d times here and imported from %s" % (rel, ty, gg.items_named(f.text, ty), gg.use_imports(f.text).get(ty)))
        for ty in sorted(f.key_types):
            home = "crate::primes::" if ty in ("Generator", "LargeSafePrime") else "crate::key::"
            gg.imported_only(f.text, rel, ty, {home + ty})
        # the prelude's constructors and key.rs's identity accessors are the ones the translator reads them as; no trait of this file lends
        # a method to a foreign type; nothing but doc / allow / must_use attributes, `pub` and `const` in front of the function
        gg.never_bound(f.text, rel, ["Ok", "Err", "Some", "None", "as_le_bytes", "from_le_bytes", "randomized", "randomize_data", "from"])
        for tr in re.findall(r"\btrait\s+(\w+)", gc.mask_literals(f.text)): raise Unsupported("%s defines a trait (%s)" % (rel, tr))
        gg.fn_header(f.text, rel, fn)
        SIGS[fn + "@" + rel] = f.sig
        return "⟨%s, [%s], [%s], %s, none⟩" % (lean_str(f.self_type), ", ".join(lean_str(x) for x in f.params), ", ".join(f.stmts), tail)
    except (Unsupported, gg.Unsupported, gc.Missing) as ex:
        return '⟨"", [], [], Ret.val (Rhs.atom Atom.self_), some %s⟩' % lean_str(str(ex))
    except Exception as ex:
        return '⟨"", [], [], Ret.val (Rhs.atom Atom.self_), some %s⟩' % lean_str("translator error %s: %s" % (type(ex).__name__, ex))

def main(repo, outp):
    defs = ["/-- `%s` in %s -/\ndef %s : ApiFn := %s" % (fn, rel, lname, translate_one(repo, rel, fn)) for lname, rel, fn in TARGETS]
    # the parameter list and return type of each function, white space normalised (the terms carry parameter NAMES; their types — which
    # decide what a conversion such as `Generator::from(generator)` or `?` means — are pinned as text)
    defs += ["/-- parameters and return type of `%s` in %s -/\ndef %sSig : String := %s" % (fn, rel, lname, lean_str(SIGS.get(fn + "@" + rel, "<not translated>"))) for lname, rel, fn in TARGETS]
    text = ("/- GENERATED by tools/gen_api.py from the Rust sources on every run. Do not edit. -/\nimport WowSrp.Model.MiniApi\n"
            "namespace WowSrp.Gen.CodeApi\nopen WowSrp.MiniApi\n\n" + "\n\n".join(defs) + "\n\nend WowSrp.Gen.CodeApi\n")
    old = open(outp).read() if os.path.exists(outp) else None
    if old != text:
        os.makedirs(os.path.dirname(outp), exist_ok=True)
        open(outp, "w").write(text); print("gen_api: wrote", outp)
    else:
        print("gen_api: unchanged")
    return 3 if ", some " in text else 0

if __name__ == "__main__":
    sys.exit(main(sys.argv[1], sys.argv[2]))
