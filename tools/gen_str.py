#!/usr/bin/env python3
"""Translator (logic leg, strings): the inner function of `NormalizedString::new` (src/normalized_string.rs) -> a `MiniStr.NewProg`
(lean/WowSrp/Model/MiniStr.lean), written to Gen/CodeStr.lean on every run.   gen_str.py <repo> <out.lean>

The whole body of `fn inner(s: &str)` has to match the frame
    if <string condition> { return Err(..StringTooLong); }  let mut A = [0_u8; N];  for (I, C) in S.chars().enumerate() {
    if <char predicate> { return Err(..CharacterNotAllowed(C)); }  A[I] = <char map>; }  Ok(NormalizedString { s: A, length: <num> as u8, })
and the outer function has to hand its argument to it unchanged (`inner(s.as_ref())`); conditions, predicates and maps are parsed by
small recursive-descent parsers over the handful of `str` / `char` methods the model knows.  Anything else sets `unsupported`, whose
meaning is a panic, so the equivalence theorem in Props/Source/StrNew.lean fails instead of anything being guessed."""
import re, sys, os
sys.path.insert(0, os.path.dirname(os.path.abspath(__file__)))
import gen_constants as gc

class Unsupported(Exception):
    pass

def lean_str(x):
    return '"' + x.replace("\\", "\\\\").replace('"', '\\"').replace("\n", " ") + '"'

TOK = re.compile(r"\s*(\|\||&&|>=|<=|==|!=|[A-Za-z_][A-Za-z0-9_]*|\d[\d_]*|[!().<>])")
def toks(s):
    out, i = [], 0
    s = s.strip()
    while i < len(s):
        m = TOK.match(s, i)
        if not m: raise Unsupported("cannot tokenise: " + s[i:i + 30])
        out.append(m.group(1)); i = m.end()
    return out

class P:
    def __init__(self, t, var, consts):
        self.t, self.i, self.var, self.consts = t, 0, var, consts
    def peek(self): return self.t[self.i] if self.i < len(self.t) else None
    def eat(self, x=None):
        t = self.peek()
        if t is None or (x is not None and t != x): raise Unsupported("expected %r, found %r" % (x, t))
        self.i += 1; return t
    def done(self):
        if self.peek() is not None: raise Unsupported("trailing " + " ".join(self.t[self.i:]))
    # disjunction of conjunctions of (possibly negated) atoms
    def disj(self, atom, nm):
        a = self.conj(atom, nm)
        while self.peek() == "||":
            self.eat(); a = "%s.or (%s) (%s)" % (nm, a, self.conj(atom, nm))
        return a
    def conj(self, atom, nm):
        a = self.neg(atom, nm)
        while self.peek() == "&&":
            self.eat(); a = "%s.and (%s) (%s)" % (nm, a, self.neg(atom, nm))
        return a
    def neg(self, atom, nm):
        if self.peek() == "!":
            self.eat()
            # `!` binds tighter than a comparison: `!s.len() > 16` is `(!s.len()) > 16`, a BITWISE not on a number.  Only a parenthesised
            # condition or a boolean method call may follow.
            if self.peek() == "!":
                return "%s.not (%s)" % (nm, self.neg(atom, nm))
            if self.peek() == "(":
                self.eat(); a = self.disj(atom, nm); self.eat(")")
                if self.peek() in (">", "<", ">=", "<=", "==", "!=", "as"):
                    raise Unsupported("`!( .. )` used as a number")
                return "%s.not (%s)" % (nm, a)
            if not (self.peek() == self.var and self.t[self.i + 1:self.i + 2] == ["."] and self.t[self.i + 2:self.i + 3] and self.t[self.i + 2].startswith("is_")):
                raise Unsupported("`!` in front of something that is not a boolean method call")
            a = atom()
            if self.peek() in (">", "<", ">=", "<=", "==", "!=", "as"):
                raise Unsupported("`!x` compared as a number")
            return "%s.not (%s)" % (nm, a)
        if self.peek() == "(":
            self.eat(); a = self.disj(atom, nm); self.eat(")")
            if self.peek() in (">", "<", ">=", "<=", "==", "!=", "as"):
                raise Unsupported("a parenthesised condition used as a number")
            return a
        return atom()
    def method(self):
        self.eat(self.var); self.eat("."); m = self.eat(); self.eat("("); self.eat(")")
        return m
    # characters
    def catom(self):
        m = self.method()
        d = {"is_ascii": "CPred.isAscii", "is_ascii_control": "CPred.isAsciiControl", "is_control": "CPred.isControl",
             "is_ascii_graphic": "CPred.isAsciiGraphic", "is_ascii_alphanumeric": "CPred.isAsciiAlphanumeric"}
        if m not in d: raise Unsupported("char method " + m)
        return d[m]
    # strings
    def snum(self):
        t = self.peek()
        if t == self.var:
            self.eat(); self.eat("."); m = self.eat(); self.eat("("); self.eat(")")
            if m == "len": r = "SNum.byteLen"
            elif m == "chars":
                self.eat("."); self.eat("count"); self.eat("("); self.eat(")"); r = "SNum.charCount"
            else: raise Unsupported("str method " + m)
        elif re.fullmatch(r"\d[\d_]*", t or ""):
            self.eat(); r = "SNum.lit %d" % int(t.replace("_", ""))
        elif t in self.consts:
            self.eat(); r = "SNum.lit %d" % self.consts[t]
        else:
            raise Unsupported("number " + str(t))
        while self.peek() == "as":
            self.eat(); ty = self.eat()
            if ty != "usize": raise Unsupported("cast to " + ty)
        return r
    def satom(self):
        if self.peek() == self.var and self.t[self.i + 2:self.i + 3] == ["is_empty"]:
            self.eat(); self.eat("."); self.eat("is_empty"); self.eat("("); self.eat(")")
            return "SCond.isEmpty"
        a = self.snum(); op = self.eat(); b = self.snum()
        d = {">": "SCond.gt (%s) (%s)" % (a, b), ">=": "SCond.ge (%s) (%s)" % (a, b), "==": "SCond.eq (%s) (%s)" % (a, b),
             "<": "SCond.gt (%s) (%s)" % (b, a), "<=": "SCond.ge (%s) (%s)" % (b, a), "!=": "SCond.not (SCond.eq (%s) (%s))" % (a, b)}
        if op not in d: raise Unsupported("comparison " + op)
        return d[op]

def translate(repo):
    rel = "src/normalized_string.rs"
    bad = lambda why: "⟨SCond.isEmpty, 0, CPred.isAscii, CMap.asU8, SNum.byteLen, some %s⟩" % lean_str(why)
    try:
        text = gc.load(repo, rel)
        outer = gc.fn_body(text, "new", rel, unique=True)
    except gc.Missing as ex:
        return bad(str(ex))
    try:
        t = re.sub(r"\s+", " ", outer.strip()[1:-1]).strip()
        m = re.fullmatch(r"fn inner\((\w+): &str\) -> Result<NormalizedString, NormalizedStringError> (\{.*\}) inner\((\w+)\.as_ref\(\)\)", t)
        if not m:
            raise Unsupported("`new` is not `fn inner(s: &str) -> Result<..> { .. } inner(s.as_ref())`: " + t[:160])
        sig = re.search(r"fn\s+new\s*\(\s*(\w+)\s*:\s*impl AsRef<str>\s*\)", text)
        if not sig or sig.group(1) != m.group(3):
            raise Unsupported("`new` does not hand its own argument to the inner function")
        S, body = m.group(1), m.group(2)[1:-1].strip()
        c = gc.Consts()
        consts = {}
        for n in set(re.findall(r"\b[A-Z][A-Z0-9_]+\b", body)):
            try: consts[n] = c.scalar(text, n, rel)
            except gc.Missing: pass
        E = r"(?:NormalizedStringError::|crate::error::NormalizedStringError::)?"
        f = re.fullmatch(r"if (.+?) \{ return Err\(" + E + r"StringTooLong\); \} let mut (\w+) = \[0_?u8; (.+?)\]; "
                         r"for \((\w+), (\w+)\) in " + re.escape(S) + r"\.chars\(\)\.enumerate\(\) \{ if (.+?) \{ return Err\(" + E + r"CharacterNotAllowed\((\w+)\)\); \} "
                         r"(\w+)\[(\w+)\] = (.+?); \} Ok\(NormalizedString \{ s: (\w+), length: (.+?) as u8,? \}\)", body)
        if not f:
            raise Unsupported("body outside the frame: " + body[:200])
        cond, A, N, I, C, pred, C2, A2, I2, mp, A3, ln = f.groups()
        if not (A == A2 == A3 and I == I2 and C == C2) or len({S, A, I, C}) != 4:
            raise Unsupported("names in the frame do not line up")
        p = P(toks(N), S, consts); n = p.snum(); p.done()
        if not n.startswith("SNum.lit "): raise Unsupported("array length " + N)
        p = P(toks(cond), S, consts); tl = p.disj(p.satom, "SCond"); p.done()
        p = P(toks(pred), C, consts); na = p.disj(p.catom, "CPred"); p.done()
        mm = re.fullmatch(re.escape(C) + r"(\.to_ascii_uppercase\(\)|\.to_ascii_lowercase\(\))? as u8", mp)
        if not mm: raise Unsupported("stored value " + mp)
        st = {None: "CMap.asU8", ".to_ascii_uppercase()": "CMap.upperAsU8", ".to_ascii_lowercase()": "CMap.lowerAsU8"}[mm.group(1)]
        p = P(toks(ln), S, consts); le = p.snum(); p.done()
        return "⟨%s, %s, %s, %s, %s, none⟩" % (tl, n[len("SNum.lit "):], na, st, le)
    except Unsupported as ex:
        return bad(str(ex))
    except Exception as ex:
        return bad("translator error %s: %s" % (type(ex).__name__, ex))

def main(repo, outp):
    text = ("/- GENERATED by tools/gen_str.py from the Rust sources on every run. Do not edit. -/\nimport WowSrp.Model.MiniStr\n"
            "namespace WowSrp.Gen.CodeStr\nopen WowSrp.MiniStr\n\n/-- the inner function of `NormalizedString::new` in src/normalized_string.rs -/\ndef nstrNew : NewProg := %s\n\nend WowSrp.Gen.CodeStr\n" % translate(repo))
    old = open(outp).read() if os.path.exists(outp) else None
    if old != text:
        os.makedirs(os.path.dirname(outp), exist_ok=True)
        open(outp, "w").write(text); print("gen_str: wrote", outp)
    else:
        print("gen_str: unchanged")
    return 3 if ", some " in text else 0

if __name__ == "__main__":
    sys.exit(main(sys.argv[1], sys.argv[2]))
