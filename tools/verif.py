#!/usr/bin/env python3
"""Check orchestrator (DESIGN.md §3.3).   ./check Cxx [--tier quick|thorough] [--replay file]

For one property:
  1. regenerate Gen/Constants.lean from /repo's working tree (translator);
  2. `lake build` the property's theorems and the model driver; audit every theorem with
     `#print axioms` (obligations / discharged are counted from that output);
  3. `cargo build` the harness against /repo; run corpus + generated cases through the real
     crate and through the Lean model; diff (correspondence);
  4. evaluate the implementation-side oracle (tools/pyref.py, independent of the model);
  5. verdict, evidence file, replay file.
"""
import sys, os, json, subprocess, time, random, importlib, fcntl, re, hashlib, shutil, argparse

VERIF = os.path.dirname(os.path.dirname(os.path.abspath(__file__)))
REPO = os.environ.get("VERIF_REPO", "/repo")
LEAN = os.path.join(VERIF, "lean")
HARNESS = os.path.join(VERIF, "harness")
WORK = os.path.join(VERIF, "work")
EVID = os.path.join(VERIF, "evidence")
ALLOWED_AXIOMS = {"propext", "Classical.choice", "Quot.sound"}
FORBIDDEN = re.compile(r"\b(sorry|admit|native_decide|bv_decide|implemented_by|unsafe)\b|^\s*axiom\s|maxHeartbeats\s+0\b")
NCPU = os.cpu_count() or 4
RUN_TIMEOUT = int(os.environ.get("VERIF_RUN_TIMEOUT", "900"))   # thorough tier; the quick tier uses 300 s (set in main)

sys.path.insert(0, os.path.join(VERIF, "tools"))

def log(*a):
    print(*a, flush=True)

def run(cmd, cwd=None, env=None, timeout=None, input=None):
    e = dict(os.environ)
    e["CARGO_NET_OFFLINE"] = "true"
    if env:
        e.update(env)
    try:
        p = subprocess.run(cmd, cwd=cwd, env=e, stdout=subprocess.PIPE, stderr=subprocess.STDOUT,
                           text=True, timeout=timeout, input=input)
    except subprocess.TimeoutExpired as ex:
        return 124, "%s\n[timed out after %s s: %s]" % ((ex.stdout or b"").decode(errors="replace") if isinstance(ex.stdout, bytes) else (ex.stdout or ""), timeout, " ".join(map(str, cmd))[:200])
    except OSError as ex:
        return 127, "[cannot run %s: %s]" % (" ".join(map(str, cmd))[:200], ex)
    return p.returncode, p.stdout

class Lock:
    def __init__(self, name):
        os.makedirs(WORK, exist_ok=True)
        self.f = open(os.path.join(WORK, name), "w")
    def __enter__(self):
        fcntl.flock(self.f, fcntl.LOCK_EX)
    def __exit__(self, *a):
        fcntl.flock(self.f, fcntl.LOCK_UN)

# ------------------------------------------------------------------------------------------
# step 1+2: translator, lake build, audit

def strip_lean_comments(src):
    out = []
    i, depth, n = 0, 0, len(src)
    while i < n:
        if src.startswith("/-", i):
            depth += 1; i += 2; continue
        if depth and src.startswith("-/", i):
            depth -= 1; i += 2; continue
        if depth:
            i += 1; continue
        if src.startswith("--", i):
            j = src.find("\n", i)
            i = n if j < 0 else j
            continue
        out.append(src[i]); i += 1
    return "".join(out)

def forbidden_tokens():
    hits = []
    for root, _, files in os.walk(os.path.join(LEAN, "WowSrp")):
        for f in files:
            if f.endswith(".lean"):
                p = os.path.join(root, f)
                src = strip_lean_comments(open(p).read())
                src = re.sub(r'"(?:[^"\\]|\\.)*"', '""', src)
                for ln, line in enumerate(src.split("\n"), 1):
                    if FORBIDDEN.search(line):
                        hits.append("%s:%d: %s" % (os.path.relpath(p, VERIF), ln, line.strip()[:100]))
    return hits

def lean_phase(pid, theorems, modules, tier="quick"):
    """returns dict(tie_ok, build_ok, obligations, discharged, failed:[...], axioms_seen, log)"""
    res = dict(tie_ok=True, build_ok=True, driver_ok=True, obligations=len(theorems), discharged=0,
               failed=[], axioms_seen=[], notes=[])
    with Lock("lean.lock"):
        rc, out = run([sys.executable, os.path.join(VERIF, "tools", "gen_constants.py"), REPO,
                       os.path.join(LEAN, "WowSrp", "Gen", "Constants.lean")])
        if rc == 3:
            # some constants were not found: placeholders were emitted, so exactly the theorems (and model
            # behaviour) that depend on them break; properties that do not depend on them are unaffected
            res["notes"].append("constants translator emitted placeholders: " + out.strip()[-600:])
        elif rc != 0:
            res["tie_ok"] = False
            res["notes"].append("constants translator failed: " + out.strip()[-400:])
        # logic leg of the translator: loop bodies of the recurrence ciphers -> Gen/Code.lean
        rc, out = run([sys.executable, os.path.join(VERIF, "tools", "gen_code.py"), REPO, os.path.join(LEAN, "WowSrp", "Gen", "Code.lean")])
        if rc == 3:
            res["notes"].append("code translator: " + out.strip()[-400:])
        elif rc != 0:
            res["tie_ok"] = False
            res["notes"].append("code translator failed: " + out.strip()[-400:])
        t0 = time.time()
        rc, out = run(["lake", "build", "wowsrp_model"], cwd=LEAN, timeout=3600)
        if rc != 0:
            res["driver_ok"] = False
            res["notes"].append("model driver does not build against the regenerated constants:\n" + tail(out, 30))
        rc, out = run(["lake", "build"] + modules, cwd=LEAN, timeout=7200)
        res["lake_s"] = round(time.time() - t0, 1)
        built = list(modules)
        if rc != 0:
            # which modules are broken?  a module that no longer builds takes only ITS theorems with it (a source fact about TBC
            # must not fail the Vanilla obligations that happen to be audited by the same check)
            built = []
            for m in modules:
                rc1, out1 = run(["lake", "build", m], cwd=LEAN, timeout=7200)
                if rc1 == 0:
                    built.append(m)
                else:
                    res["notes"].append("module %s no longer builds:\n%s" % (m, tail(out1, 25)))
            res["broken_modules"] = [m for m in modules if m not in built]
        # audit: #print axioms for every theorem, against the modules that build; a name that is not found (its module is
        # broken, or it was removed) is simply not discharged
        os.makedirs(os.path.join(WORK, "audit"), exist_ok=True)
        af = os.path.join(WORK, "audit", pid + ".lean")
        with open(af, "w") as f:
            for m in built:
                f.write("import %s\n" % m)
            f.write("open WowSrp\n")
            for t in theorems:
                f.write("#print axioms %s\n" % t)
        rc, out = run(["lake", "env", "lean", af], cwd=LEAN, timeout=1800)
        res["audit_out"] = out
        modules = built
        if tier == "thorough" and res["build_ok"]:
            # independent re-check of the compiled property modules by the toolchain's leanchecker
            t1 = time.time()
            rc2, out2 = run(["lake", "env", "leanchecker"] + modules, cwd=LEAN, timeout=3600)
            res["leanchecker"] = dict(rc=rc2, s=round(time.time() - t1, 1), out=out2.strip()[-300:])
            if rc2 != 0:
                res["build_ok"] = False
                res["notes"].append("leanchecker rejected the compiled modules: " + out2.strip()[-400:])
    seen = set()
    ok = {}
    per = {}
    # parse: "'name' depends on axioms: [a, b]" (possibly wrapped) / "'name' does not depend on any axioms"
    flat = re.sub(r"\n\s+", " ", out)
    for m in re.finditer(r"'([^']+)' depends on axioms: \[([^\]]*)\]", flat):
        axs = [a.strip() for a in m.group(2).split(",") if a.strip()]
        seen.update(axs)
        per[m.group(1).split(".")[-1]] = axs
        ok[m.group(1)] = all(a in ALLOWED_AXIOMS for a in axs)
    for m in re.finditer(r"'([^']+)' does not depend on any axioms", flat):
        ok[m.group(1)] = True
        per[m.group(1).split(".")[-1]] = []
    res["axioms_by_theorem"] = per
    for t in theorems:
        full = t if t in ok else ("WowSrp." + t if ("WowSrp." + t) in ok else None)
        if full is not None and ok[full] and res["build_ok"]:
            res["discharged"] += 1
        else:
            res["failed"].append(t)
    res["axioms_seen"] = sorted(seen)
    fb = forbidden_tokens()
    if fb:
        res["notes"].append("forbidden tokens in Lean sources: " + "; ".join(fb[:5]))
        res["failed"].append("forbidden-token-scan")
    return res

def tail(s, n):
    return "\n".join(s.strip().split("\n")[-n:])

# ------------------------------------------------------------------------------------------
# step 3: build harness, run both sides

def build_harness(fast=False):
    if fast == "dbg":
        # the same harness with debug assertions ON (`cargo test`'s profile has them, a release build does not): behaviour that depends
        # on the build profile — a `debug_assert!` with a side effect or a panic, `cfg!(debug_assertions)` — shows up as a line on which
        # this build answers differently from what the property (or the model) says
        with Lock("cargo-dbg.lock"):
            env = {"CARGO_PROFILE_RELEASE_DEBUG_ASSERTIONS": "true"}
            if REPO != "/repo":
                env["VERIF_REPO"] = REPO
            rc, out = run(["cargo", "build", "--release", "--offline", "--target-dir", os.path.join(HARNESS, "target-dbg")], cwd=HARNESS, env=env, timeout=3600)
        binp = os.path.join(HARNESS, "target-dbg", "release", "wowsrp_impl")
        return rc == 0 and os.path.exists(binp), binp, out
    with Lock("cargo-fast.lock" if fast else "cargo.lock"):
        if fast:
            cmd = ["cargo", "build", "--release", "--offline", "--no-default-features", "--features", "fast-math",
                   "--target-dir", os.path.join(HARNESS, "target-fast")]
            env = {"C_INCLUDE_PATH": os.path.join(HARNESS, "gmp_compat")}
        else:
            cmd = ["cargo", "build", "--release", "--offline"]
            env = {}
        if REPO != "/repo":
            env["VERIF_REPO"] = REPO
        rc, out = run(cmd, cwd=HARNESS, env=env, timeout=3600)
    binp = os.path.join(HARNESS, "target-fast" if fast else "target", "release", "wowsrp_impl")
    return rc == 0 and os.path.exists(binp), binp, out

MODEL_BIN = os.path.join(LEAN, ".lake", "build", "bin", "wowsrp_model")

def run_lines(cmd, lines, shards=None, env=None):
    """run a line-protocol binary over the lines, sharded over processes; returns output lines"""
    if not lines:
        return []
    n = len(lines)
    shards = shards or min(NCPU, max(1, n // 200))
    size = (n + shards - 1) // shards
    procs = []
    for i in range(shards):
        chunk = lines[i * size:(i + 1) * size]
        if not chunk:
            continue
        p = subprocess.Popen(cmd, stdin=subprocess.PIPE, stdout=subprocess.PIPE, stderr=subprocess.DEVNULL, text=True,
                             env=(dict(os.environ, **env) if env else None))
        procs.append((p, chunk))
    # feed with threads to avoid pipe deadlock
    import threading
    outs = [None] * len(procs)
    def feed(k):
        p, chunk = procs[k]
        try:
            o, _ = p.communicate("\n".join(chunk) + "\n", timeout=RUN_TIMEOUT)
        except subprocess.TimeoutExpired:
            # a hung implementation (e.g. a loop that no longer terminates) must not hang the check
            p.kill()
            o, _ = p.communicate()
            o = (o or "")
            if o and not o.endswith("\n"):
                o = o[:o.rfind("\n") + 1]
            o += "<no-output: timed out>\n"
        outs[k] = o.split("\n")
        if outs[k] and outs[k][-1] == "":
            outs[k].pop()
        # a crashed process (abort) yields fewer lines: pad
        while len(outs[k]) < len(chunk):
            outs[k].append("<no-output: process died>")
    ts = [threading.Thread(target=feed, args=(k,)) for k in range(len(procs))]
    [t.start() for t in ts]
    [t.join() for t in ts]
    res = []
    for o in outs:
        res.extend(o)
    return res

# ------------------------------------------------------------------------------------------

class Case:
    __slots__ = ("line", "kind", "expect", "meta")
    def __init__(self, line, kind="", expect=None, meta=None):
        self.line = line      # protocol line
        self.kind = kind      # generator class (for the distribution printed into the evidence)
        self.expect = expect  # oracle: expected output (str), or callable(out)->None|str, or None
        self.meta = meta

SIB_SKIP = ("rng.stat", "thr", "pk.sweep", "pin.sweep", "w.sweep", "hdr.steps", "mc.sweep", "ns.sweep",
            "mc.flow")   # mc.flow types what the PRINTED card shows: only defined for cards whose bytes are digits

def sibling_history_cases(cases, rng, n):
    """History layer, generic over all properties: a sample of the generated calls is repeated as  call ; the same call with ONE
    argument changed in one bit ; the first call again  — back to back on one thread.  The library's functions are pure functions of
    (arguments, drawn bytes), so each answer must be the one the independent reference computes for THAT line alone; anything
    remembered from the previous call (a cache keyed by too little, a lazily initialised global) shows up here.  Expected answers
    come from tools/pydriver.py (independent of the model); where it has none the line is still compared with the Lean model."""
    import pydriver
    pool = [c for c in cases if len(c.line) < 6000 and not c.line.startswith(SIB_SKIP)
            and not (isinstance(c.meta, dict) and (c.meta.get("impl_only") or "group" in c.meta or "tgroup" in c.meta))]
    if not pool:
        return []
    out = []
    for c in rng.sample(pool, min(n, len(pool))):
        cmd, sep, draws = c.line.partition(" | ")
        toks = cmd.split(" ")
        if toks[0] == "hdr":
            idx = [3]
        else:
            # byte-string arguments only (a decimal argument never has 32+ digits and never contains a-f)
            idx = [i for i, t in enumerate(toks) if i > 0 and len(t) >= 8 and len(t) % 2 == 0 and re.fullmatch(r"[0-9a-f]+", t)
                   and (len(t) >= 32 or re.search(r"[a-f]", t))]
        if not idx:
            continue
        i = rng.choice(idx)
        b = bytearray(bytes.fromhex(toks[i]))
        # late bytes are the likelier blind spot of a key that covers "the first few bytes"
        pos = rng.randrange(len(b)) if rng.random() < 0.5 else len(b) - 1 - rng.randrange(min(8, len(b)))
        b[pos] ^= 1 << rng.randrange(8)
        t2 = list(toks); t2[i] = b.hex()
        sib = " ".join(t2) + sep + draws
        for line, kind in ((c.line, "history:call"), (sib, "history:sibling-call-one-bit-of-one-argument-changed"), (c.line, "history:call-again")):
            try:
                e = pydriver.expected(line)
            except Exception:
                e = None
            exp = e
            if e is not None and toks[0] == "srv.server" and e.startswith("err"):
                exp = None      # (the reference prints the two proofs of a refusal in the other order for this op; the model comparison covers it)
            out.append(Case(line, kind, exp, dict(sib=True)))
    return out

from gen_util import nibble_moves as _nibble_moves

STRUCT_TRANSFORMS = [
    ("reversed", lambda b, o: b[::-1]),
    ("rotated-one-byte", lambda b, o: b[1:] + b[:1]),
    ("complemented", lambda b, o: bytes(x ^ 0xFF for x in b)),
    ("halves-swapped", lambda b, o: b[len(b) // 2:] + b[:len(b) // 2]),
    ("most-significant-byte-changed", lambda b, o: b[:-1] + bytes([b[-1] ^ 0x5a])),
    ("least-significant-byte-changed", lambda b, o: bytes([b[0] ^ 0xa5]) + b[1:]),
    ("zero-nibble-moved", lambda b, o: _nibble_moves(b)),
    ("all-zero", lambda b, o: bytes(len(b))),
    ("all-ff", lambda b, o: b"\xff" * len(b)),
    ("equal-to-another-argument", lambda b, o: o),
]

def structured_sibling_cases(cases, rng, per_op):
    """Relation layer, generic over all properties: for every kind of call a check generates, a few calls are repeated with ONE
    byte-string argument replaced by a STRUCTURED relative of itself — reversed, rotated, complemented, halves swapped, all zero,
    all 0xFF, equal to another argument of the same length — every transform on every argument.  A one-bit flip or a random value never
    produces these relations, and they are exactly what a special case keyed on a relation between inputs looks for (the other byte
    order of a key, both seeds equal, a value and its complement).  Expected answers: tools/pydriver.py, and the Lean model."""
    import pydriver
    by_op = {}
    for c in cases:
        if len(c.line) >= 3000 or c.line.startswith(SIB_SKIP) or c.line.startswith("hdr "):
            continue
        if isinstance(c.meta, dict) and (c.meta.get("impl_only") or "group" in c.meta or "tgroup" in c.meta or c.meta.get("sib")):
            continue
        toks = c.line.partition(" | ")[0].split(" ")
        key = toks[0] + (" " + toks[1] if len(toks) > 1 and len(toks[1]) == 1 else "")
        by_op.setdefault(key, []).append(c)
    out = []
    for key in sorted(by_op):
        pool = by_op[key]
        for c in rng.sample(pool, min(per_op, len(pool))):
            cmd, sep, draws = c.line.partition(" | ")
            toks = cmd.split(" ")
            idx = [i for i, t in enumerate(toks) if i > 0 and len(t) >= 8 and len(t) % 2 == 0 and re.fullmatch(r"[0-9a-f]+", t)
                   and (len(t) >= 32 or re.search(r"[a-f]", t))]
            for i in idx:
                b = bytes.fromhex(toks[i])
                others = [bytes.fromhex(toks[j]) for j in idx if j != i and len(toks[j]) == len(toks[i]) and toks[j] != toks[i]]
                for name, f in STRUCT_TRANSFORMS:
                    if name == "equal-to-another-argument" and not others:
                        continue
                    r = f(b, others[0] if others else b)
                    for b2 in (r if isinstance(r, list) else [r]):
                        if b2 == b:
                            continue
                        t2 = list(toks); t2[i] = b2.hex()
                        line = " ".join(t2) + sep + draws
                        try:
                            e = pydriver.expected(line)
                        except Exception:
                            e = None
                        if e is not None and toks[0] == "srv.server" and e.startswith("err"):
                            e = None
                        out.append(Case(line, "relation:one-argument-" + name, e, dict(sib=True)))
    return out

def write_evidence(ev):
    """`level: proof` requires obligations >= 1 and discharged >= 1 in the schema; a run in which NO obligation could be discharged (a broken
    translator, an unbuildable harness) reports the counts it measured under other names so that the file stays readable as evidence of
    what was (not) covered, with the exploration-style counts the schema accepts instead"""
    c = ev["coverage"]
    if not c.get("discharged") or not c.get("obligations"):
        c["obligations_total"] = c.pop("obligations", 0)
        c["discharged_total"] = c.pop("discharged", 0)
        c.setdefault("explanation", "")
        c["explanation"] = "NO proof obligation was discharged on this run. " + c["explanation"]
    try:
        os.makedirs(EVID, exist_ok=True)
        with open(os.path.join(EVID, ev["property_id"] + ".json"), "w") as f:
            json.dump(ev, f, indent=1, default=str)
    except Exception as e:
        log("[%s] could not write the evidence file: %s" % (ev.get("property_id"), e))

def lean_version():
    rc, out = run(["lean", "--version"], timeout=60)
    m = re.search(r"version ([0-9][^\s,]*)", out or "")
    return m.group(1) if m else "unknown"

def replay_name(rdir, pid):
    return os.path.join(rdir, "%s_%d_%d.json" % (pid, int(time.time()), os.getpid()))

def load_known():
    p = os.path.join(VERIF, "known_findings.json")
    if not os.path.exists(p):
        return {"findings": [], "fixed": []}
    return json.load(open(p))

def _main():
    ap = argparse.ArgumentParser()
    ap.add_argument("prop")
    ap.add_argument("--tier", default=os.environ.get("VERIF_TIER", "quick"))
    ap.add_argument("--replay", default=None)
    args = ap.parse_args()
    pid = args.prop.upper()
    tier = "thorough" if args.tier.startswith("t") else "quick"
    global RUN_TIMEOUT
    if tier == "quick" and "VERIF_RUN_TIMEOUT" not in os.environ:
        # a quick run of either side takes seconds; an implementation that no longer terminates on some input must not hold the
        # check for a quarter of an hour (the lines it never answered count as failures)
        RUN_TIMEOUT = 300
    seed = int(os.environ.get("VERIF_SEED", "20260930") or 0)
    t_start = time.time()
    if not re.fullmatch(r"C(0[1-9]|1[0-9])", pid):
        log("usage: check C01..C19 [--tier quick|thorough] [--replay file]   (unknown property %r)" % args.prop)
        sys.exit(2)
    if args.tier not in ("quick", "thorough", "q", "t"):
        log("unknown tier %r: quick | thorough" % args.tier)
        sys.exit(2)
    # the harness's path dependency is /repo; a different VERIF_REPO is only meaningful in the private clones tools/matrix.sh makes
    # (it rewrites harness/Cargo.toml there) — refuse a translator / harness split
    try:
        dep = re.search(r'wow_srp\s*=\s*\{\s*path\s*=\s*"([^"]+)"', open(os.path.join(HARNESS, "Cargo.toml")).read()).group(1)
    except Exception:
        dep = None
    if dep and os.path.realpath(dep) != os.path.realpath(REPO):
        log("VERIF_REPO=%s but harness/Cargo.toml builds %s: refusing to check two different trees" % (REPO, dep))
        sys.exit(2)
    mod = importlib.import_module("props." + pid.lower())
    os.makedirs(WORK, exist_ok=True)
    os.makedirs(EVID, exist_ok=True)
    rdir = os.path.join(WORK, "replay")
    os.makedirs(rdir, exist_ok=True)

    if args.replay:
        return replay(pid, mod, args.replay)

    # ---- Lean side
    lean = lean_phase(pid, mod.THEOREMS, mod.MODULES, tier)
    proof_ok = lean["tie_ok"] and lean["build_ok"] and lean["discharged"] == lean["obligations"]
    log("[%s] lean: obligations=%d discharged=%d axioms=%s (%.0fs)" % (pid, lean["obligations"], lean["discharged"], lean["axioms_seen"], lean.get("lake_s", 0)))
    for n in lean["notes"]:
        log("[%s] NOTE %s" % (pid, n))

    # ---- implementation side
    ok, impl_bin, out = build_harness(False)
    if not ok:
        # the crate (or the harness against the crate's public API: a removed function, a changed signature, a type that is no longer
        # Send / Clone / PartialEq) no longer compiles: the correspondence cannot even be run, so the tie is broken
        log("[%s] harness does not build against %s:\n%s" % (pid, REPO, tail(out, 40)))
        return no_build(pid, rdir, "default-math", out, lean, tier, seed, t_start, mod)
    backends = [("num", impl_bin)]
    if getattr(mod, "BOTH_BACKENDS", False):
        ok2, impl2, out2 = build_harness(True)
        if not ok2:
            log("[%s] fast-math harness does not build:\n%s" % (pid, tail(out2, 40)))
            return no_build(pid, rdir, "srp-fast-math", out2, lean, tier, seed, t_start, mod)
        backends.append(("rug", impl2))
    ok3, impl3, out3 = build_harness("dbg")
    if ok3:
        backends.append(("num-dbg", impl3))
    else:
        lean["notes"].append("the harness does not build with debug assertions on (the other build does): " + tail(out3, 10))
        log("[%s] NOTE harness with debug assertions does not build:\n%s" % (pid, tail(out3, 20)))
    both = getattr(mod, "BOTH_BACKENDS", False)

    rng = random.Random(seed * 1000003 + int(hashlib.sha1(pid.encode()).hexdigest()[:8], 16))
    cases = []
    corpus_dir = os.path.join(VERIF, "corpus", pid)
    if os.path.isdir(corpus_dir):
        for f in sorted(os.listdir(corpus_dir)):
            if f.endswith(".case"):
                for ln in open(os.path.join(corpus_dir, f)):
                    ln = ln.rstrip("\n")
                    if ln and not ln.startswith("#"):
                        exp = None
                        if "\t=> " in ln:
                            ln, exp = ln.split("\t=> ", 1)
                        cases.append(Case(ln, "corpus:" + f, exp))
    cases.extend(mod.generate(rng, tier))
    base_cases = list(cases)
    cases.extend(sibling_history_cases(base_cases, rng, 120 if tier == "quick" else 3000))
    cases.extend(structured_sibling_cases(base_cases, rng, 2 if tier == "quick" else 25))
    lines = [c.line for c in cases]
    log("[%s] %d cases (%s tier, seed %d)" % (pid, len(lines), tier, seed))

    outs = {}
    t1 = time.time()
    raw_outs = {}
    for name, b in backends:
        if both and name in ("num", "rug"):
            # C19: the panic message is part of the comparison between the two builds (not with the model)
            raw = run_lines([b], lines, env={"VERIF_PANIC_MSG": "1"})
            # only the crate's own documented panics (`.expect(..)` on an InvalidPublicKeyError, whose message ends in
            # the error kind) are compared across builds; panics raised inside num-bigint / rug (zero modulus) have
            # library-specific texts and count as plain "panic"
            keep = ("panic: Invalid public key generated", "panic: The generated public key was invalid")
            raw_outs[name] = [o if (not o.startswith("panic: ") or o.startswith(keep)) else "panic" for o in raw]
            outs[name] = ["panic" if o.startswith("panic: ") else o for o in raw_outs[name]]
        else:
            outs[name] = run_lines([b], lines)
            raw_outs[name] = outs[name]
    t_impl = time.time() - t1
    model_outs = {}
    t1 = time.time()
    if lean["driver_ok"] and not os.path.exists(MODEL_BIN):
        lean["driver_ok"] = False
        lean["notes"].append("model driver binary %s is missing" % MODEL_BIN)
    if lean["driver_ok"]:
        for name, _ in backends:
            model_outs[name] = model_outs["num"] if name == "num-dbg" else run_lines([MODEL_BIN, name], lines)
    t_model = time.time() - t1

    disagreements = []   # impl vs model
    oracle_fail = []     # impl vs property (independent oracle)
    backend_diff = []    # num vs rug (C19)
    kinds = {}
    distinct = set()
    for i, c in enumerate(cases):
        kinds[c.kind] = kinds.get(c.kind, 0) + 1
        for name, _ in backends:
            o = outs[name][i]
            if model_outs and not (c.meta and isinstance(c.meta, dict) and c.meta.get("impl_only")):
                m = model_outs[name][i]
                if m != o:
                    disagreements.append(dict(line=c.line, backend=name, impl=o, model=m, kind=c.kind))
            f = None
            if c.expect is not None:
                if callable(c.expect):
                    try:
                        f = c.expect(o)
                    except Exception as e:  # oracle crashed on unexpected output
                        f = "oracle could not interpret output (%s)" % e
                elif c.expect != o:
                    f = "expected %r" % (c.expect,)
            g = getattr(mod, "check_output", None)
            if f is None and g is not None:
                f = g(c, o)
            if f:
                oracle_fail.append(dict(line=c.line, backend=name, impl=o, why=f, kind=c.kind))
        if both and raw_outs["num"][i] != raw_outs["rug"][i]:
            backend_diff.append(dict(line=c.line, num=raw_outs["num"][i], rug=raw_outs["rug"][i], kind=c.kind))
        nt = mod.nontrivial(c, outs["num"][i]) if hasattr(mod, "nontrivial") else c.line
        if nt is not None:
            distinct.add(hashlib.sha1(str(nt).encode()).digest()[:8])
    post = getattr(mod, "post_check", None)
    if post is not None:
        for f in post(cases, outs["num"]) or []:
            oracle_fail.append(f)
    if getattr(mod, "BOTH_BACKENDS", False):
        for d in backend_diff:
            oracle_fail.append(dict(line=d["line"], backend="num-vs-rug", impl="num: %s | rug: %s" % (d["num"], d["rug"]),
                                    why="the two big-integer back ends disagree", kind=d["kind"]))

    # ---- verdict
    known = load_known()
    violations = []
    known_hits = []
    for f in oracle_fail:
        k = match_known(known, pid, f)
        if k:
            known_hits.append((k, f))
        else:
            violations.append(f)
    rc = 0
    extra = 0
    printed = set()
    for k, f in known_hits:
        if id(k) not in printed:
            printed.add(id(k))
            log("KNOWN-FINDING: property=%s %s" % (pid, k["what"]))
    replay_path = None
    if violations:
        f = min(violations, key=lambda f: (".sweep" in f["line"], len(f["line"])))
        replay_path = replay_name(rdir, pid)
        json.dump(dict(property=pid, kind="oracle", line=f["line"], backend=f.get("backend"), impl_out=f["impl"], why=f["why"],
                       others=len(violations) - 1), open(replay_path, "w"), indent=1)
        log("[%s] %d oracle failure(s); first: %s" % (pid, len(violations), json.dumps(f)[:600]))
        log("VIOLATION property=%s replay=%s" % (pid, replay_path))
        rc = 1
    elif not proof_ok or disagreements or not lean["driver_ok"]:
        # A proof obligation or the correspondence is broken and the cases of this run show no input on which the PROPERTY fails:
        # search further before saying so — the same generators under other seeds (with both generic layers), implementation side
        # only, judged by the independent oracle.  A hit is reported as a concrete failing input.
        found = None
        extra = 0
        if not os.environ.get("VERIF_NO_SEARCH"):
            t_s = time.time()
            for k in range(1, 7):
                if time.time() - t_s > 90:
                    break
                rng2 = random.Random((seed + k) * 1000003 + int(hashlib.sha1(pid.encode()).hexdigest()[:8], 16))
                try:
                    cs2 = list(mod.generate(rng2, "quick"))
                    b2 = list(cs2)
                    cs2.extend(sibling_history_cases(b2, rng2, 120))
                    cs2.extend(structured_sibling_cases(b2, rng2, 3))
                    o2 = run_lines([backends[0][1]], [c.line for c in cs2])
                except Exception as e:
                    log("[%s] search round %d could not run: %s" % (pid, k, e))
                    break
                extra += len(cs2)
                g = getattr(mod, "check_output", None)
                for c, o in zip(cs2, o2):
                    f = None
                    if c.expect is not None:
                        try:
                            f = c.expect(o) if callable(c.expect) else (None if c.expect == o else "expected %r" % (c.expect,))
                        except Exception as e:
                            f = "oracle could not interpret output (%s)" % e
                    if f is None and g is not None:
                        f = g(c, o)
                    if f and not match_known(known, pid, dict(line=c.line)):
                        if found is None or len(c.line) < len(found["line"]):
                            found = dict(line=c.line, backend="num", impl=o, why=f, kind=c.kind, search_seed=seed + k)
                if found:
                    break
            log("[%s] searched %d further generated cases (other seeds) for a failing input: %s" % (pid, extra, "found" if found else "none found"))
        if found:
            replay_path = replay_name(rdir, pid)
            json.dump(dict(property=pid, kind="oracle", line=found["line"], backend="num", impl_out=found["impl"], why=found["why"],
                           found_by="search after a broken obligation / correspondence", theorems_not_checked=lean["failed"],
                           correspondence_differences=len(disagreements)), open(replay_path, "w"), indent=1)
            log("[%s] failing input found by the search: %s" % (pid, json.dumps(found)[:600]))
            log("VIOLATION property=%s replay=%s" % (pid, replay_path))
            violations.append(found)
            rc = 1
    if rc == 0 and (not proof_ok or disagreements or not lean["driver_ok"]):
        replay_path = replay_name(rdir, pid)
        what = {}
        if not proof_ok:
            what["theorems_not_checked"] = lean["failed"]
            what["notes"] = lean["notes"]
        if disagreements:
            what["first_correspondence_difference"] = disagreements[0]
            what["correspondence_differences"] = len(disagreements)
        if not lean["driver_ok"]:
            what["correspondence"] = "the model driver (lean/Driver.lean -> wowsrp_model) does not build or is missing: the model side of the correspondence could not be run"
            what.setdefault("notes", lean["notes"])
        json.dump(dict(property=pid, kind="tie-or-proof-broken", searched_cases=len(cases) + extra, **what), open(replay_path, "w"), indent=1)
        if disagreements:
            log("[%s] %d model/implementation disagreement(s); first: %s" % (pid, len(disagreements), json.dumps(disagreements[0])[:700]))
        if not proof_ok:
            log("[%s] theorems that no longer check: %s" % (pid, lean["failed"]))
        log("VIOLATION property=%s replay=%s no-failing-input-found" % (pid, replay_path))
        rc = 1

    # ---- evidence
    samples = [dict(case=c.line[:300], impl=outs["num"][i][:200]) for i, c in list(enumerate(cases))[:3]]
    if len(cases) > 6:
        for i in rng.sample(range(len(cases)), 3):
            samples.append(dict(case=cases[i].line[:300], impl=outs["num"][i][:200]))
    samples.append(dict(obligations=mod.THEOREMS))
    ev = dict(
        property_id=pid, tier=tier, seed=seed, level="proof",
        coverage=dict(
            obligations=lean["obligations"], discharged=lean["discharged"],
            checker_cmd="cd lean && lake build %s && lake env lean ../work/audit/%s.lean  (#print axioms on every theorem)" % (" ".join(mod.MODULES), pid),
            trusted_base=["Lean %s kernel (`lean --version` on this run)" % lean_version(), "axioms: " + ", ".join(lean["axioms_seen"] or ["none"]),
                          "Mathlib v4.33.0 (single modules, proof files only)",
                          "tools/gen_constants.py (translator: constants, hash field orders, delegation bodies, call-site argument orders, structural trait impls; re-run on this run)",
                          "tools/gen_code.py (logic translator: cipher loop bodies, header builders/parsers, RC4 PRGA, the zero-strip rule, the five big-integer formulas -> Gen/Code.lean; tools/gen_imp.py: the loops of pin.rs and matrix_card.rs -> Gen/CodeImp.lean; tools/gen_str.py: NormalizedString::new -> Gen/CodeStr.lean; tools/gen_ksa.py: the RC4 key schedule -> Gen/CodeKsa.lean; tools/gen_hash.py: the 14 hash-layout functions of srp_internal*.rs, vanilla_header/internal.rs, integrity.rs -> Gen/CodeHash.lean; re-run on this run) and the Rust semantics given to their terms in Model/MiniRust.lean, MiniLayout.lean, MiniRc4.lean, MiniScan.lean, MiniBig.lean, MiniImp.lean, MiniStr.lean, MiniKsa.lean, MiniHash.lean",
                          "correspondence check: harness/src/main.rs + lean/Driver.lean (token parser / printer around Model/Session.lean's HObj.step and the other model functions) + tools/verif.py differ",
                          "independent Python reference for the oracle: tools/pyref.py, pyhdr.py, pydriver.py",
                          "modelled, not verified: rustc/std, sha-1, hmac, md5, num-bigint, rug/GMP, rand (Model/Deps.lean, Model/Crypto.lean)"],
            theorems=mod.THEOREMS, theorems_failed=lean["failed"], leanchecker=lean.get("leanchecker"),
            axioms_by_theorem=lean.get("axioms_by_theorem", {}),
            evaluations=len(cases) * len(backends), distinct_nontrivial=len(distinct),
            rule=getattr(mod, "RULE", ""), samples=samples,
            traces_validated_against_impl=len(cases) if model_outs else 0,
            model_disagreements=len(disagreements), oracle_failures=len(oracle_fail),
            known_findings_hit=len(known_hits), input_distribution=kinds,
            backends=[b for b, _ in backends],
            timings_s=dict(lean=lean.get("lake_s"), impl=round(t_impl, 2), model=round(t_model, 2)),
            explanation=getattr(mod, "EXPLANATION", "")),
        assumptions=getattr(mod, "ASSUMPTIONS", []),
        wall_s=round(time.time() - t_start, 2), violations=len(violations) + (1 if rc and not violations else 0))
    write_evidence(ev)
    log("[%s] %s: theorems %d/%d, cases %d, model disagreements %d, oracle failures %d, %.1fs" % (
        pid, "OK" if rc == 0 else "FAIL", lean["discharged"], lean["obligations"], len(cases), len(disagreements), len(oracle_fail), time.time() - t_start))
    return rc

def no_build(pid, rdir, which, out, lean=None, tier="quick", seed=0, t_start=None, mod=None):
    path = replay_name(rdir, pid)
    lean = lean or dict(obligations=0, discharged=0, failed=[], axioms_seen=[], notes=[])
    json.dump(dict(property=pid, kind="tie-or-proof-broken", correspondence="the harness (harness/src/main.rs, which uses the crate's whole public API, moves halves "
                   "across threads, clones and compares the objects) no longer builds against the working tree (%s build)" % which,
                   theorems_not_checked=lean.get("failed", []), compiler_output=tail(out, 60)), open(path, "w"), indent=1)
    ev = dict(property_id=pid, tier=tier, seed=seed, level="proof",
              coverage=dict(obligations=lean.get("obligations", 0), discharged=lean.get("discharged", 0),
                            checker_cmd="cd lean && lake build <modules of %s> && lake env lean ../work/audit/%s.lean; cd harness && cargo build --release --offline" % (pid, pid),
                            trusted_base=["Lean kernel", "axioms: " + ", ".join(lean.get("axioms_seen") or ["none"])],
                            theorems=getattr(mod, "THEOREMS", []), theorems_failed=lean.get("failed", []),
                            evaluations=0, distinct_nontrivial=0, traces_validated_against_impl=0,
                            explanation="the implementation side could not be built (%s), so the correspondence was NOT run: %s" % (which, tail(out, 5))),
              assumptions=[], wall_s=round(time.time() - t_start, 2) if t_start else 0, violations=1)
    write_evidence(ev)
    log("VIOLATION property=%s replay=%s no-failing-input-found" % (pid, path))
    return 1

def match_known(known, pid, f):
    for k in known.get("findings", []):
        if k.get("property") != pid:
            continue
        if k.get("line") and k["line"] == f["line"]:
            return k
        if k.get("line_regex") and re.search(k["line_regex"], f["line"]):
            return k
    return None

def replay(pid, mod, path):
    if not os.path.isabs(path):
        for base in (os.environ.get("VERIF_CALLER_PWD") or "", VERIF):
            if base and os.path.exists(os.path.join(base, path)):
                path = os.path.join(base, path); break
    r = json.load(open(path))
    if r.get("kind") != "oracle":
        # the file names theorems / a correspondence, not an input: re-check exactly those against the tree as it is now
        log("replay file names a broken proof / correspondence, not an input: %s" % json.dumps(r)[:800])
        lean = lean_phase(pid, mod.THEOREMS, mod.MODULES, "quick")
        still = [t for t in lean["failed"] if not r.get("theorems_not_checked") or t in r.get("theorems_not_checked")]
        if still or not lean["tie_ok"] or not lean["build_ok"] or not lean["driver_ok"]:
            log("still not checking: %s %s" % (still, lean["notes"][:2]))
            log("VIOLATION property=%s replay=%s no-failing-input-found" % (pid, os.path.abspath(path)))
            return 1
        if r.get("first_correspondence_difference") or r.get("correspondence"):
            log("the theorems check again; run the check itself for the correspondence part")
        else:
            log("the theorems named in the replay file check again")
        return 0
    ok, impl_bin, out = build_harness(False)
    if not ok:
        log("cannot build the implementation:\n" + tail(out, 20))
        log("VIOLATION property=%s replay=%s no-failing-input-found" % (pid, os.path.abspath(path)))
        return 1
    b = impl_bin
    if r.get("backend") in ("rug", "num-vs-rug"):
        ok2, b2, _ = build_harness(True)
        if r.get("backend") == "rug":
            b = b2
    o = run_lines([b], [r["line"]])[0]
    log("line:   " + r["line"][:400])
    log("impl:   " + o[:400])
    log("before: " + r["impl_out"][:400])
    log("why:    " + r["why"])
    # re-evaluate through the generator's oracle when the property module can rebuild it
    f = None
    import pydriver
    try:
        exp = pydriver.expected(r["line"]) if r.get("backend") != "num-vs-rug" else None
    except Exception:
        exp = None
    if exp is not None and r["line"].startswith("srv.server") and isinstance(exp, str) and exp.startswith("err"):
        exp = None
    if r.get("backend") == "num-vs-rug":
        ok2, b2, _ = build_harness(True)
        o2 = run_lines([b2], [r["line"]], env={"VERIF_PANIC_MSG": "1"})[0]
        o1 = run_lines([impl_bin], [r["line"]], env={"VERIF_PANIC_MSG": "1"})[0]
        log("num:    " + o1[:300]); log("rug:    " + o2[:300])
        if o1 != o2:
            f = "the two big-integer back ends disagree"
    elif hasattr(mod, "replay_oracle"):
        f = mod.replay_oracle(r["line"], o)
    elif exp is not None:
        # the independent Python reference recomputes what the property definitions require for this line
        log("expect: " + (exp[:400] if isinstance(exp, str) else "(predicate from the reference)"))
        if pid == "C14":
            f = None if not (o.startswith("panic") or o.startswith("<no-output")) else r["why"]
        elif callable(exp):
            f = exp(o)
        elif o != exp:
            f = "implementation output differs from the independent reference"
    elif o == r["impl_out"]:
        f = r["why"]
    if f:
        log("VIOLATION property=%s replay=%s" % (pid, path))
        return 1
    log("replay no longer fails")
    return 0

def main():
    """never a traceback: whatever goes wrong inside the machinery itself ends the check the way the interface prescribes — exit 1 with a
    VIOLATION line that says no failing input was found and a replay file that says what crashed"""
    try:
        return _main()
    except SystemExit:
        raise
    except BaseException as ex:
        import traceback
        tb = traceback.format_exc()
        pid = "UNKNOWN"
        for a in sys.argv[1:]:
            if re.fullmatch(r"[Cc]\d\d", a):
                pid = a.upper()
        rdir = os.path.join(WORK, "replay")
        path = os.path.join(rdir, "%s_crash_%d_%d.json" % (pid, int(time.time()), os.getpid()))
        try:
            os.makedirs(rdir, exist_ok=True)
            json.dump(dict(property=pid, kind="tie-or-proof-broken", correspondence="the check machinery itself stopped with an exception: %s: %s" % (type(ex).__name__, ex),
                           traceback=tb), open(path, "w"), indent=1)
        except Exception:
            pass
        log("[%s] the check machinery stopped with %s: %s\n%s" % (pid, type(ex).__name__, ex, tb))
        if pid != "UNKNOWN":
            write_evidence(dict(property_id=pid, tier="quick", seed=0, level="proof",
                                coverage=dict(obligations=0, discharged=0, checker_cmd="tools/verif.py", trusted_base=[], evaluations=0, distinct_nontrivial=0,
                                              explanation="the check machinery stopped with an exception before it could report: %s: %s" % (type(ex).__name__, ex)),
                                assumptions=[], wall_s=0, violations=1))
        log("VIOLATION property=%s replay=%s no-failing-input-found" % (pid, path))
        return 1

if __name__ == "__main__":
    sys.exit(main())
