#!/usr/bin/env python3
"""writes /verif/MANIFEST.json from the property modules (claimed = module has a non-empty THEOREMS list)"""
import json, sys, os, importlib
sys.path.insert(0, os.path.dirname(os.path.abspath(__file__)))
props = [json.loads(l) for l in open('/verif/properties.jsonl')]
PARTIAL = {
 "C15": "PARTIAL by nature: the model proves each documented call consumes a fresh segment of the RNG stream and its output is an injective function of exactly that segment; unpredictability/non-repetition of ThreadRng is the trusted rand crate (statistical test only, labelled as such).",
 "C12": "PARTIAL on schedules: OS threads are not modelled; any schedule equals some interleaving by Rust ownership + two regenerated syntactic facts; real two-thread runs are tests.",
 "C09": "PARTIAL on one clause: 'the two directions never share a keystream' for all keys is not a theorem (RC4/HMAC not injective); constant assignment is proved, inequality tested per key.",
 "C02": "PARTIAL on one clause: 'another password is refused' is proved as 'accepted => explicit collision or equal shared secrets' (the second disjunct is a 2^-256 arithmetic coincidence no proof can exclude for all a, b).",
}
checks, na, claimed = [], [], []
for p in props:
    pid = p['id']
    try:
        mod = importlib.import_module('props.' + pid.lower())
        thms = mod.THEOREMS
    except Exception as e:
        mod, thms = None, []
    if not thms:
        na.append(dict(property_id=pid, reason="no theorem is registered for this property (see DESIGN.md)"))
        continue
    claimed.append(pid)
    lead = (PARTIAL[pid] + " For the clauses that ARE proved: ") if pid in PARTIAL else ""
    text = lead + ("Lean 4 theorems (%d, kernel-checked, axioms audited on every run) over a functional model of the code quantify over %s; "
            "the model is tied to /repo on every run by translators that regenerate constants, source facts and the Lean terms of the byte-deciding code "
            "(whose equality with the model is itself a theorem) plus a differential correspondence run against the real crate, "
            "and an independent Python oracle evaluates the property on the real crate's output." % (len(thms), "the inputs / histories of those clauses" if pid in PARTIAL else "every input / history the property names"))
    checks.append(dict(property_id=pid, quick_cmd="./check %s --tier quick" % pid, thorough_cmd="./check %s --tier thorough" % pid,
        evidence_file="evidence/%s.json" % pid, replay_cmd_template="./check %s --replay {path}" % pid, engine="lean4-proof+correspondence",
        level_claimed=dict(category="proof", text=text, design_ref="DESIGN.md §5 " + pid),
        level_note="Trusted: Lean 4.33 kernel (+propext, Classical.choice, Quot.sound), the translators tools/gen_constants.py (constants, source facts) and tools/gen_code.py, gen_imp.py, gen_str.py, gen_ksa.py, gen_hash.py, gen_ilv.py, gen_api.py with the scope guards of gen_guard.py (cipher loops, header layouts, RC4 step, zero-strip rule, big-integer formulas, the PIN / matrix-card loops, NormalizedString::new, the RC4 key schedule, the 14 hash-layout functions and the TBC / Wrath key constructors, the SHA-1 interleave, the API orchestration of server.rs / client.rs / the world-login ProofSeeds; their meanings in lean/WowSrp/Model/Mini*.lean), the correspondence harness (harness/ in three builds: num-bigint, rug, num-bigint with debug assertions; lean/Driver.lean, tools/verif.py); modelled not verified: rustc/std, sha-1/hmac/md5, num-bigint/rug, rand (Model/Deps.lean, Model/Crypto.lean)",
        technique="Lean 4 machine-checked proof over a model + differential model/implementation correspondence"))
m = dict(version=1, setup_cmd="./setup.sh",
  hooks=dict(guard="gtker_wow_srp_verif", enable="none needed: no source hooks in /repo; randomness is injected through a [patch.crates-io] shim for the rand crate inside /verif/harness", baseline_off_cmd="cd /repo && cargo test --workspace --no-fail-fast --offline", source_commits=[], add_only=True),
  engines=[dict(name="lean4-proof+correspondence", path="check", serves_properties=claimed, kind_free_text="Lean 4 model + theorems (lean/), translators re-run on every check (tools/gen_constants.py: constants and source facts; tools/gen_code.py, gen_imp.py, gen_str.py, gen_ksa.py, gen_hash.py, gen_ilv.py, gen_api.py: code -> Lean terms), Rust harness (harness/) and Lean driver (lean/Driver.lean) compared line by line, independent Python oracle (tools/pyref.py)")],
  checks=checks, notes="see DESIGN.md; known_findings.json lists repaired defects (fix: commits in /repo)", not_applicable=na)
json.dump(m, open('/verif/MANIFEST.json', 'w'), indent=1)
print("claimed:", claimed)
