#!/usr/bin/env python3
"""rewrites the per-property theorem table in DESIGN.md §0 from tools/props/cXX.py (THEOREMS, MODULES)"""
import sys, os, re, importlib
sys.path.insert(0, os.path.dirname(os.path.abspath(__file__)))
rows = []
for i in range(1, 20):
    m = importlib.import_module("props.c%02d" % i)
    th = m.THEOREMS
    first = ", ".join("`%s`" % t for t in th[:6]) + (" …" if len(th) > 6 else "")
    mods = ", ".join(x.replace("WowSrp.", "") for x in m.MODULES)
    rows.append("| C%02d | %d | %s | %s |" % (i, len(th), first, mods))
tbl = "<!-- STATUS-TABLE-BEGIN -->\n| property | theorems audited | first few | Lean modules |\n|---|---|---|---|\n" + "\n".join(rows) + "\n<!-- STATUS-TABLE-END -->"
p = os.path.join(os.path.dirname(os.path.dirname(os.path.abspath(__file__))), "DESIGN.md")
s = open(p).read()
total = sum(len(importlib.import_module("props.c%02d" % i).THEOREMS) for i in range(1, 20))
s = re.sub(r"\(\d+ audits in all", "(%d audits in all" % total, s)
if "<!-- STATUS-TABLE-BEGIN -->" in s:
    s = re.sub(r'<!-- STATUS-TABLE-BEGIN -->.*?<!-- STATUS-TABLE-END -->', lambda _: tbl, s, flags=re.S)
else:
    s = re.sub(r'\| property \| theorems audited \| first few \| Lean modules \|\n\|---\|---\|---\|---\|\n(?:\|.*\n)+', lambda _: tbl + "\n", s, count=1)
open(p, "w").write(s)
print(sum(len(importlib.import_module("props.c%02d" % i).THEOREMS) for i in range(1, 20)), "theorem audits in total")
