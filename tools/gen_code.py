#!/usr/bin/env python3
"""Translator (logic leg): the loop bodies of the four recurrence-cipher functions, Rust -> Lean terms.

    gen_code.py <repo> <out.lean>

Reads `pub(crate) fn encrypt(..)` / `fn decrypt(..)` of src/vanilla_header/{encrypt,decrypt}.rs and src/tbc_header/{encrypt,decrypt}.rs
from the CURRENT working tree, checks that each has the shape `{ for <x> in <data> { <statements> } }`, parses the statements with a
small recursive-descent parser for the expression subset they use (deref, `^`, `+`, `%`, parentheses, `as usize`, `.wrapping_add(..)`,
`.wrapping_sub(..)`, `key[..]`, integer literals, named u8 constants) and writes them as terms of `WowSrp.MiniRust.Stmt`
(lean/WowSrp/Model/MiniRust.lean) into Gen/Code.lean.  Whatever it cannot express becomes `Stmt.unsupported "<source>"`, whose
meaning is a panic, so the equivalence theorems of Props/Source/CipherLoops.lean fail instead of anything being guessed.
Named constants are resolved through the crate's constant table (gen_constants.Consts)."""
import re, sys, os
sys.path.insert(0, os.path.dirname(os.path.abspath(__file__)))
import gen_constants as gc

class Unsupported(Exception):
    pass

TOK = re.compile(r"\s*(0x[0-9A-Fa-f_]+|\d[\d_]*(?:u8|usize)?|[A-Za-z_][A-Za-z0-9_]*(?:::[A-Za-z_][A-Za-z0-9_]*)*|[()\[\]*^+%.,]|\S)")

def tokens(s):
    out = []
    i = 0
    while i < len(s):
        m = TOK.match(s, i)
        if not m:
            break
        out.append(m.group(1)); i = m.end()
    return out

class P:
    """expr := xor ; xor := add ('^' add)* ; add := mul ('+' mul)* ; mul := cast ('%' cast)* ; cast := unary ('as' type)* ;
       unary := '*' unary | postfix ; postfix := primary ( '.' method '(' expr ')' | '[' expr ']' )* ; primary := ident | lit | '(' expr ')'"""
    def __init__(self, toks):
        self.t, self.i = toks, 0
    def peek(self):
        return self.t[self.i] if self.i < len(self.t) else None
    def eat(self, x=None):
        t = self.peek()
        if t is None or (x is not None and t != x):
            raise Unsupported("expected %r, found %r" % (x, t))
        self.i += 1
        return t
    def expr(self):
        a = self.add()
        while self.peek() == "^":
            self.eat(); a = ("xor", a, self.add())
        return a
    def add(self):
        a = self.mul()
        while self.peek() == "+":
            self.eat(); a = ("add", a, self.mul())
        return a
    def mul(self):
        a = self.cast()
        while self.peek() == "%":
            self.eat(); a = ("rem", a, self.cast())
        return a
    def cast(self):
        a = self.unary()
        while self.peek() == "as":
            self.eat(); ty = self.eat()
            if ty != "usize":
                raise Unsupported("cast to " + ty)
            a = ("asusize", a)
        return a
    def unary(self):
        if self.peek() == "*":
            self.eat(); return ("deref", self.unary())
        return self.postfix()
    def postfix(self):
        a = self.primary()
        while True:
            if self.peek() == ".":
                self.eat(); m = self.eat()
                if self.peek() != "(":
                    a = ("field", a, m); continue
                self.eat("(")
                if self.peek() == ")":
                    self.eat(")"); a = ("call0", a, m); continue
                arg = self.expr(); self.eat(")")
                if m not in ("wrapping_add", "wrapping_sub", "swap"):
                    raise Unsupported("method " + m)
                if m == "swap":
                    raise Unsupported("swap in an expression")
                a = (m, a, arg)
            elif self.peek() == "[":
                self.eat(); ix = self.expr(); self.eat("]")
                a = ("index", a, ix)
            else:
                return a
    def primary(self):
        t = self.eat()
        if t == "(":
            a = self.expr(); self.eat(")"); return a
        if re.fullmatch(r"0x[0-9A-Fa-f_]+|\d[\d_]*(?:u8|usize)?", t):
            return ("lit", gc.parse_int(t))
        if re.fullmatch(r"[A-Za-z_][A-Za-z0-9_:]*", t):
            return ("name", t.split("::")[-1])
        raise Unsupported("token " + t)

class Ctx:
    def __init__(self, var, key, index, prev, consts):
        self.var, self.key, self.index, self.prev, self.consts = var, key, index, prev, consts
        self.locals = set()

def strip_deref(e):
    return e[1] if e[0] == "deref" else e

def to_i(e, c):
    """position-typed (u8 used as an index)"""
    k = e[0]
    if k == "deref" and e[1] == ("name", c.index): return "IExpr.idx"
    if k == "lit": return "IExpr.lit %d" % e[1]
    if k == "name":
        if e[1] in c.consts: return "IExpr.lit %d" % c.consts[e[1]]
        raise Unsupported("name %s in a position expression" % e[1])
    if k == "add": return "IExpr.add (%s) (%s)" % (to_i(e[1], c), to_i(e[2], c))
    if k == "rem": return "IExpr.rem (%s) (%s)" % (to_i(e[1], c), to_i(e[2], c))
    raise Unsupported("%s in a position expression" % k)

def to_b(e, c):
    """byte-typed"""
    k = e[0]
    if k == "deref":
        n = e[1]
        if n == ("name", c.var): return "BExpr.cur"
        if n == ("name", c.prev): return "BExpr.prev"
        raise Unsupported("deref of %r in a byte expression" % (n,))
    if k == "name":
        if e[1] == c.var: return "BExpr.cur"            # auto-deref of the loop variable as a method receiver
        if e[1] in c.locals: return 'BExpr.loc "%s"' % e[1]
        raise Unsupported("name %s in a byte expression" % e[1])
    if k == "index":
        if e[1] != ("name", c.key): raise Unsupported("indexing into something else than the key")
        if e[2][0] != "asusize": raise Unsupported("key index is not `<u8 position> as usize`")
        return "BExpr.keyAt (%s)" % to_i(e[2][1], c)
    if k == "xor": return "BExpr.xor (%s) (%s)" % (to_b(e[1], c), to_b(e[2], c))
    if k == "wrapping_add": return "BExpr.wadd (%s) (%s)" % (to_b(e[1], c), to_b(e[2], c))
    if k == "wrapping_sub": return "BExpr.wsub (%s) (%s)" % (to_b(e[1], c), to_b(e[2], c))
    raise Unsupported("%s in a byte expression" % k)

def lean_str(x):
    return '"' + x.replace("\\", "\\\\").replace('"', '\\"') + '"'

def translate(repo, rel, fname, consts):
    text = gc.load(repo, rel)
    m = re.search(r"fn\s+" + fname + r"\s*\(([^)]*)\)\s*\{", text)
    # the free function (the last `fn encrypt(` / `fn decrypt(` of the file that takes `data: &mut [u8]` first)
    cands = [mm for mm in re.finditer(r"fn\s+" + fname + r"\s*\(([^)]*)\)\s*\{", text) if re.match(r"\s*\w+\s*:\s*&mut\s*\[u8\]", mm.group(1))]
    if len(cands) != 1:
        return ['Stmt.unsupported %s' % lean_str("expected exactly one free function %s(data: &mut [u8], ..) in %s, found %d" % (fname, rel, len(cands)))]
    m = cands[0]
    if re.search(r"#\[cfg[^\]]*\]\s*(?:pub(?:\([^)]*\))?\s+)?$", text[:m.start()]):
        return ['Stmt.unsupported %s' % lean_str("the free function %s in %s is behind a cfg attribute" % (fname, rel))]
    params = [p.strip() for p in m.group(1).split(",") if p.strip()]
    names = [p.split(":")[0].strip() for p in params]
    if len(names) != 4:
        return ['Stmt.unsupported %s' % lean_str("unexpected parameter list: " + m.group(1))]
    data, key, index, prev = names
    types = [re.sub(r"\s+", "", p.split(":", 1)[1]) for p in params]
    if not (types[0] == "&mut[u8]" and re.fullmatch(r"&?\[u8;[^\]]+\]", types[1]) and types[2] == "&mutu8" and types[3] == "&mutu8"):
        return ['Stmt.unsupported %s' % lean_str("unexpected parameter types: " + m.group(1))]
    body = gc.fn_body(text[m.start():], fname, rel)
    inner = re.fullmatch(r"\{\s*for\s+(\w+)\s+in\s+(\w+)\s*\{(.*)\}\s*\}", body, re.S)
    if not inner or inner.group(2) != data:
        return ['Stmt.unsupported %s' % lean_str("function body is not a single `for x in data { .. }`: " + re.sub(r"\s+", " ", body)[:200])]
    c = Ctx(inner.group(1), key, index, prev, consts)
    out = []
    for stmt in [s.strip() for s in inner.group(3).split(";") if s.strip()]:
        try:
            mm = re.fullmatch(r"let\s+(\w+)\s*(?::\s*u8\s*)?=\s*(.*)", stmt, re.S)
            if mm:
                if mm.group(1) in (c.var, c.key, c.index, c.prev) or mm.group(1) in c.locals or mm.group(1) in c.consts:
                    raise Unsupported("`let %s` shadows a name already in use" % mm.group(1))
                p = P(tokens(mm.group(2))); e = p.expr()
                if p.peek() is not None: raise Unsupported("trailing tokens")
                out.append('Stmt.letv "%s" (%s)' % (mm.group(1), to_b(e, c))); c.locals.add(mm.group(1)); continue
            mm = re.fullmatch(r"\*\s*(\w+)\s*=\s*(.*)", stmt, re.S)
            if mm:
                p = P(tokens(mm.group(2))); e = p.expr()
                if p.peek() is not None: raise Unsupported("trailing tokens")
                tgt = mm.group(1)
                if tgt == c.index: out.append("Stmt.setIdx (%s)" % to_i(e, c))
                elif tgt == c.var: out.append("Stmt.setCur (%s)" % to_b(e, c))
                elif tgt == c.prev: out.append("Stmt.setPrev (%s)" % to_b(e, c))
                else: raise Unsupported("assignment to *" + tgt)
                continue
            raise Unsupported("statement form")
        except Unsupported as ex:
            out.append("Stmt.unsupported %s" % lean_str("%s  [%s]" % (re.sub(r"\s+", " ", stmt), ex)))
    return out

# ---------------------------------------------------------------------------------------------------------------
# big-integer formulas -> WowSrp.MiniBig.BigExpr

BTOK = re.compile(r"\s*([A-Za-z_][A-Za-z0-9_]*(?:::[A-Za-z_][A-Za-z0-9_]*)*|[()&*+%.,\-]|\S)")

class PB:
    """expr := term (('+'|'-') term)* ; term := unary (('*'|'%') unary)* ; unary := '&' unary | atom postfix* ;
       atom := '(' expr ')' | path [ '(' args ')' ] ; postfix := '.' ident '(' args ')'"""
    def __init__(self, s):
        self.t = []
        i = 0
        while i < len(s):
            m = BTOK.match(s, i)
            if not m: break
            self.t.append(m.group(1)); i = m.end()
        self.i = 0
    def peek(self): return self.t[self.i] if self.i < len(self.t) else None
    def eat(self, x=None):
        t = self.peek()
        if t is None or (x is not None and t != x): raise Unsupported("expected %r, found %r" % (x, t))
        self.i += 1; return t
    def args(self):
        out = []
        if self.peek() == ")": return out
        out.append(self.expr())
        while self.peek() == ",":
            self.eat()
            if self.peek() == ")": break
            out.append(self.expr())
        return out
    def expr(self):
        a = self.term()
        while self.peek() in ("+", "-"):
            op = self.eat(); a = ("add" if op == "+" else "sub", a, self.term())
        return a
    def term(self):
        a = self.unary()
        while self.peek() in ("*", "%"):
            op = self.eat(); a = ("mul" if op == "*" else "rem", a, self.unary())
        return a
    def unary(self):
        if self.peek() == "&":
            self.eat(); return self.unary()
        if self.peek() == "(":
            self.eat(); a = self.expr(); self.eat(")")
        else:
            p = self.eat()
            if not re.fullmatch(r"[A-Za-z_][A-Za-z0-9_:]*", p): raise Unsupported("token " + p)
            if self.peek() == "(":
                self.eat(); ar = self.args(); self.eat(")"); a = ("call", p, ar)
            else:
                a = ("name", p)
        while self.peek() == ".":
            self.eat(); m = self.eat(); self.eat("("); ar = self.args(); self.eat(")")
            a = ("method", a, m, ar)
        return a

def big_term(e, params, locs):
    k = e[0]
    if k == "name":
        if e[1] in locs: return locs[e[1]]
        raise Unsupported("bare name %s (not a big integer)" % e[1])
    if k == "call":
        if e[1] == "KValue::bigint" and not e[2]: return "BigExpr.k"
        raise Unsupported("call " + e[1])
    if k == "method":
        recv, m, ar = e[1], e[2], e[3]
        if m in ("as_bigint", "to_bigint") and not ar:
            if recv[0] == "name" and recv[1] in params: return 'BigExpr.v "%s"' % recv[1]
            if recv == ("call", "Generator::default", []): return "BigExpr.g"
            if recv == ("call", "LargeSafePrime::default", []): return "BigExpr.n"
            raise Unsupported("%s() of %r" % (m, recv))
        if m == "modpow" and len(ar) == 2:
            return "BigExpr.modpow (%s) (%s) (%s)" % (big_term(recv, params, locs), big_term(ar[0], params, locs), big_term(ar[1], params, locs))
        raise Unsupported("method " + m)
    if k in ("mul", "add", "sub", "rem"):
        return "BigExpr.%s (%s) (%s)" % (k, big_term(e[1], params, locs), big_term(e[2], params, locs))
    raise Unsupported(k)

WRAPPERS = [(r"^PublicKey::try_from_bigint\((.*)\)$", "PublicKey::try_from_bigint"), (r"^PublicKey::client_try_from_bigint\((.*),\s*large_safe_prime\s*\)$", "PublicKey::client_try_from_bigint"),
            (r"^SKey::from_le_bytes\((.*)\.to_padded_32_byte_array_le\(\)\)$", "SKey::from_le_bytes(to_padded_32_byte_array_le)"),
            (r"^(.*)\.to_padded_32_byte_array_le\(\)$", "to_padded_32_byte_array_le"), (r"^(.*)\.into\(\)$", "into")]

def formula(repo, rel, fname):
    """returns (BigExpr term, wrapper name)"""
    try:
        text = gc.load(repo, rel)
        ms = list(re.finditer(r"fn\s+" + fname + r"\s*\(([^)]*)\)", text))
        if len(ms) != 1: raise gc.Missing("expected exactly one fn %s in %s, found %d" % (fname, rel, len(ms)))
        m = ms[0]
        params = set(p.split(":")[0].strip() for p in m.group(1).split(",") if p.strip())
        body = gc.fn_body(text, fname, rel, unique=True).strip()[1:-1]
    except gc.Missing as ex:
        return "BigExpr.unsupported %s" % lean_str(str(ex)), "?"
    body = re.sub(r"#\[[^\]]*\]", "", body)
    stmts = [s.strip() for s in body.split(";")]
    final = re.sub(r"\s+", " ", stmts[-1]).strip()
    locs = {}
    try:
        for st in [s for s in stmts[:-1] if s]:
            mm = re.fullmatch(r"let\s+(\w+)\s*=\s*(.*)", st, re.S)
            if not mm: raise Unsupported("statement " + re.sub(r"\s+", " ", st)[:80])
            name, rhs = mm.group(1), mm.group(2)
            # a local holding a Sha1Hash wrapper (e.g. `let x = calculate_x(..).as_bigint()`) is opaque: it is a parameter of the formula
            if re.sub(r"\s+", "", rhs) == "calculate_x(username,password,salt).as_bigint()" and name == "x":
                locs[name] = 'BigExpr.v "x"'; continue
            p = PB(rhs); e = p.expr()
            if p.peek() is not None: raise Unsupported("trailing tokens in " + rhs[:60])
            locs[name] = big_term(e, params, locs)
        wrap = "none"
        core = re.sub(r"\s+", "", final)
        for pat, nm in WRAPPERS:
            mm = re.match(pat, core)
            if mm:
                core, wrap = mm.group(1), nm; break
        p = PB(core); e = p.expr()
        if p.peek() is not None: raise Unsupported("trailing tokens in " + core[:60])
        return big_term(e, params, locs), wrap
    except Unsupported as ex:
        return "BigExpr.unsupported %s" % lean_str("%s: %s" % (fname, ex)), "?"

# ---------------------------------------------------------------------------------------------------------------
# SKey::as_equal_slice -> WowSrp.MiniScan.Prog

def scan_nexpr(t, svar):
    t = t.strip()
    while t.startswith("(") and t.endswith(")"):
        t = t[1:-1].strip()
    if t == "lead": return "NExpr.lead"
    if re.fullmatch(re.escape(svar) + r"\s*\.\s*len\s*\(\s*\)", t): return "NExpr.len"
    if re.fullmatch(r"\d+(?:usize)?", t): return "NExpr.lit %d" % gc.parse_int(t)
    if t.count("%") > 1: raise Unsupported("more than one % in " + t)
    m = re.fullmatch(r"(.+?)\s*%\s*(.+)", t)
    if m: return "NExpr.mod (%s) (%s)" % (scan_nexpr(m.group(1), svar), scan_nexpr(m.group(2), svar))
    raise Unsupported("expression " + t)

def scan_cond(t, svar):
    t = t.strip()
    if "&&" in t:
        a, b = t.split("&&", 1)
        return "Cond.and (%s) (%s)" % (scan_cond(a, svar), scan_cond(b, svar))
    m = re.fullmatch(re.escape(svar) + r"\s*\[(.+)\]\s*==\s*(\d+)", t)
    if m: return "Cond.byteEq (%s) %d" % (scan_nexpr(m.group(1), svar), int(m.group(2)))
    m = re.fullmatch(r"(.+?)\s*!=\s*(.+)", t)
    if m: return "Cond.ne (%s) (%s)" % (scan_nexpr(m.group(1), svar), scan_nexpr(m.group(2), svar))
    m = re.fullmatch(r"(.+?)\s*<\s*(.+)", t)
    if m: return "Cond.lt (%s) (%s)" % (scan_nexpr(m.group(1), svar), scan_nexpr(m.group(2), svar))
    raise Unsupported("condition " + t)

def strip_rule(repo):
    rel = "src/key.rs"
    bad = lambda why: "⟨0, [SStmt.unsupported %s]⟩" % lean_str(why)
    try:
        body = gc.fn_body(gc.load(repo, rel), "as_equal_slice", rel, unique=True)
    except gc.Missing as ex:
        return bad(str(ex))
    t = re.sub(r"\s+", " ", body.strip()[1:-1]).strip()
    m = re.fullmatch(r"let mut (\w+) = &self\.key\[\.\.\]; let mut lead = (\d+); (.*) \1 = &\1\[lead\.\.\]; \1", t)
    if not m:
        return bad("frame `let mut s = &self.key[..]; let mut lead = N; ..; s = &s[lead..]; s` not found: " + t[:200])
    svar, init, mid = m.group(1), int(m.group(2)), m.group(3)
    stmts = []
    pos = 0
    pat = re.compile(r"\s*(while|if) (.+?) \{ lead \+= (\d+); \}")
    while pos < len(mid):
        mm = pat.match(mid, pos)
        if not mm:
            stmts.append("SStmt.unsupported %s" % lean_str(mid[pos:pos + 160])); break
        try:
            stmts.append("SStmt.%s (%s) %d" % ("whileInc" if mm.group(1) == "while" else "ifInc", scan_cond(mm.group(2), svar), int(mm.group(3))))
        except Unsupported as ex:
            stmts.append("SStmt.unsupported %s" % lean_str("%s  [%s]" % (mm.group(0).strip(), ex)))
        pos = mm.end()
    return "⟨%d, [%s]⟩" % (init, ", ".join(stmts))

# ---------------------------------------------------------------------------------------------------------------
# RC4 pseudo-random generation step -> WowSrp.MiniRust.RStmt terms

SELF = ("name", "self")

def to_r(e, locs):
    k = e[0]
    if k == "call0" and e[2] == "into": return to_r(e[1], locs)
    if k == "field" and e[1] == SELF and e[2] in ("i", "j"): return "RExpr." + e[2]
    if k == "call0" and e[1] == SELF and e[2] == "s_i": return "RExpr.sI"
    if k == "call0" and e[1] == SELF and e[2] == "s_j": return "RExpr.sJ"
    if k == "lit": return "RExpr.lit %d" % e[1]
    if k == "name" and e[1] in locs: return 'RExpr.loc "%s"' % e[1]
    if k == "wrapping_add": return "RExpr.wadd (%s) (%s)" % (to_r(e[1], locs), to_r(e[2], locs))
    raise Unsupported("%r in an RC4 expression" % (e,))

def parse_full(txt):
    p = P(tokens(txt)); e = p.expr()
    if p.peek() is not None:
        raise Unsupported("trailing tokens in " + txt)
    return e

def rc4_prga(repo):
    rel = "src/rc4.rs"
    bad = lambda why: ('[RStmt.unsupported %s]' % lean_str(why), "RExpr.lit 0")
    try:
        text = gc.load(repo, rel)
        body = gc.fn_body(text, "pseudo_random_generation", rel, unique=True)
        norm = lambda s: re.sub(r"\s+", "", s)
        if norm(gc.fn_body(text, "s_i", rel, unique=True)) != "{self.state[self.iasusize]}" or norm(gc.fn_body(text, "s_j", rel, unique=True)) != "{self.state[self.jasusize]}":
            return bad("s_i / s_j are not `self.state[self.i as usize]` / `self.state[self.j as usize]`")
    except gc.Missing as ex:
        return bad(str(ex))
    inner = body.strip()[1:-1]
    parts = [s.strip() for s in inner.split(";")]
    stmts, locs = [], set()
    final = parts[-1]
    for st in [p for p in parts[:-1] if p]:
        try:
            m = re.fullmatch(r"self\s*\.\s*(i|j)\s*=\s*(.*)", st, re.S)
            if m:
                stmts.append("RStmt.set%s (%s)" % (m.group(1).upper(), to_r(parse_full(m.group(2)), set()))); continue
            m = re.fullmatch(r"self\s*\.\s*state\s*\.\s*swap\s*\((.*)\)", st, re.S)
            if m:
                args = [a for a in re.split(r",(?![^(]*\))", m.group(1)) if a.strip()]
                if len(args) != 2: raise Unsupported("swap arity")
                stmts.append("RStmt.swap (%s) (%s)" % (to_r(parse_full(args[0]), set()), to_r(parse_full(args[1]), set()))); continue
            m = re.fullmatch(r"let\s+(\w+)\s*:\s*usize\s*=\s*(.*)\.into\(\)", st, re.S)
            if m:
                # the value is computed in u8 (wrapping) and only then widened; it may be used as the table index and nowhere else
                stmts.append('RStmt.letv "%s" (%s)' % (m.group(1), to_r(parse_full(m.group(2)), set()))); locs.add(m.group(1)); continue
            raise Unsupported("statement form")
        except Unsupported as ex:
            stmts.append("RStmt.unsupported %s" % lean_str("%s  [%s]" % (re.sub(r"\s+", " ", st), ex)))
    try:
        m = re.fullmatch(r"self\s*\.\s*state\s*\[\s*(\w+)\s*\]", final, re.S)
        if not m or m.group(1) not in locs: raise Unsupported("result is not self.state[<usize local>]")
        res = 'RExpr.loc "%s"' % m.group(1)
    except Unsupported as ex:
        stmts.append("RStmt.unsupported %s" % lean_str("%s  [%s]" % (final, ex))); res = "RExpr.lit 0"
    return "[" + ", ".join(stmts) + "]", res

# ---------------------------------------------------------------------------------------------------------------
# header builders and parsers -> WowSrp.MiniLayout terms

WIDTH = {"u8": 1, "u16": 2, "u32": 4, "u64": 8}

def impl_fn(text, impl_header, fname, what):
    msk = gc.mask_literals(text)
    ms = list(re.finditer(impl_header, msk))
    if len(ms) != 1:
        raise gc.Missing("expected exactly one impl block %s in %s, found %d" % (impl_header, what, len(ms)))
    m = ms[0]
    i = msk.index("{", m.end() - 1)
    depth = 0
    for j in range(i, len(msk)):
        if msk[j] == "{": depth += 1
        elif msk[j] == "}":
            depth -= 1
            if depth == 0:
                blk = text[i:j + 1]; break
    else:
        raise gc.Missing("unbalanced impl block")
    mms = list(re.finditer(r"fn\s+" + fname + r"\s*\(([^)]*)\)", blk))
    if len(mms) != 1:
        raise gc.Missing("expected exactly one fn %s in %s, found %d" % (fname, what, len(mms)))
    mm = mms[0]
    if re.search(r"#\[cfg[^\]]*\]\s*(?:#\[[^\]]*\]\s*)*(?:pub(?:\([^)]*\))?\s+)?(?:const\s+)?$", blk[:mm.start()]):
        raise gc.Missing("fn %s in %s is behind a cfg attribute" % (fname, what))
    return mm.group(1), gc.fn_body(blk, fname, what, unique=True)

def builder_elements(block, widths, tail):
    """the elements of `let mut header = [..]` as LByte terms — but only when the WHOLE block is the frame
         let size = size.to_be_bytes(); let opcode = opcode.to_le_bytes(); [let m = set_large_header(size[k]);]
         let mut header = [..]; self.encrypt(&mut header); <tail>
       (whitespace removed; `tail` is the regex of what the function does with the encrypted header)"""
    flat = re.sub(r"\s+", "", block.strip())
    if flat.startswith("{") and flat.endswith("}"):
        flat = flat[1:-1]
    m = re.fullmatch(r"letsize=size\.to_(be|le)_bytes\(\);letopcode=opcode\.to_(be|le)_bytes\(\);"
                     r"(?:let(\w+)=set_large_header\(size\[(\d+)\]\);)?"
                     r"letmutheader=\[([^;]*)\];self\.encrypt\(&mutheader\);" + tail, flat)
    if not m or "size" not in widths or "opcode" not in widths:
        return ["LByte.unsupported %s" % lean_str("block is not the builder frame: " + flat[:200])]
    binds = {"size": ("size", m.group(1), widths["size"]), "opcode": ("opcode", m.group(2), widths["opcode"])}
    locs = {m.group(3): ("size", int(m.group(4)))} if m.group(3) else {}
    def elem(name, idx):
        if name not in binds:
            return "LByte.unsupported %s" % lean_str("%s[%d]" % (name, idx))
        f, order, w = binds[name]
        if idx >= w:
            return "LByte.unsupported %s" % lean_str("%s[%d]" % (name, idx))
        return "LByte.%s Field.%s %d %d" % (order, f, w, idx)
    out = []
    for e in [x for x in m.group(5).split(",") if x]:
        mm = re.fullmatch(r"(\w+)\[(\d+)\]", e)
        if mm:
            out.append(elem(mm.group(1), int(mm.group(2))))
        elif e in locs:
            out.append("LByte.setLarge (%s)" % elem(*locs[e]))
        else:
            out.append("LByte.unsupported %s" % lean_str(e))
    # the copy-back of the Wrath server (`self.server_header[i] = header[i];` for i = 0..n-1, in order) is part of the tail regex; check n
    n = len(out)
    cb = re.findall(r"self\.server_header\[(\d+)\]=header\[(\d+)\];", flat)
    if cb and [(str(k), str(k)) for k in range(n)] != cb:
        return ["LByte.unsupported %s" % lean_str("copy-back into server_header is not index by index: " + str(cb))]
    return out

def param_widths(params):
    w = {}
    for p in params.split(","):
        mm = re.fullmatch(r"\s*(\w+)\s*:\s*(u8|u16|u32|u64)\s*", p)
        if mm:
            w[mm.group(1)] = WIDTH[mm.group(2)]
    return w

def builder(repo, rel, impl_header, fname):
    try:
        params, body = impl_fn(gc.load(repo, rel), impl_header, fname, rel)
    except gc.Missing as ex:
        return ["LByte.unsupported %s" % lean_str(str(ex))]
    return builder_elements(body, param_widths(params), r"header")

def branching(repo, rel, impl_header, fname, consts):
    try:
        params, body = impl_fn(gc.load(repo, rel), impl_header, fname, rel)
    except gc.Missing as ex:
        return 0, ["LByte.unsupported %s" % lean_str(str(ex))], []
    w = param_widths(params)
    flat = re.sub(r"\s+", "", body.strip())
    m = re.fullmatch(r"\{ifsize>([A-Za-z0-9_]+)\{(.*)\}else\{(.*)\}\}", flat)
    if not m or "{" in m.group(2) or "{" in m.group(3):
        return 0, ["LByte.unsupported %s" % lean_str("body is not exactly `if size > X { .. } else { .. }`")], []
    tok = m.group(1)
    if re.fullmatch(r"0x[0-9A-Fa-f_]+|\d[\d_]*", tok):
        thr = gc.parse_int(tok)
    else:
        mm = re.search(r"const\s+" + tok + r"\s*:\s*\w+\s*=\s*(0x[0-9A-Fa-f_]+|\d[\d_]*)\s*;", gc.load(repo, rel))
        if not mm:
            return 0, ["LByte.unsupported %s" % lean_str("threshold " + tok)], []
        thr = gc.parse_int(mm.group(1))
    copy = r"(?:self\.server_header\[\d+\]=header\[\d+\];)+"
    large = builder_elements(m.group(2), w, copy + r"&self\.server_header")
    small = builder_elements(m.group(3), w, copy + r"&self\.server_header\[0\.\.SERVER_HEADER_MINIMUM_LENGTHasusize\]")
    return thr, large, small

def parser(repo, rel, impl_header, fname, consts):
    bad = 'ParseSpec.mk 0 Order.be [] Order.le [] false'
    try:
        params, body = impl_fn(gc.load(repo, rel), impl_header, fname, rel)
    except gc.Missing:
        return bad
    m = re.fullmatch(r"\s*(\w+)\s*:\s*\[\s*u8\s*;\s*([^\]]+)\]\s*", params)
    if not m:
        return bad
    arr = m.group(1)
    c = gc.Consts(); c.vals.update(consts)
    try:
        n = c.eval(m.group(2))
    except gc.Missing:
        return bad
    flat = re.sub(r"\s+", "", body.strip())
    fm = re.fullmatch(r"\{(?:let(\w+)=clear_large_header\(" + arr + r"\[(\d+)\]\);)?"
                      r"letsize(?::u(?:16|32))?=u(16|32)::from_(be|le)_bytes\(\[([^;]*)\]\);"
                      r"letopcode(?::u(?:16|32))?=u(16|32)::from_(be|le)_bytes\(\[([^;]*)\]\);"
                      r"Self\{(size|size:sizeasu32),opcode,?\}\}", flat)
    if not fm:
        return bad
    locs = {fm.group(1): "PByte.loc (PByte.clearLarge (PByte.at %d))" % int(fm.group(2))} if fm.group(1) else {}
    def elems(txt, width):
        out = []
        for e in [x for x in txt.split(",") if x]:
            mm = re.fullmatch(arr + r"\[(\d+)\]", e)
            if mm and int(mm.group(1)) < n: out.append("PByte.at %d" % int(mm.group(1)))
            elif e == "0": out.append("PByte.zero")
            elif e in locs: out.append(locs[e])
            else: out.append("PByte.unsupported %s" % lean_str(e))
        if len(out) != width:
            out.append("PByte.unsupported %s" % lean_str("%d bytes given to a %d-byte integer" % (len(out), width)))
        return out
    sz = elems(fm.group(5), int(fm.group(3)) // 8)
    op = elems(fm.group(8), int(fm.group(6)) // 8)
    # `size as u32` only widens a u16
    if fm.group(9) != "size" and fm.group(3) != "16":
        return bad
    ok = "true" if not any("unsupported" in x for x in sz + op) else "false"
    return "ParseSpec.mk %d Order.%s [%s] Order.%s [%s] %s" % (n, fm.group(4), ", ".join(sz), fm.group(7), ", ".join(op), ok)

def main():
    repo, outp = sys.argv[1], sys.argv[2]
    # u8 constants the loop bodies may name
    consts = {}
    c = gc.Consts()
    for rel, names in (("src/primes.rs", ["LARGE_SAFE_PRIME_LENGTH", "GENERATOR_LENGTH"]),
                       ("src/key.rs", ["SALT_LENGTH", "PRIVATE_KEY_LENGTH", "PUBLIC_KEY_LENGTH", "SHA1_HASH_LENGTH", "PASSWORD_VERIFIER_LENGTH", "PROOF_LENGTH", "S_LENGTH",
                                       "RECONNECT_CHALLENGE_DATA_LENGTH", "SESSION_KEY_LENGTH"])):
        try:
            text = gc.load(repo, rel)
        except gc.Missing:
            continue
        for n in names:
            try:
                consts[n] = c.scalar(text, n, rel)
            except gc.Missing:
                pass
    L = []
    for name, rel, fn in (("vanillaEncryptBody", "src/vanilla_header/encrypt.rs", "encrypt"), ("vanillaDecryptBody", "src/vanilla_header/decrypt.rs", "decrypt"),
                          ("tbcEncryptBody", "src/tbc_header/encrypt.rs", "encrypt"), ("tbcDecryptBody", "src/tbc_header/decrypt.rs", "decrypt")):
        try:
            stmts = translate(repo, rel, fn, consts)
        except gc.Missing as ex:
            stmts = ["Stmt.unsupported %s" % lean_str(str(ex))]
        L.append("/-- loop body of `%s` in %s, translated from the working tree -/\ndef %s : List Stmt := [\n  %s]" % (fn, rel, name, ",\n  ".join(stmts)))
    # header constants for array lengths
    for rel, names in (("src/vanilla_header/mod.rs", ["CLIENT_HEADER_LENGTH", "SERVER_HEADER_LENGTH"]),):
        try:
            t = gc.load(repo, rel)
            for n in names: consts[n] = c.scalar(t, n, rel)
        except gc.Missing:
            pass
    wconsts = dict(consts)
    try:
        t = gc.load(repo, "src/wrath_header/mod.rs"); c2 = gc.Consts()
        for n in ("CLIENT_HEADER_LENGTH", "SERVER_HEADER_MINIMUM_LENGTH", "SERVER_HEADER_MAXIMUM_LENGTH"): wconsts[n] = c2.scalar(t, n, "wrath_header/mod.rs")
    except gc.Missing:
        pass
    B = []
    for name, rel, hdr, fn in (("vanillaServerHeaderLayout", "src/vanilla_header/encrypt.rs", r"impl\s+EncrypterHalf\s*\{", "encrypt_server_header"),
                               ("vanillaClientHeaderLayout", "src/vanilla_header/encrypt.rs", r"impl\s+EncrypterHalf\s*\{", "encrypt_client_header"),
                               ("tbcServerHeaderLayout", "src/tbc_header/encrypt.rs", r"impl\s+EncrypterHalf\s*\{", "encrypt_server_header"),
                               ("tbcClientHeaderLayout", "src/tbc_header/encrypt.rs", r"impl\s+EncrypterHalf\s*\{", "encrypt_client_header"),
                               ("wrathClientHeaderLayout", "src/wrath_header/encrypt.rs", r"impl\s+ClientEncrypterHalf\s*\{", "encrypt_client_header")):
        B.append("/-- `[..]` literal of `%s` in %s -/\ndef %s : List LByte := [%s]" % (fn, rel, name, ", ".join(builder(repo, rel, hdr, fn))))
    thr, lg, sm = branching(repo, "src/wrath_header/encrypt.rs", r"impl\s+ServerEncrypterHalf\s*\{", "encrypt_server_header", wconsts)
    B.append("/-- the two branches of Wrath `encrypt_server_header` -/\ndef wrathServerHeaderLayout : Branching := ⟨%d, [%s], [%s]⟩" % (thr, ", ".join(lg), ", ".join(sm)))
    for name, rel, hdr, fn, cs in (("vanillaServerHeaderParse", "src/vanilla_header/mod.rs", r"impl\s+ServerHeader\s*\{", "from_array", consts),
                                   ("vanillaClientHeaderParse", "src/vanilla_header/mod.rs", r"impl\s+ClientHeader\s*\{", "from_array", consts),
                                   ("wrathSmallHeaderParse", "src/wrath_header/mod.rs", r"impl\s+ServerHeader\s*\{", "from_small_array", wconsts),
                                   ("wrathLargeHeaderParse", "src/wrath_header/mod.rs", r"impl\s+ServerHeader\s*\{", "from_large_array", wconsts)):
        B.append("/-- `%s` in %s -/\ndef %s : ParseSpec := %s" % (fn, rel, name, parser(repo, rel, hdr, fn, cs)))
    for name, rel, fn in (("passwordVerifierFormula", "src/srp_internal.rs", "calculate_password_verifier"), ("serverPublicKeyFormula", "src/srp_internal.rs", "calculate_server_public_key"),
                          ("serverSFormula", "src/srp_internal.rs", "calculate_S"), ("clientPublicKeyFormula", "src/srp_internal_client.rs", "calculate_client_public_key"),
                          ("clientSFormula", "src/srp_internal_client.rs", "calculate_client_S")):
        term, wrap = formula(repo, rel, fn)
        B.append("/-- the big-integer formula of `%s` in %s and the conversion applied to its result -/\ndef %s : BigExpr := %s\ndef %sWrap : String := %s" % (fn, rel, name, term, name, lean_str(wrap)))
    B.append("/-- `SKey::as_equal_slice` in src/key.rs -/\ndef asEqualSlice : Prog := %s" % strip_rule(repo))
    rs, rr = rc4_prga(repo)
    B.append("/-- `Rc4::pseudo_random_generation` in src/rc4.rs: statements and the index of the returned table entry -/\ndef rc4PrgaBody : List RStmt := %s\ndef rc4PrgaResult : RExpr := %s" % (rs, rr))
    text = ("/- GENERATED by tools/gen_code.py from the Rust sources on every run. Do not edit. -/\nimport WowSrp.Model.MiniRust\nimport WowSrp.Model.MiniLayout\nimport WowSrp.Model.MiniRc4\nimport WowSrp.Model.MiniScan\nimport WowSrp.Model.MiniBig\n"
            "namespace WowSrp.Gen.Code\nopen WowSrp.MiniRust WowSrp.MiniLayout WowSrp.MiniRc4 WowSrp.MiniScan WowSrp.MiniBig\n\n" + "\n\n".join(L + B) + "\n\nend WowSrp.Gen.Code\n")
    old = open(outp).read() if os.path.exists(outp) else None
    if old != text:
        os.makedirs(os.path.dirname(outp), exist_ok=True)
        open(outp, "w").write(text)
        print("gen_code: wrote", outp)
    else:
        print("gen_code: unchanged")
    # the imperative loops (pin.rs, matrix_card.rs) go to their own file, Gen/CodeImp.lean: their obligations rebuild and break separately
    import gen_imp
    rc_imp = gen_imp.main(repo, os.path.join(os.path.dirname(outp), "CodeImp.lean"))
    import gen_str
    rc_imp = gen_str.main(repo, os.path.join(os.path.dirname(outp), "CodeStr.lean")) or rc_imp
    import gen_ksa
    rc_imp = gen_ksa.main(repo, os.path.join(os.path.dirname(outp), "CodeKsa.lean")) or rc_imp
    import gen_ilv
    rc_imp = gen_ilv.main(repo, os.path.join(os.path.dirname(outp), "CodeIlv.lean")) or rc_imp
    import gen_api
    rc_imp = gen_api.main(repo, os.path.join(os.path.dirname(outp), "CodeApi.lean")) or rc_imp
    import gen_hash
    rc_imp = gen_hash.main(repo, os.path.join(os.path.dirname(outp), "CodeHash.lean")) or rc_imp
    if "unsupported" in text or "[] Order.le [] false" in text or rc_imp:
        print("gen_code: source outside the translated subset (Stmt.unsupported emitted)", file=sys.stderr)
        sys.exit(3)

if __name__ == "__main__":
    main()
