#!/bin/sh
# MANIFEST.setup_cmd: build everything from files on disk, offline.
set -e
cd "$(dirname "$0")"
export CARGO_NET_OFFLINE=true
mkdir -p work evidence
python3 tools/gen_constants.py /repo lean/WowSrp/Gen/Constants.lean
python3 tools/gen_code.py /repo lean/WowSrp/Gen/Code.lean
MODS=$(python3 - <<'PY'
import sys, importlib
sys.path.insert(0, "tools")
seen = []
for i in range(1, 20):
    for m in importlib.import_module("props.c%02d" % i).MODULES:
        if m not in seen: seen.append(m)
print(" ".join(seen))
PY
)
(cd lean && lake build wowsrp_model WowSrp $MODS WowSrp.Props.C09Vectors WowSrp.Props.CryptoVectors WowSrp.Props.System)
(cd harness && cargo build --release --offline)
(cd harness && C_INCLUDE_PATH="$PWD/gmp_compat" cargo build --release --offline --no-default-features --features fast-math --target-dir target-fast)
# third build: the same harness with debug assertions on (profile-dependent behaviour, see tools/verif.py build_harness)
(cd harness && CARGO_PROFILE_RELEASE_DEBUG_ASSERTIONS=true cargo build --release --offline --target-dir target-dbg)
# regression corpus of the translators (informative; it edits scratch copies of the source as it is now, so it must never fail the setup)
python3 tools/translator_selftest.py > work/translator_selftest.log 2>&1 || echo "translator self-test: see work/translator_selftest.log"
python3 tools/translator_probes.py > work/translator_probes.log 2>&1 || echo "translator probes: see work/translator_probes.log"
# the Python oracle against the repository's own published vectors (tests/srp6_internal/*.txt, 14 files x 1000); informative
python3 tools/vectors.py > work/vectors.log 2>&1 || echo "oracle vs published vectors: see work/vectors.log"
echo setup done
