#!/bin/sh
# MANIFEST.setup_cmd: build everything from files on disk, offline.
set -e
cd "$(dirname "$0")"
export CARGO_NET_OFFLINE=true
mkdir -p work evidence
python3 tools/gen_constants.py /repo lean/WowSrp/Gen/Constants.lean
(cd lean && lake build wowsrp_model WowSrp)
(cd harness && cargo build --release --offline)
(cd harness && C_INCLUDE_PATH="$PWD/gmp_compat" cargo build --release --offline --no-default-features --features fast-math --target-dir target-fast)
echo setup done
