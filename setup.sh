#!/bin/sh
# MANIFEST.setup_cmd: build everything from files on disk, offline.
set -e
cd "$(dirname "$0")"
export CARGO_NET_OFFLINE=true
mkdir -p work evidence
python3 tools/gen_constants.py /repo lean/WowSrp/Gen/Constants.lean
(cd lean && lake build wowsrp_model WowSrp WowSrp.Props.C01 WowSrp.Props.C02 WowSrp.Props.C03 WowSrp.Props.C04 WowSrp.Props.C05 WowSrp.Props.C06 WowSrp.Props.C07 WowSrp.Props.C08 WowSrp.Props.C09 WowSrp.Props.C09Vectors WowSrp.Props.C10 WowSrp.Props.C11 WowSrp.Props.C11Wrath WowSrp.Props.C12 WowSrp.Props.C12Wrath WowSrp.Props.C13 WowSrp.Props.C14 WowSrp.Props.C15 WowSrp.Props.C15Rng WowSrp.Props.C16 WowSrp.Props.C17 WowSrp.Props.C18 WowSrp.Props.C19 WowSrp.Props.CryptoVectors WowSrp.Props.System WowSrp.Props.Source.C01 WowSrp.Props.Source.C02 WowSrp.Props.Source.C03 WowSrp.Props.Source.C05 WowSrp.Props.Source.C06 WowSrp.Props.Source.C08 WowSrp.Props.Source.C09 WowSrp.Props.Source.C16 WowSrp.Props.Source.C17 WowSrp.Props.Source.C18)
(cd harness && cargo build --release --offline)
(cd harness && C_INCLUDE_PATH="$PWD/gmp_compat" cargo build --release --offline --no-default-features --features fast-math --target-dir target-fast)
echo setup done
