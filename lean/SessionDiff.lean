/-
Differential check (test, not proof): the typed `WowSrp.HObj.step` / `run` of Model/Session.lean against the
string-level `hdrOp` / `hdrRun` of Driver.lean, on pseudo-random op lists over all object forms.
Every op is rendered to the driver's token, every typed answer to the driver's result string, and the two
result lists are compared (a panic on either side is compared too).

  lake build +Driver WowSrp.Model.Session && lake env lean SessionDiff.lean

Not part of any build target.
-/
import Driver
import WowSrp.Model.Session

namespace SessionDiff
open WowSrp (Bytes hex REv WEv Out HOp HOut)

def revTok : REv → String
  | .data bs => "D" ++ hex bs
  | .interrupted => "I"
  | .err k => s!"E{k}"
  | .eof => "Z"
def wevTok : WEv → String
  | .accept n => s!"A{n}"
  | .interrupted => "I"
  | .err k => s!"E{k}"
def listTok {α} (f : α → String) (l : List α) : String :=
  if l.isEmpty then "-" else ",".intercalate (l.map f)

def opTok : HOp → String
  | .enc d => "e:" ++ hex d
  | .dec d => "d:" ++ hex d
  | .encServer s o => s!"es:{s}:{o}"
  | .encClient s o => s!"ec:{s}:{o}"
  | .decServer w => "ds:" ++ hex w
  | .decClient w => "dc:" ++ hex w
  | .readServer sc => "rs:" ++ listTok revTok sc
  | .readClient sc => "rc:" ++ listTok revTok sc
  | .writeServer s o sc => s!"ws:{s}:{o}:" ++ listTok wevTok sc
  | .writeClient s o sc => s!"wc:{s}:{o}:" ++ listTok wevTok sc
  | .attempt w => "at:" ++ hex w
  | .large b => "lg:" ++ hex [b]
  | .split => "split"
  | .unsplit => "unsplit"
  | .clone => "clone"

def outStr (op : HOp) : HOut → String
  | .bytes b => hex b
  | .header s o => match op with
    | .attempt _ => s!"h:{s}:{o}"
    | _ => s!"{s}:{o}"
  | .readOk s o u => s!"ok:{s}:{o}:u{u}"
  | .readErr k u same => s!"err:{k}:u{u}:same{if same then "1" else "0"}"
  | .writeOk sink => s!"ok:{hex sink}"
  | .writeErr k sink => s!"err:{k}:{hex sink}"
  | .more => "more"
  | .done => "ok"
  | .refused => "err"
  | .na => "na"

def conv : WowSrp.HObj → _root_.HObj
  | .comb e hc => .comb e hc
  | .halves e en de => .halves e en de
  | .wcli c => .wcli c
  | .wsrv c => .wsrv c
  | .wcliH en de => .wcliH en de
  | .wsrvH en de => .wsrvH en de

/-- typed side: answers rendered, or "panic" -/
def typedRun (o : WowSrp.HObj) (ops : List HOp) : String :=
  match o.run ops with
  | .ok (_, outs) => " ".intercalate ((ops.zip outs).map fun (op, out) => outStr op out)
  | .panic _ => "panic"

/-- driver side -/
def driverRun (o : WowSrp.HObj) (ops : List HOp) : String :=
  match (hdrRun (conv o) (ops.map opTok)).run ⟨[], 0⟩ with
  | .ok (rs, _) => " ".intercalate rs
  | .error e => e

/-! pseudo-random op lists -/
def lcg (s : Nat) : Nat := (s * 6364136223846793005 + 1442695040888963407) % 18446744073709551616

def genBytes (s n : Nat) : Bytes × Nat := Id.run do
  let mut s := s
  let mut out : Bytes := []
  for _ in [0:n] do
    s := lcg s
    out := UInt8.ofNat (s / 65536 % 256) :: out
  return (out, s)

def genREvs (s : Nat) : List REv × Nat := Id.run do
  let mut s := lcg s
  let n := s / 65536 % 5
  let mut out : List REv := []
  for _ in [0:n] do
    s := lcg s
    let k := s / 65536 % 8
    s := lcg s
    let len := s / 65536 % 7
    let (bs, s') := genBytes s len
    s := s'
    let ev : REv := if k < 5 then .data bs else if k == 5 then .interrupted else if k == 6 then .err (s / 65536 % 40) else .eof
    out := ev :: out
  return (out, s)

def genWEvs (s : Nat) : List WEv × Nat := Id.run do
  let mut s := lcg s
  let n := s / 65536 % 4
  let mut out : List WEv := []
  for _ in [0:n] do
    s := lcg s
    let k := s / 65536 % 6
    s := lcg s
    let ev : WEv := if k < 4 then .accept (s / 65536 % 5) else if k == 4 then .interrupted else .err (s / 65536 % 40)
    out := ev :: out
  return (out, s)

/-- `strict`: array arguments always have their Rust length; otherwise sometimes a wrong length (both sides must panic) -/
def genOp (strict : Bool) (s : Nat) : HOp × Nat := Id.run do
  let s := lcg s
  let k := s / 65536 % 15
  let s := lcg s
  let a := s / 65536 % 9000000
  let s := lcg s
  let b := s / 65536 % 70000
  let s := lcg s
  let bad := !strict && s / 65536 % 10 == 0
  match k with
  | 0 => let (d, s) := genBytes s (a % 9); (.enc d, s)
  | 1 => let (d, s) := genBytes s (a % 9); (.dec d, s)
  | 2 => (.encServer a b, s)
  | 3 => (.encClient a (b * 70001), s)
  | 4 => let (d, s) := genBytes s (if bad then a % 7 else 4); (.decServer d, s)
  | 5 => let (d, s) := genBytes s (if bad then a % 9 else 6); (.decClient d, s)
  | 6 => let (sc, s) := genREvs s; (.readServer sc, s)
  | 7 => let (sc, s) := genREvs s; (.readClient sc, s)
  | 8 => let (sc, s) := genWEvs s; (.writeServer a b sc, s)
  | 9 => let (sc, s) := genWEvs s; (.writeClient a (b * 70001) sc, s)
  | 10 => let (d, s) := genBytes s (if bad then a % 7 else 4); (.attempt d, s)
  | 11 => (.large (UInt8.ofNat a), s)
  | 12 => (.split, s)
  | 13 => (.unsplit, s)
  | _ => (.clone, s)

def genOps (strict : Bool) (s n : Nat) : List HOp × Nat := Id.run do
  let mut s := s
  let mut out : List HOp := []
  for _ in [0:n] do
    let (op, s') := genOp strict s
    s := s'
    out := op :: out
  return (out, s)

def key40 : Bytes := (List.range 40).map fun i => UInt8.ofNat (31 * i + 5)

def objects : List (String × WowSrp.HObj) :=
  let v := WowSrp.HeaderCrypto.new C .vanilla key40
  let t := WowSrp.HeaderCrypto.new C .tbc key40
  let base : List (String × WowSrp.HObj) :=
    [("vanilla comb", .comb .vanilla v), ("vanilla halves", .halves .vanilla v.encrypt v.decrypt),
     ("tbc comb", .comb .tbc t), ("tbc halves", .halves .tbc t.encrypt t.decrypt)]
  let wc := match WowSrp.WClientCrypto.new C key40 with
    | .ok c => [("wrath client", WowSrp.HObj.wcli c), ("wrath client halves", .wcliH c.encrypt c.decrypt)]
    | .panic _ => []
  let ws := match WowSrp.WServerCrypto.new C key40 with
    | .ok c => [("wrath server", WowSrp.HObj.wsrv c), ("wrath server halves", .wsrvH c.encrypt c.decrypt)]
    | .panic _ => []
  base ++ wc ++ ws

/-- (lists run, ops run, lists that panicked on both sides, mismatches) per object -/
def check (strict : Bool) (lists len : Nat) : List (String × Nat × Nat × Nat × List (List String)) :=
  objects.map fun (name, o) => Id.run do
    let mut s := 12345 + name.length
    let mut bad : List (List String) := []
    let mut panics := 0
    for _ in [0:lists] do
      let (ops, s') := genOps strict s len
      s := s'
      let a := typedRun o ops
      let b := driverRun o ops
      if a == "panic" && b == "panic" then panics := panics + 1
      if a != b then bad := (ops.map opTok ++ ["typed: " ++ a, "driver: " ++ b]) :: bad
    return (name, lists, lists * len, panics, bad.take 2)

#eval check true 150 14
#eval check false 150 14

end SessionDiff
