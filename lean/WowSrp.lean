-- root of the library: the model (import-free). Property modules (WowSrp.Props.*) are built by name —
-- helper-lemma files written independently for different properties reuse a few lemma names, so they are
-- deliberately not imported into one environment.
import WowSrp.Model.Srp
import WowSrp.Model.World
import WowSrp.Model.Pin
import WowSrp.Model.Integrity
import WowSrp.Model.MatrixCard
import WowSrp.Model.BigIntLib
