-- root of the library: every model, spec, lemma and property module
import WowSrp.Model.Srp
import WowSrp.Model.World
import WowSrp.Model.Pin
import WowSrp.Model.Integrity
import WowSrp.Model.MatrixCard
import WowSrp.Lemmas.Pratt
import WowSrp.Lemmas.SrpAlgebra
import WowSrp.Props.C04
import WowSrp.Props.C07
import WowSrp.Props.C13
