-- This module serves as the root of the `WowSrp` library.
-- Import modules here that should be built as part of the library.
import WowSrp.Basic
