-- root of the library: every model, spec, lemma and property module
import WowSrp.Model.Srp
import WowSrp.Model.World
import WowSrp.Model.Pin
import WowSrp.Model.Integrity
import WowSrp.Model.MatrixCard
import WowSrp.Props.C07
