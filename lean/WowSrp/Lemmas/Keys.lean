/-
Helper lemmas for C04 (public-key validation, `src/key.rs`).
Core only. The few little-endian and `powMod` facts needed here are proved locally in namespace
`Keys` (a fuller `Lemmas/LE.lean` is written separately; nothing here depends on it).
-/
import WowSrp.Model.Srp
namespace WowSrp
namespace Keys

/-! ### little-endian encoding -/

theorem ofLE_toLE (n : Nat) : ofLE (toLE n) = n := by
  induction n using Nat.strongRecOn with
  | _ n ih =>
    unfold toLE
    split
    · next h => simp [ofLE, h]
    · next h =>
      simp only [ofLE]
      rw [ih (n / 256) (by omega)]
      have : (UInt8.ofNat (n % 256)).toNat = n % 256 := by
        simp [UInt8.toNat_ofNat']
      rw [this]; omega

theorem ofLE_append (a b : Bytes) : ofLE (a ++ b) = ofLE a + 256 ^ a.length * ofLE b := by
  induction a with
  | nil => simp [ofLE]
  | cons x xs ih => simp only [List.cons_append, ofLE, ih, List.length_cons, Nat.pow_succ]; grind

theorem ofLE_replicate_zero (k : Nat) : ofLE (List.replicate k 0) = 0 := by
  induction k with
  | zero => rfl
  | succ k ih => simp [List.replicate_succ, ofLE, ih]

theorem ofLE_lt (bs : Bytes) : ofLE bs < 256 ^ bs.length := by
  induction bs with
  | nil => simp [ofLE]
  | cons b bs ih =>
    simp only [ofLE, List.length_cons, Nat.pow_succ]
    have := b.toNat_lt
    omega

theorem toLE_length_le (n k : Nat) (h : n < 256 ^ k) : (toLE n).length ≤ k := by
  induction k generalizing n with
  | zero => simp at h; subst h; simp [toLE]
  | succ k ih =>
    unfold toLE
    split
    · simp
    · simp only [List.length_cons]
      have : n / 256 < 256 ^ k := by
        rw [Nat.pow_succ] at h; omega
      have := ih _ this; omega

theorem ofLE_inj : ∀ (a b : Bytes), a.length = b.length → ofLE a = ofLE b → a = b
  | [], [], _, _ => rfl
  | x :: xs, y :: ys, hl, h => by
    simp only [ofLE] at h
    have hx := x.toNat_lt; have hy := y.toNat_lt
    have h1 : x.toNat = y.toNat := by omega
    have h2 : ofLE xs = ofLE ys := by omega
    have := ofLE_inj xs ys (by simpa using hl) h2
    have hxy : x = y := UInt8.toNat_inj.mp h1
    rw [this, hxy]
  | [], _ :: _, hl, _ => by simp at hl
  | _ :: _, [], hl, _ => by simp at hl

/-- the value is zero exactly when every byte is (any length) -/
theorem ofLE_eq_zero_iff (k : Bytes) : ofLE k = 0 ↔ k.all (· == 0) = true := by
  induction k with
  | nil => simp [ofLE]
  | cons b bs ih =>
    simp only [ofLE, List.all_cons, Bool.and_eq_true, beq_iff_eq, ← ih]
    constructor
    · intro h
      exact ⟨UInt8.toNat_inj.mp (by simp; omega), by omega⟩
    · rintro ⟨rfl, h⟩; simp [h]

/-- both back ends' `to_bytes_le` decode to the number and fit its width (num-bigint's `[0]` for zero
    included) -/
theorem toBytesLe_spec (be : Backend) (n w : Nat) (hw : 1 ≤ w) (h : n < 256 ^ w) :
    ofLE (be.toBytesLe n) = n ∧ (be.toBytesLe n).length ≤ w := by
  cases be with
  | rug => exact ⟨ofLE_toLE n, toLE_length_le n w h⟩
  | num =>
    show ofLE (if n = 0 then [0] else toLE n) = n ∧ (if n = 0 then [0] else toLE n).length ≤ w
    by_cases h0 : n = 0
    · subst h0; exact ⟨rfl, by simpa using hw⟩
    · rw [if_neg h0]; exact ⟨ofLE_toLE n, toLE_length_le n w h⟩

/-- the copy into a zeroed `[u8; w]` succeeds for values below `256^w`, and decodes to the value -/
theorem padCopy_toBytesLe (be : Backend) (n w : Nat) (site : String) (hw : 1 ≤ w) (h : n < 256 ^ w) :
    ∃ key, padCopy w (be.toBytesLe n) site = .ok key ∧ key.length = w ∧ ofLE key = n := by
  obtain ⟨h1, h2⟩ := toBytesLe_spec be n w hw h
  refine ⟨be.toBytesLe n ++ List.replicate (w - (be.toBytesLe n).length) 0, by simp [padCopy, h2],
    by simp; omega, ?_⟩
  rw [ofLE_append, ofLE_replicate_zero, h1]; simp

/-! ### `powMod` is modular exponentiation (every modulus, zero included) -/

theorem powModAux_mod (fuel b e m acc : Nat) (hf : e < 2 ^ fuel) :
    powModAux fuel b e m acc % m = acc * b ^ e % m := by
  induction fuel generalizing b e acc with
  | zero =>
    have : e = 0 := by simpa using hf
    subst this; simp [powModAux]
  | succ n ih =>
    unfold powModAux
    split
    · next h => subst h; simp
    · next h =>
      have hlt : e / 2 < 2 ^ n := by
        rw [Nat.pow_succ] at hf; omega
      rw [ih _ _ _ hlt]
      have hsq : (b * b % m) ^ (e / 2) % m = b ^ (2 * (e / 2)) % m := by
        rw [← Nat.pow_mod, Nat.pow_mul, Nat.pow_two]
      rcases Nat.mod_two_eq_zero_or_one e with h0 | h1
      · have he : e = 2 * (e / 2) := by omega
        simp only [h0, Nat.zero_ne_one, if_false]
        rw [Nat.mul_mod, hsq, ← Nat.mul_mod, ← he]
      · have he : e = 2 * (e / 2) + 1 := by omega
        simp only [h1, if_true]
        rw [Nat.mul_mod, Nat.mod_mod, hsq, ← Nat.mul_mod]
        conv => rhs; rw [he, Nat.pow_succ]
        congr 1
        rw [Nat.mul_assoc, Nat.mul_comm b]

theorem powModAux_reduced (fuel b e m acc : Nat) (hacc : acc % m = acc) :
    powModAux fuel b e m acc % m = powModAux fuel b e m acc := by
  induction fuel generalizing b e acc with
  | zero => simpa [powModAux] using hacc
  | succ n ih =>
    unfold powModAux
    split
    · exact hacc
    · apply ih
      split
      · exact Nat.mod_mod _ _
      · exact hacc

theorem powMod_spec (b e m : Nat) : powMod b e m = b ^ e % m := by
  unfold powMod
  rw [← powModAux_reduced _ _ _ _ _ (Nat.mod_mod 1 m),
    powModAux_mod _ _ _ _ _ Nat.lt_log2_self, Nat.mul_mod, Nat.mod_mod, ← Nat.pow_mod,
    ← Nat.mul_mod, Nat.one_mul]

/-- `modpow` on a natural-number base is the residue of the power -/
theorem modpowVal_nat (g e m : Nat) : modpowVal (g : Int) e m = g ^ e % m := by
  unfold modpowVal
  rw [powMod_spec]
  have : ((g : Int) % (m : Int)).toNat = g % m := by
    rw [← Int.natCast_emod]; rfl
  rw [this, ← Nat.pow_mod]

theorem modpowVal_lt (base : Int) (e m : Nat) (hm : 0 < m) : modpowVal base e m < m := by
  unfold modpowVal
  rw [powMod_spec]
  exact Nat.mod_lt _ hm

/-! ### the modulus -/

theorem prime_length : Gen.largeSafePrimeLE.length = 32 := by decide
theorem nBig_lt : nBig < 2 ^ 256 := by decide +kernel
theorem two_nBig_ge : 2 ^ 256 ≤ 2 * nBig := by decide +kernel
theorem nBig_pos : 0 < nBig := by decide +kernel

theorem pow_256_32 : 256 ^ 32 = 2 ^ 256 := by decide +kernel

theorem ofLE_lt_of_length (k : Bytes) (hk : k.length = 32) : ofLE k < 2 ^ 256 := by
  have := ofLE_lt k
  rw [hk, pow_256_32] at this
  exact this

/-- below `2^256` the only multiples of `N` are `0` and `N` (since `2 N ≥ 2^256`) -/
theorem only_two (x : Nat) (hx : x < 2 ^ 256) : x % nBig = 0 ↔ x = 0 ∨ x = nBig := by
  constructor
  · intro h
    obtain ⟨q, rfl⟩ := Nat.dvd_of_mod_eq_zero h
    have h2 := two_nBig_ge
    have hq : q < 2 := by
      apply Decidable.byContradiction
      intro hq
      have : nBig * 2 ≤ nBig * q := Nat.mul_le_mul_left _ (by omega)
      omega
    have : q = 0 ∨ q = 1 := by omega
    rcases this with rfl | rfl
    · left; simp
    · right; simp
  · rintro (rfl | rfl) <;> simp

/-! ### `check_public_key` -/

theorem beq_prime_iff (k : Bytes) (hk : k.length = 32) :
    (k == Gen.largeSafePrimeLE) = true ↔ ofLE k = nBig := by
  rw [beq_iff_eq]
  constructor
  · rintro rfl; rfl
  · intro h; exact ofLE_inj _ _ (by rw [hk, prime_length]) h

theorem check_zero (k : Bytes) (h : ofLE k = 0) : checkPublicKey k = .error .isZero := by
  unfold checkPublicKey
  rw [if_pos ((ofLE_eq_zero_iff k).mp h)]

theorem check_prime (k : Bytes) (hk : k.length = 32) (h : ofLE k = nBig) :
    checkPublicKey k = .error .modIsZero := by
  unfold checkPublicKey
  have hz : ¬ k.all (· == 0) = true := by
    rw [← ofLE_eq_zero_iff, h]; have := nBig_pos; omega
  rw [if_neg hz, if_pos ((beq_prime_iff k hk).mpr h)]

theorem check_ok (k : Bytes) (hk : k.length = 32) (h0 : ofLE k ≠ 0) (hN : ofLE k ≠ nBig) :
    checkPublicKey k = .ok () := by
  unfold checkPublicKey
  have hz : ¬ k.all (· == 0) = true := by rwa [← ofLE_eq_zero_iff]
  have hp : ¬ (k == Gen.largeSafePrimeLE) = true := by rwa [beq_prime_iff k hk]
  rw [if_neg hz, if_neg hp]

/-- the three outcomes of `PublicKey::from_le_bytes` on a 32-byte array -/
theorem fromLE_cases (k : Bytes) (hk : k.length = 32) :
    (ofLE k = 0 ∧ PublicKey.fromLE k = .error .isZero) ∨
    (ofLE k = nBig ∧ PublicKey.fromLE k = .error .modIsZero) ∨
    (ofLE k ≠ 0 ∧ ofLE k ≠ nBig ∧ PublicKey.fromLE k = .ok k) := by
  unfold PublicKey.fromLE
  by_cases h0 : ofLE k = 0
  · left; rw [check_zero k h0]; exact ⟨h0, rfl⟩
  · by_cases hN : ofLE k = nBig
    · right; left; rw [check_prime k hk hN]; exact ⟨hN, rfl⟩
    · right; right; rw [check_ok k hk h0 hN]; exact ⟨h0, hN, rfl⟩

/-! ### the server's own key -/

theorem modpow_ok (be : Backend) (base : Int) (e m : Nat) (hm : m ≠ 0) :
    be.modpow base e m = .ok (modpowVal base e m) := by
  unfold Backend.modpow; rw [if_neg hm]

theorem remOut_ok (a b : Nat) (hb : b ≠ 0) : remOut a b = .ok (a % b) := by
  unfold remOut; rw [if_neg hb]

/-- `try_from_bigint` of a value that fits 32 bytes: pad, then validate the padded array -/
theorem tryFromBigint_spec (be : Backend) (B : Nat) (hB : B < 2 ^ 256) :
    ∃ key, PublicKey.tryFromBigint be B = .ok (PublicKey.fromLE key) ∧ key.length = 32 ∧ ofLE key = B := by
  obtain ⟨key, h1, h2, h3⟩ := padCopy_toBytesLe be B 32 "key.rs:247 slice end out of range"
    (by omega) (by rw [pow_256_32]; exact hB)
  refine ⟨key, ?_, h2, h3⟩
  unfold PublicKey.tryFromBigint
  rw [h1]; rfl

/-- the value the server announces: `B = (k·v + g^b mod N) mod N` -/
def serverB (v b : Bytes) : Nat := (kBig * ofLE v + gBig ^ ofLE b % nBig) % nBig

theorem serverB_lt (v b : Bytes) : serverB v b < nBig := Nat.mod_lt _ nBig_pos

theorem calcServer_eq (be : Backend) (v b : Bytes) :
    calculateServerPublicKey be v b = PublicKey.tryFromBigint be (serverB v b) := by
  have hN : nBig ≠ 0 := by have := nBig_pos; omega
  unfold calculateServerPublicKey
  rw [modpow_ok be _ _ _ hN, Out.bind_ok, remOut_ok _ _ hN, Out.bind_ok, modpowVal_nat]
  rfl

theorem calcServer_cases (be : Backend) (v b : Bytes) :
    (serverB v b = 0 ∧ calculateServerPublicKey be v b = .ok (.error .isZero)) ∨
    (serverB v b ≠ 0 ∧ ∃ key, calculateServerPublicKey be v b = .ok (.ok key) ∧ key.length = 32 ∧
      ofLE key = serverB v b) := by
  have hlt := serverB_lt v b
  have hN := nBig_lt
  obtain ⟨key, h1, h2, h3⟩ := tryFromBigint_spec be (serverB v b) (by omega)
  rw [calcServer_eq, h1]
  rcases fromLE_cases key h2 with ⟨h0, e⟩ | ⟨hp, _⟩ | ⟨h0, _, e⟩
  · left; rw [e]; exact ⟨by rw [← h3]; exact h0, rfl⟩
  · omega
  · right; rw [e]; exact ⟨by rw [← h3]; exact h0, key, rfl, h2, h3⟩

/-! ### the client's own key, relative to an announced modulus -/

theorem calcClient_zero_modulus (be : Backend) (a : Bytes) (g : Nat) (nLE : Bytes) (h : ofLE nLE = 0) :
    calculateClientPublicKey be a g nLE = .panic (match be with
      | .num => "num-bigint modpow: zero modulus"
      | .rug => "rug pow_mod: zero modulus") := by
  unfold calculateClientPublicKey Backend.modpow
  rw [if_pos h]; rfl

theorem calcClient_cases (be : Backend) (a : Bytes) (g : Nat) (nLE : Bytes)
    (hpos : 0 < ofLE nLE) (hlt : ofLE nLE < 2 ^ 256) :
    (g ^ ofLE a % ofLE nLE = 0 ∧ calculateClientPublicKey be a g nLE = .ok (.error .isZero)) ∨
    (g ^ ofLE a % ofLE nLE ≠ 0 ∧ ∃ key, calculateClientPublicKey be a g nLE = .ok (.ok key) ∧
      key.length = 32 ∧ ofLE key = g ^ ofLE a % ofLE nLE) := by
  have hN : ofLE nLE ≠ 0 := by omega
  have hA : g ^ ofLE a % ofLE nLE < ofLE nLE := Nat.mod_lt _ hpos
  unfold calculateClientPublicKey
  rw [modpow_ok be _ _ _ hN, Out.bind_ok, modpowVal_nat]
  unfold PublicKey.clientTryFromBigint
  by_cases h0 : g ^ ofLE a % ofLE nLE = 0
  · left; rw [if_pos h0]; exact ⟨h0, rfl⟩
  · right
    obtain ⟨key, h1, h2, h3⟩ := padCopy_toBytesLe be (g ^ ofLE a % ofLE nLE) 32
      "key.rs:235 slice end out of range" (by omega) (by rw [pow_256_32]; omega)
    have hr : g ^ ofLE a % ofLE nLE % ofLE nLE ≠ 0 := by rw [Nat.mod_mod]; exact h0
    rw [if_neg h0, remOut_ok _ _ hN, Out.bind_ok, if_neg hr, h1]
    exact ⟨h0, key, rfl, h2, h3⟩

/-! ### nothing else in `SrpClientChallenge::new` can panic -/

theorem scanZeros_le (s : Bytes) (fuel lead : Nat) (h : lead ≤ s.length) :
    scanZeros s fuel lead ≤ s.length := by
  induction fuel generalizing lead with
  | zero => exact h
  | succ n ih =>
    unfold scanZeros
    split
    · exact h
    · next b hb =>
      have hl : lead < s.length := by
        rcases List.getElem?_eq_some_iff.mp hb with ⟨hl, _⟩; exact hl
      split
      · exact ih _ hl
      · exact h

theorem asEqualSlice_ok (s : Bytes) (h : s.length % 2 = 0) :
    ∃ s', asEqualSlice s = .ok s' ∧ s'.length ≤ s.length := by
  have hl := scanZeros_le s (s.length + 1) 0 (Nat.zero_le _)
  unfold asEqualSlice
  simp only
  split
  · next hodd =>
    have hodd' : scanZeros s (s.length + 1) 0 % 2 ≠ 0 := by simpa using hodd
    have : scanZeros s (s.length + 1) 0 + 1 ≤ s.length := by omega
    rw [if_pos this]
    exact ⟨_, rfl, by simp⟩
  · exact ⟨_, rfl, by simp⟩

theorem evens_length_le (s : Bytes) : (evens s).length ≤ (s.length + 1) / 2 := by
  fun_induction evens s with
  | case1 => simp
  | case2 => simp
  | case3 a b r ih => simp only [List.length_cons]; omega

theorem odds_length_le (s : Bytes) : (odds s).length ≤ s.length / 2 := by
  fun_induction odds s with
  | case1 => simp
  | case2 => simp
  | case3 a b r ih => simp only [List.length_cons]; omega

theorem zipFlat_length_le (a b : Bytes) : (zipFlat a b).length ≤ 2 * a.length := by
  fun_induction zipFlat a b with
  | case1 a as b bs ih => simp only [List.length_cons]; omega
  | case2 => simp

theorem calculateInterleaved_ok (C : Crypto) (hC : C.WF) (S : Bytes) (hS : S.length = 32) :
    ∃ K, calculateInterleaved C S = .ok K := by
  obtain ⟨s, hs, hsl⟩ := asEqualSlice_ok S (by omega)
  have he := evens_length_le s
  have ho := odds_length_le s
  unfold calculateInterleaved fillArr
  rw [hs, Out.bind_ok, if_pos (by omega), Out.bind_ok, if_pos (by omega), Out.bind_ok]
  have hz := zipFlat_length_le (C.sha1 (List.take (s.length / 2)
      (evens s ++ List.replicate (16 - (evens s).length) 0)))
    (C.sha1 (List.take (s.length / 2) (odds s ++ List.replicate (16 - (odds s).length) 0)))
  rw [hC.sha1_len] at hz
  simp only
  rw [if_pos (by omega)]
  exact ⟨_, rfl⟩

theorem calculateClientS_ok (be : Backend) (B x a u : Bytes) (g : Nat) (nLE : Bytes)
    (hpos : 0 < ofLE nLE) (hlt : ofLE nLE < 2 ^ 256) :
    ∃ S, calculateClientS be B x a u g nLE = .ok S ∧ S.length = 32 := by
  have hN : ofLE nLE ≠ 0 := by omega
  unfold calculateClientS toPadded32
  rw [modpow_ok be _ _ _ hN, Out.bind_ok, modpow_ok be _ _ _ hN, Out.bind_ok]
  have := modpowVal_lt ((ofLE B : Int) - (kBig : Int) * ((modpowVal (g : Int) (ofLE x) (ofLE nLE) : Nat) : Int))
    (ofLE a + ofLE u * ofLE x) (ofLE nLE) hpos
  obtain ⟨key, h1, h2, _⟩ := padCopy_toBytesLe be _ 32 "bigint.rs:19 slice end out of range"
    (by omega) (show _ < 256 ^ 32 by rw [pow_256_32]; exact Nat.lt_trans this hlt)
  exact ⟨key, h1, h2⟩

end Keys
end WowSrp
