/-
Helper lemmas for `Props/C19Backends.lean`: the arithmetic behind "num-bigint's magnitude power with a
sign fix-up" = "GMP's Euclidean residue of the integer power" = the shared `modpowVal`.
-/
import Mathlib.Algebra.Ring.Parity
import Mathlib.Algebra.Order.Ring.Int
import Mathlib.Tactic.Ring
import WowSrp.Lemmas.PowMod
import WowSrp.Model.BigIntLib
namespace WowSrp

/-- the Euclidean remainder of a negated natural number: `0` when the number is a multiple of `m`,
    else `m - (x % m)` -/
theorem neg_natCast_emod (x m : Nat) (hm : 0 < m) :
    (-(x : Int)) % (m : Int) = if x % m = 0 then 0 else ((m - x % m : Nat) : Int) := by
  have hlt : x % m < m := Nat.mod_lt _ hm
  have hx : (x : Int) = (m : Int) * ((x / m : Nat) : Int) + ((x % m : Nat) : Int) := by
    exact_mod_cast (Nat.div_add_mod x m).symm
  split
  · next h0 =>
    rw [hx, h0]
    simp
  · next hne =>
    have hcast : ((m - x % m : Nat) : Int) = (m : Int) - ((x % m : Nat) : Int) := by
      rw [Int.ofNat_sub (Nat.le_of_lt hlt)]
    have hrew : -(x : Int) = ((m : Int) - ((x % m : Nat) : Int)) + (m : Int) * (-((x / m : Nat) : Int) - 1) := by
      conv_lhs => rw [hx]
      ring
    rw [hrew, Int.add_mul_emod_self_left, hcast]
    apply Int.emod_eq_of_lt
    · omega
    · omega

/-- **the interesting lemma**: for a negative base and an odd exponent, the Euclidean residue of the
    integer power is `m - (|base|^e % m)` when `|base|^e % m ≠ 0`, and `0` otherwise -/
theorem neg_base_odd_pow_emod (base : Int) (e m : Nat) (hm : 0 < m) (hb : base < 0) (he : e % 2 = 1) :
    (base ^ e) % (m : Int) =
      if base.natAbs ^ e % m = 0 then 0 else ((m - base.natAbs ^ e % m : Nat) : Int) := by
  have hbase : base = -((base.natAbs : Nat) : Int) := by omega
  have hodd : Odd e := Nat.odd_iff.mpr he
  conv_lhs => rw [hbase, hodd.neg_pow]
  have := neg_natCast_emod (base.natAbs ^ e) m hm
  push_cast at this ⊢
  exact this

/-- negative base, even exponent: the sign disappears -/
theorem neg_base_even_pow_emod (base : Int) (e m : Nat) (he : e % 2 = 0) :
    (base ^ e) % (m : Int) = ((base.natAbs ^ e % m : Nat) : Int) := by
  have heven : Even e := Nat.even_iff.mpr he
  rcases Int.natAbs_eq base with h | h
  · conv_lhs => rw [h]
    push_cast; rfl
  · conv_lhs => rw [h, heven.neg_pow]
    push_cast; rfl

/-- non-negative base -/
theorem nonneg_base_pow_emod (base : Int) (e m : Nat) (hb : 0 ≤ base) :
    (base ^ e) % (m : Int) = ((base.natAbs ^ e % m : Nat) : Int) := by
  have h : base = ((base.natAbs : Nat) : Int) := by omega
  conv_lhs => rw [h]
  push_cast; rfl

/-- GMP's value is the shared definition's value -/
theorem gmpPowm_eq_modpowVal (base : Int) (e m : Nat) (hm : 0 < m) :
    gmpPowm base e m = modpowVal base e m := by
  unfold gmpPowm
  rw [← modpowVal_spec base e m hm]
  exact Int.toNat_natCast _

/-- num-bigint's value (magnitude power, zero test, sign fix-up) as an integer is the Euclidean residue
    of the integer power -/
theorem numModpow_value (base : Int) (e m : Nat) (hm : 0 < m) :
    ∃ r : Nat, numModpow base e m = .ok r ∧ (r : Int) = (base ^ e) % (m : Int) := by
  have hm0 : ¬ m = 0 := by omega
  have hlt : base.natAbs ^ e % m < m := Nat.mod_lt _ hm
  unfold numModpow numBigUintModpow
  simp only [if_neg hm0, Out.bind_ok, powMod_spec]
  by_cases h0 : base.natAbs ^ e % m = 0
  · rw [if_pos h0]
    refine ⟨0, rfl, ?_⟩
    by_cases hneg : base < 0 ∧ e % 2 = 1
    · rw [neg_base_odd_pow_emod base e m hm hneg.1 hneg.2, if_pos h0]; rfl
    · by_cases hb : 0 ≤ base
      · rw [nonneg_base_pow_emod base e m hb, h0]
      · rw [neg_base_even_pow_emod base e m (by omega), h0]
  · rw [if_neg h0]
    by_cases hneg : base < 0 ∧ e % 2 = 1
    · rw [if_pos hneg]
      exact ⟨_, rfl, by rw [neg_base_odd_pow_emod base e m hm hneg.1 hneg.2, if_neg h0]⟩
    · rw [if_neg hneg]
      refine ⟨_, rfl, ?_⟩
      by_cases hb : 0 ≤ base
      · rw [nonneg_base_pow_emod base e m hb]
      · rw [neg_base_even_pow_emod base e m (by omega)]

end WowSrp
