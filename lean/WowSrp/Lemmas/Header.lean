/-
Helper lemmas about the recurrence ciphers (Vanilla / TBC). Core Lean only.
-/
import WowSrp.Model.Header
import WowSrp.Spec.Header
namespace WowSrp

/-- the state invariant: position inside the key, key long enough, `index + 1` fits a `u8` -/
def Half.Inv (m : Nat) (h : Half) : Prop := 0 < m ∧ m ≤ 255 ∧ m ≤ h.key.length ∧ h.index < m

theorem encStep_ok (m : Nat) (h : Half) (x : UInt8) (hi : h.Inv m) :
    encStep m h x = .ok ({ h with index := (h.index + 1) % m,
                                   prev := (x ^^^ h.key[h.index]'(by unfold Half.Inv at hi; omega)) + h.prev },
                         (x ^^^ h.key[h.index]'(by unfold Half.Inv at hi; omega)) + h.prev) := by
  obtain ⟨h0, h255, hk, hlt⟩ := hi
  have hlt' : h.index < h.key.length := by omega
  unfold encStep
  simp only [List.getElem?_eq_getElem hlt']
  have h1 : ¬ (h.index + 1 > 255) := by omega
  have h2 : ¬ (m = 0) := by omega
  simp [h1, h2]

theorem decStep_ok (m : Nat) (h : Half) (c : UInt8) (hi : h.Inv m) :
    decStep m h c = .ok ({ h with index := (h.index + 1) % m, prev := c },
                         (c - h.prev) ^^^ h.key[h.index]'(by unfold Half.Inv at hi; omega)) := by
  obtain ⟨h0, h255, hk, hlt⟩ := hi
  have hlt' : h.index < h.key.length := by omega
  unfold decStep
  simp only [List.getElem?_eq_getElem hlt']
  have h1 : ¬ (h.index + 1 > 255) := by omega
  have h2 : ¬ (m = 0) := by omega
  simp [h1, h2]

theorem Half.Inv_step (m : Nat) (h : Half) (p : UInt8) (hi : h.Inv m) :
    ({ h with index := (h.index + 1) % m, prev := p } : Half).Inv m := by
  obtain ⟨h0, h255, hk, hlt⟩ := hi
  exact ⟨h0, h255, hk, Nat.mod_lt _ h0⟩

/-- chunking, for any step function: one call on `xs ++ ys` = a call on `xs` then a call on `ys` -/
theorem runSteps_append {σ : Type} (step : σ → UInt8 → Out (σ × UInt8)) (h : σ) (xs ys : Bytes) :
    runSteps step h (xs ++ ys) =
      match runSteps step h xs with
      | .panic p => .panic p
      | .ok (h', out1) =>
        match runSteps step h' ys with
        | .panic p => .panic p
        | .ok (h'', out2) => .ok (h'', out1 ++ out2) := by
  induction xs generalizing h with
  | nil => simp [runSteps]; cases runSteps step h ys <;> rfl
  | cons x xs ih =>
    simp only [List.cons_append, runSteps]
    cases hs : step h x with
    | panic p => rfl
    | ok r =>
      obtain ⟨h', y⟩ := r
      simp only
      rw [ih h']
      cases runSteps step h' xs with
      | panic p => rfl
      | ok r2 =>
        obtain ⟨h2, o1⟩ := r2
        simp only
        cases runSteps step h2 ys with
        | panic p => rfl
        | ok r3 => rfl

theorem runSteps_nil {σ : Type} (step : σ → UInt8 → Out (σ × UInt8)) (h : σ) :
    runSteps step h [] = .ok (h, []) := rfl

/-- the tail-recursive loop the compiled driver runs is the same function -/
theorem runStepsTR_go_eq {σ : Type} (step : σ → UInt8 → Out (σ × UInt8)) (h : σ) (xs : Bytes) (acc : Array UInt8) :
    runStepsTR.go step h xs acc =
      match runSteps step h xs with
      | .panic p => .panic p
      | .ok (h', out) => .ok (h', acc.toList ++ out) := by
  induction xs generalizing h acc with
  | nil => simp [runStepsTR.go, runSteps]
  | cons x xs ih =>
    simp only [runStepsTR.go, runSteps]
    cases step h x with
    | panic p => rfl
    | ok r =>
      obtain ⟨h', y⟩ := r
      simp only
      rw [ih]
      cases runSteps step h' xs with
      | panic p => rfl
      | ok r2 => obtain ⟨h2, o⟩ := r2; simp

theorem runStepsTR_eq {σ : Type} (step : σ → UInt8 → Out (σ × UInt8)) (h : σ) (xs : Bytes) :
    runStepsTR step h xs = runSteps step h xs := by
  unfold runStepsTR
  rw [runStepsTR_go_eq]
  cases runSteps step h xs with
  | panic p => rfl
  | ok r => obtain ⟨h2, o⟩ := r; simp

/-- a whole encrypt call under the invariant: never panics, follows the recurrence (Spec) from
    stream position `n`, keeps the invariant and the key, ends at position `n + length` -/
theorem encrypt_spec (m : Nat) (h : Half) (xs : Bytes) (n : Nat) (hi : h.Inv m) (hm : m = h.key.length)
    (hn : h.index = n % m) :
    ∃ h', runSteps (encStep m) h xs = .ok (h', Spec.recEnc h.key n h.prev xs) ∧
      h'.Inv m ∧ h'.key = h.key ∧ h'.index = (n + xs.length) % m ∧
      h'.prev = (Spec.recEnc h.key n h.prev xs).getLastD h.prev := by
  induction xs generalizing h n with
  | nil => exact ⟨h, rfl, hi, rfl, by simpa using hn, rfl⟩
  | cons x xs ih =>
    have hlt : h.index < h.key.length := by have := hi.2.2.2; omega
    have hstep := encStep_ok m h x hi
    have hi' := Half.Inv_step m h ((x ^^^ h.key[h.index]) + h.prev) hi
    have hn' : (h.index + 1) % m = (n + 1) % m := by rw [hn]; exact Nat.mod_add_mod _ _ _
    obtain ⟨h', hrun, hinv, hkey, hidx, hprev⟩ := ih _ (n + 1) hi' (by simpa using hm) (by simpa using hn')
    have e2 : h.key[n % h.key.length]! = h.key[h.index] := by
      have : n % h.key.length = h.index := by rw [← hm]; exact hn.symm
      simp [this, hlt]
    refine ⟨h', ?_, hinv, by simpa using hkey, ?_, ?_⟩
    · simp only [runSteps, hstep]
      simp only at hrun
      rw [hrun]
      simp only [Spec.recEnc, e2]
    · rw [hidx]; simp only [List.length_cons]; congr 1; omega
    · rw [hprev]; simp only [Spec.recEnc, e2, List.getLastD_cons]

/-- a whole decrypt call under the invariant: the inverse recurrence (Spec) -/
theorem decrypt_spec (m : Nat) (h : Half) (cs : Bytes) (n : Nat) (hi : h.Inv m) (hm : m = h.key.length)
    (hn : h.index = n % m) :
    ∃ h', runSteps (decStep m) h cs = .ok (h', Spec.recDec h.key n h.prev cs) ∧
      h'.Inv m ∧ h'.key = h.key ∧ h'.index = (n + cs.length) % m ∧
      h'.prev = cs.getLastD h.prev := by
  induction cs generalizing h n with
  | nil => exact ⟨h, rfl, hi, rfl, by simpa using hn, rfl⟩
  | cons c cs ih =>
    have hlt : h.index < h.key.length := by have := hi.2.2.2; omega
    have hstep := decStep_ok m h c hi
    have hi' := Half.Inv_step m h c hi
    have hn' : (h.index + 1) % m = (n + 1) % m := by rw [hn]; exact Nat.mod_add_mod _ _ _
    obtain ⟨h', hrun, hinv, hkey, hidx, hprev⟩ := ih _ (n + 1) hi' (by simpa using hm) (by simpa using hn')
    have e2 : h.key[n % h.key.length]! = h.key[h.index] := by
      have : n % h.key.length = h.index := by rw [← hm]; exact hn.symm
      simp [this, hlt]
    refine ⟨h', ?_, hinv, by simpa using hkey, ?_, ?_⟩
    · simp only [runSteps, hstep]
      simp only at hrun
      rw [hrun]
      simp only [Spec.recDec, e2]
    · rw [hidx]; simp only [List.length_cons]; congr 1; omega
    · rw [hprev]; simp only [List.getLastD_cons]

/-- the Spec-level inverse law: decrypting the ciphertext of `xs` from the same position and the
    same previous byte gives `xs` back — pure algebra on bytes, for every key and state -/
theorem Spec.recDec_recEnc (key : Bytes) (n : Nat) (p : UInt8) (xs : Bytes) :
    Spec.recDec key n p (Spec.recEnc key n p xs) = xs := by
  induction xs generalizing n p with
  | nil => rfl
  | cons x xs ih =>
    simp only [Spec.recEnc, Spec.recDec, ih]
    rw [UInt8.add_sub_cancel, UInt8.xor_assoc, UInt8.xor_self, UInt8.xor_zero]

theorem Spec.recEnc_length (key : Bytes) (n : Nat) (p : UInt8) (xs : Bytes) :
    (Spec.recEnc key n p xs).length = xs.length := by
  induction xs generalizing n p with
  | nil => rfl
  | cons x xs ih => simp [Spec.recEnc, ih]

end WowSrp

namespace WowSrp

/-- several calls in a row, outputs concatenated -/
def runChunks {σ : Type} (f : σ → Bytes → Out (σ × Bytes)) : σ → List Bytes → Out (σ × Bytes)
  | h, [] => .ok (h, [])
  | h, c :: cs =>
    match f h c with
    | .panic p => .panic p
    | .ok (h', o) =>
      match runChunks f h' cs with
      | .panic p => .panic p
      | .ok (h'', os) => .ok (h'', o ++ os)

/-- any partition of a stream into calls (empty calls included) is the same as one call -/
theorem runChunks_flatten {σ : Type} (step : σ → UInt8 → Out (σ × UInt8)) (h : σ) (chunks : List Bytes) :
    runChunks (runSteps step) h chunks = runSteps step h chunks.flatten := by
  induction chunks generalizing h with
  | nil => rfl
  | cons c cs ih =>
    simp only [runChunks, List.flatten_cons, runSteps_append]
    cases runSteps step h c with
    | panic p => rfl
    | ok r =>
      obtain ⟨h', o⟩ := r
      simp only [ih]

/-- the round trip between any two halves in equal states (key, position, previous byte) satisfying the
    invariant, with no reference to how they were made: the encrypter does not panic and follows the
    recurrence from its current position; the decrypter maps that ciphertext back to the plaintext;
    both end in equal states again, invariant kept -/
theorem roundtrip_from_equal (m : Nat) (e0 d0 : Half) (hi : e0.Inv m) (hm : m = e0.key.length)
    (hk : d0.key = e0.key) (hx : d0.index = e0.index) (hp : d0.prev = e0.prev) (xs : Bytes) :
    ∃ e' d', runSteps (encStep m) e0 xs = .ok (e', Spec.recEnc e0.key e0.index e0.prev xs) ∧
      runSteps (decStep m) d0 (Spec.recEnc e0.key e0.index e0.prev xs) = .ok (d', xs) ∧
      e'.Inv m ∧ e'.key = e0.key ∧ d'.key = e'.key ∧ d'.index = e'.index ∧ d'.prev = e'.prev := by
  have hdi : d0.Inv m := by
    obtain ⟨a, b, c, e4⟩ := hi
    exact ⟨a, b, by rw [hk]; exact c, by rw [hx]; exact e4⟩
  obtain ⟨e', r1, inv1, k1, i1, p1⟩ :=
    encrypt_spec m e0 xs e0.index hi hm (Nat.mod_eq_of_lt hi.2.2.2).symm
  obtain ⟨d', r2, _, k2, i2, p2⟩ :=
    decrypt_spec m d0 (Spec.recEnc e0.key e0.index e0.prev xs) d0.index hdi (by rw [hk]; exact hm)
      (Nat.mod_eq_of_lt hdi.2.2.2).symm
  refine ⟨e', d', r1, ?_, inv1, k1, ?_, ?_, ?_⟩
  · rw [r2, hk, hx, hp, Spec.recDec_recEnc]
  · rw [k1, k2, hk]
  · rw [i1, i2, hx, Spec.recEnc_length]
  · rw [p1, p2, hp]

end WowSrp
