/-
The algebra behind C01: client and server compute the same secret `S`, first as a congruence on
integers, then for the exact expressions `calculateClientS` / `calculateS` (Model/Srp.lean) hand to
`modpow`; and the non-vanishing of the values modulo a prime.
-/
import Mathlib.Data.Int.ModEq
import Mathlib.Data.Nat.Prime.Basic
import Mathlib.Tactic.Ring
import WowSrp.Lemmas.PowMod
namespace WowSrp

/-- core of C01: client and server secrets are congruent, for every modulus, generator, multiplier
    and every choice of exponents -/
theorem srp_agree (N g k x a b u : ℕ) :
    let v : ℤ := ((g ^ x % N : ℕ) : ℤ)
    let A : ℤ := ((g ^ a % N : ℕ) : ℤ)
    let B : ℤ := (((k * (g ^ x % N) + g ^ b % N) % N : ℕ) : ℤ)
    ((B - k * v) ^ (a + u * x)) % (N : ℤ) = ((A * (v ^ u % N)) ^ b) % (N : ℤ) := by
  intro v A B
  have hv : v ≡ (g : ℤ) ^ x [ZMOD N] := by
    simp only [v]; push_cast; exact Int.mod_modEq _ _
  have hA : A ≡ (g : ℤ) ^ a [ZMOD N] := by
    simp only [A]; push_cast; exact Int.mod_modEq _ _
  have hB : B ≡ k * v + (g : ℤ) ^ b [ZMOD N] := by
    simp only [B, v]; push_cast
    calc ((k:ℤ) * ((g:ℤ) ^ x % N) + (g:ℤ) ^ b % N) % N
        ≡ (k:ℤ) * ((g:ℤ) ^ x % N) + (g:ℤ) ^ b % N [ZMOD N] := Int.mod_modEq _ _
      _ ≡ (k:ℤ) * ((g:ℤ) ^ x % N) + (g:ℤ) ^ b [ZMOD N] := Int.ModEq.add_left _ (Int.mod_modEq _ _)
  have h1 : B - k * v ≡ (g : ℤ) ^ b [ZMOD N] := by
    have := hB.sub_right (k * v); simpa using this
  have h2 : (B - k * v) ^ (a + u * x) ≡ ((g : ℤ) ^ b) ^ (a + u * x) [ZMOD N] := h1.pow _
  have h3 : A * (v ^ u % N) ≡ (g : ℤ) ^ a * ((g : ℤ) ^ x) ^ u [ZMOD N] :=
    hA.mul ((Int.mod_modEq _ _).trans (hv.pow u))
  have h4 : (A * (v ^ u % N)) ^ b ≡ ((g : ℤ) ^ a * ((g : ℤ) ^ x) ^ u) ^ b [ZMOD N] := h3.pow _
  have h5 : ((g : ℤ) ^ b) ^ (a + u * x) = ((g : ℤ) ^ a * ((g : ℤ) ^ x) ^ u) ^ b := by ring
  exact (h2.trans (h5 ▸ Int.ModEq.refl _)).trans h4.symm

/-- `modpowVal` of a product of two naturals, as `calculateS` forms it (`A * v^u`) -/
theorem modpowVal_natCast_mul (A t e m : Nat) :
    modpowVal ((A : Int) * (t : Int)) e m = (A * t) ^ e % m := by
  rw [← Int.natCast_mul, modpowVal_natCast]

theorem srp_agree_modpowVal_aux (N g k x a b u v A B t : Nat) (hN : 0 < N)
    (hv : v = g ^ x % N) (hA : A = g ^ a % N) (hB : B = (k * (g ^ x % N) + g ^ b % N) % N)
    (ht : t = v ^ u % N) :
    modpowVal ((B : Int) - (k : Int) * (v : Int)) (a + u * x) N
      = modpowVal ((A : Int) * (t : Int)) b N := by
  apply Int.ofNat_inj.mp
  show ((modpowVal ((B : Int) - (k : Int) * (v : Int)) (a + u * x) N : Nat) : Int)
      = ((modpowVal ((A : Int) * (t : Int)) b N : Nat) : Int)
  rw [modpowVal_spec _ _ _ hN, modpowVal_spec _ _ _ hN]
  have ht' : (t : Int) = (v : Int) ^ u % (N : Int) := by
    rw [ht]; push_cast; rfl
  rw [ht', hB, hA, hv]
  exact srp_agree N g k x a b u

/-- **Agreement in the model's terms.** With `v = g^x mod N` (the stored verifier), `A = g^a mod N`
    (client public key), `B = (k·v + g^b mod N) mod N` (server public key), the number
    `calculateClientS` passes to the padding equals the one `calculateS` passes: -/
theorem srp_agree_modpowVal (N g k x a b u : Nat) (hN : 0 < N) :
    let v := modpowVal (g : Int) x N
    let A := modpowVal (g : Int) a N
    let B := (k * v + modpowVal (g : Int) b N) % N
    modpowVal ((B : Int) - (k : Int) * (v : Int)) (a + u * x) N
      = modpowVal ((A : Int) * ((modpowVal (v : Int) u N : Nat) : Int)) b N := by
  intro v A B
  have hv : v = g ^ x % N := modpowVal_natCast g x N
  exact srp_agree_modpowVal_aux N g k x a b u v A B _ hN hv (modpowVal_natCast g a N)
    (by simp only [B, hv, modpowVal_natCast]) (modpowVal_natCast v u N)

/-- both secrets in closed form: `g ^ (b * (a + u * x)) mod N` -/
theorem srp_server_closed_form (N g x a b u : Nat) :
    let v := modpowVal (g : Int) x N
    let A := modpowVal (g : Int) a N
    modpowVal ((A : Int) * ((modpowVal (v : Int) u N : Nat) : Int)) b N
      = g ^ (b * (a + u * x)) % N := by
  intro v A
  rw [modpowVal_natCast_mul]
  have hv : v = g ^ x % N := modpowVal_natCast g x N
  have hA : A = g ^ a % N := modpowVal_natCast g a N
  rw [modpowVal_natCast, hv, hA]
  have h1 : g ^ a % N * ((g ^ x % N) ^ u % N) ≡ g ^ a * (g ^ x) ^ u [MOD N] :=
    (Nat.mod_modEq _ _).mul ((Nat.mod_modEq _ _).trans ((Nat.mod_modEq _ _).pow u))
  have h2 := h1.pow b
  have h3 : (g ^ a * (g ^ x) ^ u) ^ b = g ^ (b * (a + u * x)) := by ring
  rw [h3] at h2
  exact h2

theorem srp_client_closed_form (N g k x a b u : Nat) (hN : 0 < N) :
    let v := modpowVal (g : Int) x N
    let B := (k * v + modpowVal (g : Int) b N) % N
    modpowVal ((B : Int) - (k : Int) * (v : Int)) (a + u * x) N = g ^ (b * (a + u * x)) % N := by
  intro v B
  have h := srp_agree_modpowVal N g k x a b u hN
  simp only at h
  rw [h]
  exact srp_server_closed_form N g x a b u

/-! ### non-vanishing modulo a prime -/

theorem pow_mod_prime_ne_zero (N g e : Nat) (hp : Nat.Prime N) (hg : ¬ N ∣ g) : g ^ e % N ≠ 0 := by
  intro h
  exact hg (hp.dvd_of_dvd_pow (Nat.dvd_of_mod_eq_zero h))

/-- a public key `g^a mod N` (and likewise the verifier `g^x mod N`) is never zero when `N` is prime
    and does not divide `g` -/
theorem modpowVal_natCast_ne_zero (N g e : Nat) (hp : Nat.Prime N) (hg : ¬ N ∣ g) :
    modpowVal (g : Int) e N ≠ 0 := by
  rw [modpowVal_natCast]; exact pow_mod_prime_ne_zero N g e hp hg

theorem modpowVal_natCast_not_dvd (N g e : Nat) (hp : Nat.Prime N) (hg : ¬ N ∣ g) :
    ¬ N ∣ modpowVal (g : Int) e N := by
  intro h
  have hlt := modpowVal_lt (g : Int) e N hp.pos
  have := Nat.eq_zero_of_dvd_of_lt h hlt
  exact modpowVal_natCast_ne_zero N g e hp hg this

/-- the server's secret is a unit: `(A · v^u)^b mod N ≠ 0` whenever `N` is prime and divides
    neither `A` nor `v` -/
theorem server_S_ne_zero (N A v u b : Nat) (hp : Nat.Prime N) (hA : ¬ N ∣ A) (hv : ¬ N ∣ v) :
    modpowVal ((A : Int) * ((modpowVal (v : Int) u N : Nat) : Int)) b N ≠ 0 := by
  rw [modpowVal_natCast_mul]
  apply pow_mod_prime_ne_zero N _ b hp
  intro h
  rcases (Nat.Prime.dvd_mul hp).mp h with h | h
  · exact hA h
  · exact modpowVal_natCast_not_dvd N v u hp hv h

/-- the client's secret is a unit whenever `B - k·v` is: stated for an arbitrary integer base -/
theorem modpowVal_ne_zero_of_not_dvd (N : Nat) (base : Int) (e : Nat) (hp : Nat.Prime N)
    (hb : ¬ (N : Int) ∣ base) : modpowVal base e N ≠ 0 := by
  intro h
  have hs := modpowVal_spec base e N hp.pos
  rw [h] at hs
  have hd : (N : Int) ∣ base ^ e := Int.dvd_of_emod_eq_zero hs.symm
  rw [Int.natCast_dvd, Int.natAbs_pow] at hd
  exact hb (Int.natCast_dvd.mpr (hp.dvd_of_dvd_pow hd))

/-- conversely a base divisible by `N` gives `0` for a positive exponent (the C14 situation
    `B = k·v mod N`), and `1 % N` for exponent `0` -/
theorem modpowVal_eq_zero_of_dvd (N : Nat) (base : Int) (e : Nat) (hN : 0 < N) (he : 0 < e)
    (hb : (N : Int) ∣ base) : modpowVal base e N = 0 := by
  apply Int.ofNat_inj.mp
  show ((modpowVal base e N : Nat) : Int) = ((0 : Nat) : Int)
  rw [modpowVal_spec base e N hN]
  exact Int.emod_eq_zero_of_dvd (dvd_trans hb (dvd_pow_self base (by omega)))

end WowSrp
