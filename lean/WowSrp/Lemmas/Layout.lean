/-
Byte-layout lemmas shared by the "changed field ⇒ explicit collision pair" theorems
(C02, C05, C06, C17) and by C15: little-endian encodings are injective on their range,
concatenations of fixed-width fields are injective, a single-bit flip changes a byte list.
Core Lean only. Nothing here mentions a hash function.
-/
import WowSrp.Model.Basic
namespace WowSrp.Layout

/-! ### little-endian encodings -/

theorem ofLE_lt (bs : Bytes) : ofLE bs < 256 ^ bs.length := by
  induction bs with
  | nil => simp [ofLE]
  | cons b bs ih =>
    simp only [ofLE, List.length_cons, Nat.pow_succ]
    have := b.toNat_lt
    omega

/-- `ofLE` is injective on lists of one length (used for the 32-byte private keys and 4-byte seeds) -/
theorem ofLE_inj : ∀ (a b : Bytes), a.length = b.length → ofLE a = ofLE b → a = b
  | [], [], _, _ => rfl
  | x :: xs, y :: ys, hl, h => by
    simp only [ofLE] at h
    have hx := x.toNat_lt; have hy := y.toNat_lt
    have h1 : x.toNat = y.toNat := by omega
    have h2 : ofLE xs = ofLE ys := by omega
    have := ofLE_inj xs ys (by simpa using hl) h2
    have hxy : x = y := UInt8.toNat_inj.mp h1
    rw [this, hxy]
  | [], _ :: _, hl, _ => by simp at hl
  | _ :: _, [], hl, _ => by simp at hl

theorem ofLE_append (a b : Bytes) : ofLE (a ++ b) = ofLE a + 256 ^ a.length * ofLE b := by
  induction a with
  | nil => simp [ofLE]
  | cons x xs ih =>
    simp only [List.cons_append, ofLE, ih, List.length_cons, Nat.pow_succ]
    rw [Nat.mul_add, Nat.add_assoc, ← Nat.mul_assoc, Nat.mul_comm 256 (256 ^ xs.length)]

@[simp] theorem leN_length (w n : Nat) : (leN w n).length = w := by
  induction w generalizing n with
  | zero => rfl
  | succ w ih => simp [leN, ih]

/-- decoding a fixed-width encoding gives the number back, reduced modulo `256 ^ w` -/
theorem ofLE_leN (w n : Nat) : ofLE (leN w n) = n % 256 ^ w := by
  induction w generalizing n with
  | zero => simp [leN, ofLE, Nat.mod_one]
  | succ w ih =>
    have hb : (UInt8.ofNat (n % 256)).toNat = n % 256 := by simp [UInt8.toNat_ofNat']
    simp only [leN, ofLE, ih, hb]
    rw [Nat.pow_succ, Nat.mul_comm (256 ^ w) 256, Nat.mod_mul]

/-- `leN w` is injective below `256 ^ w` (`u32::to_le_bytes` on values `< 2^32` for `w = 4`) -/
theorem leN_inj (w n m : Nat) (hn : n < 256 ^ w) (hm : m < 256 ^ w) (h : leN w n = leN w m) : n = m := by
  have := congrArg ofLE h
  rwa [ofLE_leN, ofLE_leN, Nat.mod_eq_of_lt hn, Nat.mod_eq_of_lt hm] at this

/-- a `w`-byte list is the fixed-width encoding of the number it decodes to -/
theorem leN_ofLE (bs : Bytes) : leN bs.length (ofLE bs) = bs := by
  apply ofLE_inj _ _ (by simp)
  rw [ofLE_leN, Nat.mod_eq_of_lt (ofLE_lt bs)]

/-! ### concatenations of fixed-width fields -/

/-- two fields, the first of known width -/
theorem append2_inj {a a' b b' : Bytes} (ha : a.length = a'.length)
    (h : a ++ b = a' ++ b') : a = a' ∧ b = b' := List.append_inj h ha

/-- `u ++ f₁ ++ f₂ ++ f₃` with `f₁, f₂, f₃` of known widths: the variable-length head `u` is
    recovered from the total length, so the layout is injective (reconnect proof input) -/
theorem layout4_inj {u u' f1 f1' f2 f2' f3 f3' : Bytes}
    (h1 : f1.length = f1'.length) (h2 : f2.length = f2'.length) (h3 : f3.length = f3'.length)
    (h : u ++ f1 ++ f2 ++ f3 = u' ++ f1' ++ f2' ++ f3') :
    u = u' ∧ f1 = f1' ∧ f2 = f2' ∧ f3 = f3' := by
  have hl := congrArg List.length h
  simp only [List.length_append] at hl
  have hul : u.length = u'.length := by omega
  simp only [List.append_assoc] at h
  obtain ⟨hu, hr⟩ := List.append_inj h hul
  obtain ⟨hc, hr⟩ := List.append_inj hr h1
  obtain ⟨hs, hkk⟩ := List.append_inj hr h2
  exact ⟨hu, hc, hs, hkk⟩

/-- same with four trailing fields (world-login proof input) -/
theorem layout5_inj {u u' f1 f1' f2 f2' f3 f3' f4 f4' : Bytes}
    (h1 : f1.length = f1'.length) (h2 : f2.length = f2'.length) (h3 : f3.length = f3'.length)
    (h4 : f4.length = f4'.length)
    (h : u ++ f1 ++ f2 ++ f3 ++ f4 = u' ++ f1' ++ f2' ++ f3' ++ f4') :
    u = u' ∧ f1 = f1' ∧ f2 = f2' ∧ f3 = f3' ∧ f4 = f4' := by
  have hl := congrArg List.length h
  simp only [List.length_append] at hl
  have hul : u.length = u'.length := by omega
  simp only [List.append_assoc] at h
  obtain ⟨hu, hr⟩ := List.append_inj h hul
  obtain ⟨e1, hr⟩ := List.append_inj hr h1
  obtain ⟨e2, hr⟩ := List.append_inj hr h2
  obtain ⟨e3, e4⟩ := List.append_inj hr h3
  exact ⟨hu, e1, e2, e3, e4⟩

/-- six fields, the first five of known widths (client proof M1 input) -/
theorem layout6_inj {f1 f1' f2 f2' f3 f3' f4 f4' f5 f5' f6 f6' : Bytes}
    (h1 : f1.length = f1'.length) (h2 : f2.length = f2'.length) (h3 : f3.length = f3'.length)
    (h4 : f4.length = f4'.length) (h5 : f5.length = f5'.length)
    (h : f1 ++ f2 ++ f3 ++ f4 ++ f5 ++ f6 = f1' ++ f2' ++ f3' ++ f4' ++ f5' ++ f6') :
    f1 = f1' ∧ f2 = f2' ∧ f3 = f3' ∧ f4 = f4' ∧ f5 = f5' ∧ f6 = f6' := by
  simp only [List.append_assoc] at h
  obtain ⟨e1, hr⟩ := List.append_inj h h1
  obtain ⟨e2, hr⟩ := List.append_inj hr h2
  obtain ⟨e3, hr⟩ := List.append_inj hr h3
  obtain ⟨e4, hr⟩ := List.append_inj hr h4
  obtain ⟨e5, e6⟩ := List.append_inj hr h5
  exact ⟨e1, e2, e3, e4, e5, e6⟩

/-! ### single-bit flips -/

/-- the byte with only bit `k mod 8` set -/
def bitMask (k : Nat) : UInt8 := UInt8.ofNat (2 ^ (k % 8))

/-- flip bit `i` (bit `i mod 8` of byte `i / 8`) of a byte list; positions past the end change nothing -/
def flipBit (bs : Bytes) (i : Nat) : Bytes := bs.modify (i / 8) (· ^^^ bitMask i)

theorem bitMask_ne_zero (k : Nat) : bitMask k ≠ 0 := by
  have h : ∀ j : Fin 8, UInt8.ofNat (2 ^ j.val) ≠ 0 := by decide
  exact h ⟨k % 8, Nat.mod_lt _ (by decide)⟩

theorem xor_mask_ne (b m : UInt8) (hm : m ≠ 0) : b ^^^ m ≠ b := by
  intro h
  apply hm
  have : b ^^^ (b ^^^ m) = b ^^^ b := by rw [h]
  rwa [← UInt8.xor_assoc, UInt8.xor_self, UInt8.zero_xor] at this

@[simp] theorem flipBit_length (bs : Bytes) (i : Nat) : (flipBit bs i).length = bs.length := by
  simp [flipBit]

/-- each of the `8 * length` single-bit flips really changes the list -/
theorem flipBit_ne (bs : Bytes) (i : Nat) (hi : i < 8 * bs.length) : flipBit bs i ≠ bs := by
  have hlt : i / 8 < bs.length := by omega
  intro h
  have h2 : (flipBit bs i)[i / 8]? = bs[i / 8]? := by rw [h]
  simp only [flipBit, List.getElem?_modify_eq, List.getElem?_eq_getElem hlt, Option.map_eq_map,
    Option.map_some, Option.some.injEq] at h2
  exact xor_mask_ne _ _ (bitMask_ne_zero i) h2

/-- flipping the same bit twice restores the list (the flips are genuine single-bit changes) -/
theorem flipBit_flipBit (bs : Bytes) (i : Nat) : flipBit (flipBit bs i) i = bs := by
  simp only [flipBit, List.modify_modify_eq]
  have : ((fun x : UInt8 => x ^^^ bitMask i) ∘ fun x => x ^^^ bitMask i) = id := by
    funext x; simp [UInt8.xor_assoc]
  rw [this]
  exact List.modify_id _ _

end WowSrp.Layout
