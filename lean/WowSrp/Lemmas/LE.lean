/-
Helper lemmas about the little-endian encodings of `Model/Basic.lean` and `Model/Deps.lean`
(`ofLE`, `toLE`, `leN`, `ofBE`, `Backend.toBytesLe`, `padCopy`). Core Lean only.
-/
import WowSrp.Model.Deps
namespace WowSrp

/-! ### `ofLE` / `toLE` -/

theorem UInt8.toNat_ofNat_mod (n : Nat) : (UInt8.ofNat (n % 256)).toNat = n % 256 := by
  simp [UInt8.toNat_ofNat']

theorem ofLE_nil : ofLE [] = 0 := rfl

theorem ofLE_cons (b : UInt8) (bs : Bytes) : ofLE (b :: bs) = b.toNat + 256 * ofLE bs := rfl

theorem toLE_zero : toLE 0 = [] := by
  unfold toLE; simp

theorem toLE_pos (n : Nat) (h : n ≠ 0) : toLE n = UInt8.ofNat (n % 256) :: toLE (n / 256) := by
  rw [toLE]; simp [h]

theorem toLE_eq_nil_iff (n : Nat) : toLE n = [] ↔ n = 0 := by
  constructor
  · intro h
    apply Classical.byContradiction
    intro hn
    rw [toLE_pos n hn] at h
    exact List.cons_ne_nil _ _ h
  · intro h; subst h; exact toLE_zero

/-- decoding the minimal little-endian digits gives the number back -/
theorem ofLE_toLE (n : Nat) : ofLE (toLE n) = n := by
  induction n using Nat.strongRecOn with
  | _ n ih =>
    unfold toLE
    split
    · next h => simp [ofLE, h]
    · next h =>
      simp only [ofLE]
      rw [ih (n / 256) (by omega)]
      rw [UInt8.toNat_ofNat_mod]; omega

theorem ofLE_append (a b : Bytes) : ofLE (a ++ b) = ofLE a + 256 ^ a.length * ofLE b := by
  induction a with
  | nil => simp [ofLE]
  | cons x xs ih => simp only [List.cons_append, ofLE, ih, List.length_cons, Nat.pow_succ]; grind

theorem ofLE_replicate_zero (k : Nat) : ofLE (List.replicate k 0) = 0 := by
  induction k with
  | zero => rfl
  | succ k ih => simp [List.replicate_succ, ofLE, ih]

/-- trailing zero bytes (the padding of the fixed-size arrays) do not change the value -/
theorem ofLE_append_replicate_zero (a : Bytes) (k : Nat) : ofLE (a ++ List.replicate k 0) = ofLE a := by
  rw [ofLE_append, ofLE_replicate_zero]; simp

theorem ofLE_lt (bs : Bytes) : ofLE bs < 256 ^ bs.length := by
  induction bs with
  | nil => simp [ofLE]
  | cons b bs ih =>
    simp only [ofLE, List.length_cons, Nat.pow_succ]
    have := b.toNat_lt
    omega

theorem toLE_length_le (n k : Nat) (h : n < 256 ^ k) : (toLE n).length ≤ k := by
  induction k generalizing n with
  | zero => simp at h; subst h; simp [toLE]
  | succ k ih =>
    unfold toLE
    split
    · simp
    · simp only [List.length_cons]
      have : n / 256 < 256 ^ k := by
        rw [Nat.pow_succ] at h; omega
      have := ih _ this; omega

/-- conversely the minimal encoding of a number `≥ 256^k` has more than `k` bytes -/
theorem toLE_length_gt (n k : Nat) (h : 256 ^ k ≤ n) : k < (toLE n).length := by
  apply Classical.byContradiction
  intro hle
  have h1 := ofLE_lt (toLE n)
  rw [ofLE_toLE] at h1
  have h2 : 256 ^ (toLE n).length ≤ 256 ^ k := Nat.pow_le_pow_right (by omega) (by omega)
  omega

theorem toLE_length_le_iff (n k : Nat) : (toLE n).length ≤ k ↔ n < 256 ^ k := by
  constructor
  · intro h
    apply Classical.byContradiction
    intro hn
    have := toLE_length_gt n k (by omega)
    omega
  · exact toLE_length_le n k

/-- equal length and equal value ⇒ equal byte strings -/
theorem ofLE_inj : ∀ (a b : Bytes), a.length = b.length → ofLE a = ofLE b → a = b
  | [], [], _, _ => rfl
  | x :: xs, y :: ys, hl, h => by
    simp only [ofLE] at h
    have hx := x.toNat_lt; have hy := y.toNat_lt
    have h1 : x.toNat = y.toNat := by omega
    have h2 : ofLE xs = ofLE ys := by omega
    have := ofLE_inj xs ys (by simpa using hl) h2
    have hxy : x = y := UInt8.toNat_inj.mp h1
    rw [this, hxy]
  | [], _ :: _, hl, _ => by simp at hl
  | _ :: _, [], hl, _ => by simp at hl

theorem ofLE_eq_zero_iff_forall (bs : Bytes) : ofLE bs = 0 ↔ ∀ b ∈ bs, b = 0 := by
  induction bs with
  | nil => simp [ofLE]
  | cons b bs ih =>
    simp only [ofLE, List.mem_cons, forall_eq_or_imp]
    constructor
    · intro h
      have hb : b.toNat = 0 := by omega
      have hr : ofLE bs = 0 := by omega
      exact ⟨UInt8.toNat_inj.mp (by simpa using hb), ih.mp hr⟩
    · rintro ⟨hb, hr⟩
      subst hb
      rw [ih.mpr hr]; rfl

/-- the value is zero exactly for the all-zero byte strings (`key.iter().all(|b| *b == 0)`) -/
theorem ofLE_eq_zero_iff (bs : Bytes) : ofLE bs = 0 ↔ bs.all (· == 0) = true := by
  rw [ofLE_eq_zero_iff_forall]
  simp [List.all_eq_true]

/-! ### `leN` (fixed width) -/

theorem leN_length (w n : Nat) : (leN w n).length = w := by
  induction w generalizing n with
  | zero => rfl
  | succ w ih => simp [leN, ih]

/-- in general `leN` keeps the low `w` bytes -/
theorem ofLE_leN_mod (w n : Nat) : ofLE (leN w n) = n % 256 ^ w := by
  induction w generalizing n with
  | zero => simp [leN, ofLE, Nat.mod_one]
  | succ w ih =>
    simp only [leN, ofLE, ih, UInt8.toNat_ofNat_mod]
    rw [Nat.pow_succ, Nat.mul_comm (256 ^ w) 256, Nat.mod_mul]

theorem ofLE_leN (w n : Nat) (h : n < 256 ^ w) : ofLE (leN w n) = n := by
  rw [ofLE_leN_mod, Nat.mod_eq_of_lt h]

/-- the fixed-width encoding is the minimal one padded with zero bytes -/
theorem leN_eq_pad_toLE (w n : Nat) (h : n < 256 ^ w) :
    leN w n = toLE n ++ List.replicate (w - (toLE n).length) 0 := by
  have hl := toLE_length_le n w h
  apply ofLE_inj
  · simp [leN_length]; omega
  · rw [ofLE_leN w n h, ofLE_append_replicate_zero, ofLE_toLE]

/-- a `w`-byte string is the fixed-width encoding of its value -/
theorem leN_ofLE (bs : Bytes) : leN bs.length (ofLE bs) = bs := by
  apply ofLE_inj
  · exact leN_length _ _
  · exact ofLE_leN _ _ (ofLE_lt bs)

theorem leN_zero (w : Nat) : leN w 0 = List.replicate w 0 := by
  apply ofLE_inj
  · simp [leN_length]
  · rw [ofLE_leN w 0 (Nat.pow_pos (by omega)), ofLE_replicate_zero]

theorem leN_inj (w a b : Nat) (ha : a < 256 ^ w) (hb : b < 256 ^ w) (h : leN w a = leN w b) : a = b := by
  rw [← ofLE_leN w a ha, ← ofLE_leN w b hb, h]

/-! ### `Backend.toBytesLe` and `padCopy` -/

theorem Backend.ofLE_toBytesLe (be : Backend) (n : Nat) : ofLE (be.toBytesLe n) = n := by
  cases be
  · simp only [Backend.toBytesLe]
    by_cases h : n = 0
    · subst h; rfl
    · rw [if_neg h]; exact ofLE_toLE n
  · exact ofLE_toLE n

/-- `num-bigint` writes zero as `[0]`, otherwise both back ends give the minimal digits -/
theorem Backend.toBytesLe_length_le (be : Backend) (n w : Nat) (h : n < 256 ^ w) (hw : 0 < w) :
    (be.toBytesLe n).length ≤ w := by
  cases be
  · simp only [Backend.toBytesLe]
    by_cases h0 : n = 0
    · rw [if_pos h0]; exact hw
    · rw [if_neg h0]; exact toLE_length_le n w h
  · exact toLE_length_le n w h

theorem Backend.toBytesLe_length_gt (be : Backend) (n w : Nat) (h : 256 ^ w ≤ n) :
    w < (be.toBytesLe n).length := by
  have hn : n ≠ 0 := by
    have : 0 < 256 ^ w := Nat.pow_pos (by omega)
    omega
  cases be
  · simp only [Backend.toBytesLe, hn, if_false]; exact toLE_length_gt n w h
  · exact toLE_length_gt n w h

theorem padCopy_ok_iff (w : Nat) (bs : Bytes) (site : String) :
    (∃ r, padCopy w bs site = .ok r) ↔ bs.length ≤ w := by
  unfold padCopy
  split
  · next h => simp [h]
  · next h => simp [h]

/-- the copy into the fixed-size array panics exactly when the source is longer than the array -/
theorem padCopy_panic_iff (w : Nat) (bs : Bytes) (site : String) :
    (∃ s, padCopy w bs site = .panic s) ↔ w < bs.length := by
  unfold padCopy
  split
  · next h => simp; omega
  · next h => simp; omega

theorem padCopy_panic (w : Nat) (bs : Bytes) (site : String) (h : w < bs.length) :
    padCopy w bs site = .panic site := by
  unfold padCopy
  rw [if_neg (by omega)]

theorem padCopy_ok (w : Nat) (bs : Bytes) (site : String) (h : bs.length ≤ w) :
    padCopy w bs site = .ok (bs ++ List.replicate (w - bs.length) 0) := by
  unfold padCopy
  rw [if_pos h]

theorem padCopy_ok_length (w : Nat) (bs r : Bytes) (site : String) (h : padCopy w bs site = .ok r) :
    r.length = w := by
  unfold padCopy at h
  split at h
  · next hl => cases h; simp; omega
  · cases h

theorem padCopy_ok_ofLE (w : Nat) (bs r : Bytes) (site : String) (h : padCopy w bs site = .ok r) :
    ofLE r = ofLE bs := by
  unfold padCopy at h
  split at h
  · cases h; exact ofLE_append_replicate_zero _ _
  · cases h

/-- a successful copy yields the `w`-byte encoding of the value of the source -/
theorem padCopy_ok_eq_leN (w : Nat) (bs r : Bytes) (site : String) (h : padCopy w bs site = .ok r) :
    r = leN w (ofLE bs) := by
  have hl := padCopy_ok_length w bs r site h
  have hv := padCopy_ok_ofLE w bs r site h
  rw [← hv, ← hl]; exact (leN_ofLE r).symm

/-- Both back ends: a number below `256^w` (with `w > 0`) lands in the `w`-byte array as its fixed-width
    little-endian encoding — the zero padding and the `[0]` (num-bigint) versus `[]` (rug) conventions
    for zero make no difference. -/
theorem padCopy_toBytesLe (be : Backend) (w n : Nat) (site : String) (h : n < 256 ^ w) (hw : 0 < w) :
    padCopy w (be.toBytesLe n) site = .ok (leN w n) := by
  have hl := be.toBytesLe_length_le n w h hw
  rw [padCopy_ok w _ site hl]
  congr 1
  apply ofLE_inj
  · simp [leN_length]; omega
  · rw [ofLE_append_replicate_zero, be.ofLE_toBytesLe, ofLE_leN w n h]

/-- the rug back end needs no `0 < w` -/
theorem padCopy_toBytesLe_rug (w n : Nat) (site : String) (h : n < 256 ^ w) :
    padCopy w (Backend.rug.toBytesLe n) site = .ok (leN w n) := by
  have hl : (Backend.rug.toBytesLe n).length ≤ w := toLE_length_le n w h
  rw [padCopy_ok w _ site hl]
  congr 1
  apply ofLE_inj
  · simp [leN_length]; omega
  · rw [ofLE_append_replicate_zero, Backend.ofLE_toBytesLe, ofLE_leN w n h]

/-- … and a number that does not fit makes the copy panic, in both back ends -/
theorem padCopy_toBytesLe_panic (be : Backend) (w n : Nat) (site : String) (h : 256 ^ w ≤ n) :
    padCopy w (be.toBytesLe n) site = .panic site :=
  padCopy_panic w _ site (be.toBytesLe_length_gt n w h)

/-- for `w > 0`: the copy of `be.toBytesLe n` panics iff `n ≥ 256^w` -/
theorem padCopy_toBytesLe_panic_iff (be : Backend) (w n : Nat) (site : String) (hw : 0 < w) :
    (∃ s, padCopy w (be.toBytesLe n) site = .panic s) ↔ 256 ^ w ≤ n := by
  constructor
  · rintro ⟨s, hs⟩
    apply Classical.byContradiction
    intro hn
    rw [padCopy_toBytesLe be w n site (by omega) hw] at hs
    cases hs
  · intro h; exact ⟨site, padCopy_toBytesLe_panic be w n site h⟩

/-! ### big endian -/

theorem ofBE_foldl (bs : Bytes) (acc : Nat) :
    bs.foldl (fun acc b => acc * 256 + b.toNat) acc = acc * 256 ^ bs.length + ofLE bs.reverse := by
  induction bs generalizing acc with
  | nil => simp [ofLE]
  | cons b bs ih =>
    simp only [List.foldl_cons, ih, List.reverse_cons, ofLE_append, List.length_reverse, ofLE,
      List.length_cons, Nat.pow_succ]
    grind

/-- the big-endian value of a byte string is the little-endian value of its reverse -/
theorem ofBE_eq_ofLE_reverse (bs : Bytes) : ofBE bs = ofLE bs.reverse := by
  unfold ofBE
  rw [ofBE_foldl]; simp

end WowSrp
