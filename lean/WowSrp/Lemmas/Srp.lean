/-
Refinement lemmas for C03 / C01: each function of `Model/Srp.lean` computes the value `Spec/Srp.lean`
defines — big-integer results land in their 32-byte arrays as `leN 32 _`, the bounded zero scan of
`SKey::as_equal_slice` is `Spec.strip`, the array-filling interleave loop is `Spec.interleave`.
-/
import WowSrp.Spec.Srp
import WowSrp.Lemmas.Pratt
import WowSrp.Lemmas.SrpAlgebra
namespace WowSrp

/-- the Spec's literal is the number the Rust constant denotes -/
theorem specN_eq : Spec.N = nBig := nBig_val.symm

theorem specN_pos : 0 < Spec.N := specN_eq ▸ nBig_pos
theorem specN_lt : Spec.N < 256 ^ 32 := specN_eq ▸ nBig_lt'

/-! ### the zero scan of `as_equal_slice` -/

theorem Spec.zeros_nil : Spec.zeros [] = 0 := rfl

theorem Spec.zeros_cons_zero (r : Bytes) : Spec.zeros (0 :: r) = Spec.zeros r + 1 := by
  simp [Spec.zeros]

theorem Spec.zeros_cons_ne (b : UInt8) (r : Bytes) (h : b ≠ 0) : Spec.zeros (b :: r) = 0 := by
  simp [Spec.zeros, h]

theorem Spec.zeros_le (s : Bytes) : Spec.zeros s ≤ s.length :=
  (List.takeWhile_prefix _).length_le

/-- the bounded scan stops at the number of low-order zero bytes — for every string, the all-zero
    one included (induction on the scan) -/
theorem scanZeros_spec (s : Bytes) (fuel lead : Nat) (hf : s.length < lead + fuel) :
    scanZeros s fuel lead = lead + Spec.zeros (s.drop lead) := by
  induction fuel generalizing lead with
  | zero =>
    have : s.drop lead = [] := List.drop_eq_nil_of_le (by omega)
    simp [scanZeros, this, Spec.zeros_nil]
  | succ n ih =>
    unfold scanZeros
    rcases Nat.lt_or_ge lead s.length with hlt | hge
    · have hd : s.drop lead = s[lead] :: s.drop (lead + 1) := List.drop_eq_getElem_cons hlt
      simp only [List.getElem?_eq_getElem hlt]
      by_cases h0 : s[lead] = 0
      · simp only [h0, beq_self_eq_true, if_true]
        rw [ih (lead + 1) (by omega), hd, h0, Spec.zeros_cons_zero]; omega
      · have : (s[lead] == 0) = false := by simpa using h0
        simp only [this, Bool.false_eq_true, if_false]
        rw [hd, Spec.zeros_cons_ne _ _ h0]; rfl
    · have : s.drop lead = [] := List.drop_eq_nil_of_le hge
      simp [List.getElem?_eq_none hge, this, Spec.zeros_nil]

/-- `as_equal_slice` on a string of even length is the Spec's strip rule, and never panics -/
theorem asEqualSlice_spec (s : Bytes) (heven : s.length % 2 = 0) :
    asEqualSlice s = .ok (Spec.strip s) := by
  unfold asEqualSlice
  rw [scanZeros_spec s (s.length + 1) 0 (by omega)]
  simp only [List.drop_zero, Nat.zero_add]
  have hz := Spec.zeros_le s
  unfold Spec.strip
  by_cases hodd : Spec.zeros s % 2 = 1
  · simp [hodd]; omega
  · have h0 : Spec.zeros s % 2 = 0 := by omega
    simp [h0]; omega

theorem Spec.strip_length_even (s : Bytes) (heven : s.length % 2 = 0) :
    (Spec.strip s).length % 2 = 0 := by
  have hz := Spec.zeros_le s
  simp only [Spec.strip, List.length_drop]; omega

theorem Spec.strip_length_le (s : Bytes) : (Spec.strip s).length ≤ s.length := by
  simp only [Spec.strip, List.length_drop]; omega

/-! ### even / odd positions, array filling, zipping -/

theorem evens_odds_halves : ∀ (s : Bytes), s.length % 2 = 0 →
    evens s = (Spec.halves s).1 ∧ odds s = (Spec.halves s).2 ∧
    (Spec.halves s).1.length = s.length / 2 ∧ (Spec.halves s).2.length = s.length / 2
  | [], _ => by simp [evens, odds, Spec.halves]
  | [_], h => by simp at h
  | a :: b :: r, h => by
    have hr : r.length % 2 = 0 := by simp only [List.length_cons] at h; omega
    obtain ⟨h1, h2, h3, h4⟩ := evens_odds_halves r hr
    simp only [evens, odds, Spec.halves, h1, h2, List.length_cons, h3, h4, true_and]
    omega

theorem fillArr_take (w : Nat) (xs : Bytes) (site : String) (h : xs.length ≤ w) :
    ∃ E, fillArr w xs site = .ok E ∧ E.take xs.length = xs := by
  refine ⟨_, by unfold fillArr; rw [if_pos h], ?_⟩
  simp

theorem zipFlat_eq : ∀ (G H : Bytes), zipFlat G H = Spec.zipInterleave G H
  | [], _ => by simp [zipFlat, Spec.zipInterleave]
  | _ :: _, [] => by simp [zipFlat, Spec.zipInterleave]
  | a :: as, b :: bs => by
    simp only [zipFlat, Spec.zipInterleave, List.zip_cons_cons, List.flatMap_cons, List.cons_append,
      List.nil_append]
    rw [zipFlat_eq as bs]; rfl

theorem Spec.zipInterleave_length : ∀ (G H : Bytes), G.length = H.length →
    (Spec.zipInterleave G H).length = 2 * G.length
  | [], [], _ => rfl
  | [], _ :: _, h => by simp at h
  | _ :: _, [], h => by simp at h
  | a :: as, b :: bs, h => by
    have := Spec.zipInterleave_length as bs (by simpa using h)
    simp only [Spec.zipInterleave, List.zip_cons_cons, List.flatMap_cons, List.length_append,
      List.length_cons, List.length_nil] at this ⊢
    omega

theorem Spec.interleave_length (C : Crypto) (hC : C.WF) (s : Bytes) :
    (Spec.interleave C s).length = 40 := by
  unfold Spec.interleave
  rw [Spec.zipInterleave_length _ _ (by rw [hC.sha1_len, hC.sha1_len]), hC.sha1_len]

/-- **interleave**: for every even-length secret of at most 32 bytes (in particular every 32-byte S,
    whatever its number 0..32 of low-order zero bytes) the array-filling loops compute SHA_Interleave -/
theorem calculateInterleaved_spec (C : Crypto) (hC : C.WF) (S : Bytes) (heven : S.length % 2 = 0)
    (hle : S.length ≤ 32) : calculateInterleaved C S = .ok (Spec.interleave C S) := by
  unfold calculateInterleaved
  rw [asEqualSlice_spec S heven]
  have hte := Spec.strip_length_even S heven
  have htl := Spec.strip_length_le S
  obtain ⟨h1, h2, h3, h4⟩ := evens_odds_halves (Spec.strip S) hte
  obtain ⟨E, hE, hEt⟩ := fillArr_take 16 (evens (Spec.strip S)) "srp_internal.rs:161 index out of bounds"
    (by rw [h1, h3]; omega)
  obtain ⟨F, hF, hFt⟩ := fillArr_take 16 (odds (Spec.strip S)) "srp_internal.rs:167 index out of bounds"
    (by rw [h2, h4]; omega)
  rw [h1, h3] at hEt
  rw [h2, h4] at hFt
  simp only [Out.bind_ok, hE, hF, hEt, hFt, zipFlat_eq]
  have hl := Spec.interleave_length C hC S
  unfold Spec.interleave at hl ⊢
  simp only [hl, Nat.le_refl, if_true, Nat.sub_self, List.replicate_zero, List.append_nil]

/-! ### big-integer results in their 32-byte arrays -/

theorem toPadded32_lt (be : Backend) (n : Nat) (h : n < 256 ^ 32) : toPadded32 be n = .ok (leN 32 n) :=
  padCopy_toBytesLe be 32 n _ h (by omega)

theorem remOut_pos (a b : Nat) (hb : 0 < b) : remOut a b = .ok (a % b) := by
  unfold remOut; rw [if_neg (by omega)]

theorem lt_of_lt_ofLE32 (n : Nat) (nLE : Bytes) (hl : nLE.length = 32) (h : n < ofLE nLE) : n < 256 ^ 32 := by
  have := ofLE_lt nLE; rw [hl] at this; omega

/-- `modpowVal` as the Euclidean remainder of the integer power -/
theorem modpowVal_toNat (base : Int) (e m : Nat) (hm : 0 < m) :
    modpowVal base e m = ((base ^ e) % (m : Int)).toNat := by
  rw [← modpowVal_spec base e m hm, Int.toNat_natCast]

theorem kBig_cast : (kBig : Int) = 3 := rfl
theorem gBig_byte : UInt8.ofNat gBig = 7 := rfl

/-- `calculate_password_verifier`: v = 7^x mod N as 32 little-endian bytes (both back ends) -/
theorem calculatePasswordVerifier_spec (C : Crypto) (be : Backend) (U P salt : Bytes) :
    calculatePasswordVerifier C be U P salt = .ok (leN 32 (Spec.v 7 (Spec.x C U P salt) Spec.N)) := by
  simp only [calculatePasswordVerifier, Backend.modpow_ok _ _ _ _ nBig_pos, Out.bind_ok]
  rw [modpowVal_natCast, toPadded32_lt _ _ (Nat.lt_trans (Nat.mod_lt _ nBig_pos) nBig_lt')]
  simp only [Spec.v, Spec.x, specN_eq, calculateX, gBig_val]

/-- `check_public_key` on a 32-byte string, in terms of its value -/
theorem checkPublicKey_eq (key : Bytes) (hl : key.length = 32) :
    checkPublicKey key =
      if ofLE key = 0 then .error .isZero else if ofLE key = nBig then .error .modIsZero else .ok () := by
  unfold checkPublicKey
  by_cases h0 : ofLE key = 0
  · rw [if_pos ((ofLE_eq_zero_iff key).mp h0), if_pos h0]
  · have : ¬ (key.all (· == 0) = true) := fun h => h0 ((ofLE_eq_zero_iff key).mpr h)
    rw [if_neg this, if_neg h0]
    by_cases hN : ofLE key = nBig
    · rw [if_pos hN, if_pos (by simpa using (ofLE_eq_nBig_iff key hl).mp hN)]
    · rw [if_neg hN, if_neg (by simpa using fun h => hN ((ofLE_eq_nBig_iff key hl).mpr h))]

/-- a 32-byte key whose value lies in `[1, N-1]` is accepted -/
theorem PublicKey.fromLE_leN (n : Nat) (h0 : n ≠ 0) (hN : n < nBig) :
    PublicKey.fromLE (leN 32 n) = .ok (leN 32 n) := by
  have hv : ofLE (leN 32 n) = n := ofLE_leN 32 n (Nat.lt_trans hN nBig_lt')
  unfold PublicKey.fromLE
  rw [checkPublicKey_eq _ (leN_length 32 n), hv, if_neg h0, if_neg (by omega)]

/-- … and the value 0 is refused -/
theorem PublicKey.fromLE_leN_zero : PublicKey.fromLE (leN 32 0) = .error .isZero := by
  have hv : ofLE (leN 32 0) = 0 := ofLE_leN 32 0 (by decide)
  unfold PublicKey.fromLE
  rw [checkPublicKey_eq _ (leN_length 32 0), hv, if_pos rfl]

/-- `calculate_server_public_key`: B = (3·v + 7^b) mod N as 32 bytes, then the public-key check -/
theorem calculateServerPublicKey_spec (be : Backend) (v b : Bytes) :
    calculateServerPublicKey be v b = .ok (PublicKey.fromLE (leN 32 (Spec.B (ofLE v) (ofLE b)))) := by
  simp only [calculateServerPublicKey, Backend.modpow_ok _ _ _ _ nBig_pos, Out.bind_ok,
    remOut_pos _ _ nBig_pos, PublicKey.tryFromBigint]
  rw [padCopy_toBytesLe be 32 _ _ (Nat.lt_trans (Nat.mod_lt _ nBig_pos) nBig_lt') (by omega)]
  simp only [Out.bind_ok, Out.pure_eq, modpowVal_natCast, Spec.B, specN_eq, gBig_val, kBig_val]

/-- `calculate_client_public_key`: A = g^a mod N' for every generator and every announced positive
    32-byte modulus (primality plays no role) -/
theorem calculateClientPublicKey_spec (be : Backend) (a : Bytes) (g : Nat) (nLE : Bytes)
    (hN : 0 < ofLE nLE) (hl : nLE.length = 32) :
    calculateClientPublicKey be a g nLE =
      .ok (if Spec.A g (ofLE a) (ofLE nLE) = 0 then .error .isZero
           else .ok (leN 32 (Spec.A g (ofLE a) (ofLE nLE)))) := by
  simp only [calculateClientPublicKey, Backend.modpow_ok _ _ _ _ hN, Out.bind_ok, modpowVal_natCast,
    PublicKey.clientTryFromBigint]
  have hlt : g ^ ofLE a % ofLE nLE < ofLE nLE := Nat.mod_lt _ hN
  show _ = Out.ok (if g ^ ofLE a % ofLE nLE = 0 then _ else _)
  by_cases h0 : g ^ ofLE a % ofLE nLE = 0
  · rw [if_pos h0, if_pos h0]
  · rw [if_neg h0, if_neg h0, remOut_pos _ _ hN]
    simp only [Out.bind_ok, Nat.mod_mod, if_neg h0]
    rw [padCopy_toBytesLe be 32 _ _ (lt_of_lt_ofLE32 _ nLE hl hlt) (by omega)]
    rfl

/-- `calculate_S` (server): S = (A·v^u)^b mod N as 32 bytes -/
theorem calculateS_spec (be : Backend) (A v u b : Bytes) :
    calculateS be A v u b = .ok (leN 32 (Spec.Sserver (ofLE A) (ofLE v) (ofLE u) (ofLE b))) := by
  simp only [calculateS, Backend.modpow_ok _ _ _ _ nBig_pos, Out.bind_ok]
  rw [modpowVal_natCast_mul, modpowVal_natCast,
    padCopy_toBytesLe be 32 _ _ (Nat.lt_trans (Nat.mod_lt _ nBig_pos) nBig_lt') (by omega)]
  simp only [Spec.Sserver, specN_eq]

/-- `calculate_client_S`: S = (B − 3·g^x)^(a+u·x) mod N' (Euclidean; base possibly negative) as 32
    bytes, for every generator and every announced positive 32-byte modulus -/
theorem calculateClientS_spec (be : Backend) (B x a u : Bytes) (g : Nat) (nLE : Bytes)
    (hN : 0 < ofLE nLE) (hl : nLE.length = 32) :
    calculateClientS be B x a u g nLE =
      .ok (leN 32 (Spec.Sclient (ofLE B) (ofLE x) (ofLE a) (ofLE u) g (ofLE nLE))) := by
  simp only [calculateClientS, Backend.modpow_ok _ _ _ _ hN, Out.bind_ok]
  rw [toPadded32_lt _ _ (lt_of_lt_ofLE32 _ nLE hl (modpowVal_lt _ _ _ hN))]
  rw [modpowVal_toNat _ _ _ hN, modpowVal_natCast, kBig_cast]
  rfl

/-! ### proofs M1, M2 -/

/-- the constant `PRECALCULATED_XOR_HASH` of srp_internal.rs is `H(N) xor H(g)` for the built-in group
    (a fact about the hash function: true for SHA-1, see `C03_xor_hash_real`) -/
def Crypto.XorHashOk (C : Crypto) : Prop :=
  Gen.precalculatedXorHash = xorBytes (C.sha1 Gen.largeSafePrimeLE) (C.sha1 [7])

theorem leN_one (g : Nat) : leN 1 g = [UInt8.ofNat g] := by
  have : UInt8.ofNat (g % 256) = UInt8.ofNat g := by
    apply UInt8.toNat_inj.mp; simp [UInt8.toNat_ofNat']
  simp [leN, this]

theorem calculateClientProofCustom_spec (C : Crypto) (U K A B salt nLE : Bytes) (g : Nat) :
    calculateClientProofCustom C U K A B salt nLE g = Spec.M1 C nLE g U salt A B K := by
  simp only [calculateClientProofCustom, calculateXorHash, Spec.M1, leN_one]

theorem calculateClientProof_spec (C : Crypto) (hx : C.XorHashOk) (U K A B salt : Bytes) :
    calculateClientProof C U K A B salt = Spec.M1 C Gen.largeSafePrimeLE 7 U salt A B K := by
  simp only [calculateClientProof, Spec.M1, leN_one]
  rw [hx]; rfl

theorem calculateServerProof_spec (C : Crypto) (A M1 K : Bytes) :
    calculateServerProof C A M1 K = Spec.M2 C A M1 K := rfl

/-! ### the API functions of server.rs / client.rs -/

/-- `u = H(A | B)` on 32-byte fields -/
theorem calculateU_spec (C : Crypto) (A B : Bytes) (hA : A.length = 32) (hB : B.length = 32) :
    ofLE (calculateU C A B) = Spec.u C (ofLE A) (ofLE B) := by
  have h1 := leN_ofLE A; have h2 := leN_ofLE B
  rw [hA] at h1; rw [hB] at h2
  simp only [calculateU, Spec.u, h1, h2]

/-- `calculate_session_key` (server): K = SHA_Interleave(LE32((A·v^u)^b mod N)), u = H(A|B) -/
theorem calculateSessionKey_spec (C : Crypto) (hC : C.WF) (be : Backend) (A B v b : Bytes)
    (hA : A.length = 32) (hB : B.length = 32) :
    calculateSessionKey C be A B v b =
      .ok (Spec.K C (Spec.Sserver (ofLE A) (ofLE v) (Spec.u C (ofLE A) (ofLE B)) (ofLE b))) := by
  simp only [calculateSessionKey, calculateS_spec, Out.bind_ok, calculateU_spec C A B hA hB]
  exact calculateInterleaved_spec C hC _ (by rw [leN_length]) (by simp [leN_length])

/-- what registration stores -/
theorem SrpVerifier.fromUsernameAndPassword_spec (C : Crypto) (be : Backend) (u p : NStr) (salt : Bytes) :
    SrpVerifier.fromUsernameAndPassword C be u p salt =
      .ok ⟨u, leN 32 (Spec.v 7 (Spec.x C u.asRef p.asRef salt) Spec.N), salt⟩ := by
  simp only [SrpVerifier.fromUsernameAndPassword, calculatePasswordVerifier_spec, Out.bind_ok,
    Out.pure_eq, SrpVerifier.fromDatabaseValues]

theorem Spec.B_lt (v b : Nat) : Spec.B v b < nBig := by
  unfold Spec.B; rw [specN_eq]; exact Nat.mod_lt _ nBig_pos

/-- `into_proof`: exposes B = (3·v + 7^b) mod N, and panics exactly when that number is 0 -/
theorem SrpVerifier.intoProof_spec (be : Backend) (s : SrpVerifier) (b : Bytes) :
    s.intoProof be b =
      if Spec.B (ofLE s.passwordVerifier) (ofLE b) = 0
      then .panic "server.rs:296 The generated public key was invalid"
      else .ok ⟨s.username, leN 32 (Spec.B (ofLE s.passwordVerifier) (ofLE b)), s.salt, b,
                s.passwordVerifier⟩ := by
  simp only [SrpVerifier.intoProof, SrpVerifier.withSpecificPrivateKey, calculateServerPublicKey_spec,
    Out.bind_ok]
  by_cases h0 : Spec.B (ofLE s.passwordVerifier) (ofLE b) = 0
  · rw [if_pos h0, h0, PublicKey.fromLE_leN_zero]; rfl
  · rw [if_neg h0, PublicKey.fromLE_leN _ h0 (Spec.B_lt _ _)]; rfl

/-- `SrpClientChallenge::new` for any announced group: A, K and M1 are the Spec values -/
theorem SrpClientChallenge.new_spec (C : Crypto) (hC : C.WF) (be : Backend) (u p : NStr) (g : Nat)
    (nLE B salt a : Bytes) (hN : 0 < ofLE nLE) (hl : nLE.length = 32) (hB : B.length = 32)
    (hA : Spec.A g (ofLE a) (ofLE nLE) ≠ 0) :
    SrpClientChallenge.new C be u p g nLE B salt a =
      .ok ⟨u,
        Spec.M1 C nLE g u.asRef salt (leN 32 (Spec.A g (ofLE a) (ofLE nLE))) B
          (Spec.K C (Spec.Sclient (ofLE B) (Spec.x C u.asRef p.asRef salt) (ofLE a)
            (Spec.u C (Spec.A g (ofLE a) (ofLE nLE)) (ofLE B)) g (ofLE nLE))),
        leN 32 (Spec.A g (ofLE a) (ofLE nLE)),
        Spec.K C (Spec.Sclient (ofLE B) (Spec.x C u.asRef p.asRef salt) (ofLE a)
            (Spec.u C (Spec.A g (ofLE a) (ofLE nLE)) (ofLE B)) g (ofLE nLE))⟩ := by
  have hAlt : Spec.A g (ofLE a) (ofLE nLE) < 256 ^ 32 :=
    lt_of_lt_ofLE32 _ nLE hl (Nat.mod_lt _ hN)
  have hu := calculateU_spec C (leN 32 (Spec.A g (ofLE a) (ofLE nLE))) B (leN_length _ _) hB
  rw [ofLE_leN 32 _ hAlt] at hu
  simp only [SrpClientChallenge.new, calculateClientPublicKey_spec be a g nLE hN hl, if_neg hA,
    Out.bind_ok, calculateClientS_spec be _ _ _ _ g nLE hN hl, hu, calculateClientProofCustom_spec]
  rw [calculateInterleaved_spec C hC _ (by rw [leN_length]) (by simp [leN_length])]
  rfl

/-- `into_server`: K and M2 are the Spec values; M1 is compared with the server's own M1 -/
theorem SrpProof.intoServer_spec (C : Crypto) (hC : C.WF) (be : Backend) (p : SrpProof)
    (A M1 challenge : Bytes) (hA : A.length = 32) (hB : p.serverPublicKey.length = 32) :
    p.intoServer C be A M1 challenge =
      .ok (if M1 = calculateClientProof C p.username.asRef
                (Spec.K C (Spec.Sserver (ofLE A) (ofLE p.passwordVerifier)
                  (Spec.u C (ofLE A) (ofLE p.serverPublicKey)) (ofLE p.serverPrivateKey)))
                A p.serverPublicKey p.salt
           then .ok (⟨p.username,
                  Spec.K C (Spec.Sserver (ofLE A) (ofLE p.passwordVerifier)
                    (Spec.u C (ofLE A) (ofLE p.serverPublicKey)) (ofLE p.serverPrivateKey)),
                  challenge⟩,
                 Spec.M2 C A M1
                  (Spec.K C (Spec.Sserver (ofLE A) (ofLE p.passwordVerifier)
                    (Spec.u C (ofLE A) (ofLE p.serverPublicKey)) (ofLE p.serverPrivateKey))))
           else .error ⟨M1, calculateClientProof C p.username.asRef
                (Spec.K C (Spec.Sserver (ofLE A) (ofLE p.passwordVerifier)
                  (Spec.u C (ofLE A) (ofLE p.serverPublicKey)) (ofLE p.serverPrivateKey)))
                A p.serverPublicKey p.salt⟩) := by
  simp only [SrpProof.intoServer, calculateSessionKey_spec C hC be A _ _ _ hA hB, Out.bind_ok]
  split
  · next h => simp only [bne_iff_ne, ne_eq] at h; rw [if_neg h]; rfl
  · next h =>
    simp only [bne_iff_ne, ne_eq, Decidable.not_not] at h
    rw [if_pos h, ← h]; rfl

/-- `verify_server_proof`: accepts exactly M2 = H(A | M1 | K) and then hands out K -/
theorem SrpClientChallenge.verifyServerProof_spec (C : Crypto) (c : SrpClientChallenge) (M2 : Bytes) :
    c.verifyServerProof C M2 =
      if M2 = Spec.M2 C c.clientPublicKey c.clientProof c.sessionKey
      then .ok ⟨c.username, c.sessionKey⟩
      else .error ⟨Spec.M2 C c.clientPublicKey c.clientProof c.sessionKey, M2⟩ := by
  simp only [SrpClientChallenge.verifyServerProof, calculateServerProof, Spec.M2]
  by_cases h : M2 = C.sha1 (c.clientPublicKey ++ c.clientProof ++ c.sessionKey)
  · simp [h]
  · simp

/-! ### agreement of the two secrets, and the client for the built-in group -/

/-- **client and server secrets are the same number** (built-in group, every x, a, b, u): the Spec-level
    form of `srp_agree`; the client's base `B − 3·v` may be negative -/
theorem Spec.S_agree (x a b u : Nat) :
    Spec.Sclient (Spec.B (Spec.v 7 x Spec.N) b) x a u 7 Spec.N
      = Spec.Sserver (Spec.A 7 a Spec.N) (Spec.v 7 x Spec.N) u b := by
  have h := srp_agree Spec.N 7 3 x a b u
  simp only at h
  unfold Spec.Sclient Spec.Sserver Spec.B Spec.A Spec.v
  have h2 : (((7 ^ a % Spec.N * ((7 ^ x % Spec.N) ^ u % Spec.N)) ^ b % Spec.N : Nat) : Int)
      = (((((3 * (7 ^ x % Spec.N) + 7 ^ b % Spec.N) % Spec.N : Nat) : Int)
          - 3 * ((7 ^ x % Spec.N : Nat) : Int)) ^ (a + u * x)) % (Spec.N : Int) := by
    push_cast at h ⊢; exact h.symm
  rw [← h2, Int.toNat_natCast]

/-- A = 7^a mod N is never 0: N is prime and does not divide 7 -/
theorem Spec.A_builtin_ne_zero (a : Nat) : Spec.A 7 a Spec.N ≠ 0 := by
  unfold Spec.A; rw [specN_eq]
  exact pow_mod_prime_ne_zero nBig 7 a nBig_prime gBig_not_dvd

theorem Spec.A_builtin_lt (a : Nat) : Spec.A 7 a Spec.N < nBig := by
  unfold Spec.A; rw [specN_eq]; exact Nat.mod_lt _ nBig_pos

/-- the verifier v = 7^x mod N is never 0 either -/
theorem Spec.v_builtin_ne_zero (x : Nat) : Spec.v 7 x Spec.N ≠ 0 := Spec.A_builtin_ne_zero x

theorem Spec.v_builtin_lt (x : Nat) : Spec.v 7 x Spec.N < nBig := Spec.A_builtin_lt x

/-- `SrpClientChallenge::new` against the built-in group (what an honest server announces) -/
theorem SrpClientChallenge.new_builtin (C : Crypto) (hC : C.WF) (be : Backend) (u p : NStr)
    (B salt a : Bytes) (hB : B.length = 32) :
    SrpClientChallenge.new C be u p gBig Gen.largeSafePrimeLE B salt a =
      .ok ⟨u,
        Spec.M1 C Gen.largeSafePrimeLE 7 u.asRef salt (leN 32 (Spec.A 7 (ofLE a) Spec.N)) B
          (Spec.K C (Spec.Sclient (ofLE B) (Spec.x C u.asRef p.asRef salt) (ofLE a)
            (Spec.u C (Spec.A 7 (ofLE a) Spec.N) (ofLE B)) 7 Spec.N)),
        leN 32 (Spec.A 7 (ofLE a) Spec.N),
        Spec.K C (Spec.Sclient (ofLE B) (Spec.x C u.asRef p.asRef salt) (ofLE a)
            (Spec.u C (Spec.A 7 (ofLE a) Spec.N) (ofLE B)) 7 Spec.N)⟩ := by
  have hN : ofLE Gen.largeSafePrimeLE = Spec.N := specN_eq.symm
  have h := SrpClientChallenge.new_spec C hC be u p gBig Gen.largeSafePrimeLE B salt a
    (by rw [hN]; exact specN_pos) largeSafePrimeLE_length hB
    (by rw [hN, gBig_val]; exact Spec.A_builtin_ne_zero _)
  rw [hN, gBig_val] at h
  exact h

end WowSrp
