/-
RC4 construction never panics: every index used by `Rc4.new`, `Rc4.prga`, `Rc4.apply` is a `u8`
into a 256-entry state, for keys of any length (an empty key leaves the loop body unexecuted).
Used by C06 to show that the Wrath world-login entry points return (never panic) for every input.
Core Lean only.
-/
import WowSrp.Model.Wrath
namespace WowSrp

theorem rc4tot_getOut (s : Array UInt8) (a : Nat) (ha : a < s.size) : ∃ x, getOut s a = .ok x := by
  unfold getOut
  rw [Array.getElem?_eq_getElem ha]
  exact ⟨_, rfl⟩

theorem rc4tot_swapOut (s : Array UInt8) (a b : Nat) (ha : a < s.size) (hb : b < s.size) :
    ∃ s', swapOut s a b = .ok s' ∧ s'.size = s.size := by
  unfold swapOut
  rw [Array.getElem?_eq_getElem ha, Array.getElem?_eq_getElem hb]
  exact ⟨_, rfl, by simp⟩

theorem rc4tot_ksaLoop (key : Bytes) (fuel i : Nat) (s : Array UInt8) (j : UInt8)
    (hs : s.size = 256) (hi : i + fuel ≤ 256) :
    ∃ s', ksaLoop key fuel i s j = .ok s' ∧ s'.size = 256 := by
  induction fuel generalizing i s j with
  | zero => exact ⟨s, rfl, hs⟩
  | succ fuel ih =>
    unfold ksaLoop
    cases hk : key[i % key.length]? with
    | none => exact ⟨s, rfl, hs⟩
    | some k =>
      obtain ⟨si, hsi⟩ := rc4tot_getOut s i (by omega)
      have hj : (j + si + k).toNat < s.size := by have := (j + si + k).toNat_lt; omega
      obtain ⟨s', hs', hsz⟩ := rc4tot_swapOut s i (j + si + k).toNat (by omega) hj
      simp only [hsi, Out.bind_ok, hs']
      exact ih (i + 1) s' (j + si + k) (by omega) (by omega)

theorem rc4tot_new (key : Bytes) : ∃ r, Rc4.new key = .ok r ∧ r.state.size = 256 := by
  unfold Rc4.new
  obtain ⟨s, hs, hsz⟩ := rc4tot_ksaLoop key 256 0 ((Array.range 256).map UInt8.ofNat) 0 (by simp) (by omega)
  simp only [hs, Out.bind_ok, Out.pure_eq]
  exact ⟨_, rfl, hsz⟩

theorem rc4tot_prga (r : Rc4) (h : r.state.size = 256) :
    ∃ r' v, r.prga = .ok (r', v) ∧ r'.state.size = 256 := by
  unfold Rc4.prga
  have u8 : ∀ x : UInt8, x.toNat < 256 := fun x => x.toNat_lt
  obtain ⟨si, hsi⟩ := rc4tot_getOut r.state (r.i + 1).toNat (by have := u8 (r.i + 1); omega)
  obtain ⟨s, hs, hsz⟩ := rc4tot_swapOut r.state (r.i + 1).toNat (r.j + si).toNat
    (by have := u8 (r.i + 1); omega) (by have := u8 (r.j + si); omega)
  obtain ⟨a, ha⟩ := rc4tot_getOut s (r.i + 1).toNat (by have := u8 (r.i + 1); omega)
  obtain ⟨b, hb⟩ := rc4tot_getOut s (r.j + si).toNat (by have := u8 (r.j + si); omega)
  obtain ⟨v, hv⟩ := rc4tot_getOut s (a + b).toNat (by have := u8 (a + b); omega)
  simp only [hsi, Out.bind_ok, hs, ha, hb, hv, Out.pure_eq]
  exact ⟨_, _, rfl, by show s.size = 256; omega⟩

theorem rc4tot_apply (r : Rc4) (data : Bytes) (h : r.state.size = 256) :
    ∃ r' out, r.apply data = .ok (r', out) ∧ r'.state.size = 256 := by
  unfold Rc4.apply
  induction data generalizing r with
  | nil => exact ⟨r, [], rfl, h⟩
  | cons x xs ih =>
    obtain ⟨r1, v, h1, hz1⟩ := rc4tot_prga r h
    obtain ⟨r2, out, h2, hz2⟩ := ih r1 hz1
    have hstep : Rc4.step r x = .ok (r1, x ^^^ v) := by
      simp only [Rc4.step, h1, Out.bind_ok, Out.pure_eq]
    simp only [runSteps, hstep, h2]
    exact ⟨_, _, rfl, hz2⟩

theorem rc4tot_inner (C : Crypto) (K key : Bytes) : ∃ r, InnerCrypto.new C K key = .ok r := by
  unfold InnerCrypto.new
  obtain ⟨r, hr, hz⟩ := rc4tot_new (C.hmac key K)
  obtain ⟨r', out, ha, _⟩ := rc4tot_apply r (List.replicate Gen.wrathDrop 0) hz
  simp only [hr, Out.bind_ok, ha, Out.pure_eq]
  exact ⟨_, rfl⟩

/-- `ServerCrypto::new` returns for every session key and every hash -/
theorem WServerCrypto.new_total (C : Crypto) (K : Bytes) : ∃ c, WServerCrypto.new C K = .ok c := by
  unfold WServerCrypto.new WServerDec.new WServerEnc.new
  obtain ⟨d, hd⟩ := rc4tot_inner C K keyServerDec
  obtain ⟨e, he⟩ := rc4tot_inner C K keyServerEnc
  simp only [hd, he, Out.bind_ok, Out.pure_eq]
  exact ⟨_, rfl⟩

/-- `ClientCrypto::new` returns for every session key and every hash -/
theorem WClientCrypto.new_total (C : Crypto) (K : Bytes) : ∃ c, WClientCrypto.new C K = .ok c := by
  unfold WClientCrypto.new WClientDec.new WClientEnc.new
  obtain ⟨d, hd⟩ := rc4tot_inner C K keyClientDec
  obtain ⟨e, he⟩ := rc4tot_inner C K keyClientEnc
  simp only [hd, he, Out.bind_ok, Out.pure_eq]
  exact ⟨_, rfl⟩

end WowSrp
