/-
Helper lemmas about the RC4 model (`Model/Wrath.lean`): the size invariant, totality, the pure
"next state / output byte" functions the panicking model agrees with under the invariant, keystream
independence of the data, involution, wrappers. Core Lean only.
-/
import WowSrp.Lemmas.Header
import WowSrp.Model.Wrath
namespace WowSrp

/-- the invariant: the permutation table has its 256 entries (`[u8; 256]` in the Rust) -/
def Rc4.Inv (r : Rc4) : Prop := r.state.size = 256

theorem getOut_inb (s : Array UInt8) (a : Nat) (h : a < s.size) : getOut s a = .ok s[a] := by
  simp [getOut, h]

theorem swapOut_inb (s : Array UInt8) (a b : Nat) (ha : a < s.size) (hb : b < s.size) :
    swapOut s a b = .ok ((s.setIfInBounds a s[b]).setIfInBounds b s[a]) := by
  simp [swapOut, ha, hb]

/-- `swap` as a total function (used only where both indices are in range) -/
def swapPure (s : Array UInt8) (a b : Nat) : Array UInt8 := (s.setIfInBounds a s[b]!).setIfInBounds b s[a]!

theorem swapPure_size (s : Array UInt8) (a b : Nat) : (swapPure s a b).size = s.size := by
  simp [swapPure]

theorem swapOut_eq_pure (s : Array UInt8) (a b : Nat) (ha : a < s.size) (hb : b < s.size) :
    swapOut s a b = .ok (swapPure s a b) := by
  rw [swapOut_inb s a b ha hb]
  simp [swapPure, ha, hb]

theorem getOut_eq_pure (s : Array UInt8) (a : Nat) (h : a < s.size) : getOut s a = .ok s[a]! := by
  rw [getOut_inb s a h]; simp [h]

/-! ### key schedule -/

/-- the KSA loop as a total function (non-empty key) -/
def ksaPure (key : Bytes) : Nat → Nat → Array UInt8 → UInt8 → Array UInt8
  | 0, _, s, _ => s
  | fuel+1, i, s, j =>
    let j' := j + s[i]! + key[i % key.length]!
    ksaPure key fuel (i+1) (swapPure s i j'.toNat) j'

theorem ksaPure_size (key : Bytes) (fuel i : Nat) (s : Array UInt8) (j : UInt8) :
    (ksaPure key fuel i s j).size = s.size := by
  induction fuel generalizing i s j with
  | zero => rfl
  | succ n ih => simp only [ksaPure, ih, swapPure_size]

/-- with a non-empty key the loop never panics and is the pure loop -/
theorem ksaLoop_eq_pure (key : Bytes) (hk : key ≠ []) (fuel i : Nat) (s : Array UInt8) (j : UInt8)
    (hs : s.size = 256) (hi : i + fuel ≤ 256) :
    ksaLoop key fuel i s j = .ok (ksaPure key fuel i s j) := by
  induction fuel generalizing i s j with
  | zero => rfl
  | succ n ih =>
    have hlen : 0 < key.length := List.length_pos_iff.mpr hk
    have hlt : i % key.length < key.length := Nat.mod_lt _ hlen
    have hi' : i < s.size := by omega
    simp only [ksaLoop, ksaPure, List.getElem?_eq_getElem hlt]
    simp only [bind, Out.bind, getOut_eq_pure s i hi']
    have hj : (j + s[i]! + key[i % key.length]).toNat < s.size := by
      have := UInt8.toNat_lt (j + s[i]! + key[i % key.length]); omega
    rw [swapOut_eq_pure s i _ hi' hj]
    simp only
    have e : key[i % key.length]! = key[i % key.length] := by simp [hlt]
    rw [e]
    exact ih (i+1) _ _ (by rw [swapPure_size]; exact hs) (by omega)

/-- with the empty key `key.iter().cycle()` yields nothing: the loop body never runs -/
theorem ksaLoop_nil (fuel i : Nat) (s : Array UInt8) (j : UInt8) : ksaLoop [] fuel i s j = .ok s := by
  cases fuel with
  | zero => rfl
  | succ n => simp [ksaLoop]

/-- the identity table `state[i] = i as u8` -/
def rc4Init : Array UInt8 := (Array.range 256).map UInt8.ofNat

theorem rc4Init_size : rc4Init.size = 256 := by simp [rc4Init]

theorem Rc4.new_nil : Rc4.new [] = .ok ⟨rc4Init, 0, 0⟩ := by
  simp only [Rc4.new, ksaLoop_nil, bind, Out.bind, pure, rc4Init]

theorem Rc4.new_eq_pure (key : Bytes) (hk : key ≠ []) :
    Rc4.new key = .ok ⟨ksaPure key 256 0 rc4Init 0, 0, 0⟩ := by
  have := ksaLoop_eq_pure key hk 256 0 rc4Init 0 rc4Init_size (by omega)
  simp only [Rc4.new, bind, Out.bind, pure]
  simp only [rc4Init] at this
  rw [this]
  rfl

/-- `Rc4::new` never panics, for any key (the empty one included), and establishes the invariant -/
theorem Rc4.new_total (key : Bytes) : ∃ r, Rc4.new key = .ok r ∧ r.Inv ∧ r.i = 0 ∧ r.j = 0 := by
  by_cases hk : key = []
  · subst hk; exact ⟨_, Rc4.new_nil, rc4Init_size, rfl, rfl⟩
  · exact ⟨_, Rc4.new_eq_pure key hk, by simp [Rc4.Inv, ksaPure_size, rc4Init_size], rfl, rfl⟩

/-! ### keystream generation -/

/-- state after one `pseudo_random_generation`, as a total function -/
def Rc4.next (r : Rc4) : Rc4 :=
  let i := r.i + 1
  let j := r.j + r.state[i.toNat]!
  ⟨swapPure r.state i.toNat j.toNat, i, j⟩

/-- the keystream byte that call returns -/
def Rc4.out (r : Rc4) : UInt8 :=
  let n := r.next
  n.state[(n.state[n.i.toNat]! + n.state[n.j.toNat]!).toNat]!

theorem Rc4.next_inv (r : Rc4) (h : r.Inv) : r.next.Inv := by
  simp [Rc4.Inv, Rc4.next, swapPure_size]; exact h

/-- under the invariant `pseudo_random_generation` does not panic (all five indexings are by a
    `u8` into 256 entries) and is the pure step -/
theorem Rc4.prga_pure (r : Rc4) (h : r.Inv) : r.prga = .ok (r.next, r.out) := by
  have hlt : ∀ b : UInt8, b.toNat < r.state.size := fun b => by
    have := UInt8.toNat_lt b; unfold Rc4.Inv at h; omega
  have hlt' : ∀ b : UInt8, b.toNat < (swapPure r.state (r.i + 1).toNat (r.j + r.state[(r.i + 1).toNat]!).toNat).size :=
    fun b => by rw [swapPure_size]; exact hlt b
  simp only [Rc4.prga, bind, Out.bind, getOut_eq_pure _ _ (hlt _)]
  rw [swapOut_eq_pure _ _ _ (hlt _) (hlt _)]
  simp only [getOut_eq_pure _ _ (hlt' _)]
  rfl

theorem Rc4.step_pure (r : Rc4) (x : UInt8) (h : r.Inv) : r.step x = .ok (r.next, x ^^^ r.out) := by
  simp only [Rc4.step, Rc4.prga_pure r h, bind, Out.bind, pure]

/-- `step` touches the data byte only through the final xor (no invariant needed) -/
theorem Rc4.step_eq (r : Rc4) (x : UInt8) :
    r.step x = match r.prga with
      | .ok (r', v) => .ok (r', x ^^^ v)
      | .panic p => .panic p := by
  simp only [Rc4.step, bind, Out.bind, pure]
  cases r.prga with
  | ok a => rfl
  | panic p => rfl

/-- state after `n` keystream bytes -/
def Rc4.advance : Nat → Rc4 → Rc4
  | 0, r => r
  | n+1, r => Rc4.advance n r.next

/-- the next `n` keystream bytes -/
def Rc4.stream : Nat → Rc4 → Bytes
  | 0, _ => []
  | n+1, r => r.out :: Rc4.stream n r.next

theorem Rc4.advance_inv (n : Nat) (r : Rc4) (h : r.Inv) : (Rc4.advance n r).Inv := by
  induction n generalizing r with
  | zero => exact h
  | succ n ih => exact ih _ (r.next_inv h)

theorem Rc4.stream_length (n : Nat) (r : Rc4) : (Rc4.stream n r).length = n := by
  induction n generalizing r with
  | zero => rfl
  | succ n ih => simp [Rc4.stream, ih]

theorem Rc4.advance_add (m n : Nat) (r : Rc4) : Rc4.advance (m + n) r = Rc4.advance n (Rc4.advance m r) := by
  induction m generalizing r with
  | zero => simp [Rc4.advance]
  | succ m ih => rw [Nat.add_right_comm]; exact ih _

/-- `apply_keystream` under the invariant: total, new state = `length` PRGA steps on, output =
    data xor keystream -/
theorem Rc4.apply_eq (r : Rc4) (h : r.Inv) (xs : Bytes) :
    r.apply xs = .ok (Rc4.advance xs.length r, xorBytes xs (Rc4.stream xs.length r)) := by
  induction xs generalizing r with
  | nil => rfl
  | cons x xs ih =>
    have := ih r.next (r.next_inv h)
    simp only [Rc4.apply] at this
    simp only [Rc4.apply, runSteps, Rc4.step_pure r x h, this]
    rfl

theorem xorBytes_zero (ks : Bytes) : xorBytes (List.replicate ks.length 0) ks = ks := by
  induction ks with
  | nil => rfl
  | cons k ks ih =>
    simp only [xorBytes] at ih
    simp [xorBytes, List.replicate_succ, ih]

theorem xorBytes_length (a b : Bytes) (h : a.length = b.length) : (xorBytes a b).length = a.length := by
  simp [xorBytes, h]

theorem xorBytes_xorBytes (a b : Bytes) (h : a.length = b.length) : xorBytes (xorBytes a b) b = a := by
  induction a generalizing b with
  | nil => simp [xorBytes]
  | cons x a ih =>
    cases b with
    | nil => simp at h
    | cons y b =>
      have := ih b (by simpa using h)
      simp only [xorBytes] at this
      simp only [xorBytes, List.zipWith_cons_cons, this, UInt8.xor_assoc, UInt8.xor_self, UInt8.xor_zero]

/-- applying to zero bytes returns the keystream itself -/
theorem Rc4.apply_zeros (r : Rc4) (h : r.Inv) (n : Nat) :
    r.apply (List.replicate n 0) = .ok (Rc4.advance n r, Rc4.stream n r) := by
  rw [Rc4.apply_eq r h, List.length_replicate]
  have := xorBytes_zero (Rc4.stream n r)
  rw [Rc4.stream_length] at this
  rw [this]

/-- involution, with no hypothesis on the state: if a call succeeded, the same call from the same
    state on its output gives back the input and ends in the same state -/
theorem Rc4.apply_involution (r r' : Rc4) (xs cs : Bytes) (h : r.apply xs = .ok (r', cs)) :
    r.apply cs = .ok (r', xs) := by
  induction xs generalizing r cs with
  | nil =>
    simp only [Rc4.apply, runSteps] at h
    injection h with h; injection h with h1 h2
    subst h1; subst h2; rfl
  | cons x xs ih =>
    simp only [Rc4.apply, runSteps, Rc4.step_eq] at h
    cases hp : r.prga with
    | panic p => rw [hp] at h; simp at h
    | ok a =>
      obtain ⟨r1, v⟩ := a
      rw [hp] at h
      simp only at h
      cases hr : runSteps Rc4.step r1 xs with
      | panic p => rw [hr] at h; simp at h
      | ok b =>
        obtain ⟨r2, ys⟩ := b
        rw [hr] at h
        simp only at h
        injection h with h; injection h with h1 h2
        subst h1; subst h2
        have := ih r1 ys hr
        simp only [Rc4.apply] at this
        simp only [Rc4.apply, runSteps, Rc4.step_eq, hp, this, UInt8.xor_assoc, UInt8.xor_self, UInt8.xor_zero]

/-- a successful call returns as many bytes as it was given (any step function) -/
theorem runSteps_out_length {σ : Type} (step : σ → UInt8 → Out (σ × UInt8)) (h h' : σ) (xs out : Bytes)
    (hr : runSteps step h xs = .ok (h', out)) : out.length = xs.length := by
  induction xs generalizing h out with
  | nil =>
    simp only [runSteps] at hr
    injection hr with hr; injection hr with _ h2
    subst h2; rfl
  | cons x xs ih =>
    simp only [runSteps] at hr
    cases hs : step h x with
    | panic p => rw [hs] at hr; simp at hr
    | ok a =>
      obtain ⟨h1, y⟩ := a
      rw [hs] at hr
      simp only at hr
      cases hr2 : runSteps step h1 xs with
      | panic p => rw [hr2] at hr; simp at hr
      | ok b =>
        obtain ⟨h2, ys⟩ := b
        rw [hr2] at hr
        simp only at hr
        injection hr with hr; injection hr with e1 e2
        subst e1; subst e2
        simp [ih h1 ys hr2]

theorem Rc4.apply_length (r r' : Rc4) (xs out : Bytes) (h : r.apply xs = .ok (r', out)) :
    out.length = xs.length := runSteps_out_length _ _ _ _ _ h

/-- the invariant survives a call -/
theorem Rc4.apply_inv (r r' : Rc4) (hr : r.Inv) (xs out : Bytes) (h : r.apply xs = .ok (r', out)) : r'.Inv := by
  rw [Rc4.apply_eq r hr] at h
  injection h with h; injection h with h1 _
  rw [← h1]; exact Rc4.advance_inv _ _ hr

/-- if the sender encrypted `p1 ++ p2` in one call, a receiver in the same state that decrypts the
    first `p1.length` ciphertext bytes and then the rest gets `p1`, then `p2`, and ends in the sender's state -/
theorem Rc4.roundtrip_split (r r' : Rc4) (p1 p2 enc : Bytes) (h : r.apply (p1 ++ p2) = .ok (r', enc)) :
    ∃ r1, r.apply (enc.take p1.length) = .ok (r1, p1) ∧ r1.apply (enc.drop p1.length) = .ok (r', p2) := by
  simp only [Rc4.apply, runSteps_append] at h
  cases h1 : runSteps Rc4.step r p1 with
  | panic p => rw [h1] at h; simp at h
  | ok a =>
    obtain ⟨r1, c1⟩ := a
    rw [h1] at h
    simp only at h
    cases h2 : runSteps Rc4.step r1 p2 with
    | panic p => rw [h2] at h; simp at h
    | ok b =>
      obtain ⟨r2, c2⟩ := b
      rw [h2] at h
      simp only at h
      injection h with h; injection h with e1 e2
      subst e1; subst e2
      have hl := runSteps_out_length _ _ _ _ _ h1
      refine ⟨r1, ?_, ?_⟩
      · rw [← hl, List.take_left]; exact Rc4.apply_involution _ _ _ _ h1
      · rw [← hl, List.drop_left]; exact Rc4.apply_involution _ _ _ _ h2

/-- chunked use of the wrappers that carry extra fields next to the RC4 state -/
theorem runChunks_map {σ τ : Type} (f : σ → Bytes → Out (σ × Bytes)) (g : τ → Bytes → Out (τ × Bytes))
    (get : τ → σ) (put : τ → σ → τ) (hget : ∀ t s, get (put t s) = s) (hput : ∀ t s s', put (put t s) s' = put t s')
    (hid : ∀ t, put t (get t) = t)
    (hg : ∀ t d, g t d = match f (get t) d with
      | .ok (s', o) => .ok (put t s', o)
      | .panic p => .panic p)
    (t : τ) (chunks : List Bytes) :
    runChunks g t chunks = match runChunks f (get t) chunks with
      | .ok (s', o) => .ok (put t s', o)
      | .panic p => .panic p := by
  induction chunks generalizing t with
  | nil => simp only [runChunks, hid]
  | cons c cs ih =>
    simp only [runChunks, hg]
    cases hf : f (get t) c with
    | panic p => rfl
    | ok a =>
      obtain ⟨s1, o1⟩ := a
      simp only [ih, hget]
      cases hr : runChunks f s1 cs with
      | panic p => rfl
      | ok b =>
        obtain ⟨s2, o2⟩ := b
        simp only [hput]

/-! ### the Wrath constructors -/

/-- `InnerCrypto::new` never panics: RC4 keyed with HMAC(key, K), advanced by `Gen.wrathDrop` bytes -/
theorem InnerCrypto.new_pure (C : Crypto) (K key : Bytes) :
    ∃ r0, Rc4.new (C.hmac key K) = .ok r0 ∧ r0.Inv ∧ r0.i = 0 ∧ r0.j = 0 ∧
      InnerCrypto.new C K key = .ok (Rc4.advance Gen.wrathDrop r0) ∧ (Rc4.advance Gen.wrathDrop r0).Inv := by
  obtain ⟨r0, h0, hinv, hi, hj⟩ := Rc4.new_total (C.hmac key K)
  refine ⟨r0, h0, hinv, hi, hj, ?_, Rc4.advance_inv _ _ hinv⟩
  simp only [InnerCrypto.new, h0, bind, Out.bind, Rc4.apply_zeros r0 hinv, pure]

/-- which constant each half is keyed with (generated flags evaluated) -/
theorem wrath_key_assignment :
    keyClientEnc = Gen.wrathS ∧ keyServerDec = Gen.wrathS ∧ keyServerEnc = Gen.wrathR ∧ keyClientDec = Gen.wrathR := by
  decide

/-- client encrypter and server decrypter are built identically -/
theorem wrath_pair_c2s (C : Crypto) (K : Bytes) :
    ∃ r, WClientEnc.new C K = .ok r ∧ WServerDec.new C K = .ok r ∧ r.Inv := by
  obtain ⟨r0, _, _, _, _, h, hinv⟩ := InnerCrypto.new_pure C K Gen.wrathS
  refine ⟨_, ?_, ?_, hinv⟩
  · rw [WClientEnc.new, wrath_key_assignment.1]; exact h
  · rw [WServerDec.new, wrath_key_assignment.2.1]; exact h

/-- server encrypter and client decrypter hold the same RC4 state (next to their header buffers) -/
theorem wrath_pair_s2c (C : Crypto) (K : Bytes) :
    ∃ r, r.Inv ∧ WServerEnc.new C K = .ok ⟨r, List.replicate Gen.wrathServerHeaderMaxLength 0⟩ ∧
      WClientDec.new C K = .ok ⟨r, List.replicate Gen.wrathServerHeaderMinLength 0⟩ := by
  obtain ⟨r0, _, _, _, _, h, hinv⟩ := InnerCrypto.new_pure C K Gen.wrathR
  refine ⟨_, hinv, ?_, ?_⟩
  · simp only [WServerEnc.new, wrath_key_assignment.2.2.1, h, bind, Out.bind, pure]
  · simp only [WClientDec.new, wrath_key_assignment.2.2.2, h, bind, Out.bind, pure]

theorem WServerEnc.runChunks_encrypt (s : WServerEnc) (chunks : List Bytes) :
    runChunks WServerEnc.encrypt s chunks = match runChunks Rc4.apply s.rc4 chunks with
      | .ok (r', o) => .ok ({ s with rc4 := r' }, o)
      | .panic p => .panic p := by
  have := runChunks_map Rc4.apply WServerEnc.encrypt (·.rc4) (fun t r => { t with rc4 := r })
    (fun _ _ => rfl) (fun _ _ _ => rfl) (fun _ => rfl) (by
      intro t d
      simp only [WServerEnc.encrypt, bind, Out.bind, pure]
      cases t.rc4.apply d with
      | ok a => rfl
      | panic p => rfl) s chunks
  rw [this]
  cases runChunks Rc4.apply s.rc4 chunks with
  | ok a => rfl
  | panic p => rfl

theorem WClientDec.runChunks_decrypt (c : WClientDec) (chunks : List Bytes) :
    runChunks WClientDec.decrypt c chunks = match runChunks Rc4.apply c.rc4 chunks with
      | .ok (r', o) => .ok ({ c with rc4 := r' }, o)
      | .panic p => .panic p := by
  have := runChunks_map Rc4.apply WClientDec.decrypt (·.rc4) (fun t r => { t with rc4 := r })
    (fun _ _ => rfl) (fun _ _ _ => rfl) (fun _ => rfl) (by
      intro t d
      simp only [WClientDec.decrypt, bind, Out.bind, pure]
      cases t.rc4.apply d with
      | ok a => rfl
      | panic p => rfl) c chunks
  rw [this]
  cases runChunks Rc4.apply c.rc4 chunks with
  | ok a => rfl
  | panic p => rfl

/-- round trip of a whole chunked stream between two RC4s in the same state -/
theorem Rc4.roundtrip_chunks (r e' : Rc4) (sendChunks recvChunks : List Bytes) (cipher : Bytes)
    (hsend : runChunks Rc4.apply r sendChunks = .ok (e', cipher)) (hpart : recvChunks.flatten = cipher) :
    runChunks Rc4.apply r recvChunks = .ok (e', sendChunks.flatten) := by
  have e : Rc4.apply = runSteps Rc4.step := rfl
  rw [e, runChunks_flatten] at hsend ⊢
  rw [hpart]
  exact Rc4.apply_involution _ _ _ _ hsend

end WowSrp
