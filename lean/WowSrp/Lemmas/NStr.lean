/-
Helper lemmas for C13 (credential strings, `src/normalized_string.rs`).
Core only.
-/
import WowSrp.Model.NStr
namespace WowSrp

/-! ### the specification vocabulary -/

/-- printable ASCII: 0x20 ..= 0x7E -/
def Allowed (c : Char) : Prop := 0x20 ≤ c.toNat ∧ c.toNat ≤ 0x7E

instance : DecidablePred Allowed := fun c => by unfold Allowed; infer_instance

/-- ASCII lower-case letter `a..z` -/
def IsLower (c : Char) : Prop := 0x61 ≤ c.toNat ∧ c.toNat ≤ 0x7A

instance : DecidablePred IsLower := fun c => by unfold IsLower; infer_instance

/-- the intended normalisation of one (ASCII) character, written independently of the model:
    `a..z` go to `A..Z`, every other code is kept; the result is the byte stored -/
def upperSpec (c : Char) : UInt8 :=
  if 'a' ≤ c ∧ c ≤ 'z' then UInt8.ofNat (c.toNat - 'a'.toNat + 'A'.toNat) else UInt8.ofNat c.toNat

/-- two characters are equal up to ASCII letter case: equal, or one is `a..z` and the other is the
    corresponding `A..Z` -/
def CharSameUpToAsciiCase (c d : Char) : Prop :=
  c = d ∨ (IsLower c ∧ d.toNat + 32 = c.toNat) ∨ (IsLower d ∧ c.toNat + 32 = d.toNat)

/-- two strings have the same length and agree position by position up to ASCII letter case -/
def SameUpToAsciiCase : List Char → List Char → Prop
  | [], [] => True
  | c :: cs, d :: ds => CharSameUpToAsciiCase c d ∧ SameUpToAsciiCase cs ds
  | [], _ :: _ => False
  | _ :: _, [] => False

instance (c d : Char) : Decidable (CharSameUpToAsciiCase c d) := by
  unfold CharSameUpToAsciiCase; infer_instance

instance SameUpToAsciiCase.dec : (cs ds : List Char) → Decidable (SameUpToAsciiCase cs ds)
  | [], [] => isTrue trivial
  | _ :: cs, _ :: ds => by
    unfold SameUpToAsciiCase
    exact @instDecidableAnd _ _ _ (SameUpToAsciiCase.dec cs ds)
  | [], _ :: _ => isFalse id
  | _ :: _, [] => isFalse id

/-- the `[u8; 16]` image of a text: the text followed by zeros -/
def padTo (n : Nat) (t : Bytes) : Bytes := t ++ List.replicate (n - t.length) 0

/-! ### characters -/

theorem maxLen_eq : maxLen = 16 := by decide

theorem toNat_ofNat_small (n : Nat) (h : n < 128) : (Char.ofNat n).toNat = n := by
  have hv : n.isValidChar := Or.inl (by omega)
  simp only [Char.ofNat, hv, dite_true, Char.ofNatAux, Char.toNat]
  show (BitVec.ofNatLT n _).toNat = n
  simp

theorem utf8Size_of_lt (c : Char) (h : c.toNat < 128) : c.utf8Size = 1 := by
  rw [Char.utf8Size_eq_one_iff, UInt32.le_iff_toNat_le]
  simp only [Char.toNat] at h
  have : (127 : UInt32).toNat = 127 := rfl
  omega

theorem reject_iff (c : Char) : (!isAscii c || isAsciiControl c) = true ↔ ¬ Allowed c := by
  simp only [Allowed, isAscii, isAsciiControl, Bool.or_eq_true, Bool.not_eq_true',
    decide_eq_false_iff_not, decide_eq_true_eq, beq_iff_eq]
  omega

theorem reject_false_iff (c : Char) : (!isAscii c || isAsciiControl c) = false ↔ Allowed c := by
  rw [← Bool.not_eq_true, reject_iff]; exact Decidable.not_not

theorem char_le_iff (a b : Char) : a ≤ b ↔ a.toNat ≤ b.toNat := by
  rw [Char.le_def, UInt32.le_iff_toNat_le]; rfl

theorem upperByte_eq_upperSpec (c : Char) : upperByte c = upperSpec c := by
  unfold upperByte upperSpec
  simp only [char_le_iff]
  have ha : 'a'.toNat = 0x61 := rfl
  have hz : 'z'.toNat = 0x7A := rfl
  have hA : 'A'.toNat = 0x41 := rfl
  rw [ha, hz, hA]
  split
  · next h => congr 1; omega
  · rfl

theorem upperSpec_lower (c : Char) (h : IsLower c) : (upperSpec c).toNat = c.toNat - 32 := by
  rw [← upperByte_eq_upperSpec]; unfold upperByte
  have h' : 0x61 ≤ c.toNat ∧ c.toNat ≤ 0x7A := h
  rw [if_pos h', UInt8.toNat_ofNat']; omega

theorem upperSpec_other (c : Char) (h : ¬ IsLower c) (ha : c.toNat < 128) :
    (upperSpec c).toNat = c.toNat := by
  rw [← upperByte_eq_upperSpec]; unfold upperByte
  have h' : ¬ (0x61 ≤ c.toNat ∧ c.toNat ≤ 0x7A) := h
  rw [if_neg h', UInt8.toNat_ofNat']; omega

/-- the stored byte of an allowed character is printable, not a lower-case letter -/
theorem upperSpec_range (c : Char) (h : Allowed c) :
    0x20 ≤ (upperSpec c).toNat ∧ (upperSpec c).toNat ≤ 0x7E ∧
      ¬ (0x61 ≤ (upperSpec c).toNat ∧ (upperSpec c).toNat ≤ 0x7A) := by
  unfold Allowed at h
  by_cases hl : IsLower c
  · rw [upperSpec_lower c hl]; unfold IsLower at hl; omega
  · rw [upperSpec_other c hl (by omega)]; unfold IsLower at hl; omega

theorem upperSpec_ne_zero (c : Char) (h : Allowed c) : upperSpec c ≠ 0 := by
  intro h0
  have := (upperSpec_range c h).1
  rw [h0] at this
  simp at this

/-- reading a stored byte back as a character and normalising it again changes nothing -/
theorem upperSpec_ofNat_upperSpec (c : Char) (h : Allowed c) :
    Allowed (Char.ofNat (upperSpec c).toNat) ∧
      upperSpec (Char.ofNat (upperSpec c).toNat) = upperSpec c := by
  obtain ⟨h1, h2, h3⟩ := upperSpec_range c h
  have ht := toNat_ofNat_small (upperSpec c).toNat (by omega)
  refine ⟨by unfold Allowed; rw [ht]; omega, ?_⟩
  apply UInt8.toNat_inj.mp
  rw [upperSpec_other _ (by unfold IsLower; rw [ht]; exact h3) (by rw [ht]; omega), ht]

theorem sameCase_allowed {c d : Char} (h : CharSameUpToAsciiCase c d) : Allowed c ↔ Allowed d := by
  unfold CharSameUpToAsciiCase IsLower at h
  unfold Allowed
  rcases h with rfl | h | h
  · exact Iff.rfl
  · omega
  · omega

theorem sameCase_upper {c d : Char} (h : CharSameUpToAsciiCase c d) : upperSpec c = upperSpec d := by
  rcases h with rfl | ⟨hl, he⟩ | ⟨hl, he⟩
  · rfl
  · apply UInt8.toNat_inj.mp
    rw [upperSpec_lower c hl, upperSpec_other d (by unfold IsLower at hl ⊢; omega)
      (by unfold IsLower at hl; omega)]
    omega
  · apply UInt8.toNat_inj.mp
    rw [upperSpec_lower d hl, upperSpec_other c (by unfold IsLower at hl ⊢; omega)
      (by unfold IsLower at hl; omega)]
    omega

/-- conversely, two allowed characters stored as the same byte agree up to case -/
theorem sameCase_of_upper_eq {c d : Char} (hc : Allowed c) (hd : Allowed d)
    (h : upperSpec c = upperSpec d) : CharSameUpToAsciiCase c d := by
  have ht : (upperSpec c).toNat = (upperSpec d).toNat := by rw [h]
  unfold Allowed at hc hd
  by_cases lc : IsLower c <;> by_cases ld : IsLower d
  · rw [upperSpec_lower c lc, upperSpec_lower d ld] at ht
    unfold IsLower at lc ld
    exact Or.inl (Char.toNat_inj.mp (by omega))
  · rw [upperSpec_lower c lc, upperSpec_other d ld (by omega)] at ht
    have lc' := lc
    unfold IsLower at lc'
    exact Or.inr (Or.inl ⟨lc, by omega⟩)
  · rw [upperSpec_other c lc (by omega), upperSpec_lower d ld] at ht
    have ld' := ld
    unfold IsLower at ld'
    exact Or.inr (Or.inr ⟨ld, by omega⟩)
  · rw [upperSpec_other c lc (by omega), upperSpec_other d ld (by omega)] at ht
    exact Or.inl (Char.toNat_inj.mp ht)

theorem sameCase_size {c d : Char} (h : CharSameUpToAsciiCase c d) : c.utf8Size = d.utf8Size := by
  rcases h with rfl | ⟨hl, he⟩ | ⟨hl, he⟩
  · rfl
  · unfold IsLower at hl
    rw [utf8Size_of_lt c (by omega), utf8Size_of_lt d (by omega)]
  · unfold IsLower at hl
    rw [utf8Size_of_lt c (by omega), utf8Size_of_lt d (by omega)]

/-- a character that is not allowed is only "the same up to case" as itself -/
theorem sameCase_eq_of_not_allowed {c d : Char} (h : CharSameUpToAsciiCase c d) (hc : ¬ Allowed c) :
    c = d := by
  rcases h with rfl | ⟨hl, he⟩ | ⟨hl, he⟩
  · rfl
  · exfalso; apply hc; unfold IsLower at hl; unfold Allowed; omega
  · exfalso; apply hc; unfold IsLower at hl; unfold Allowed; omega

/-! ### lengths -/

theorem utf8Len_nil : utf8Len [] = 0 := rfl

theorem utf8Len_cons (c : Char) (cs : List Char) : utf8Len (c :: cs) = c.utf8Size + utf8Len cs := by
  simp [utf8Len]

/-- the character count never exceeds the byte count (why the array write cannot go out of bounds) -/
theorem length_le_utf8Len (cs : List Char) : cs.length ≤ utf8Len cs := by
  induction cs with
  | nil => simp [utf8Len]
  | cons c cs ih =>
    rw [utf8Len_cons, List.length_cons]
    have := Char.utf8Size_pos c
    omega

theorem utf8Len_eq_length (cs : List Char) (h : ∀ c ∈ cs, Allowed c) : utf8Len cs = cs.length := by
  induction cs with
  | nil => rfl
  | cons c cs ih =>
    rw [utf8Len_cons, List.length_cons, ih (fun x hx => h x (by simp [hx]))]
    have hc := h c (by simp)
    unfold Allowed at hc
    rw [utf8Size_of_lt c (by omega)]; omega

theorem utf8Len_eq_zero_iff (cs : List Char) : utf8Len cs = 0 ↔ cs = [] := by
  constructor
  · intro h
    have := length_le_utf8Len cs
    exact List.eq_nil_of_length_eq_zero (by omega)
  · rintro rfl; rfl

theorem sameCase_length : ∀ {cs ds : List Char}, SameUpToAsciiCase cs ds → cs.length = ds.length
  | [], [], _ => rfl
  | _ :: _, _ :: _, h => by
    simp only [List.length_cons]; rw [sameCase_length h.2]
  | [], _ :: _, h => h.elim
  | _ :: _, [], h => h.elim

theorem sameCase_utf8Len : ∀ {cs ds : List Char}, SameUpToAsciiCase cs ds → utf8Len cs = utf8Len ds
  | [], [], _ => rfl
  | _ :: _, _ :: _, h => by
    rw [utf8Len_cons, utf8Len_cons, sameCase_size h.1, sameCase_utf8Len h.2]
  | [], _ :: _, h => h.elim
  | _ :: _, [], h => h.elim

theorem sameCase_of_map_eq : ∀ (cs ds : List Char), (∀ c ∈ cs, Allowed c) → (∀ c ∈ ds, Allowed c) →
    cs.map upperSpec = ds.map upperSpec → SameUpToAsciiCase cs ds
  | [], [], _, _, _ => trivial
  | c :: cs, d :: ds, hc, hd, h => by
    simp only [List.map_cons, List.cons.injEq] at h
    exact ⟨sameCase_of_upper_eq (hc c (by simp)) (hd d (by simp)) h.1,
      sameCase_of_map_eq cs ds (fun x hx => hc x (by simp [hx])) (fun x hx => hd x (by simp [hx])) h.2⟩
  | [], _ :: _, _, _, h => by simp at h
  | _ :: _, [], _, _, h => by simp at h

/-! ### the loop -/

/-- split a list at the first element violating `P` -/
theorem exists_first_not {α} (P : α → Prop) [DecidablePred P] (l : List α) (h : ¬ ∀ x ∈ l, P x) :
    ∃ pre c post, l = pre ++ c :: post ∧ (∀ x ∈ pre, P x) ∧ ¬ P c := by
  induction l with
  | nil => exact absurd (by simp) h
  | cons a l ih =>
    by_cases ha : P a
    · have : ¬ ∀ x ∈ l, P x := fun hl => h (by
        intro x hx
        rcases List.mem_cons.mp hx with rfl | hx
        · exact ha
        · exact hl x hx)
      obtain ⟨pre, c, post, e, hp, hc⟩ := ih this
      refine ⟨a :: pre, c, post, by rw [e]; rfl, ?_, hc⟩
      intro x hx
      rcases List.mem_cons.mp hx with rfl | hx
      · exact ha
      · exact hp x hx
    · exact ⟨[], a, l, rfl, by simp, ha⟩

theorem fill_step_allowed (c : Char) (cs : List Char) (i : Nat) (arr : Bytes)
    (hc : Allowed c) (hi : i < arr.length) :
    NStr.fill (c :: cs) i arr = NStr.fill cs (i+1) (arr.set i (upperSpec c)) := by
  rw [NStr.fill, (reject_false_iff c).mpr hc, upperByte_eq_upperSpec]
  simp [hi]

/-- all characters allowed and enough room: the loop writes the normalised bytes in order -/
theorem fill_ok (cs : List Char) (pre rest : Bytes) (hall : ∀ c ∈ cs, Allowed c)
    (h : cs.length ≤ rest.length) :
    NStr.fill cs pre.length (pre ++ rest) = .ok (pre ++ cs.map upperSpec ++ rest.drop cs.length) := by
  induction cs generalizing pre rest with
  | nil => simp [NStr.fill]
  | cons c cs ih =>
    cases rest with
    | nil => simp at h
    | cons r rest =>
      rw [fill_step_allowed c cs _ _ (hall c (by simp)) (by simp)]
      have hset : (pre ++ r :: rest).set pre.length (upperSpec c) = (pre ++ [upperSpec c]) ++ rest := by
        simp
      have hlen : pre.length + 1 = (pre ++ [upperSpec c]).length := by simp
      rw [hset, hlen, ih (pre ++ [upperSpec c]) rest (fun x hx => hall x (by simp [hx]))
        (by simpa using h)]
      simp

/-- the first character that is not allowed is the one reported -/
theorem fill_err (pre : List Char) (c : Char) (post : List Char) (i : Nat) (arr : Bytes)
    (hpre : ∀ x ∈ pre, Allowed x) (hc : ¬ Allowed c) (h : i + pre.length ≤ arr.length) :
    NStr.fill (pre ++ c :: post) i arr = .err (.notAllowed c) := by
  induction pre generalizing i arr with
  | nil => rw [List.nil_append, NStr.fill, (reject_iff c).mpr hc]; rfl
  | cons a pre ih =>
    have hlen : i < arr.length := by simp at h; omega
    rw [List.cons_append, fill_step_allowed a _ i arr (hpre a (by simp)) hlen]
    exact ih (i+1) _ (fun x hx => hpre x (by simp [hx])) (by simp at h ⊢; omega)

/-- the index never leaves the array as long as the characters fit -/
theorem fill_no_panic (cs : List Char) (i : Nat) (arr : Bytes)
    (h : i + cs.length ≤ arr.length) : ∀ p, NStr.fill cs i arr ≠ .panic p := by
  induction cs generalizing i arr with
  | nil => intro p; simp [NStr.fill]
  | cons c cs ih =>
    intro p
    unfold NStr.fill
    split
    · simp
    · have : i < arr.length := by simp at h; omega
      simp only [this, if_true]
      exact ih (i+1) _ (by simp at h ⊢; omega) p

/-- case-insensitivity of the loop -/
theorem fill_sameCase : ∀ (cs ds : List Char) (i : Nat) (arr : Bytes), SameUpToAsciiCase cs ds →
    NStr.fill cs i arr = NStr.fill ds i arr
  | [], [], _, _, _ => rfl
  | c :: cs, d :: ds, i, arr, h => by
    by_cases hc : Allowed c
    · have hd : Allowed d := (sameCase_allowed h.1).mp hc
      unfold NStr.fill
      rw [(reject_false_iff c).mpr hc, (reject_false_iff d).mpr hd, upperByte_eq_upperSpec,
        upperByte_eq_upperSpec, sameCase_upper h.1]
      simp only [Bool.false_eq_true, if_false]
      split
      · exact fill_sameCase cs ds _ _ h.2
      · rfl
    · have := sameCase_eq_of_not_allowed h.1 hc
      subst this
      unfold NStr.fill
      rw [(reject_iff c).mpr hc]
      rfl
  | [], _ :: _, _, _, h => h.elim
  | _ :: _, [], _, _, h => h.elim

/-! ### `new` -/

theorem new_tooLong (cs : List Char) (h : utf8Len cs = 0 ∨ utf8Len cs > 16) :
    NStr.new cs = .err .tooLong := by
  unfold NStr.new
  rw [maxLen_eq]
  rcases h with h | h
  · rw [(utf8Len_eq_zero_iff cs).mp h]; rfl
  · simp [h]

theorem new_gate_pass (cs : List Char) (h1 : 1 ≤ utf8Len cs) (h2 : utf8Len cs ≤ 16) :
    NStr.new cs = match NStr.fill cs 0 (List.replicate 16 0) with
      | .ok arr => .ok ⟨arr, utf8Len cs⟩
      | .err e => .err e
      | .panic p => .panic p := by
  unfold NStr.new
  rw [maxLen_eq]
  have hne : cs.isEmpty = false := by
    cases cs with
    | nil => simp [utf8Len] at h1
    | cons _ _ => rfl
  have : ¬ utf8Len cs > 16 := by omega
  simp only [hne, this, decide_false, Bool.or_false, Bool.false_eq_true, if_false]
  rfl

theorem new_ok (cs : List Char) (h1 : 1 ≤ utf8Len cs) (h2 : utf8Len cs ≤ 16)
    (hall : ∀ c ∈ cs, Allowed c) :
    NStr.new cs = .ok ⟨padTo 16 (cs.map upperSpec), cs.length⟩ := by
  rw [new_gate_pass cs h1 h2]
  have hl := utf8Len_eq_length cs hall
  have := fill_ok cs [] (List.replicate 16 0) hall (by simp; omega)
  simp only [List.length_nil, List.nil_append, List.drop_replicate] at this
  rw [this, hl]
  simp [padTo]

theorem new_err (pre : List Char) (c : Char) (post : List Char)
    (h1 : 1 ≤ utf8Len (pre ++ c :: post)) (h2 : utf8Len (pre ++ c :: post) ≤ 16)
    (hpre : ∀ x ∈ pre, Allowed x) (hc : ¬ Allowed c) :
    NStr.new (pre ++ c :: post) = .err (.notAllowed c) := by
  rw [new_gate_pass _ h1 h2]
  have hl := length_le_utf8Len (pre ++ c :: post)
  rw [fill_err pre c post 0 _ hpre hc (by simp at hl ⊢; omega)]

theorem new_no_panic (cs : List Char) : ∀ p, NStr.new cs ≠ .panic p := by
  intro p
  by_cases h : utf8Len cs = 0 ∨ utf8Len cs > 16
  · rw [new_tooLong cs h]; simp
  · rw [new_gate_pass cs (by omega) (by omega)]
    have hl := length_le_utf8Len cs
    have := fill_no_panic cs 0 (List.replicate 16 0) (by simp; omega)
    split <;> simp_all

/-- acceptance, with the value -/
theorem new_ok_iff (cs : List Char) (n : NStr) :
    NStr.new cs = .ok n ↔
      (1 ≤ utf8Len cs ∧ utf8Len cs ≤ 16 ∧ (∀ c ∈ cs, Allowed c)) ∧
        n = ⟨padTo 16 (cs.map upperSpec), cs.length⟩ := by
  constructor
  · intro h
    by_cases hg : utf8Len cs = 0 ∨ utf8Len cs > 16
    · rw [new_tooLong cs hg] at h; cases h
    · by_cases hall : ∀ c ∈ cs, Allowed c
      · rw [new_ok cs (by omega) (by omega) hall] at h
        exact ⟨⟨by omega, by omega, hall⟩, by cases h; rfl⟩
      · obtain ⟨pre, c, post, rfl, hp, hc⟩ := exists_first_not Allowed cs hall
        rw [new_err pre c post (by omega) (by omega) hp hc] at h
        cases h
  · rintro ⟨⟨h1, h2, h3⟩, rfl⟩
    exact new_ok cs h1 h2 h3

/-! ### the text view of a constructed value -/

theorem padTo_length (n : Nat) (t : Bytes) (h : t.length ≤ n) : (padTo n t).length = n := by
  simp [padTo]; omega

theorem padTo_take (n : Nat) (t : Bytes) : (padTo n t).take t.length = t := by
  simp [padTo]

theorem map_upperSpec_all_lt (cs : List Char) (hall : ∀ c ∈ cs, Allowed c) :
    (cs.map upperSpec).any (· ≥ 128) = false := by
  rw [List.any_eq_false]
  intro b hb
  obtain ⟨c, hc, rfl⟩ := List.mem_map.mp hb
  have := (upperSpec_range c (hall c hc)).2.1
  simp only [ge_iff_le, decide_eq_true_eq, UInt8.le_iff_toNat_le]
  have h128 : (128 : UInt8).toNat = 128 := rfl
  omega

/-! ### derived order on (padded array, length) = order on the text -/

theorem lexCmp_zeros (k : Nat) : lexCmp (List.replicate k 0) (List.replicate k 0) = .eq := by
  induction k with
  | zero => rfl
  | succ k ih => simp [List.replicate_succ, lexCmp, ih]

theorem u8_pos (a : UInt8) (h : a ≠ 0) : (0:UInt8) < a := by
  rw [UInt8.lt_iff_toNat_lt]
  have : a.toNat ≠ 0 := fun h0 => h (UInt8.toNat_inj.mp (by simpa using h0))
  simp; omega

theorem u8_not_lt_zero (a : UInt8) : ¬ (a < 0) := by
  rw [UInt8.lt_iff_toNat_lt]; simp

theorem derived_eq_text (n : Nat) (ta tb : Bytes)
    (ha : ∀ x ∈ ta, x ≠ 0) (hb : ∀ x ∈ tb, x ≠ 0) (hla : ta.length ≤ n) (hlb : tb.length ≤ n) :
    (lexCmp (padTo n ta) (padTo n tb)).then (compare ta.length tb.length) = lexCmp ta tb := by
  induction ta generalizing tb n with
  | nil =>
    cases tb with
    | nil => simp [padTo, lexCmp_zeros, lexCmp, Ordering.then]
    | cons b bs =>
      have hb0 : b ≠ 0 := hb b (by simp)
      have hpos : (0:UInt8) < b := u8_pos b hb0
      obtain ⟨m, rfl⟩ : ∃ m, n = m + 1 := ⟨n - 1, by simp at hlb; omega⟩
      simp [padTo, List.replicate_succ, lexCmp, hpos, Ordering.then]
  | cons a as ih =>
    cases tb with
    | nil =>
      have ha0 : a ≠ 0 := ha a (by simp)
      have hpos : (0:UInt8) < a := u8_pos a ha0
      have hn : ¬ (a < 0) := u8_not_lt_zero a
      obtain ⟨m, rfl⟩ : ∃ m, n = m + 1 := ⟨n - 1, by simp at hla; omega⟩
      simp [padTo, List.replicate_succ, lexCmp, hpos, hn, Ordering.then]
    | cons b bs =>
      obtain ⟨m, rfl⟩ : ∃ m, n = m + 1 := ⟨n - 1, by simp at hla; omega⟩
      have ih' := ih m bs (fun x hx => ha x (by simp [hx])) (fun x hx => hb x (by simp [hx]))
        (by simp at hla; omega) (by simp at hlb; omega)
      simp only [padTo, List.length_cons, List.cons_append, lexCmp] at ih' ⊢
      have e1 : m + 1 - (as.length + 1) = m - as.length := by omega
      have e2 : m + 1 - (bs.length + 1) = m - bs.length := by omega
      rw [e1, e2]
      by_cases h1 : a < b
      · simp [h1, Ordering.then]
      · by_cases h2 : b < a
        · simp [h1, h2, Ordering.then]
        · simp only [h1, h2, if_false]
          have : compare (as.length + 1) (bs.length + 1) = compare as.length bs.length := by
            simp [Nat.compare_eq_ite_lt] <;> omega
          rw [this]; exact ih'

end WowSrp
