/-
The RC4 PRGA step is a bijection on states with an intact table (`Rc4.Inv`: 256 entries), whatever the
table holds: from `(S', i', j')` one recovers `i = i' - 1`, `S = swap S' i' j'` (a swap at the same two
positions is an involution) and `j = j' - S[i']` (the byte that was added to `j` sits at `S'[j']`).
Hence `advance n` (n keystream bytes) is injective, for every `n`. The output byte plays no role.
Core Lean only.
-/
import WowSrp.Lemmas.Rc4
namespace WowSrp

/-! ### `swap` at the same two positions is an involution -/

theorem swapPure_get (s : Array UInt8) (a b k : Nat) (ha : a < s.size) (hb : b < s.size) :
    (swapPure s a b)[k]! = if k = b then s[a]! else if k = a then s[b]! else s[k]! := by
  simp only [swapPure, getElem!_def, Array.getElem?_setIfInBounds, Array.size_setIfInBounds]
  by_cases h1 : b = k
  · subst h1; simp [hb]
  · have h1' : ¬ k = b := fun e => h1 e.symm
    by_cases h2 : a = k
    · subst h2; simp [h1, h1', ha]
    · have h2' : ¬ k = a := fun e => h2 e.symm
      simp [h1, h2, h1', h2']

theorem swapPure_swapPure (s : Array UInt8) (a b : Nat) (ha : a < s.size) (hb : b < s.size) :
    swapPure (swapPure s a b) a b = s := by
  have hsz : (swapPure s a b).size = s.size := swapPure_size s a b
  apply Array.ext
  · rw [swapPure_size, swapPure_size]
  · intro k hk1 hk2
    have e1 : (swapPure (swapPure s a b) a b)[k] = (swapPure (swapPure s a b) a b)[k]! :=
      (getElem!_pos (swapPure (swapPure s a b) a b) k hk1).symm
    have e2 : s[k] = s[k]! := (getElem!_pos s k hk2).symm
    rw [e1, e2, swapPure_get _ a b k (by rw [hsz]; exact ha) (by rw [hsz]; exact hb),
      swapPure_get s a b a ha hb, swapPure_get s a b b ha hb, swapPure_get s a b k ha hb]
    by_cases h1 : k = b
    · subst h1
      by_cases h2 : a = k
      · subst h2; simp
      · simp [h2]
    · by_cases h2 : k = a
      · subst h2; simp [h1]
      · simp [h1, h2]

/-! ### the inverse PRGA step -/

/-- the state before one `pseudo_random_generation`, recovered from the state after it -/
def Rc4.prev (r : Rc4) : Rc4 :=
  let s := swapPure r.state r.i.toNat r.j.toNat
  ⟨s, r.i - 1, r.j - s[r.i.toNat]!⟩

theorem Rc4.prev_inv (r : Rc4) (h : r.Inv) : r.prev.Inv := by
  simp [Rc4.Inv, Rc4.prev, swapPure_size]; exact h

theorem u8_lt_of_inv (r : Rc4) (h : r.Inv) (b : UInt8) : b.toNat < r.state.size := by
  have := UInt8.toNat_lt b; unfold Rc4.Inv at h; omega

/-- undoing a step: `prev (next r) = r` -/
theorem Rc4.prev_next (r : Rc4) (h : r.Inv) : r.next.prev = r := by
  obtain ⟨s, i, j⟩ := r
  have hlt : ∀ b : UInt8, b.toNat < s.size := u8_lt_of_inv ⟨s, i, j⟩ h
  simp only [Rc4.prev, Rc4.next]
  rw [swapPure_swapPure s _ _ (hlt _) (hlt _)]
  congr 1
  · exact UInt8.add_sub_cancel i 1
  · exact UInt8.add_sub_cancel j _

/-- redoing a step: `next (prev r) = r` -/
theorem Rc4.next_prev (r : Rc4) (h : r.Inv) : r.prev.next = r := by
  obtain ⟨s, i, j⟩ := r
  have hlt : ∀ b : UInt8, b.toNat < s.size := u8_lt_of_inv ⟨s, i, j⟩ h
  have hi : i - 1 + 1 = i := UInt8.sub_add_cancel i 1
  simp only [Rc4.prev, Rc4.next, hi]
  have hj : j - (swapPure s i.toNat j.toNat)[i.toNat]! + (swapPure s i.toNat j.toNat)[i.toNat]! = j :=
    UInt8.sub_add_cancel j _
  rw [hj, swapPure_swapPure s _ _ (hlt _) (hlt _)]

/-- **the PRGA state transition is injective** on states with an intact table -/
theorem Rc4.next_injective (a b : Rc4) (ha : a.Inv) (hb : b.Inv) (h : a.next = b.next) : a = b := by
  rw [← a.prev_next ha, ← b.prev_next hb, h]

/-- … and onto them: it is a bijection of the set of intact states -/
theorem Rc4.next_surjective (r : Rc4) (h : r.Inv) : ∃ a : Rc4, a.Inv ∧ a.next = r :=
  ⟨r.prev, r.prev_inv h, r.next_prev h⟩

/-- the same about the model's panicking `pseudo_random_generation` itself: two intact states that it
    takes to the same successor state are equal — whatever the two output bytes are -/
theorem Rc4.prga_injective (a b : Rc4) (ha : a.Inv) (hb : b.Inv) (s : Rc4) (va vb : UInt8)
    (h₁ : a.prga = .ok (s, va)) (h₂ : b.prga = .ok (s, vb)) : a = b := by
  rw [a.prga_pure ha] at h₁
  rw [b.prga_pure hb] at h₂
  injection h₁ with h₁
  injection h₂ with h₂
  exact Rc4.next_injective a b ha hb ((Prod.mk.inj h₁).1.trans (Prod.mk.inj h₂).1.symm)

/-- **`n` keystream bytes on**: equal states after the same number of steps ⇒ equal states before -/
theorem Rc4.advance_injective (n : Nat) (a b : Rc4) (ha : a.Inv) (hb : b.Inv)
    (h : Rc4.advance n a = Rc4.advance n b) : a = b := by
  induction n generalizing a b with
  | zero => exact h
  | succ n ih => exact Rc4.next_injective a b ha hb (ih a.next b.next (a.next_inv ha) (b.next_inv hb) h)

/-- the same about `apply_keystream`: two intact states that end in the same state after calls on data of
    the same length (any data: the state does not depend on it) were the same state -/
theorem Rc4.apply_injective_state (a b : Rc4) (ha : a.Inv) (hb : b.Inv) (xs ys : Bytes)
    (hl : xs.length = ys.length) (s : Rc4) (ox oy : Bytes)
    (h₁ : a.apply xs = .ok (s, ox)) (h₂ : b.apply ys = .ok (s, oy)) : a = b := by
  rw [a.apply_eq ha] at h₁
  rw [b.apply_eq hb] at h₂
  injection h₁ with h₁
  injection h₂ with h₂
  have e := (Prod.mk.inj h₁).1.trans (Prod.mk.inj h₂).1.symm
  rw [hl] at e
  exact Rc4.advance_injective _ a b ha hb e

end WowSrp
