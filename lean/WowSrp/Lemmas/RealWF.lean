/-
Output lengths of the executable hash instance `Crypto.real` (Model/Crypto.lean): SHA-1 and HMAC-SHA1
give 20 bytes, MD5 gives 16 — read off the final concatenation of big-endian (SHA-1) or little-endian (MD5) words.
-/
import WowSrp.Model.Crypto
namespace WowSrp

theorem Sha1.sha1_length (m : Bytes) : (Sha1.sha1 m).length = 20 := by
  simp [Sha1.sha1, Sha1.be]

theorem Md5.md5_length (m : Bytes) : (Md5.md5 m).length = 16 := by
  simp [Md5.md5, Md5.le]

/-- the executable instance satisfies the output-length assumptions -/
theorem Crypto.real_WF : Crypto.real.WF where
  sha1_len := Sha1.sha1_length
  hmac_len := fun _ _ => Sha1.sha1_length _
  md5_len := Md5.md5_length

end WowSrp
