/-
Helper lemmas for C16 (PIN hashes): decimal digits, the keypad layout, the position lookup.
Core Lean only.
-/
import WowSrp.Lemmas.Select
namespace WowSrp

/-! ### decimal digits -/

theorem Spec.digitsRev_zero : Spec.digitsRev 0 = [] := by
  rw [Spec.digitsRev]; simp

theorem Spec.digitsRev_pos (n : Nat) (h : n ≠ 0) :
    Spec.digitsRev n = n % 10 :: Spec.digitsRev (n / 10) := by
  rw [Spec.digitsRev]; simp [h]

/-- every digit is a digit -/
theorem Spec.digitsRev_lt (n : Nat) : ∀ d ∈ Spec.digitsRev n, d < 10 := by
  induction n using Nat.strongRecOn with
  | _ n ih =>
    by_cases h : n = 0
    · subst h; simp [Spec.digitsRev_zero]
    · rw [Spec.digitsRev_pos n h]
      intro d hd
      simp only [List.mem_cons] at hd
      rcases hd with rfl | hd
      · omega
      · exact ih (n / 10) (by omega) d hd

theorem Spec.digits_lt (n : Nat) : ∀ d ∈ Spec.digits n, d < 10 := by
  intro d hd
  exact Spec.digitsRev_lt n d (by simpa [Spec.digits] using hd)

/-- the digits, read least significant first, give the number back -/
theorem Spec.digitsRev_value (n : Nat) :
    (Spec.digitsRev n).foldr (fun d a => d + 10 * a) 0 = n := by
  induction n using Nat.strongRecOn with
  | _ n ih =>
    by_cases h : n = 0
    · subst h; simp [Spec.digitsRev_zero]
    · rw [Spec.digitsRev_pos n h, List.foldr_cons, ih (n / 10) (by omega)]
      omega

/-- the digit string, read as a decimal numeral, is the number -/
theorem Spec.digits_value (n : Nat) : Spec.ofDigits (Spec.digits n) = n := by
  unfold Spec.ofDigits Spec.digits
  rw [List.foldl_reverse]
  have := Spec.digitsRev_value n
  have e : (fun (x y : Nat) => 10 * y + x) = (fun d a => d + 10 * a) := by
    funext x y; omega
  rw [e]; exact this

/-- no leading zero: the most significant digit is not 0 -/
theorem Spec.digitsRev_getLast_ne_zero (n : Nat) : ∀ d, (Spec.digitsRev n).getLast? = some d → d ≠ 0 := by
  induction n using Nat.strongRecOn with
  | _ n ih =>
    by_cases h : n = 0
    · subst h; simp [Spec.digitsRev_zero]
    · rw [Spec.digitsRev_pos n h]
      intro d hd
      by_cases h10 : n / 10 = 0
      · rw [h10, Spec.digitsRev_zero] at hd
        simp at hd
        omega
      · rw [Spec.digitsRev_pos (n/10) h10, List.getLast?_cons_cons] at hd
        rw [← Spec.digitsRev_pos (n/10) h10] at hd
        exact ih (n / 10) (by omega) d hd

theorem Spec.digits_head_ne_zero (n : Nat) : ∀ d, (Spec.digits n).head? = some d → d ≠ 0 := by
  intro d hd
  exact Spec.digitsRev_getLast_ne_zero n d (by simpa [Spec.digits] using hd)

/-- a number has at most `k` digits exactly when it is below `10^k` -/
theorem Spec.digitsRev_length_le_iff (n k : Nat) : (Spec.digitsRev n).length ≤ k ↔ n < 10 ^ k := by
  induction k generalizing n with
  | zero =>
    by_cases h : n = 0
    · subst h; simp [Spec.digitsRev_zero]
    · rw [Spec.digitsRev_pos n h]; simp; omega
  | succ k ih =>
    by_cases h : n = 0
    · subst h; simp [Spec.digitsRev_zero]; exact Nat.pow_pos (by omega)
    · rw [Spec.digitsRev_pos n h, List.length_cons, Nat.add_le_add_iff_right, ih (n / 10), Nat.pow_succ]
      omega

theorem Spec.digits_length_le_iff (n k : Nat) : (Spec.digits n).length ≤ k ↔ n < 10 ^ k := by
  simp [Spec.digits, Spec.digitsRev_length_le_iff]

/-- the fuelled loop of the model produces the digits whenever the fuel suffices -/
theorem pinDigitsRev_eq (fuel pin : Nat) (h : pin < 10 ^ fuel) :
    pinDigitsRev fuel pin = (Spec.digitsRev pin).map UInt8.ofNat := by
  induction fuel generalizing pin with
  | zero =>
    have : pin = 0 := by simpa using h
    subst this; simp [pinDigitsRev, Spec.digitsRev_zero]
  | succ fuel ih =>
    by_cases h0 : pin = 0
    · subst h0; simp [pinDigitsRev, Spec.digitsRev_zero]
    · rw [Spec.digitsRev_pos pin h0]
      simp only [pinDigitsRev, if_neg h0, List.map_cons]
      rw [ih (pin / 10) (by rw [Nat.pow_succ] at h; omega)]

/-- `pin_to_bytes` for a `u32`: the decimal digits, most significant first; no panic -/
theorem pinToBytes_eq (pin : Nat) (h : pin < 2 ^ 32) :
    pinToBytes pin = .ok ((Spec.digits pin).map UInt8.ofNat) := by
  have h64 : pin < 10 ^ 64 := by
    have : (2:Nat) ^ 32 ≤ 10 ^ 64 := by decide
    omega
  have h10 : pin < 10 ^ 10 := by
    have : (2:Nat) ^ 32 ≤ 10 ^ 10 := by decide
    omega
  have hmax : Gen.maxPinLength = 10 := by decide
  unfold pinToBytes
  simp only [pinDigitsRev_eq 64 pin h64, List.length_map, hmax]
  rw [if_pos ((Spec.digitsRev_length_le_iff pin 10).mpr h10)]
  simp [Spec.digits]

/-! ### position lookup -/

theorem ofNat_inj_of_lt (a b : Nat) (ha : a < 256) (hb : b < 256) (h : UInt8.ofNat a = UInt8.ofNat b) :
    a = b := by
  have := congrArg UInt8.toNat h
  simp only [UInt8.toNat_ofNat'] at this
  omega

/-- looking a digit up in a layout of small numbers finds its first position -/
theorem findIdx_map_ofNat (L : List Nat) (d : Nat) (hL : ∀ a ∈ L, a < 256) (hd : d < 256) (hm : d ∈ L) :
    findIdx (L.map UInt8.ofNat) (UInt8.ofNat d) = .ok (UInt8.ofNat (L.idxOf d)) := by
  have key : (L.map UInt8.ofNat).findIdx? (· == UInt8.ofNat d) = some (L.idxOf d) := by
    induction L with
    | nil => simp at hm
    | cons a L ih =>
      simp only [List.map_cons, List.findIdx?_cons, List.idxOf_cons]
      by_cases hab : a = d
      · subst hab; simp
      · have hne : ¬ (UInt8.ofNat a = UInt8.ofNat d) := fun h =>
          hab (ofNat_inj_of_lt a d (hL a (by simp)) hd h)
        have hm' : d ∈ L := by
          simp only [List.mem_cons] at hm
          rcases hm with h | h
          · exact absurd h.symm hab
          · exact h
        simp only [beq_iff_eq, hne, if_false]
        rw [ih (fun a ha => hL a (by simp [ha])) hm']
        have : (a == d) = false := by simpa using hab
        simp [this]
  unfold findIdx
  rw [key]

theorem mapOut_ok {α β} (f : α → Out β) (g : α → β) (l : List α) (h : ∀ x ∈ l, f x = .ok (g x)) :
    mapOut f l = .ok (l.map g) := by
  induction l with
  | nil => rfl
  | cons x xs ih =>
    simp only [mapOut, h x (by simp), Out.bind_ok, ih (fun y hy => h y (by simp [hy])), Out.pure_eq,
      List.map_cons]

theorem mapOut_map_ok {α β γ} (f : β → Out γ) (h : α → β) (g : α → γ) (l : List α)
    (hl : ∀ x ∈ l, f (h x) = .ok (g x)) : mapOut f (l.map h) = .ok (l.map g) := by
  induction l with
  | nil => rfl
  | cons x xs ih =>
    simp only [List.map_cons, mapOut, hl x (by simp), Out.bind_ok, ih (fun y hy => hl y (by simp [hy])),
      Out.pure_eq]

/-! ### the layout -/

theorem remapPinGrid_spec (seed : Nat) :
    remapPinGrid seed = .ok ((Spec.lehmer seed).map UInt8.ofNat) := by
  have hg : Gen.pinInitialGrid = (List.range 10).map UInt8.ofNat := by decide
  have hm : Gen.maxPinLength = 10 := by decide
  unfold remapPinGrid
  rw [hm, remapLoop_spec 10 _ seed [] (by rw [hg]; simp)]
  rw [hg]
  have : ((List.range 10).map UInt8.ofNat).take 10 = (List.range 10).map UInt8.ofNat := by decide
  rw [this, Spec.pick_map]
  simp [Spec.lehmer]

theorem Spec.lehmer_perm (seed : Nat) : (Spec.lehmer seed).Perm (List.range 10) :=
  Spec.pick_perm 10 _ seed (by simp)

theorem Spec.lehmer_mod (seed : Nat) : Spec.lehmer seed = Spec.lehmer (seed % 3628800) := by
  have : fact 10 = 3628800 := by decide
  rw [← this]
  exact Spec.pick_mod_fact 10 _ seed (by simp)

theorem Spec.mem_lehmer (seed d : Nat) : d ∈ Spec.lehmer seed ↔ d < 10 := by
  rw [(Spec.lehmer_perm seed).mem_iff]; simp

end WowSrp
