/-
Helper lemmas for C11 / C12: lengths, key preservation, the observable part of an I/O result,
and the generic "two independent directions" interleaving lemma. Core Lean only.
-/
import WowSrp.Lemmas.Io
import WowSrp.Lemmas.Header
import WowSrp.Model.Wrath
namespace WowSrp

/-- apply a function to the value of a non-panicking outcome -/
def Out.mapOk {α β : Type} (f : α → β) : Out α → Out β
  | .ok a => .ok (f a)
  | .panic p => .panic p

/-- what a caller can observe of a wrapper call besides the reader/writer itself:
    the cipher state afterwards and the `io::Result` -/
def IoRes.outcome {σ α β : Type} (r : IoRes σ α β) : σ × Except IoKind α := (r.state, r.result)

/-- a cipher call returns as many bytes as it was given -/
theorem runSteps_length {σ : Type} (step : σ → UInt8 → Out (σ × UInt8)) (h h' : σ) (xs out : Bytes)
    (hr : runSteps step h xs = .ok (h', out)) : out.length = xs.length := by
  induction xs generalizing h out with
  | nil => simp [runSteps] at hr; simp [hr.2]
  | cons x xs ih =>
    simp only [runSteps] at hr
    cases hs : step h x with
    | panic p => rw [hs] at hr; simp at hr
    | ok r =>
      obtain ⟨h1, y⟩ := r
      rw [hs] at hr
      simp only at hr
      cases hr2 : runSteps step h1 xs with
      | panic p => rw [hr2] at hr; simp at hr
      | ok r2 =>
        obtain ⟨h2, ys⟩ := r2
        rw [hr2] at hr
        simp only [Out.ok.injEq, Prod.mk.injEq] at hr
        rw [← hr.2]
        simp [ih h1 ys (hr.1 ▸ hr2)]

theorem encStep_key (m : Nat) (h h' : Half) (x y : UInt8) (hs : encStep m h x = .ok (h', y)) :
    h'.key = h.key := by
  unfold encStep at hs
  split at hs
  · simp at hs
  · split at hs
    · simp at hs
    · split at hs
      · simp at hs
      · simp only [Out.ok.injEq, Prod.mk.injEq] at hs
        rw [← hs.1]

theorem decStep_key (m : Nat) (h h' : Half) (x y : UInt8) (hs : decStep m h x = .ok (h', y)) :
    h'.key = h.key := by
  unfold decStep at hs
  split at hs
  · simp at hs
  · split at hs
    · simp at hs
    · split at hs
      · simp at hs
      · simp only [Out.ok.injEq, Prod.mk.injEq] at hs
        rw [← hs.1]

/-- a property of the state kept by every step is kept by a whole call -/
theorem runSteps_preserves {σ : Type} (step : σ → UInt8 → Out (σ × UInt8)) (P : σ → σ → Prop)
    (hrefl : ∀ h, P h h) (htrans : ∀ a b c, P a b → P b c → P a c)
    (hstep : ∀ h h' x y, step h x = .ok (h', y) → P h h')
    (h h' : σ) (xs out : Bytes) (hr : runSteps step h xs = .ok (h', out)) : P h h' := by
  induction xs generalizing h out with
  | nil => simp [runSteps] at hr; rw [← hr.1]; exact hrefl h
  | cons x xs ih =>
    simp only [runSteps] at hr
    cases hs : step h x with
    | panic p => rw [hs] at hr; simp at hr
    | ok r =>
      obtain ⟨h1, y⟩ := r
      rw [hs] at hr
      simp only at hr
      cases hr2 : runSteps step h1 xs with
      | panic p => rw [hr2] at hr; simp at hr
      | ok r2 =>
        obtain ⟨h2, ys⟩ := r2
        rw [hr2] at hr
        simp only [Out.ok.injEq, Prod.mk.injEq] at hr
        exact htrans _ _ _ (hstep _ _ _ _ hs) (ih h1 ys (hr.1 ▸ hr2))

/-- the session key of a half never changes -/
theorem Half.encrypt_key (e : Exp) (h h' : Half) (d out : Bytes) (hr : h.encrypt e d = .ok (h', out)) :
    h'.key = h.key :=
  runSteps_preserves _ (fun a b => b.key = a.key) (fun _ => rfl) (fun a b c (h1 : b.key = a.key) (h2 : c.key = b.key) => h2.trans h1)
    (fun h h' x y hs => encStep_key _ h h' x y hs) h h' d out hr

theorem Half.decrypt_key (e : Exp) (h h' : Half) (d out : Bytes) (hr : h.decrypt e d = .ok (h', out)) :
    h'.key = h.key :=
  runSteps_preserves _ (fun a b => b.key = a.key) (fun _ => rfl) (fun a b c (h1 : b.key = a.key) (h2 : c.key = b.key) => h2.trans h1)
    (fun h h' x y hs => decStep_key _ h h' x y hs) h h' d out hr

/-! ### two independent directions -/

/-- the operations of C12: encrypt a chunk, decrypt a chunk, split the object into its halves, clone it
    and continue on the clone, re-join the halves -/
inductive Op where
  | enc (d : Bytes)
  | dec (d : Bytes)
  | split
  | clone
  | unsplit
deriving Repr, DecidableEq

/-- all bytes sent through the encrypting direction, in order -/
def encChunks : List Op → Bytes
  | [] => []
  | .enc d :: ops => d ++ encChunks ops
  | _ :: ops => encChunks ops

/-- all bytes sent through the decrypting direction, in order -/
def decChunks : List Op → Bytes
  | [] => []
  | .dec d :: ops => d ++ decChunks ops
  | _ :: ops => decChunks ops

/-- a chunk function that can be fed its input in pieces -/
structure Chunked {σ : Type} (f : σ → Bytes → Out (σ × Bytes)) : Prop where
  nil : ∀ h, f h [] = .ok (h, [])
  append : ∀ h xs ys, f h (xs ++ ys) =
    match f h xs with
    | .panic p => .panic p
    | .ok (h', o1) =>
      match f h' ys with
      | .panic p => .panic p
      | .ok (h'', o2) => .ok (h'', o1 ++ o2)

theorem runSteps_chunked {σ : Type} (step : σ → UInt8 → Out (σ × UInt8)) : Chunked (runSteps step) :=
  ⟨fun _ => rfl, runSteps_append step⟩

/-- one operation on a plain pair of direction states: `enc` touches the first component only,
    `dec` the second only, everything else nothing -/
def pairStep {E D : Type} (fe : E → Bytes → Out (E × Bytes)) (fd : D → Bytes → Out (D × Bytes)) :
    E × D → Op → Out ((E × D) × Bytes × Bytes)
  | (en, de), .enc d =>
    match fe en d with
    | .panic p => .panic p
    | .ok (en', o) => .ok ((en', de), o, [])
  | (en, de), .dec d =>
    match fd de d with
    | .panic p => .panic p
    | .ok (de', o) => .ok ((en, de'), [], o)
  | s, _ => .ok (s, [], [])

/-- a list of operations run with any step function, outputs collected per direction -/
def opsRun {σ : Type} (step : σ → Op → Out (σ × Bytes × Bytes)) : σ → List Op → Out (σ × Bytes × Bytes)
  | s, [] => .ok (s, [], [])
  | s, op :: ops =>
    match step s op with
    | .panic p => .panic p
    | .ok (s', a, b) =>
      match opsRun step s' ops with
      | .panic p => .panic p
      | .ok (s'', as, bs) => .ok (s'', a ++ as, b ++ bs)

/-- **interleaving lemma**: a run over a pair succeeds with per-direction outputs `eo`, `dout` and final
    states `s'` exactly when the encrypting direction alone, fed all `enc` chunks in one call, gives
    `(s'.1, eo)` and the decrypting direction alone, fed all `dec` chunks, gives `(s'.2, dout)` -/
theorem pairRun_iff {E D : Type} (fe : E → Bytes → Out (E × Bytes)) (fd : D → Bytes → Out (D × Bytes))
    (he : Chunked fe) (hd : Chunked fd) (s : E × D) (ops : List Op) (s' : E × D) (eo dout : Bytes) :
    opsRun (pairStep fe fd) s ops = .ok (s', eo, dout) ↔
      fe s.1 (encChunks ops) = .ok (s'.1, eo) ∧ fd s.2 (decChunks ops) = .ok (s'.2, dout) := by
  induction ops generalizing s eo dout with
  | nil =>
    obtain ⟨en, de⟩ := s
    obtain ⟨en', de'⟩ := s'
    simp only [opsRun, encChunks, decChunks, he.nil, hd.nil, Out.ok.injEq, Prod.mk.injEq]
    constructor
    · rintro ⟨⟨a, b⟩, c, d⟩; exact ⟨⟨a, c⟩, b, d⟩
    · rintro ⟨⟨a, c⟩, b, d⟩; exact ⟨⟨a, b⟩, c, d⟩
  | cons op ops ih =>
    obtain ⟨en, de⟩ := s
    cases op with
    | enc d =>
      simp only [opsRun, pairStep, encChunks, decChunks, he.append]
      cases h1 : fe en d with
      | panic p => simp
      | ok r =>
        obtain ⟨en1, o⟩ := r
        simp only
        constructor
        · intro h
          cases h2 : opsRun (pairStep fe fd) (en1, de) ops with
          | panic p => rw [h2] at h; simp at h
          | ok r2 =>
            obtain ⟨s2, as, bs⟩ := r2
            rw [h2] at h
            simp only [Out.ok.injEq, Prod.mk.injEq, List.nil_append] at h
            obtain ⟨e1, e2, e3⟩ := h
            subst e1 e2 e3
            obtain ⟨g1, g2⟩ := (ih (en1, de) as bs).mp h2
            simp only at g1 g2
            rw [g1]
            exact ⟨rfl, g2⟩
        · rintro ⟨g1, g2⟩
          cases h3 : fe en1 (encChunks ops) with
          | panic p => rw [h3] at g1; simp at g1
          | ok r3 =>
            obtain ⟨en2, o2⟩ := r3
            rw [h3] at g1
            simp only [Out.ok.injEq, Prod.mk.injEq] at g1
            obtain ⟨e1, e2⟩ := g1
            have := (ih (en1, de) o2 dout).mpr ⟨by rw [h3, e1], g2⟩
            rw [this]
            simp [e2]
    | dec d =>
      simp only [opsRun, pairStep, encChunks, decChunks, hd.append]
      cases h1 : fd de d with
      | panic p => simp
      | ok r =>
        obtain ⟨de1, o⟩ := r
        simp only
        constructor
        · intro h
          cases h2 : opsRun (pairStep fe fd) (en, de1) ops with
          | panic p => rw [h2] at h; simp at h
          | ok r2 =>
            obtain ⟨s2, as, bs⟩ := r2
            rw [h2] at h
            simp only [Out.ok.injEq, Prod.mk.injEq, List.nil_append] at h
            obtain ⟨e1, e2, e3⟩ := h
            subst e1 e2 e3
            obtain ⟨g1, g2⟩ := (ih (en, de1) as bs).mp h2
            simp only at g1 g2
            rw [g2]
            exact ⟨g1, rfl⟩
        · rintro ⟨g1, g2⟩
          cases h3 : fd de1 (decChunks ops) with
          | panic p => rw [h3] at g2; simp at g2
          | ok r3 =>
            obtain ⟨de2, o2⟩ := r3
            rw [h3] at g2
            simp only [Out.ok.injEq, Prod.mk.injEq] at g2
            obtain ⟨e1, e2⟩ := g2
            have := (ih (en, de1) eo o2).mpr ⟨g1, by rw [h3, e1]⟩
            rw [this]
            simp [e2]
    | split | clone | unsplit =>
      simp only [opsRun, pairStep, encChunks, decChunks]
      rw [← ih (en, de) eo dout]
      cases opsRun (pairStep fe fd) (en, de) ops with
      | panic p => simp
      | ok r => obtain ⟨s2, as, bs⟩ := r; simp

/-- **projection lemma**: if every single step of a richer object projects onto the step of a simpler
    one, so does every run -/
theorem opsRun_proj {σ τ : Type} (step₁ : σ → Op → Out (σ × Bytes × Bytes))
    (step₂ : τ → Op → Out (τ × Bytes × Bytes)) (proj : σ → τ)
    (hstep : ∀ s op, (step₁ s op).mapOk (fun r => (proj r.1, r.2)) = step₂ (proj s) op)
    (s : σ) (ops : List Op) :
    (opsRun step₁ s ops).mapOk (fun r => (proj r.1, r.2)) = opsRun step₂ (proj s) ops := by
  induction ops generalizing s with
  | nil => rfl
  | cons op ops ih =>
    simp only [opsRun]
    rw [← hstep s op]
    cases step₁ s op with
    | panic p => rfl
    | ok r =>
      obtain ⟨s1, a, b⟩ := r
      simp only [Out.mapOk]
      rw [← ih s1]
      cases opsRun step₁ s1 ops with
      | panic p => rfl
      | ok r2 => rfl

/-- projection + interleaving: a run of any object whose steps project onto a plain pair of two
    chunkable directions succeeds with outputs `eo`, `dout` and final projections `(en', de')`
    exactly when each direction alone, fed its chunks in one call, does -/
theorem opsRun_interleaving {σ E D : Type} (step : σ → Op → Out (σ × Bytes × Bytes))
    (fe : E → Bytes → Out (E × Bytes)) (fd : D → Bytes → Out (D × Bytes))
    (he : Chunked fe) (hd : Chunked fd) (proj : σ → E × D)
    (hstep : ∀ s op, (step s op).mapOk (fun r => (proj r.1, r.2)) = pairStep fe fd (proj s) op)
    (s : σ) (ops : List Op) (eo dout : Bytes) (en' : E) (de' : D) :
    (∃ s', opsRun step s ops = .ok (s', eo, dout) ∧ proj s' = (en', de')) ↔
      fe (proj s).1 (encChunks ops) = .ok (en', eo) ∧ fd (proj s).2 (decChunks ops) = .ok (de', dout) := by
  have hp := opsRun_proj step (pairStep fe fd) proj hstep s ops
  have hi := pairRun_iff fe fd he hd (proj s) ops (en', de') eo dout
  simp only at hi
  rw [← hi, ← hp]
  constructor
  · rintro ⟨s', h1, h2⟩
    rw [h1]; simp only [Out.mapOk, h2]
  · intro h
    cases hr : opsRun step s ops with
    | panic p => rw [hr] at h; simp [Out.mapOk] at h
    | ok r =>
      obtain ⟨s', a, b⟩ := r
      rw [hr] at h
      simp only [Out.mapOk, Out.ok.injEq, Prod.mk.injEq] at h
      obtain ⟨h1, h2, h3⟩ := h
      subst h2 h3
      exact ⟨s', rfl, h1⟩

end WowSrp
