/-
Reading an equation `x = y.mapOk f` (`Out.mapOk`, Lemmas/HeaderIo.lean) as
"returns … ↔ the inner call returns …" and "panics ↔ the inner call panics". Core Lean only.
-/
import WowSrp.Lemmas.HeaderIo
namespace WowSrp

/-- `mapOk` returns `b` iff the inner call returns some `a` with `b = f a` -/
theorem Out.mapOk_eq_ok_iff {α β : Type} (f : α → β) (y : Out α) (b : β) :
    y.mapOk f = .ok b ↔ ∃ a, y = .ok a ∧ b = f a := by
  cases y with
  | panic p => simp [Out.mapOk]
  | ok a =>
    simp only [Out.mapOk, Out.ok.injEq]
    constructor
    · intro h; exact ⟨a, rfl, h.symm⟩
    · rintro ⟨a', h1, h2⟩; rw [h1, h2]

/-- `mapOk` panics iff the inner call panics, with the same message -/
theorem Out.mapOk_eq_panic_iff {α β : Type} (f : α → β) (y : Out α) (p : String) :
    y.mapOk f = .panic p ↔ y = .panic p := by
  cases y <;> simp [Out.mapOk]

/-- facade shape ⇒ the untouched field: if a call is `inner.mapOk (fun p => (upd p.1, p.2))` and every
    `upd x` has the same `proj` as the old object, so has whatever the call returns -/
theorem mapOk_pair_untouched {σ τ α β : Type} (inner : Out (τ × α)) (upd : τ → σ) (proj : σ → β) (old : β)
    (hupd : ∀ x, proj (upd x) = old) (s' : σ) (a : α)
    (h : inner.mapOk (fun p => (upd p.1, p.2)) = .ok (s', a)) : proj s' = old := by
  obtain ⟨p, _, hp⟩ := (Out.mapOk_eq_ok_iff _ _ _).1 h
  rw [(Prod.mk.inj hp).1]
  exact hupd p.1

/-- the same for the I/O wrappers (`IoRes` instead of a pair) -/
theorem mapOk_io_untouched {σ τ α γ β : Type} (inner : Out (IoRes τ α γ)) (upd : τ → σ) (proj : σ → β)
    (old : β) (hupd : ∀ x, proj (upd x) = old) (R : IoRes σ α γ)
    (h : inner.mapOk (fun r => (⟨upd r.state, r.result, r.rest⟩ : IoRes σ α γ)) = .ok R) :
    proj R.state = old := by
  obtain ⟨r, _, hr⟩ := (Out.mapOk_eq_ok_iff _ _ _).1 h
  rw [hr]
  exact hupd r.state

end WowSrp
