/-
Helper lemmas for the end-to-end theorems of `Props/System.lean`:
* structural inversion of a successful `runLogin` (which objects it went through),
* structural facts about the constructors of `SrpServer` / `SrpClient` (which fields they copy),
* the facade methods of `HeaderCrypto` over several calls,
* the fields of the Wrath pairs handed out by `ClientCrypto::new` / `ServerCrypto::new`.
Core Lean only; no property of any hash function is used.
-/
import WowSrp.Model.World
import WowSrp.Lemmas.Rc4
namespace WowSrp

/-! ### the objects inside a successful `runLogin` -/

/-- **inversion**: a `runLogin` that ends in `.ok` went through exactly these objects — the four
    normalised strings, the stored record `ver` (re-imported from its database values when
    `viaStorage`), the server's `SrpProof`, the client's `SrpClientChallenge`, the `SrpServer` that
    `into_server` handed out together with M2, and the `SrpClient` that `verify_server_proof` handed
    out — and the seven values it reports are read off them. Purely structural: every other branch of
    `runLogin` ends in `.fail` or `.panic`. -/
theorem runLogin_ok_inv (C : Crypto) (be : Backend) (us ps uc pc : List Char) (viaStorage : Bool)
    (salt b a challenge Ks Kc A B M1 M2 v : Bytes)
    (h : runLogin C be us ps uc pc viaStorage salt b a challenge = .ok Ks Kc A B M1 M2 v) :
    ∃ (US PS UC PC : NStr) (ver0 ver : SrpVerifier) (proof : SrpProof) (cc : SrpClientChallenge)
      (srv : SrpServer) (cl : SrpClient),
      NStr.new us = .ok US ∧ NStr.new ps = .ok PS ∧ NStr.new uc = .ok UC ∧ NStr.new pc = .ok PC ∧
      SrpVerifier.fromUsernameAndPassword C be US PS salt = .ok ver0 ∧
      (if viaStorage then
         ∃ U', NStr.new (bytesToChars ver0.username.asRef) = .ok U' ∧
           ver = SrpVerifier.fromDatabaseValues U' ver0.passwordVerifier ver0.salt
       else ver = ver0) ∧
      ver.intoProof be b = .ok proof ∧
      PublicKey.fromLE proof.serverPublicKey = .ok B ∧
      SrpClientChallenge.new C be UC PC gBig Gen.largeSafePrimeLE B proof.salt a = .ok cc ∧
      PublicKey.fromLE cc.clientPublicKey = .ok A ∧
      proof.intoServer C be A cc.clientProof challenge = .ok (.ok (srv, M2)) ∧
      cc.verifyServerProof C M2 = .ok cl ∧
      Ks = srv.sessionKey ∧ Kc = cl.sessionKey ∧ M1 = cc.clientProof ∧ v = ver.passwordVerifier := by
  unfold runLogin at h
  split at h
  · next US PS UC PC hUS hPS hUC hPC =>
    split at h
    · cases h
    · next ver0 hver0 =>
      simp only at h
      split at h
      · cases h
      · cases h
      · next ver hver =>
        split at h
        · cases h
        · next proof hproof =>
          split at h
          · cases h
          · next B' hB =>
            split at h
            · cases h
            · next cc hcc =>
              split at h
              · cases h
              · next A' hA =>
                split at h
                · cases h
                · cases h
                · next srv M2' hsrv =>
                  split at h
                  · cases h
                  · next cl hcl =>
                    injection h with h1 h2 h3 h4 h5 h6 h7
                    subst h1 h2 h3 h4 h5 h6 h7
                    refine ⟨US, PS, UC, PC, ver0, ver, proof, cc, srv, cl, hUS, hPS, hUC, hPC, hver0,
                      ?_, hproof, hB, hcc, hA, hsrv, hcl, rfl, rfl, rfl, rfl⟩
                    cases viaStorage with
                    | false =>
                      simp only [Bool.false_eq_true, if_false] at hver ⊢
                      injection hver with hver
                      exact hver.symm
                    | true =>
                      simp only [if_true] at hver ⊢
                      split at hver
                      · next U' hU' =>
                        injection hver with hver
                        exact ⟨U', hU', hver.symm⟩
                      · cases hver
                      · cases hver
  · cases h

/-- `SrpVerifier::into_proof` copies username, salt and verifier into the `SrpProof` -/
theorem SrpVerifier.intoProof_fields (be : Backend) (s : SrpVerifier) (b : Bytes) (p : SrpProof)
    (h : s.intoProof be b = .ok p) :
    p.username = s.username ∧ p.salt = s.salt ∧ p.passwordVerifier = s.passwordVerifier ∧
    p.serverPrivateKey = b := by
  unfold SrpVerifier.intoProof SrpVerifier.withSpecificPrivateKey at h
  cases h1 : calculateServerPublicKey be s.passwordVerifier b with
  | panic site => rw [h1] at h; cases h
  | ok r =>
    rw [h1] at h
    cases r with
    | error e => cases h
    | ok B =>
      simp only [Out.bind_ok, Out.pure_eq] at h
      injection h with h
      subst h
      exact ⟨rfl, rfl, rfl, rfl⟩

/-- `SrpProof::into_server`, when it accepts, hands out the proof's username, the computed session
    key and the drawn reconnect challenge -/
theorem SrpProof.intoServer_fields (C : Crypto) (be : Backend) (p : SrpProof) (A M1 challenge M2 : Bytes)
    (srv : SrpServer) (h : p.intoServer C be A M1 challenge = .ok (.ok (srv, M2))) :
    srv.username = p.username ∧ srv.reconnectChallengeData = challenge := by
  unfold SrpProof.intoServer at h
  cases h1 : calculateSessionKey C be A p.serverPublicKey p.passwordVerifier p.serverPrivateKey with
  | panic site => rw [h1] at h; cases h
  | ok K =>
    rw [h1] at h
    simp only [Out.bind_ok] at h
    split at h
    · cases h
    · simp only [Out.pure_eq] at h
      injection h with h
      injection h with h
      injection h with h h'
      subst h
      exact ⟨rfl, rfl⟩

/-- `SrpClientChallenge::new` keeps the username it was given -/
theorem SrpClientChallenge.new_username (C : Crypto) (be : Backend) (u p : NStr) (g : Nat)
    (nLE B salt a : Bytes) (cc : SrpClientChallenge)
    (h : SrpClientChallenge.new C be u p g nLE B salt a = .ok cc) : cc.username = u := by
  unfold SrpClientChallenge.new at h
  cases h1 : calculateClientPublicKey be a g nLE with
  | panic site => rw [h1] at h; cases h
  | ok r =>
    rw [h1] at h
    cases r with
    | error e => cases h
    | ok A =>
      simp only [Out.bind_ok] at h
      cases h2 : calculateClientS be B (calculateX C u.asRef p.asRef salt) a (calculateU C A B) g nLE with
      | panic site => rw [h2] at h; cases h
      | ok S =>
        rw [h2] at h
        simp only [Out.bind_ok] at h
        cases h3 : calculateInterleaved C S with
        | panic site => rw [h3] at h; cases h
        | ok K =>
          rw [h3] at h
          simp only [Out.bind_ok, Out.pure_eq] at h
          injection h with h
          subst h
          rfl

/-- `SrpClientChallenge::verify_server_proof`, when it accepts, hands out the challenge's username
    and session key -/
theorem SrpClientChallenge.verifyServerProof_fields (C : Crypto) (c : SrpClientChallenge) (M2 : Bytes)
    (cl : SrpClient) (h : c.verifyServerProof C M2 = .ok cl) :
    cl.username = c.username ∧ cl.sessionKey = c.sessionKey := by
  unfold SrpClientChallenge.verifyServerProof at h
  simp only at h
  split at h
  · cases h
  · injection h with h
    subst h
    exact ⟨rfl, rfl⟩

/-! ### the facade of the combined Vanilla / TBC object over several calls -/

/-- several `HeaderCrypto::encrypt` calls = the same calls on the encrypting half; the decrypting
    half is carried along untouched -/
theorem HeaderCrypto.runChunks_encryptData (e : Exp) (hc : HeaderCrypto) (chunks : List Bytes) :
    runChunks (HeaderCrypto.encryptData e) hc chunks =
      match runChunks (Half.encrypt e) hc.encrypt chunks with
      | .ok (h', o) => .ok ({ hc with encrypt := h' }, o)
      | .panic p => .panic p := by
  have := runChunks_map (Half.encrypt e) (HeaderCrypto.encryptData e) (·.encrypt) (fun t h => { t with encrypt := h })
    (fun _ _ => rfl) (fun _ _ _ => rfl) (fun _ => rfl) (by
      intro t d
      simp only [HeaderCrypto.encryptData, bind, Out.bind, pure]
      cases t.encrypt.encrypt e d with
      | ok a => rfl
      | panic p => rfl) hc chunks
  rw [this]
  cases runChunks (Half.encrypt e) hc.encrypt chunks with
  | ok a => rfl
  | panic p => rfl

/-- several `HeaderCrypto::decrypt` calls = the same calls on the decrypting half; the encrypting
    half is carried along untouched -/
theorem HeaderCrypto.runChunks_decryptData (e : Exp) (hc : HeaderCrypto) (chunks : List Bytes) :
    runChunks (HeaderCrypto.decryptData e) hc chunks =
      match runChunks (Half.decrypt e) hc.decrypt chunks with
      | .ok (h', o) => .ok ({ hc with decrypt := h' }, o)
      | .panic p => .panic p := by
  have := runChunks_map (Half.decrypt e) (HeaderCrypto.decryptData e) (·.decrypt) (fun t h => { t with decrypt := h })
    (fun _ _ => rfl) (fun _ _ _ => rfl) (fun _ => rfl) (by
      intro t d
      simp only [HeaderCrypto.decryptData, bind, Out.bind, pure]
      cases t.decrypt.decrypt e d with
      | ok a => rfl
      | panic p => rfl) hc chunks
  rw [this]
  cases runChunks (Half.decrypt e) hc.decrypt chunks with
  | ok a => rfl
  | panic p => rfl

/-- a call in one piece is a one-element partition -/
theorem runChunks_single {σ : Type} (f : σ → Bytes → Out (σ × Bytes)) (h : σ) (d : Bytes) :
    runChunks f h [d] = match f h d with
      | .ok (h', o) => .ok (h', o)
      | .panic p => .panic p := by
  simp only [runChunks]
  cases f h d with
  | panic p => rfl
  | ok r => obtain ⟨h', o⟩ := r; simp

/-- two halves with the same key, position and previous byte are the same value -/
theorem Half.ext' (a b : Half) (hk : a.key = b.key) (hi : a.index = b.index) (hp : a.prev = b.prev) :
    a = b := by
  cases a; cases b; simp only at hk hi hp; subst hk hi hp; rfl

/-! ### the Wrath pairs -/

/-- the two fields of a `ClientCrypto` are what the two half constructors return -/
theorem WClientCrypto.new_fields (C : Crypto) (K : Bytes) (cc : WClientCrypto)
    (h : WClientCrypto.new C K = .ok cc) :
    WClientDec.new C K = .ok cc.decrypt ∧ WClientEnc.new C K = .ok cc.encrypt := by
  unfold WClientCrypto.new at h
  cases h1 : WClientDec.new C K with
  | panic p => rw [h1] at h; cases h
  | ok d =>
    rw [h1] at h
    cases h2 : WClientEnc.new C K with
    | panic p => rw [h2] at h; cases h
    | ok en =>
      rw [h2] at h
      simp only [Out.bind_ok, Out.pure_eq] at h
      injection h with h
      subst h
      exact ⟨rfl, rfl⟩

/-- the two fields of a `ServerCrypto` are what the two half constructors return -/
theorem WServerCrypto.new_fields (C : Crypto) (K : Bytes) (sc : WServerCrypto)
    (h : WServerCrypto.new C K = .ok sc) :
    WServerDec.new C K = .ok sc.decrypt ∧ WServerEnc.new C K = .ok sc.encrypt := by
  unfold WServerCrypto.new at h
  cases h1 : WServerDec.new C K with
  | panic p => rw [h1] at h; cases h
  | ok d =>
    rw [h1] at h
    cases h2 : WServerEnc.new C K with
    | panic p => rw [h2] at h; cases h
    | ok en =>
      rw [h2] at h
      simp only [Out.bind_ok, Out.pure_eq] at h
      injection h with h
      subst h
      exact ⟨rfl, rfl⟩

end WowSrp
