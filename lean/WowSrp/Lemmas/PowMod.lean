/-
`powMod` (square-and-multiply, `Model/Basic.lean`) computes `b ^ e % m`; `modpowVal` / `Backend.modpow`
(`Model/Deps.lean`) compute the non-negative residue of an integer power.
-/
import Mathlib.Data.Nat.ModEq
import Mathlib.Data.Int.ModEq
import WowSrp.Model.Deps
namespace WowSrp

theorem powModAux_spec (fuel b e m acc : Nat) (hf : e < 2 ^ fuel) :
    powModAux fuel b e m acc ≡ acc * b ^ e [MOD m] := by
  induction fuel generalizing b e acc with
  | zero =>
    have : e = 0 := by simpa using hf
    subst this; simp [powModAux]; exact Nat.ModEq.refl _
  | succ n ih =>
    unfold powModAux
    split
    · next h => subst h; simp; exact Nat.ModEq.refl _
    · next h =>
      have hlt : e / 2 < 2 ^ n := by
        rw [pow_succ] at hf; omega
      refine (ih _ _ _ hlt).trans ?_
      have hsq : (b * b % m) ^ (e / 2) ≡ b ^ (2 * (e / 2)) [MOD m] := by
        rw [pow_mul, pow_two]; exact (Nat.mod_modEq _ _).pow _
      have he : e = 2 * (e / 2) + e % 2 := (Nat.div_add_mod e 2).symm
      rcases Nat.mod_two_eq_zero_or_one e with h0 | h1
      · rw [if_neg (by omega)]
        conv_rhs => rw [he, h0, add_zero]
        exact hsq.mul_left _
      · rw [if_pos h1]
        conv_rhs => rw [he, h1, pow_succ, ← mul_assoc, mul_right_comm]
        exact (Nat.mod_modEq _ _).mul hsq

/-- the accumulator stays reduced -/
theorem powModAux_mod_self (fuel b e m acc : Nat) (hacc : acc % m = acc) :
    powModAux fuel b e m acc % m = powModAux fuel b e m acc := by
  induction fuel generalizing b e acc with
  | zero => simpa [powModAux] using hacc
  | succ n ih =>
    unfold powModAux
    split
    · exact hacc
    · apply ih
      split
      · exact Nat.mod_mod _ _
      · exact hacc

/-- Square-and-multiply computes the power residue. Holds for every modulus: for `m = 0` both sides
    are `b ^ e` (`x % 0 = x`), for `m = 1` both are `0`. -/
theorem powMod_spec (b e m : Nat) : powMod b e m = b ^ e % m := by
  unfold powMod
  have h := powModAux_spec (e.log2 + 1) (b % m) e m (1 % m) (Nat.lt_log2_self)
  have h2 : 1 % m * (b % m) ^ e ≡ b ^ e [MOD m] := by
    have := ((Nat.mod_modEq 1 m).mul ((Nat.mod_modEq b m).pow e)); simpa using this
  have h3 := powModAux_mod_self (e.log2 + 1) (b % m) e m (1 % m) (Nat.mod_mod _ _)
  rw [← h3]
  exact h.trans h2

theorem powMod_lt (b e m : Nat) (hm : 0 < m) : powMod b e m < m := by
  rw [powMod_spec]; exact Nat.mod_lt _ hm

theorem powMod_one (b e : Nat) : powMod b e 1 = 0 := by
  rw [powMod_spec, Nat.mod_one]

/-- with the (excluded, panicking) zero modulus the definition degenerates to the plain power -/
theorem powMod_zero_modulus (b e : Nat) : powMod b e 0 = b ^ e := by
  rw [powMod_spec, Nat.mod_zero]

theorem powMod_zero_exp (b m : Nat) : powMod b 0 m = 1 % m := by
  rw [powMod_spec, pow_zero]

/-! ### `modpowVal`, `Backend.modpow` -/

/-- `modpowVal` is the non-negative (Euclidean) residue of the integer power -/
theorem modpowVal_spec (base : Int) (exp m : Nat) (hm : 0 < m) :
    (modpowVal base exp m : Int) = (base ^ exp) % (m : Int) := by
  unfold modpowVal
  rw [powMod_spec]
  have hm' : (m : Int) ≠ 0 := by exact_mod_cast (Nat.pos_iff_ne_zero.mp hm)
  have hnn : 0 ≤ base % (m : Int) := Int.emod_nonneg _ hm'
  have hcast : (((base % (m : Int)).toNat : Nat) : Int) = base % (m : Int) := Int.toNat_of_nonneg hnn
  push_cast
  rw [hcast]
  exact (Int.ModEq.pow exp (Int.mod_modEq base m))

theorem modpowVal_lt (base : Int) (exp m : Nat) (hm : 0 < m) : modpowVal base exp m < m := by
  unfold modpowVal; exact powMod_lt _ _ _ hm

/-- for a natural-number base `modpowVal` is just `b ^ e % m` -/
theorem modpowVal_natCast (b e m : Nat) : modpowVal (b : Int) e m = b ^ e % m := by
  unfold modpowVal
  rw [powMod_spec]
  have : ((b : Int) % (m : Int)).toNat = b % m := by
    rw [← Int.natCast_mod]; exact Int.toNat_natCast _
  rw [this, Nat.pow_mod, Nat.mod_mod, ← Nat.pow_mod]

/-- the value depends on the base only through its residue -/
theorem modpowVal_congr (b₁ b₂ : Int) (e m : Nat) (h : b₁ % (m : Int) = b₂ % (m : Int)) :
    modpowVal b₁ e m = modpowVal b₂ e m := by
  unfold modpowVal; rw [h]

theorem modpowVal_one_modulus (base : Int) (exp : Nat) : modpowVal base exp 1 = 0 := by
  unfold modpowVal; exact powMod_one _ _

theorem Backend.modpow_ok (be : Backend) (base : Int) (exp m : Nat) (hm : 0 < m) :
    be.modpow base exp m = .ok (modpowVal base exp m) := by
  unfold Backend.modpow
  rw [if_neg (by omega)]

theorem Backend.modpow_panic_iff (be : Backend) (base : Int) (exp m : Nat) :
    (∃ s, be.modpow base exp m = .panic s) ↔ m = 0 := by
  unfold Backend.modpow
  split
  · next h => simp [h]
  · next h => simp [h]

/-- the two back ends agree on `modpow` whenever it does not panic, and panic together -/
theorem Backend.modpow_ok_iff (be : Backend) (base : Int) (exp m : Nat) :
    (∃ r, be.modpow base exp m = .ok r) ↔ 0 < m := by
  unfold Backend.modpow
  split
  · next h => simp [h]
  · next h => simp; omega

end WowSrp
