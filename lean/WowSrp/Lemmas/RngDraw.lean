/-
Helper lemmas for C15 (convenience generators, Model/Rng.lean): a generator that takes the first `n`
bytes of the RNG stream and returns an injective function of them. Core Lean only.
-/
import WowSrp.Model.Rng
import WowSrp.Lemmas.Layout
namespace WowSrp

/-- `drawBytes` in closed form -/
theorem drawBytes_eq (n : Nat) (rng : Bytes) :
    drawBytes n rng = if rng.length < n then none else some (rng.take n, rng.drop n) := rfl

/-- a generator of the form "draw `n` bytes, apply `val`" written with `Option.map` -/
theorem drawBytes_map_eq {α : Type} (n : Nat) (val : Bytes → α) (rng : Bytes) :
    ((drawBytes n rng).map fun (d, r) => (val d, r)) =
      if rng.length < n then none else some (val (rng.take n), rng.drop n) := by
  unfold drawBytes
  split <;> rfl

/-- everything observable about a generator that takes exactly the first `n` bytes and maps them
    injectively: when it succeeds, what it returns, what it leaves, and when two values coincide -/
theorem draw_spec {α : Type} (gen : Bytes → Option (α × Bytes)) (n : Nat) (val : Bytes → α)
    (hgen : ∀ rng, gen rng = if rng.length < n then none else some (val (rng.take n), rng.drop n))
    (hinj : ∀ d d' : Bytes, d.length = n → d'.length = n → val d = val d' → d = d') :
    (∀ rng, (gen rng).isSome ↔ n ≤ rng.length) ∧
    (∀ rng, gen rng = none ↔ rng.length < n) ∧
    (∀ rng v rest, gen rng = some (v, rest) ↔
      n ≤ rng.length ∧ v = val (rng.take n) ∧ rest = rng.drop n) ∧
    (∀ rng rng' v rest v' rest', gen rng = some (v, rest) → gen rng' = some (v', rest') →
      (v = v' ↔ rng.take n = rng'.take n)) := by
  have h3 : ∀ rng v rest, gen rng = some (v, rest) ↔
      n ≤ rng.length ∧ v = val (rng.take n) ∧ rest = rng.drop n := by
    intro rng v rest
    rw [hgen rng]
    by_cases hl : rng.length < n
    · simp only [hl, if_true]
      constructor
      · intro h; cases h
      · intro h; omega
    · simp only [hl, if_false, Option.some.injEq, Prod.mk.injEq]
      constructor
      · rintro ⟨a, b⟩; exact ⟨by omega, a.symm, b.symm⟩
      · rintro ⟨_, a, b⟩; exact ⟨a.symm, b.symm⟩
  refine ⟨fun rng => ?_, fun rng => ?_, h3, ?_⟩
  · rw [hgen rng]
    by_cases hl : rng.length < n
    · simp only [hl, if_true, Option.isSome_none]
      constructor
      · intro h; cases h
      · intro h; omega
    · simp only [hl, if_false, Option.isSome_some, true_iff]; omega
  · rw [hgen rng]
    by_cases hl : rng.length < n
    · simp only [hl, if_true]
    · simp only [hl, if_false, reduceCtorEq]
  · intro rng rng' v rest v' rest' h h'
    obtain ⟨hl, hv, _⟩ := (h3 _ _ _).1 h
    obtain ⟨hl', hv', _⟩ := (h3 _ _ _).1 h'
    rw [hv, hv']
    constructor
    · intro e
      exact hinj _ _ (by rw [List.length_take]; omega) (by rw [List.length_take]; omega) e
    · intro e; rw [e]

end WowSrp
