/-
Refinement of the textbook RC4 (`Spec/Rc4.lean`, naturals mod 256, lists) by the model
(`Model/Wrath.lean`, `u8` wrapping arithmetic, arrays, panics). Core Lean only.
-/
import WowSrp.Lemmas.Rc4
import WowSrp.Spec.Rc4
namespace WowSrp

/-- abstraction of the table: bytes as numbers -/
def absS (s : Array UInt8) : List Nat := s.toList.map UInt8.toNat

/-- abstraction of an RC4 state -/
def Rc4.abs (r : Rc4) : Spec.Rc4 := ⟨absS r.state, r.i.toNat, r.j.toNat⟩

theorem list_map_toNat_get (l : List UInt8) (a : Nat) : (l.map UInt8.toNat)[a]! = l[a]!.toNat := by
  by_cases h : a < l.length
  · simp [h]
  · have : (default : UInt8).toNat = 0 := rfl
    simp [h, this]

theorem absS_get (s : Array UInt8) (a : Nat) : (absS s)[a]! = s[a]!.toNat := by
  rw [absS, list_map_toNat_get]
  congr 1
  by_cases h : a < s.size
  · simp [h]
  · simp [h]

theorem absS_swap (s : Array UInt8) (a b : Nat) : absS (swapPure s a b) = Spec.swap (absS s) a b := by
  simp only [Spec.swap, absS_get]
  simp [absS, swapPure, List.map_set]

theorem absS_length (s : Array UInt8) : (absS s).length = s.size := by simp [absS]

/-- one PRGA step: model (pure form) and Spec agree, `u8` wrap = `mod 256` -/
theorem Rc4.abs_next (r : Rc4) : r.next.abs = r.abs.prga.1 ∧ r.out.toNat = r.abs.prga.2 := by
  have hi : (r.i + 1).toNat = (r.i.toNat + 1) % 256 := by simp [UInt8.toNat_add]
  have hj : (r.j + r.state[(r.i.toNat + 1) % 256]!).toNat = (r.j.toNat + (absS r.state)[(r.i.toNat + 1) % 256]!) % 256 := by
    rw [UInt8.toNat_add, absS_get]
  constructor
  · simp only [Rc4.abs, Rc4.next, Spec.Rc4.prga, absS_swap, hi, hj]
  · simp only [Rc4.abs, Rc4.out, Rc4.next, Spec.Rc4.prga, hi, ← absS_swap, absS_get, UInt8.toNat_add]

theorem Rc4.abs_stream (n : Nat) (r : Rc4) :
    (Rc4.stream n r).map UInt8.toNat = Spec.Rc4.keystream n r.abs ∧
    (Rc4.advance n r).abs = Spec.Rc4.advance n r.abs := by
  induction n generalizing r with
  | zero => exact ⟨rfl, rfl⟩
  | succ n ih =>
    obtain ⟨h1, h2⟩ := r.abs_next
    obtain ⟨i1, i2⟩ := ih r.next
    constructor
    · simp only [Rc4.stream, Spec.Rc4.keystream, List.map_cons, h2, i1, h1]
    · simp only [Rc4.advance, Spec.Rc4.advance, i2, h1]

/-- the key-scheduling loop from iteration `i` on: model (pure form) = Spec fold -/
theorem ksaPure_abs (key : Bytes) (fuel i : Nat) (s : Array UInt8) (j : UInt8) :
    absS (ksaPure key fuel i s j) =
      ((List.range' i fuel).foldl (Spec.ksaStep (key.map UInt8.toNat)) (absS s, j.toNat)).1 := by
  induction fuel generalizing i s j with
  | zero => rfl
  | succ n ih =>
    simp only [ksaPure, List.range'_succ, List.foldl_cons, ih]
    congr 2
    have hj : (j + s[i]! + key[i % key.length]!).toNat =
        (j.toNat + (absS s)[i]! + (key.map UInt8.toNat)[i % (key.map UInt8.toNat).length]!) % 256 := by
      rw [list_map_toNat_get, absS_get, List.length_map, UInt8.toNat_add, UInt8.toNat_add]
      omega
    simp only [Spec.ksaStep, ← hj, absS_swap]

theorem absS_rc4Init : absS rc4Init = List.range 256 := by decide +kernel

/-- `Rc4::new` with a non-empty key ends in the Spec's keyed state -/
theorem Rc4.new_abs (key : Bytes) (hk : key ≠ []) :
    ∃ r, Rc4.new key = .ok r ∧ r.Inv ∧ r.abs = Spec.Rc4.init (key.map UInt8.toNat) := by
  refine ⟨_, Rc4.new_eq_pure key hk, by simp [Rc4.Inv, ksaPure_size, rc4Init_size], ?_⟩
  simp only [Rc4.abs, Spec.Rc4.init, Spec.ksa, ksaPure_abs, absS_rc4Init, List.range_eq_range']
  rfl

end WowSrp
