/-
Generic facts about the deep embedding `Model/MiniImp.lean`: slot lookup after `setVar` / `setArr`, unfolding of the three loop
combinators, and the simulation relation `Sim` (both sides end normally in related states, or both panic) used by
`Props/Source/Loops*.lean`.  Core Lean only.
-/
import WowSrp.Model.MiniImp
namespace WowSrp.MiniImp

/-! ### slots -/

/-- lookup after `setVar`: the slot written holds the value; a slot that was bound keeps its value; an unbound slot below the one written
    is padded with 0 -/
theorem vars_setVar (env : Env) (i v j : Nat) :
    (env.setVar i v).vars[j]? = if j = i then some v else (env.vars[j]?).or (if j < i then some 0 else none) := by
  unfold Env.setVar
  by_cases h : i < env.vars.length
  · simp only [h, if_true]
    grind
  · simp only [h, if_false]
    grind

/-- lookup after `setArr`, as for `setVar` (padding with the empty array) -/
theorem arrs_setArr_get (env : Env) (i j : Nat) (a : Bytes) :
    (env.setArr i a).arrs[j]? = if j = i then some a else (env.arrs[j]?).or (if j < i then some [] else none) := by
  unfold Env.setArr
  by_cases h : i < env.arrs.length
  · simp only [h, if_true]
    grind
  · simp only [h, if_false]
    grind

@[simp] theorem arrs_setVar (env : Env) (i v : Nat) : (env.setVar i v).arrs = env.arrs := rfl
@[simp] theorem vars_setArr (env : Env) (i : Nat) (a : Bytes) : (env.setArr i a).vars = env.vars := rfl

/-- `setArr` when the shape of the array store is known -/
theorem arrs_setArr (env : Env) (i : Nat) (a : Bytes) :
    (env.setArr i a).arrs
      = if i < env.arrs.length then env.arrs.set i a else env.arrs ++ List.replicate (i - env.arrs.length) [] ++ [a] := rfl

theorem getVar_of (env : Env) (i v : Nat) (h : env.vars[i]? = some v) : env.getVar i = .ok v := by
  simp only [Env.getVar, h]

theorem getArr_of (env : Env) (i : Nat) (a : Bytes) (h : env.arrs[i]? = some a) : env.getArr i = .ok a := by
  simp only [Env.getArr, h]

/-! ### loops -/

@[simp] theorem loopUp_zero (f : Nat → Env → Out Env) (cur : Nat) (env : Env) : loopUp f 0 cur env = .ok env := rfl

theorem loopUp_succ_ok (f : Nat → Env → Out Env) (n cur : Nat) (env e : Env) (h : f cur env = .ok e) :
    loopUp f (n + 1) cur env = loopUp f n (cur + 1) e := by
  simp only [loopUp, h]

theorem loopUp_succ_panic (f : Nat → Env → Out Env) (n cur : Nat) (env : Env) (p : String) (h : f cur env = .panic p) :
    loopUp f (n + 1) cur env = .panic p := by
  simp only [loopUp, h]

@[simp] theorem loopDown_zero (f : Nat → Nat → Env → Out Env) (k top : Nat) (env : Env) : loopDown f 0 k top env = .ok env := rfl

theorem loopDown_succ_ok (f : Nat → Nat → Env → Out Env) (n k top : Nat) (env e : Env) (h : f k top env = .ok e) :
    loopDown f (n + 1) k top env = loopDown f n (k + 1) (top - 1) e := by
  simp only [loopDown, h]

theorem loopDown_succ_panic (f : Nat → Nat → Env → Out Env) (n k top : Nat) (env : Env) (p : String) (h : f k top env = .panic p) :
    loopDown f (n + 1) k top env = .panic p := by
  simp only [loopDown, h]

theorem loopWhile_false (c : Env → Out Bool) (f : Env → Out Env) (fuel : Nat) (env : Env) (h : c env = .ok false) :
    loopWhile c f (fuel + 1) env = .ok env := by
  simp only [loopWhile, h]

theorem loopWhile_true_ok (c : Env → Out Bool) (f : Env → Out Env) (fuel : Nat) (env e : Env) (h : c env = .ok true)
    (hf : f env = .ok e) : loopWhile c f (fuel + 1) env = loopWhile c f fuel e := by
  simp only [loopWhile, h, hf]

theorem loopWhile_true_panic (c : Env → Out Bool) (f : Env → Out Env) (fuel : Nat) (env : Env) (p : String) (h : c env = .ok true)
    (hf : f env = .panic p) : loopWhile c f (fuel + 1) env = .panic p := by
  simp only [loopWhile, h, hf]

/-! ### statements -/

theorem exec_seq_ok {a b : Stmt} {env e : Env} (h : a.exec env = .ok e) : (Stmt.seq a b).exec env = b.exec e := by
  simp only [Stmt.exec, h]

theorem exec_seq_panic {a b : Stmt} {env : Env} {p : String} (h : a.exec env = .panic p) : (Stmt.seq a b).exec env = .panic p := by
  simp only [Stmt.exec, h]

theorem exec_set {x : Nat} {ex : Expr} {env : Env} {v : Nat} (h : ex.eval env = .ok v) :
    (Stmt.set x ex).exec env = .ok (env.setVar x v) := by
  simp only [Stmt.exec, h, Out.bind_ok]

theorem exec_store {arr : Nat} {i ex : Expr} {env : Env} {a : Bytes} {k v : Nat} (ha : env.getArr arr = .ok a)
    (hi : i.eval env = .ok k) (hv : ex.eval env = .ok v) (hv2 : v < 256) (hk : k < a.length) :
    (Stmt.store arr i ex).exec env = .ok (env.setArr arr (a.set k (UInt8.ofNat v))) := by
  have : ¬ v ≥ 256 := by omega
  simp only [Stmt.exec, ha, hi, hv, Out.bind_ok, this, hk, if_true, if_false]

theorem exec_arrNew {arr : Nat} {len : Expr} {env : Env} {n : Nat} (h : len.eval env = .ok n) :
    (Stmt.arrNew arr len).exec env = .ok (env.setArr arr (List.replicate n 0)) := by
  simp only [Stmt.exec, h, Out.bind_ok]

theorem exec_forUp {x : Nat} {lo hi : Expr} {body : Stmt} {env : Env} {l h : Nat} (hl : lo.eval env = .ok l) (hh : hi.eval env = .ok h) :
    (Stmt.forUp x lo hi body).exec env = loopUp (fun cur e => body.exec (e.setVar x cur)) (h - l) l env := by
  simp only [Stmt.exec, hl, hh, Out.bind_ok]

theorem exec_forDownEnum {k x : Nat} {lo hi : Expr} {body : Stmt} {env : Env} {l h : Nat} (hl : lo.eval env = .ok l)
    (hh : hi.eval env = .ok h) :
    (Stmt.forDownEnum k x lo hi body).exec env
      = loopDown (fun kk cur e => body.exec ((e.setVar k kk).setVar x cur)) (h + 1 - l) 0 h env := by
  simp only [Stmt.exec, hl, hh, Out.bind_ok]

theorem exec_whileNe (bound : Nat) (a b : Expr) (body : Stmt) (env : Env) :
    (Stmt.whileNe bound a b body).exec env
      = loopWhile (fun e => do let x ← a.eval e; let y ← b.eval e; .ok (decide (x ≠ y))) (fun e => body.exec e) bound env := by
  simp only [Stmt.exec]

/-! ### simulation up to the text of a panic message -/

/-- the program ends in a state related to the model's value, or both panic (an inductive predicate, so that elaboration never
    evaluates the program to see what the relation unfolds to) -/
inductive Sim {α} (R : Env → α → Prop) : Out Env → Out α → Prop
  | ok {e : Env} {a : α} (h : R e a) : Sim R (.ok e) (.ok a)
  | panic {p q : String} : Sim R (.panic p) (.panic q)

@[simp] theorem sim_ok_ok {α} (R : Env → α → Prop) (e : Env) (a : α) : Sim R (.ok e) (.ok a) ↔ R e a :=
  ⟨fun h => by cases h; assumption, Sim.ok⟩
@[simp] theorem sim_panic_panic {α} (R : Env → α → Prop) (p q : String) : Sim R (.panic p) (.panic q : Out α) ↔ True :=
  ⟨fun _ => trivial, fun _ => Sim.panic⟩
@[simp] theorem sim_ok_panic {α} (R : Env → α → Prop) (e : Env) (q : String) : Sim R (.ok e) (.panic q : Out α) ↔ False :=
  ⟨fun h => (nomatch h), False.elim⟩
@[simp] theorem sim_panic_ok {α} (R : Env → α → Prop) (p : String) (a : α) : Sim R (.panic p) (.ok a) ↔ False :=
  ⟨fun h => (nomatch h), False.elim⟩

theorem Sim.ok_inv {α} {R : Env → α → Prop} {x : Out Env} {a : α} (h : Sim R x (.ok a)) : ∃ e, x = .ok e ∧ R e a := by
  cases x with
  | ok e => exact ⟨e, rfl, (sim_ok_ok R e a).1 h⟩
  | panic p => simp only [sim_panic_ok] at h

theorem Sim.panic_inv {α} {R : Env → α → Prop} {x : Out Env} {q : String} (h : Sim R x (.panic q : Out α)) : ∃ p, x = .panic p := by
  cases x with
  | ok e => simp only [sim_ok_panic] at h
  | panic p => exact ⟨p, rfl⟩

/-- first statement runs to a known state -/
theorem Sim.seq_ok {α} {R : Env → α → Prop} {a b : Stmt} {env e : Env} {m : Out α} (h : a.exec env = .ok e)
    (h2 : Sim R (b.exec e) m) : Sim R ((Stmt.seq a b).exec env) m := by
  rw [exec_seq_ok h]; exact h2

/-- first statement simulated by `m1`, the rest from any related state by `m`, and `m` panics when `m1` does -/
theorem Sim.seq {α β} {Q : Env → β → Prop} {R : Env → α → Prop} {a b : Stmt} {env : Env} {m1 : Out β} {m : Out α}
    (h1 : Sim Q (a.exec env) m1) (hok : ∀ e x, m1 = .ok x → Q e x → Sim R (b.exec e) m)
    (hp : ∀ q, m1 = .panic q → ∃ q', m = .panic q') : Sim R ((Stmt.seq a b).exec env) m := by
  cases m1 with
  | ok x =>
    obtain ⟨e, he, hq⟩ := h1.ok_inv
    rw [exec_seq_ok he]; exact hok e x rfl hq
  | panic q =>
    obtain ⟨p, hpp⟩ := h1.panic_inv
    obtain ⟨q', hq'⟩ := hp q rfl
    rw [exec_seq_panic hpp, hq']; exact Sim.panic

/-- the monadic rule: first statement simulated by `m1`, the rest from any related state by the continuation -/
theorem Sim.seq_bind {α β} {Q : Env → β → Prop} {R : Env → α → Prop} {a b : Stmt} {env : Env} {m1 : Out β} {k : β → Out α}
    (h1 : Sim Q (a.exec env) m1) (h2 : ∀ e x, Q e x → Sim R (b.exec e) (k x)) : Sim R ((Stmt.seq a b).exec env) (m1 >>= k) := by
  refine Sim.seq h1 (fun e x hm hq => ?_) (fun q hm => ⟨q, ?_⟩)
  · rw [hm]; exact h2 e x hq
  · rw [hm]; rfl

/-- first statement runs to some state satisfying `Q` -/
theorem Sim.seq_ex {α} {Q : Env → Prop} {R : Env → α → Prop} {a b : Stmt} {env : Env} {m : Out α}
    (h1 : ∃ e1, a.exec env = .ok e1 ∧ Q e1) (h2 : ∀ e1, Q e1 → Sim R (b.exec e1) m) : Sim R ((Stmt.seq a b).exec env) m := by
  obtain ⟨e1, he1, hq⟩ := h1
  rw [exec_seq_ok he1]; exact h2 e1 hq

/-- first statement panics -/
theorem Sim.seq_panic {α} {R : Env → α → Prop} {a b : Stmt} {env : Env} {p q : String} (h : a.exec env = .panic p) :
    Sim R ((Stmt.seq a b).exec env) (.panic q : Out α) := by
  rw [exec_seq_panic h]; exact Sim.panic

/-- the model's value passed through a total function -/
theorem Sim.map {α β} {Q : Env → α → Prop} {R : Env → β → Prop} {x : Out Env} {m : Out α} (g : α → β) (h : Sim Q x m)
    (hg : ∀ e a, Q e a → R e (g a)) : Sim R x (m >>= fun a => .ok (g a)) := by
  cases x <;> cases m <;> simp_all

theorem Sim.mono {α} {R S : Env → α → Prop} {x : Out Env} {y : Out α} (h : Sim R x y) (hRS : ∀ e a, R e a → S e a) : Sim S x y := by
  cases x <;> cases y <;> simp_all

/-- a simulated body followed by reading the result out of the final state -/
theorem forget_of_sim {α} {R : Env → α → Prop} {x : Out Env} {y : Out α} (g : Env → Out α) (h : Sim R x y)
    (hg : ∀ e a, R e a → g e = .ok a) :
    forget (match x with | .ok e => g e | .panic p => .panic p) = forget y := by
  cases x with
  | ok e =>
    cases y with
    | ok a => simp only [sim_ok_ok] at h; simp only [hg e a h, forget]
    | panic q => simp only [sim_ok_panic] at h
  | panic p =>
    cases y with
    | ok a => simp only [sim_panic_ok] at h
    | panic q => simp only [forget]

/-- a translated function against the model: simulate the body, then read the result out of the final state -/
theorem run_forget_of_sim {f : Fn} {args : List Nat} {arrs : List Bytes} {R : Env → Bytes → Prop} {y : Out Bytes}
    (h : Sim R (f.body.exec ⟨args, arrs⟩) y) (hg : ∀ e a, R e a → f.result.get e = .ok a) :
    forget (f.run args arrs) = forget y := by
  unfold Fn.run
  exact forget_of_sim _ h hg

end WowSrp.MiniImp
