/-
Helper lemmas for C14 (no peer-controlled value makes the model reach a `panic`): the bounded
leading-zero scan, the interleaved hash, the SRP steps on both sides.
-/
import WowSrp.Lemmas.LE
import WowSrp.Lemmas.PowMod
import WowSrp.Lemmas.Pratt
import WowSrp.Lemmas.SrpAlgebra
import WowSrp.Model.Srp
namespace WowSrp

/-! ### `SKey::as_equal_slice` and `calculate_interleaved` -/

/-- the (now bounded) scan never runs past the end of the slice -/
theorem scanZeros_le (s : Bytes) (fuel lead : Nat) (h : lead ≤ s.length) :
    scanZeros s fuel lead ≤ s.length := by
  induction fuel generalizing lead with
  | zero => exact h
  | succ n ih =>
    unfold scanZeros
    split
    · exact h
    · next b hb =>
      split
      · apply ih
        have := (List.getElem?_eq_some_iff.mp hb).1
        omega
      · exact h

/-- on a slice of even length (the secret has 32 bytes) `as_equal_slice` never panics — also for the
    all-zero secret — and returns a slice of even length -/
theorem asEqualSlice_ok (s : Bytes) (he : s.length % 2 = 0) :
    ∃ r, asEqualSlice s = .ok r ∧ r.length % 2 = 0 ∧ r.length ≤ s.length := by
  have h := scanZeros_le s (s.length + 1) 0 (Nat.zero_le _)
  unfold asEqualSlice
  simp only
  generalize scanZeros s (s.length + 1) 0 = lead at h
  by_cases hodd : lead % 2 = 0
  · simp only [hodd, bne_self_eq_false, Bool.false_eq_true, if_false, h, if_true]
    exact ⟨_, rfl, by simp only [List.length_drop]; omega, by simp only [List.length_drop]; omega⟩
  · have h1 : lead % 2 = 1 := by omega
    have hle : lead + 1 ≤ s.length := by omega
    have hb : ((1 : Nat) != 0) = true := by decide
    simp only [h1, hb, hle, if_true]
    exact ⟨_, rfl, by simp only [List.length_drop]; omega, by simp only [List.length_drop]; omega⟩

theorem evens_length : ∀ (s : Bytes), (evens s).length = (s.length + 1) / 2
  | [] => rfl
  | [_] => by simp [evens]
  | _ :: _ :: r => by
    simp only [evens, List.length_cons, evens_length r]; omega

theorem odds_length : ∀ (s : Bytes), (odds s).length = s.length / 2
  | [] => rfl
  | [_] => by simp [odds]
  | _ :: _ :: r => by
    simp only [odds, List.length_cons, odds_length r]; omega

theorem zipFlat_length : ∀ (a b : Bytes), (zipFlat a b).length = 2 * min a.length b.length
  | [], _ => by simp [zipFlat]
  | _ :: _, [] => by simp [zipFlat]
  | _ :: as, _ :: bs => by
    simp only [zipFlat, List.length_cons, zipFlat_length as bs]; omega

theorem fillArr_ok (w : Nat) (xs : Bytes) (site : String) (h : xs.length ≤ w) :
    fillArr w xs site = .ok (xs ++ List.replicate (w - xs.length) 0) := by
  unfold fillArr; rw [if_pos h]

/-- `calculate_interleaved` on a secret of even length ≤ 32 (it is always exactly 32) never panics and
    yields a 40-byte session key -/
theorem calculateInterleaved_ok (C : Crypto) (hC : C.WF) (S : Bytes) (he : S.length % 2 = 0)
    (h32 : S.length ≤ 32) : ∃ K, calculateInterleaved C S = .ok K ∧ K.length = 40 := by
  obtain ⟨s, hs, hse, hsl⟩ := asEqualSlice_ok S he
  have h1 : (evens s).length ≤ 16 := by rw [evens_length]; omega
  have h2 : (odds s).length ≤ 16 := by rw [odds_length]; omega
  unfold calculateInterleaved
  simp only [hs, Out.bind_ok, fillArr_ok 16 _ _ h1, fillArr_ok 16 _ _ h2]
  have hz : ∀ x y, (zipFlat (C.sha1 x) (C.sha1 y)).length = 40 := by
    intro x y; rw [zipFlat_length, hC.sha1_len, hC.sha1_len]; rfl
  simp only [hz, Nat.le_refl, if_true]
  exact ⟨_, rfl, by simp [hz]⟩

/-! ### server side -/

/-- the server's secret: never a panic, always the 32-byte encoding of a number below `N` -/
theorem calculateS_ok (be : Backend) (A v u b : Bytes) :
    calculateS be A v u b
      = .ok (leN 32 (modpowVal ((ofLE A : Int) * (modpowVal (ofLE v) (ofLE u) nBig : Int)) (ofLE b) nBig)) := by
  unfold calculateS
  simp only [Backend.modpow_ok be _ _ _ nBig_pos, Out.bind_ok]
  exact padCopy_toBytesLe be 32 _ _ (Nat.lt_trans (modpowVal_lt _ _ _ nBig_pos) nBig_lt') (by decide)

/-- `calculate_session_key` never panics, whatever `A`, `B`, verifier and private key are -/
theorem calculateSessionKey_ok (C : Crypto) (hC : C.WF) (be : Backend) (A B v b : Bytes) :
    ∃ K, calculateSessionKey C be A B v b = .ok K ∧ K.length = 40 := by
  unfold calculateSessionKey
  simp only [calculateS_ok, Out.bind_ok]
  exact calculateInterleaved_ok C hC _ (by rw [leN_length]) (by rw [leN_length])

theorem calculatePasswordVerifier_ok (C : Crypto) (be : Backend) (U P salt : Bytes) :
    calculatePasswordVerifier C be U P salt
      = .ok (leN 32 (modpowVal gBig (ofLE (calculateX C U P salt)) nBig)) := by
  unfold calculatePasswordVerifier toPadded32
  simp only [Backend.modpow_ok be _ _ _ nBig_pos, Out.bind_ok]
  exact padCopy_toBytesLe be 32 _ _ (Nat.lt_trans (modpowVal_lt _ _ _ nBig_pos) nBig_lt') (by decide)

/-- the number `calculate_server_public_key` hands to `try_from_bigint` -/
def serverBVal (v b : Bytes) : Nat := (kBig * ofLE v + gBig ^ ofLE b % nBig) % nBig

theorem serverBVal_lt (v b : Bytes) : serverBVal v b < nBig := Nat.mod_lt _ nBig_pos

theorem remOut_ok (a b : Nat) (hb : 0 < b) : remOut a b = .ok (a % b) := by
  unfold remOut; rw [if_neg (by omega)]

theorem calculateServerPublicKey_eq (be : Backend) (v b : Bytes) :
    calculateServerPublicKey be v b = .ok (PublicKey.fromLE (leN 32 (serverBVal v b))) := by
  unfold calculateServerPublicKey PublicKey.tryFromBigint
  simp only [Backend.modpow_ok be _ _ _ nBig_pos, Out.bind_ok, remOut_ok _ _ nBig_pos, modpowVal_natCast]
  rw [padCopy_toBytesLe be 32 _ _ (Nat.lt_trans (Nat.mod_lt _ nBig_pos) nBig_lt') (by decide)]
  rfl

/-- a 32-byte encoding of a number below `N` is rejected by `check_public_key` iff the number is 0 -/
theorem fromLE_leN_of_lt (n : Nat) (h : n < nBig) :
    PublicKey.fromLE (leN 32 n) = if n = 0 then .error .isZero else .ok (leN 32 n) := by
  have hv : ofLE (leN 32 n) = n := ofLE_leN 32 n (Nat.lt_trans h nBig_lt')
  unfold PublicKey.fromLE checkPublicKey
  by_cases h0 : n = 0
  · have : (leN 32 n).all (· == 0) = true := (ofLE_eq_zero_iff _).mp (by rw [hv]; exact h0)
    rw [if_pos this, if_pos h0]
  · have h1 : ¬ ((leN 32 n).all (· == 0) = true) := fun hc => h0 (by rw [← hv]; exact (ofLE_eq_zero_iff _).mpr hc)
    have h2 : ¬ (leN 32 n = Gen.largeSafePrimeLE) := by
      intro hc
      have := (ofLE_eq_nBig_iff _ (leN_length 32 n)).mpr hc
      omega
    simp only [h1, h0, if_false]
    simp [h2]

theorem withSpecificPrivateKey_eq (be : Backend) (s : SrpVerifier) (b : Bytes) :
    s.withSpecificPrivateKey be b =
      .ok (if serverBVal s.passwordVerifier b = 0 then .error .isZero
           else .ok ⟨s.username, leN 32 (serverBVal s.passwordVerifier b), s.salt, b, s.passwordVerifier⟩) := by
  unfold SrpVerifier.withSpecificPrivateKey
  simp only [calculateServerPublicKey_eq, Out.bind_ok, fromLE_leN_of_lt _ (serverBVal_lt _ _)]
  by_cases h0 : serverBVal s.passwordVerifier b = 0
  · simp only [h0, if_true]; rfl
  · simp only [h0, if_false]; rfl

theorem intoProof_eq (be : Backend) (s : SrpVerifier) (b : Bytes) :
    s.intoProof be b =
      if serverBVal s.passwordVerifier b = 0 then .panic "server.rs:296 The generated public key was invalid"
      else .ok ⟨s.username, leN 32 (serverBVal s.passwordVerifier b), s.salt, b, s.passwordVerifier⟩ := by
  unfold SrpVerifier.intoProof
  simp only [withSpecificPrivateKey_eq, Out.bind_ok]
  by_cases h0 : serverBVal s.passwordVerifier b = 0
  · simp only [h0, if_true]
  · simp only [h0, if_false]; rfl

/-! ### client side -/

theorem clientTryFromBigint_eq (be : Backend) (A n : Nat) (hn : 0 < n) (hA : A < n) (h32 : n ≤ 256 ^ 32) :
    PublicKey.clientTryFromBigint be A n = .ok (if A = 0 then .error .isZero else .ok (leN 32 A)) := by
  unfold PublicKey.clientTryFromBigint
  by_cases h0 : A = 0
  · simp [h0]
  · simp only [h0, if_false, remOut_ok _ _ hn, Out.bind_ok, Nat.mod_eq_of_lt hA]
    rw [padCopy_toBytesLe be 32 A _ (by omega) (by decide)]
    rfl

/-- `calculate_client_public_key` for a non-zero announced modulus of at most 32 bytes: never panics;
    the key is rejected iff `g^a mod N' = 0` -/
theorem calculateClientPublicKey_eq (be : Backend) (a : Bytes) (g : Nat) (nLE : Bytes)
    (hN : 0 < ofLE nLE) (h32 : ofLE nLE ≤ 256 ^ 32) :
    calculateClientPublicKey be a g nLE =
      .ok (if g ^ ofLE a % ofLE nLE = 0 then .error .isZero else .ok (leN 32 (g ^ ofLE a % ofLE nLE))) := by
  unfold calculateClientPublicKey
  simp only [Backend.modpow_ok be _ _ _ hN, Out.bind_ok, modpowVal_natCast]
  exact clientTryFromBigint_eq be _ _ hN (Nat.mod_lt _ hN) h32

/-- the client's secret: never a panic for a non-zero modulus of at most 32 bytes — whatever `B` is,
    in particular when `B - k·g^x ≡ 0` and the secret is 0 -/
theorem calculateClientS_ok (be : Backend) (B x a u : Bytes) (g : Nat) (nLE : Bytes)
    (hN : 0 < ofLE nLE) (h32 : ofLE nLE ≤ 256 ^ 32) :
    calculateClientS be B x a u g nLE =
      .ok (leN 32 (modpowVal ((ofLE B : Int) - (kBig : Int) * (modpowVal g (ofLE x) (ofLE nLE) : Int))
        (ofLE a + ofLE u * ofLE x) (ofLE nLE))) := by
  unfold calculateClientS toPadded32
  simp only [Backend.modpow_ok be _ _ _ hN, Out.bind_ok]
  exact padCopy_toBytesLe be 32 _ _ (Nat.lt_of_lt_of_le (modpowVal_lt _ _ _ hN) h32) (by decide)

theorem ofLE_le_of_length (bs : Bytes) (w : Nat) (h : bs.length ≤ w) : ofLE bs ≤ 256 ^ w :=
  Nat.le_trans (Nat.le_of_lt (ofLE_lt bs)) (Nat.pow_le_pow_right (by omega) h)

/-- `SrpClientChallenge::new` for an announced group with non-zero modulus: panics exactly in the
    documented case (own public key invalid), never because of `B` or the salt -/
theorem clientChallenge_new_ok (C : Crypto) (hC : C.WF) (be : Backend) (u p : NStr) (g : Nat)
    (nLE B salt a : Bytes) (hN : 0 < ofLE nLE) (h32 : ofLE nLE ≤ 256 ^ 32)
    (hA : g ^ ofLE a % ofLE nLE ≠ 0) :
    ∃ c, SrpClientChallenge.new C be u p g nLE B salt a = .ok c ∧ c.sessionKey.length = 40 ∧
      c.clientPublicKey = leN 32 (g ^ ofLE a % ofLE nLE) ∧ c.username = u := by
  unfold SrpClientChallenge.new
  simp only [calculateClientPublicKey_eq be a g nLE hN h32, hA, if_false, Out.bind_ok,
    calculateClientS_ok be _ _ _ _ g nLE hN h32]
  obtain ⟨K, hK, hKl⟩ := calculateInterleaved_ok C hC
    (leN 32 (modpowVal ((ofLE B : Int) - (kBig : Int) *
      (modpowVal g (ofLE (calculateX C u.asRef p.asRef salt)) (ofLE nLE) : Int))
      (ofLE a + ofLE (calculateU C (leN 32 (g ^ ofLE a % ofLE nLE)) B) * ofLE (calculateX C u.asRef p.asRef salt))
      (ofLE nLE)))
    (by rw [leN_length]) (by rw [leN_length])
  simp only [hK, Out.bind_ok]
  exact ⟨_, rfl, hKl, rfl, rfl⟩

theorem clientChallenge_new_invalid_key (C : Crypto) (be : Backend) (u p : NStr) (g : Nat)
    (nLE B salt a : Bytes) (hN : 0 < ofLE nLE) (h32 : ofLE nLE ≤ 256 ^ 32)
    (hA : g ^ ofLE a % ofLE nLE = 0) :
    SrpClientChallenge.new C be u p g nLE B salt a
      = .panic "client.rs:190 Invalid public key generated for client" := by
  unfold SrpClientChallenge.new
  simp only [calculateClientPublicKey_eq be a g nLE hN h32, hA, if_true, Out.bind_ok]

/-- with a zero announced modulus the very first `modpow` panics (outside C14, which fixes the group) -/
theorem clientChallenge_new_zero_modulus (C : Crypto) (be : Backend) (u p : NStr) (g : Nat)
    (nLE B salt a : Bytes) (hN : ofLE nLE = 0) :
    ∃ s, SrpClientChallenge.new C be u p g nLE B salt a = .panic s := by
  obtain ⟨s, hs⟩ := (Backend.modpow_panic_iff be g (ofLE a) (ofLE nLE)).mpr hN
  refine ⟨s, ?_⟩
  unfold SrpClientChallenge.new calculateClientPublicKey
  simp only [hs, Out.bind_panic]

end WowSrp
