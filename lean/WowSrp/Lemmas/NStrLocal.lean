/-
The facts about `NormalizedString` (Model/NStr.lean) that C01 needs, proved locally:
`NStr.new` does not see ASCII case, and the text view of a normalised string re-imports to itself.
Core Lean only.
-/
import WowSrp.Model.NStr
namespace WowSrp

/-- code point of a character after ASCII upper-casing (only 'a'..'z' move) -/
def upperCode (c : Char) : Nat :=
  if 0x61 ≤ c.toNat ∧ c.toNat ≤ 0x7A then c.toNat - 32 else c.toNat

/-- `upperCode` is core's `Char.toUpper` (= Rust's `to_ascii_uppercase`) -/
theorem toUpper_toNat (c : Char) : c.toUpper.toNat = upperCode c := by
  unfold Char.toUpper upperCode
  have hle : ∀ (a b : UInt32), a ≤ b ↔ a.toNat ≤ b.toNat := fun a b => UInt32.le_iff_toNat_le
  have ha : 'a'.val.toNat = 0x61 := by decide
  have hz : 'z'.val.toNat = 0x7A := by decide
  have hd : ('A'.val - 'a'.val).toNat = 4294967264 := by decide
  simp only [hle, ha, hz, Char.toNat]
  split
  · next h =>
    show (c.val + ('A'.val - 'a'.val)).toNat = _
    rw [UInt32.toNat_add, hd]
    omega
  · rfl

theorem toUpper_eq_iff (c c' : Char) : c.toUpper = c'.toUpper ↔ upperCode c = upperCode c' := by
  rw [← toUpper_toNat, ← toUpper_toNat, Char.toNat_inj]

/-- the byte stored by `NormalizedString::new` is the upper-cased code point -/
theorem upperByte_eq (c : Char) : upperByte c = UInt8.ofNat (upperCode c) := by
  unfold upperByte upperCode; split <;> rfl

theorem utf8Size_ascii (c : Char) (h : c.toNat < 128) : c.utf8Size = 1 := by
  unfold Char.utf8Size
  have : c.val ≤ UInt32.ofNatLT 127 (by decide) := by
    rw [UInt32.le_iff_toNat_le]; show c.toNat ≤ 127; omega
  simp only
  rw [if_pos this]

theorem utf8Size_pos (c : Char) : 1 ≤ c.utf8Size := by
  unfold Char.utf8Size
  simp only
  split
  · omega
  · split
    · omega
    · split <;> omega

/-- a character the constructor accepts: ASCII and not a control character -/
def okChar (c : Char) : Prop := isAscii c = true ∧ isAsciiControl c = false

theorem okChar_iff (c : Char) : okChar c ↔ 32 ≤ c.toNat ∧ c.toNat < 127 := by
  unfold okChar isAscii isAsciiControl
  simp only [decide_eq_true_eq, Bool.or_eq_false_iff, decide_eq_false_iff_not, beq_eq_false_iff_ne, ne_eq]
  omega

/-- two characters with the same upper-cased code point are equal or are both letters-range ASCII -/
theorem upperCode_eq_cases (c c' : Char) (h : upperCode c = upperCode c') :
    c = c' ∨ (okChar c ∧ okChar c') := by
  rw [okChar_iff, okChar_iff]
  unfold upperCode at h
  by_cases hc : c.toNat = c'.toNat
  · left; exact Char.toNat_inj.mp hc
  · right
    split at h <;> split at h <;> omega

theorem okChar_not_rejected (c : Char) (h : okChar c) : (!isAscii c || isAsciiControl c) = false := by
  rw [h.1, h.2]; rfl

/-! ### `NStr.new` does not see ASCII case -/

theorem NStr.fill_congr : ∀ (cs cs' : List Char) (i : Nat) (arr : Bytes),
    cs.map upperCode = cs'.map upperCode → NStr.fill cs i arr = NStr.fill cs' i arr
  | [], [], _, _, _ => rfl
  | [], _ :: _, _, _, h => by simp at h
  | _ :: _, [], _, _, h => by simp at h
  | c :: cs, c' :: cs', i, arr, h => by
    simp only [List.map_cons, List.cons.injEq] at h
    have hb : upperByte c = upperByte c' := by rw [upperByte_eq, upperByte_eq, h.1]
    rcases upperCode_eq_cases c c' h.1 with rfl | ⟨h1, h2⟩
    · unfold NStr.fill
      rw [NStr.fill_congr cs cs' (i + 1) _ h.2]
    · unfold NStr.fill
      rw [okChar_not_rejected c h1, okChar_not_rejected c' h2, hb,
        NStr.fill_congr cs cs' (i + 1) _ h.2]
      simp only [Bool.false_eq_true, if_false]

theorem utf8Len_congr : ∀ (cs cs' : List Char),
    cs.map upperCode = cs'.map upperCode → utf8Len cs = utf8Len cs'
  | [], [], _ => rfl
  | [], _ :: _, h => by simp at h
  | _ :: _, [], h => by simp at h
  | c :: cs, c' :: cs', h => by
    simp only [List.map_cons, List.cons.injEq] at h
    have ih := utf8Len_congr cs cs' h.2
    unfold utf8Len at ih ⊢
    simp only [List.map_cons, List.sum_cons, ih]
    rcases upperCode_eq_cases c c' h.1 with rfl | ⟨h1, h2⟩
    · rfl
    · rw [utf8Size_ascii c (by have := (okChar_iff c).mp h1; omega),
        utf8Size_ascii c' (by have := (okChar_iff c').mp h2; omega)]

/-- **case invariance**: spellings that agree after ASCII upper-casing construct the same
    normalised string (or fail in the same way) -/
theorem NStr.new_congr (cs cs' : List Char) (h : cs.map upperCode = cs'.map upperCode) :
    NStr.new cs = NStr.new cs' := by
  have hl : cs.length = cs'.length := by simpa using congrArg List.length h
  have he : cs.isEmpty = cs'.isEmpty := by
    cases cs <;> cases cs' <;> simp_all
  unfold NStr.new
  rw [utf8Len_congr cs cs' h, he, NStr.fill_congr cs cs' 0 _ h]

/-! ### what a successful construction stores -/

theorem NStr.fill_ok : ∀ (cs : List Char) (i : Nat) (arr : Bytes), (∀ c ∈ cs, okChar c) →
    i + cs.length ≤ arr.length →
    NStr.fill cs i arr = .ok (arr.take i ++ cs.map upperByte ++ arr.drop (i + cs.length))
  | [], i, arr, _, _ => by simp [NStr.fill]
  | c :: cs, i, arr, hok, hlen => by
    simp only [List.length_cons] at hlen
    unfold NStr.fill
    rw [okChar_not_rejected c (hok c (by simp))]
    simp only [Bool.false_eq_true, if_false]
    rw [if_pos (by omega), NStr.fill_ok cs (i + 1) _ (fun c hc => hok c (by simp [hc]))
      (by simp only [List.length_set]; omega)]
    congr 1
    have h1 : (arr.set i (upperByte c)).take (i + 1) = arr.take i ++ [upperByte c] := by
      rw [List.take_set, List.take_add_one]
      simp only [List.set_append, List.length_take, Nat.min_eq_left (by omega : i ≤ arr.length)]
      simp [List.getElem?_eq_getElem (by omega : i < arr.length)]
    have h2 : (arr.set i (upperByte c)).drop (i + 1 + cs.length) = arr.drop (i + (cs.length + 1)) := by
      rw [List.drop_set_of_lt (by omega)]; congr 1; omega
    rw [h1, h2]; simp

theorem NStr.fill_ok_inv : ∀ (cs : List Char) (i : Nat) (arr r : Bytes),
    NStr.fill cs i arr = .ok r → ∀ c ∈ cs, okChar c
  | [], _, _, _, _ => by simp
  | c :: cs, i, arr, r, h => by
    unfold NStr.fill at h
    split at h
    · cases h
    · next hc =>
      split at h
      · intro d hd
        rcases List.mem_cons.mp hd with rfl | hd
        · simp only [Bool.or_eq_true, Bool.not_eq_true', not_or, Bool.not_eq_false,
            Bool.not_eq_true] at hc
          exact hc
        · exact NStr.fill_ok_inv cs _ _ r h d hd
      · cases h

theorem utf8Len_ok (cs : List Char) (h : ∀ c ∈ cs, okChar c) : utf8Len cs = cs.length := by
  induction cs with
  | nil => rfl
  | cons c cs ih =>
    have hc := (okChar_iff c).mp (h c (by simp))
    have := ih (fun d hd => h d (by simp [hd]))
    unfold utf8Len at this ⊢
    simp only [List.map_cons, List.sum_cons, this, utf8Size_ascii c (by omega), List.length_cons]
    omega

theorem length_le_utf8Len (cs : List Char) : cs.length ≤ utf8Len cs := by
  induction cs with
  | nil => simp [utf8Len]
  | cons c cs ih =>
    have := utf8Size_pos c
    unfold utf8Len at ih ⊢
    simp only [List.map_cons, List.sum_cons, List.length_cons]; omega

/-- a successful `NormalizedString::new`: 1..16 accepted characters, stored upper-cased and zero padded -/
theorem NStr.new_ok_inv (cs : List Char) (n : NStr) (h : NStr.new cs = .ok n) :
    (∀ c ∈ cs, okChar c) ∧ 0 < cs.length ∧ cs.length ≤ 16 ∧
    n = ⟨cs.map upperByte ++ List.replicate (16 - cs.length) 0, cs.length⟩ := by
  unfold NStr.new at h
  split at h
  · cases h
  · next hg =>
    simp only [Bool.or_eq_true, decide_eq_true_eq, not_or, Nat.not_lt, Bool.not_eq_true,
      List.isEmpty_eq_false_iff] at hg
    have hlen : cs.length ≤ 16 := Nat.le_trans (length_le_utf8Len cs) hg.1
    have hpos : 0 < cs.length := List.length_pos_iff.mpr hg.2
    split at h
    · next arr harr =>
      have hok := NStr.fill_ok_inv cs 0 _ arr harr
      have hm : maxLen = 16 := rfl
      rw [NStr.fill_ok cs 0 _ hok (by simp [hm]; exact hlen)] at harr
      cases h
      refine ⟨hok, hpos, hlen, ?_⟩
      cases harr
      simp only [utf8Len_ok cs hok, hm, List.take_zero, List.nil_append, Nat.zero_add,
        List.drop_replicate]
    · cases h
    · cases h

/-- the text view of a constructed string: the upper-cased characters -/
theorem NStr.asRef_of_new (cs : List Char) (n : NStr) (h : NStr.new cs = .ok n) :
    n.asRef = cs.map upperByte := by
  obtain ⟨_, _, _, rfl⟩ := NStr.new_ok_inv cs n h
  simp [NStr.asRef]

theorem Char.toNat_ofNat_small (n : Nat) (h : n < 128) : (Char.ofNat n).toNat = n := by
  have hv : n.isValidChar := Or.inl (by omega)
  rw [Char.ofNat, dif_pos hv]
  rfl

/-- **storage round trip**: re-importing the text of a normalised string gives the same string -/
theorem NStr.new_bytesToChars_asRef (cs : List Char) (n : NStr) (h : NStr.new cs = .ok n) :
    NStr.new (bytesToChars n.asRef) = .ok n := by
  obtain ⟨hok, _, _, _⟩ := NStr.new_ok_inv cs n h
  rw [← h, NStr.asRef_of_new cs n h]
  apply NStr.new_congr
  unfold bytesToChars
  rw [List.map_map, List.map_map]
  apply List.map_congr_left
  intro c hc
  have hr := (okChar_iff c).mp (hok c hc)
  have hlt : upperCode c < 128 := by unfold upperCode; split <;> omega
  simp only [Function.comp]
  have h1 : (upperByte c).toNat = upperCode c := by
    rw [upperByte_eq, UInt8.toNat_ofNat']; omega
  rw [h1]
  have h2 := Char.toNat_ofNat_small (upperCode c) hlt
  generalize Char.ofNat (upperCode c) = d at h2
  unfold upperCode at h2 ⊢
  split at h2 <;> split <;> omega

end WowSrp
