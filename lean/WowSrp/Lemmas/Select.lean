/-
Selection without replacement (`Spec.pick`) and the array-shifting loops that implement it in
`remap_pin_grid` (pin.rs) and `generate_coordinates` (matrix_card.rs). Core Lean only.
-/
import WowSrp.Spec.Pin
import WowSrp.Model.Pin
import WowSrp.Model.MatrixCard
namespace WowSrp

/-! ### `Spec.pick` -/

theorem cons_eraseIdx_perm {α} : ∀ (l : List α) (r : Nat) (h : r < l.length),
    (l[r] :: l.eraseIdx r).Perm l
  | x :: xs, 0, _ => by simp
  | x :: xs, r+1, h => by
    have hr : r < xs.length := by simpa using h
    have ih := cons_eraseIdx_perm xs r hr
    simp only [List.getElem_cons_succ, List.eraseIdx_cons_succ]
    exact (List.Perm.swap x (xs[r]'hr) _).trans (ih.cons x)

theorem Spec.pick_succ {α} (n : Nat) (l : List α) (seed : Nat) (h : seed % l.length < l.length) :
    Spec.pick (n+1) l seed =
      l[seed % l.length] :: Spec.pick n (l.eraseIdx (seed % l.length)) (seed / l.length) := by
  have h0 : ¬ l.length = 0 := by omega
  rw [Spec.pick, dif_neg h0]

theorem map_eraseIdx' {α β} (f : α → β) : ∀ (l : List α) (k : Nat),
    (l.map f).eraseIdx k = (l.eraseIdx k).map f
  | [], _ => by simp
  | _ :: _, 0 => by simp
  | x :: xs, k+1 => by simp [map_eraseIdx' f xs k]

/-- picking as many elements as there are gives a permutation -/
theorem Spec.pick_perm {α} (n : Nat) (l : List α) (seed : Nat) (h : l.length ≤ n) :
    (Spec.pick n l seed).Perm l := by
  induction n generalizing l seed with
  | zero =>
    have : l = [] := List.eq_nil_of_length_eq_zero (by omega)
    subst this; simp [Spec.pick]
  | succ n ih =>
    unfold Spec.pick
    split
    · next h0 => rw [List.eq_nil_of_length_eq_zero h0]
    · next h0 =>
      simp only
      have hr : seed % l.length < l.length := Nat.mod_lt _ (by omega)
      have hlen : (l.eraseIdx (seed % l.length)).length ≤ n := by
        rw [List.length_eraseIdx_of_lt hr]; omega
      exact ((ih _ (seed / l.length) hlen).cons _).trans (cons_eraseIdx_perm l _ hr)

theorem Spec.pick_length {α} (n : Nat) (l : List α) (seed : Nat) (h : n ≤ l.length) :
    (Spec.pick n l seed).length = n := by
  induction n generalizing l seed with
  | zero => simp [Spec.pick]
  | succ n ih =>
    unfold Spec.pick
    have h0 : ¬ l.length = 0 := by omega
    rw [dif_neg h0]
    have hr : seed % l.length < l.length := Nat.mod_lt _ (by omega)
    simp only [List.length_cons]
    rw [ih]
    rw [List.length_eraseIdx_of_lt hr]; omega

/-- what is picked comes from the list -/
theorem Spec.pick_subset {α} (n : Nat) (l : List α) (seed : Nat) :
    ∀ a ∈ Spec.pick n l seed, a ∈ l := by
  induction n generalizing l seed with
  | zero => simp [Spec.pick]
  | succ n ih =>
    unfold Spec.pick
    split
    · simp
    · next h0 =>
      intro a ha
      simp only [List.mem_cons] at ha
      rcases ha with rfl | ha
      · exact List.getElem_mem _
      · exact (List.eraseIdx_sublist _ _).subset (ih _ _ a ha)

/-- nothing is picked twice -/
theorem Spec.pick_nodup {α} (n : Nat) (l : List α) (seed : Nat) (hl : l.Nodup) :
    (Spec.pick n l seed).Nodup := by
  induction n generalizing l seed with
  | zero => simp [Spec.pick]
  | succ n ih =>
    unfold Spec.pick
    split
    · simp
    · next h0 =>
      have hr : seed % l.length < l.length := Nat.mod_lt _ (by omega)
      have hp := (cons_eraseIdx_perm l _ hr).nodup_iff.mpr hl
      rw [List.nodup_cons] at hp
      simp only
      rw [List.nodup_cons]
      exact ⟨fun hm => hp.1 (Spec.pick_subset _ _ _ _ hm), ih _ _ hp.2⟩

theorem Spec.pick_map {α β} (f : α → β) (n : Nat) (l : List α) (seed : Nat) :
    Spec.pick n (l.map f) seed = (Spec.pick n l seed).map f := by
  induction n generalizing l seed with
  | zero => simp [Spec.pick]
  | succ n ih =>
    unfold Spec.pick
    by_cases h0 : l.length = 0
    · simp [h0]
    · have h0' : ¬ (l.map f).length = 0 := by simpa using h0
      rw [dif_neg h0, dif_neg h0']
      simp only [List.length_map, List.getElem_map, List.map_cons]
      rw [← ih, map_eraseIdx']

/-- `n!` -/
def fact : Nat → Nat
  | 0 => 1
  | n+1 => (n+1) * fact n

/-- a full selection from `n` elements depends on the seed only modulo `n!` -/
theorem Spec.pick_add_mul_fact {α} (n : Nat) (l : List α) (seed k : Nat) (hl : l.length = n) :
    Spec.pick n l (seed + k * fact n) = Spec.pick n l seed := by
  induction n generalizing l seed k with
  | zero => simp [Spec.pick]
  | succ n ih =>
    unfold Spec.pick
    have h0 : ¬ l.length = 0 := by omega
    rw [dif_neg h0, dif_neg h0]
    have e : seed + k * fact (n+1) = seed + (n+1) * (k * fact n) := by
      simp only [fact]; rw [Nat.mul_left_comm]
    have e1 : (seed + k * fact (n+1)) % l.length = seed % l.length := by
      rw [e, hl, Nat.add_mul_mod_self_left]
    have e2 : (seed + k * fact (n+1)) / l.length = seed / l.length + k * fact n := by
      rw [e, hl, Nat.add_mul_div_left _ _ (by omega)]
    simp only [e1, e2]
    have hr : seed % l.length < l.length := Nat.mod_lt _ (by omega)
    rw [ih]
    rw [List.length_eraseIdx_of_lt hr]; omega

theorem Spec.pick_mod_fact {α} (n : Nat) (l : List α) (seed : Nat) (hl : l.length = n) :
    Spec.pick n l seed = Spec.pick n l (seed % fact n) := by
  have := Spec.pick_add_mul_fact n l (seed % fact n) (seed / fact n) hl
  rw [← this]
  congr 1
  rw [Nat.mul_comm]
  exact (Nat.mod_add_div _ _).symm

/-! ### the shift loops -/

/-- `mcShift idx c j` moves cells `j+1 .. j+c` one place down (cell `j+c` keeps its stale value);
    no panic as long as `j + c` is a valid index -/
theorem mcShift_spec (idx : Bytes) (c j : Nat) (hb : j + c < idx.length) :
    ∃ l', mcShift idx c j = .ok l' ∧ l'.length = idx.length ∧
      ∀ k, l'[k]? = if j ≤ k ∧ k < j + c then idx[k+1]? else idx[k]? := by
  induction c generalizing idx j with
  | zero =>
    refine ⟨idx, rfl, rfl, fun k => ?_⟩
    have : ¬ (j ≤ k ∧ k < j + 0) := by omega
    rw [if_neg this]
  | succ c ih =>
    have hin : j + 1 < idx.length := by omega
    have hj : j < idx.length := by omega
    obtain ⟨l', h1, h2, h3⟩ := ih (idx.set j idx[j+1]) (j+1) (by simp; omega)
    refine ⟨l', ?_, by simpa using h2, fun k => ?_⟩
    · simp only [mcShift, List.getElem?_eq_getElem hin, if_pos hj]
      exact h1
    · rw [h3 k]
      by_cases hk1 : j + 1 ≤ k ∧ k < j + 1 + c
      · have hk2 : j ≤ k ∧ k < j + (c + 1) := by omega
        rw [if_pos hk1, if_pos hk2, List.getElem?_set]
        have : j ≠ k + 1 := by omega
        simp [this]
      · rw [if_neg hk1]
        by_cases hk3 : k = j
        · subst hk3
          have hk2 : k ≤ k ∧ k < k + (c + 1) := by omega
          rw [if_pos hk2, List.getElem?_set]
          simp [List.getElem?_eq_getElem hin, hj]
        · have hk2 : ¬ (j ≤ k ∧ k < j + (c + 1)) := by omega
          rw [if_neg hk2, List.getElem?_set]
          have : j ≠ k := by omega
          simp [this]

/-- after shifting at `r` inside a live prefix of length `i`, the first `i-1` cells are the old first
    `i` cells with index `r` erased -/
theorem mcShift_take (idx : Bytes) (r i : Nat) (hr : r < i) (hi : i ≤ idx.length) :
    ∃ l', mcShift idx (i - 1 - r) r = .ok l' ∧ l'.length = idx.length ∧
      l'.take (i - 1) = (idx.take i).eraseIdx r := by
  obtain ⟨l', h1, h2, h3⟩ := mcShift_spec idx (i - 1 - r) r (by omega)
  refine ⟨l', h1, h2, ?_⟩
  apply List.ext_getElem?
  intro k
  rw [List.getElem?_take, List.getElem?_eraseIdx, h3 k]
  by_cases hk : k < i - 1
  · rw [if_pos hk]
    by_cases hkr : k < r
    · have : ¬ (r ≤ k ∧ k < r + (i - 1 - r)) := by omega
      rw [if_neg this, if_pos hkr, List.getElem?_take, if_pos (by omega)]
    · have : (r ≤ k ∧ k < r + (i - 1 - r)) := by omega
      rw [if_pos this, if_neg hkr, List.getElem?_take, if_pos (by omega)]
  · rw [if_neg hk]
    by_cases hkr : k < r
    · omega
    · rw [if_neg hkr, List.getElem?_take, if_neg (by omega)]

/-- the PIN shift loop is the same loop with the offset folded in -/
theorem pinShift_of_mcShift (grid : Bytes) (r c j : Nat) (l' : Bytes)
    (h : mcShift grid c (r + j) = .ok l') : pinShift grid r c j = .ok l' := by
  induction c generalizing grid j with
  | zero => simpa [mcShift, pinShift] using h
  | succ c ih =>
    simp only [mcShift] at h
    simp only [pinShift]
    cases hg : grid[r + j + 1]? with
    | none => simp [hg] at h
    | some v =>
      simp only [hg] at h
      by_cases hlt : r + j < grid.length
      · simp only [if_pos hlt] at h ⊢
        exact ih _ _ (by simpa [Nat.add_assoc] using h)
      · simp [if_neg hlt] at h

theorem pinShift_take (grid : Bytes) (r i : Nat) (hr : r < i) (hi : i ≤ grid.length) :
    ∃ l', pinShift grid r (i - r - 1) 0 = .ok l' ∧ l'.length = grid.length ∧
      l'.take (i - 1) = (grid.take i).eraseIdx r := by
  obtain ⟨l', h1, h2, h3⟩ := mcShift_take grid r i hr hi
  have e : i - r - 1 = i - 1 - r := by omega
  exact ⟨l', pinShift_of_mcShift grid r _ 0 l' (by rw [e]; exact h1), h2, h3⟩

/-! ### the selection loops equal `Spec.pick` -/

/-- `remap_pin_grid`'s loop: from a grid whose first `i` cells are live, it appends the selection of
    `i` elements from them — and never panics -/
theorem remapLoop_spec (i : Nat) (grid : Bytes) (seed : Nat) (out : Bytes) (hi : i ≤ grid.length) :
    remapLoop i grid seed out = .ok (out ++ Spec.pick i (grid.take i) seed) := by
  induction i generalizing grid seed out with
  | zero => simp [remapLoop, Spec.pick]
  | succ i ih =>
    have hr : seed % (i+1) < i + 1 := Nat.mod_lt _ (by omega)
    have hrl : seed % (i+1) < grid.length := by omega
    obtain ⟨l', h1, h2, h3⟩ := pinShift_take grid (seed % (i+1)) (i+1) hr hi
    simp only [remapLoop, List.getElem?_eq_getElem hrl, h1, Out.bind_ok]
    rw [ih l' _ _ (by omega)]
    have hlen : (grid.take (i+1)).length = i + 1 := by simp; omega
    rw [Spec.pick_succ _ _ _ (by rw [hlen]; exact hr)]
    simp only [hlen, List.getElem_take]
    simp only [Nat.add_sub_cancel] at h3
    rw [h3]
    simp

/-- `generate_coordinates`' loop: with `ms - i` live cells and `n` more rounds to go (`i + n ≤ ms`) -/
theorem mcCoordLoop_spec (ms n i : Nat) (idx : Bytes) (seed : Nat) (out : Bytes)
    (hn : i + n ≤ ms) (hl : ms ≤ idx.length) :
    mcCoordLoop ms n i idx seed out = .ok (out ++ Spec.pick n (idx.take (ms - i)) seed) := by
  induction n generalizing i idx seed out with
  | zero => simp [mcCoordLoop, Spec.pick]
  | succ n ih =>
    have h1 : ¬ ms < i := by omega
    have h2 : ¬ ms - i = 0 := by omega
    have hr : seed % (ms - i) < ms - i := Nat.mod_lt _ (by omega)
    have hrl : seed % (ms - i) < idx.length := by omega
    obtain ⟨l', e1, e2, e3⟩ := mcShift_take idx (seed % (ms - i)) (ms - i) hr (by omega)
    simp only [mcCoordLoop, if_neg h1, if_neg h2, List.getElem?_eq_getElem hrl, e1, Out.bind_ok]
    rw [ih (i+1) l' _ _ (by omega) (by omega)]
    have hlen : (idx.take (ms - i)).length = ms - i := by simp; omega
    rw [Spec.pick_succ _ _ _ (by rw [hlen]; exact hr)]
    simp only [hlen, List.getElem_take]
    have e4 : ms - (i + 1) = ms - i - 1 := by omega
    rw [e4, e3]
    simp

end WowSrp
