/-
The std::io model (`readExact`, `writeAll` of Model/Deps.lean) characterised completely.
Core Lean only.

A reader script is summarised by three observations:
* `streamOf s`  — the bytes it hands over before its first *stop* event (`.err`, `.eof`, an empty
                  `.data`, or the end of the script), `.interrupted` events being skipped and the
                  fragmentation into `.data` events forgotten;
* `stopKind s`  — the `io::ErrorKind` that first stop event produces inside `read_exact`;
* `afterStop s` — the script that is left after that stop event.
`readExact_spec` says `readExact` is a function of these three only. Everything else
(fragmentation, interruptions, failure offsets) is a corollary.
-/
import WowSrp.Model.Deps
namespace WowSrp

/-! ### readers -/

/-- bytes the script delivers before its first stop event (interruptions skipped) -/
def streamOf : List REv → Bytes
  | [] => []
  | .interrupted :: r => streamOf r
  | .data [] :: _ => []
  | .data (b :: bs) :: r => (b :: bs) ++ streamOf r
  | .err _ :: _ => []
  | .eof :: _ => []

/-- the error `read_exact` reports when it runs into the first stop event -/
def stopKind : List REv → IoKind
  | [] => kindUnexpectedEof
  | .interrupted :: r => stopKind r
  | .data [] :: _ => kindUnexpectedEof
  | .data (_ :: _) :: r => stopKind r
  | .err k :: _ => k
  | .eof :: _ => kindUnexpectedEof

/-- what is left of the script once the first stop event has been consumed -/
def afterStop : List REv → List REv
  | [] => []
  | .interrupted :: r => afterStop r
  | .data [] :: r => r
  | .data (_ :: _) :: r => afterStop r
  | .err _ :: r => r
  | .eof :: r => r

/-- `read()` calls that neither fail nor signal end of file: a non-empty chunk or `Interrupted` -/
def REv.benign : REv → Bool
  | .data bs => !bs.isEmpty
  | .interrupted => true
  | _ => false

/-- the bytes carried by a list of events -/
def dataOf : List REv → Bytes
  | [] => []
  | .data bs :: r => bs ++ dataOf r
  | _ :: r => dataOf r

theorem streamOf_pushback (bs : Bytes) (rest : List REv) :
    streamOf (if bs.isEmpty then rest else .data bs :: rest) = bs ++ streamOf rest := by
  cases bs <;> simp [streamOf]

theorem stopKind_pushback (bs : Bytes) (rest : List REv) :
    stopKind (if bs.isEmpty then rest else .data bs :: rest) = stopKind rest := by
  cases bs <;> simp [stopKind]

theorem afterStop_pushback (bs : Bytes) (rest : List REv) :
    afterStop (if bs.isEmpty then rest else .data bs :: rest) = afterStop rest := by
  cases bs <;> simp [afterStop]

/-- `read_exact` of nothing succeeds without touching the reader -/
theorem readExact_zero (s : List REv) (acc : Bytes) : readExact s 0 acc = (.ok acc, s) := by
  unfold readExact; rfl

/-- **success half of the characterisation**: when the script delivers at least `n` bytes before its
    first stop event, `read_exact` returns exactly the first `n` of them (whatever the
    fragmentation, wherever the interruptions), and what is left of the script delivers the
    remaining bytes first and then stops in the same way -/
theorem readExact_ok_spec (s : List REv) (n : Nat) (acc : Bytes) (hn : n ≤ (streamOf s).length) :
    (readExact s n acc).1 = .ok (acc ++ (streamOf s).take n) ∧
    streamOf (readExact s n acc).2 = (streamOf s).drop n ∧
    stopKind (readExact s n acc).2 = stopKind s ∧
    afterStop (readExact s n acc).2 = afterStop s := by
  fun_induction readExact s n acc with
  | case1 script acc => simp
  | case2 n acc => simp [streamOf] at hn
  | case3 rest n acc ih => simpa [streamOf, stopKind, afterStop] using ih (by simpa [streamOf] using hn)
  | case4 k rest n acc => simp [streamOf] at hn
  | case5 rest n acc => simp [streamOf] at hn
  | case6 rest n acc => simp [streamOf] at hn
  | case7 b bs rest n acc ih =>
    simp only [dite_eq_ite] at ih
    have hn' : n ≤ (streamOf (if bs.isEmpty then rest else .data bs :: rest)).length := by
      rw [streamOf_pushback]; simp [streamOf] at hn; simpa using hn
    obtain ⟨h1, h2, h3, h4⟩ := ih hn'
    rw [streamOf_pushback] at h1 h2
    rw [stopKind_pushback] at h3
    rw [afterStop_pushback] at h4
    refine ⟨?_, ?_, ?_, ?_⟩
    · rw [h1]; simp [streamOf]
    · rw [h2]; simp [streamOf]
    · rw [h3]; simp [stopKind]
    · rw [h4]; simp [afterStop]

/-- **failure half of the characterisation**: when fewer than `n` bytes are available before the first
    stop event, `read_exact` fails with that event's kind (the reader's own error kind for `.err`,
    `UnexpectedEof` for end of file / `Ok(0)` / an exhausted script) and the script is consumed up
    to and including the stop event -/
theorem readExact_fail_spec (s : List REv) (n : Nat) (acc : Bytes) (hn : (streamOf s).length < n) :
    readExact s n acc = (.error (stopKind s), afterStop s) := by
  fun_induction readExact s n acc with
  | case1 script acc => simp at hn
  | case2 n acc => simp [stopKind, afterStop]
  | case3 rest n acc ih => simpa [streamOf, stopKind, afterStop] using ih (by simpa [streamOf] using hn)
  | case4 k rest n acc => simp [stopKind, afterStop]
  | case5 rest n acc => simp [stopKind, afterStop]
  | case6 rest n acc => simp [stopKind, afterStop]
  | case7 b bs rest n acc ih =>
    simp only [dite_eq_ite] at ih
    have hn' : (streamOf (if bs.isEmpty then rest else .data bs :: rest)).length < n := by
      rw [streamOf_pushback]; simp [streamOf] at hn; simpa using hn
    rw [ih hn', stopKind_pushback, afterStop_pushback]
    simp [stopKind, afterStop]

/-- `readExact` is a function of `(streamOf, stopKind)` as far as its result is concerned -/
theorem readExact_spec (s : List REv) (n : Nat) :
    (readExact s n []).1 =
      if n ≤ (streamOf s).length then .ok ((streamOf s).take n) else .error (stopKind s) := by
  split
  · next h => simpa using (readExact_ok_spec s n [] h).1
  · next h => rw [readExact_fail_spec s n [] (by omega)]

/-- a successful `read_exact` fills the whole buffer: exactly `n` new bytes -/
theorem readExact_length (s : List REv) (n : Nat) (acc buf : Bytes) (rest : List REv)
    (h : readExact s n acc = (.ok buf, rest)) : buf.length = acc.length + n := by
  by_cases hn : n ≤ (streamOf s).length
  · have h1 := (readExact_ok_spec s n acc hn).1
    rw [h] at h1
    injection h1 with h1
    rw [h1]; simp; omega
  · rw [readExact_fail_spec s n acc (by omega)] at h
    simp at h

/-! #### scripts written as `benign prefix ++ tail` -/

theorem streamOf_benign_append (pre tail : List REv) (hb : ∀ ev ∈ pre, ev.benign = true) :
    streamOf (pre ++ tail) = dataOf pre ++ streamOf tail := by
  induction pre with
  | nil => simp [dataOf]
  | cons ev pre ih =>
    have ih := ih (fun ev h => hb ev (List.mem_cons_of_mem _ h))
    have h0 := hb ev List.mem_cons_self
    cases ev with
    | data bs =>
      cases bs with
      | nil => simp [REv.benign] at h0
      | cons b bs => simp [streamOf, dataOf, ih]
    | interrupted => simp [streamOf, dataOf, ih]
    | err k => simp [REv.benign] at h0
    | eof => simp [REv.benign] at h0

theorem stopKind_benign_append (pre tail : List REv) (hb : ∀ ev ∈ pre, ev.benign = true) :
    stopKind (pre ++ tail) = stopKind tail := by
  induction pre with
  | nil => rfl
  | cons ev pre ih =>
    have ih := ih (fun ev h => hb ev (List.mem_cons_of_mem _ h))
    have h0 := hb ev List.mem_cons_self
    cases ev with
    | data bs =>
      cases bs with
      | nil => simp [REv.benign] at h0
      | cons b bs => simp [stopKind, ih]
    | interrupted => simp [stopKind, ih]
    | err k => simp [REv.benign] at h0
    | eof => simp [REv.benign] at h0

theorem afterStop_benign_append (pre tail : List REv) (hb : ∀ ev ∈ pre, ev.benign = true) :
    afterStop (pre ++ tail) = afterStop tail := by
  induction pre with
  | nil => rfl
  | cons ev pre ih =>
    have ih := ih (fun ev h => hb ev (List.mem_cons_of_mem _ h))
    have h0 := hb ev List.mem_cons_self
    cases ev with
    | data bs =>
      cases bs with
      | nil => simp [REv.benign] at h0
      | cons b bs => simp [afterStop, ih]
    | interrupted => simp [afterStop, ih]
    | err k => simp [REv.benign] at h0
    | eof => simp [REv.benign] at h0

/-- **fragmentation and interruptions change nothing**: a script that starts with non-empty chunks of
    any sizes, interleaved with any number of `Interrupted` results, carrying at least `n` bytes in
    total, makes `read_exact` return the first `n` of those bytes; the rest of the script then
    delivers the remaining bytes first -/
theorem readExact_fragmentation (pre tail : List REv) (n : Nat)
    (hb : ∀ ev ∈ pre, ev.benign = true) (hn : n ≤ (dataOf pre).length) :
    (readExact (pre ++ tail) n []).1 = .ok ((dataOf pre).take n) ∧
    streamOf (readExact (pre ++ tail) n []).2 = (dataOf pre).drop n ++ streamOf tail := by
  have hs := streamOf_benign_append pre tail hb
  have hn' : n ≤ (streamOf (pre ++ tail)).length := by rw [hs]; simp; omega
  obtain ⟨h1, h2, _, _⟩ := readExact_ok_spec (pre ++ tail) n [] hn'
  rw [hs] at h1 h2
  refine ⟨?_, ?_⟩
  · rw [h1]; simp [List.take_append_of_le_length hn]
  · rw [h2]; simp [List.drop_append_of_le_length hn]

/-- the same, with everything `read_exact` leaves behind: the rest of the script first delivers the
    unread bytes and then behaves like `tail` (same stop kind, same continuation) -/
theorem readExact_benign_ok (pre tail : List REv) (n : Nat)
    (hb : ∀ ev ∈ pre, ev.benign = true) (hn : n ≤ (dataOf pre).length) :
    ∃ rest, readExact (pre ++ tail) n [] = (.ok ((dataOf pre).take n), rest) ∧
      streamOf rest = (dataOf pre).drop n ++ streamOf tail ∧
      stopKind rest = stopKind tail ∧ afterStop rest = afterStop tail := by
  have hs := streamOf_benign_append pre tail hb
  have hn' : n ≤ (streamOf (pre ++ tail)).length := by rw [hs]; simp; omega
  obtain ⟨h1, h2, h3, h4⟩ := readExact_ok_spec (pre ++ tail) n [] hn'
  rw [hs] at h1 h2
  rw [stopKind_benign_append _ _ hb] at h3
  rw [afterStop_benign_append _ _ hb] at h4
  refine ⟨(readExact (pre ++ tail) n []).2, ?_, ?_, h3, h4⟩
  · apply Prod.ext
    · rw [h1]; simp [List.take_append_of_le_length hn]
    · rfl
  · rw [h2]; simp [List.drop_append_of_le_length hn]

/-- two readers that deliver the same bytes, fragmented and interrupted differently, are
    indistinguishable to `read_exact` -/
theorem readExact_fragmentation_eq (pre₁ pre₂ tail₁ tail₂ : List REv) (n : Nat)
    (hb₁ : ∀ ev ∈ pre₁, ev.benign = true) (hb₂ : ∀ ev ∈ pre₂, ev.benign = true)
    (hsame : dataOf pre₁ = dataOf pre₂) (hn : n ≤ (dataOf pre₁).length) :
    (readExact (pre₁ ++ tail₁) n []).1 = (readExact (pre₂ ++ tail₂) n []).1 := by
  rw [(readExact_fragmentation pre₁ tail₁ n hb₁ hn).1,
      (readExact_fragmentation pre₂ tail₂ n hb₂ (hsame ▸ hn)).1, hsame]

/-- in particular: the same as one single delivery of all the bytes -/
theorem readExact_fragmentation_single (pre tail : List REv) (n : Nat)
    (hb : ∀ ev ∈ pre, ev.benign = true) (hn : n ≤ (dataOf pre).length) (hpos : 0 < n) :
    (readExact (pre ++ tail) n []).1 = (readExact [.data (dataOf pre)] n []).1 := by
  have hne : (dataOf pre).isEmpty = false := by
    cases h : dataOf pre with
    | nil => rw [h] at hn; simp at hn; omega
    | cons b bs => rfl
  have := readExact_fragmentation_eq pre [.data (dataOf pre)] tail [] n hb
    (by intro ev h; simp at h; subst h; simp [REv.benign, hne]) (by simp [dataOf]) hn
  simpa using this

/-- **failure injected after `(dataOf pre).length < n` bytes**: the reader's own error kind comes
    back, and exactly the events up to and including the failing one are consumed -/
theorem readExact_fail_err (pre tail : List REv) (n : Nat) (k : IoKind) (acc : Bytes)
    (hb : ∀ ev ∈ pre, ev.benign = true) (hn : (dataOf pre).length < n) :
    readExact (pre ++ .err k :: tail) n acc = (.error k, tail) := by
  have hs := streamOf_benign_append pre (.err k :: tail) hb
  rw [readExact_fail_spec _ n acc (by rw [hs]; simpa [streamOf] using hn),
      stopKind_benign_append _ _ hb, afterStop_benign_append _ _ hb]
  rfl

/-- end of file (`Ok(0)`) before `n` bytes: `UnexpectedEof` -/
theorem readExact_fail_eof (pre tail : List REv) (n : Nat) (acc : Bytes)
    (hb : ∀ ev ∈ pre, ev.benign = true) (hn : (dataOf pre).length < n) :
    readExact (pre ++ .eof :: tail) n acc = (.error kindUnexpectedEof, tail) := by
  have hs := streamOf_benign_append pre (.eof :: tail) hb
  rw [readExact_fail_spec _ n acc (by rw [hs]; simpa [streamOf] using hn),
      stopKind_benign_append _ _ hb, afterStop_benign_append _ _ hb]
  rfl

/-- an empty `data` event is `Ok(0)` too -/
theorem readExact_fail_empty (pre tail : List REv) (n : Nat) (acc : Bytes)
    (hb : ∀ ev ∈ pre, ev.benign = true) (hn : (dataOf pre).length < n) :
    readExact (pre ++ .data [] :: tail) n acc = (.error kindUnexpectedEof, tail) := by
  have hs := streamOf_benign_append pre (.data [] :: tail) hb
  rw [readExact_fail_spec _ n acc (by rw [hs]; simpa [streamOf] using hn),
      stopKind_benign_append _ _ hb, afterStop_benign_append _ _ hb]
  rfl

/-- a script that simply runs out before `n` bytes: `UnexpectedEof` -/
theorem readExact_fail_end (pre : List REv) (n : Nat) (acc : Bytes)
    (hb : ∀ ev ∈ pre, ev.benign = true) (hn : (dataOf pre).length < n) :
    readExact pre n acc = (.error kindUnexpectedEof, []) := by
  have hs := streamOf_benign_append pre [] hb
  have h := readExact_fail_spec (pre ++ []) n acc (by rw [hs]; simpa [streamOf] using hn)
  rw [stopKind_benign_append _ _ hb, afterStop_benign_append _ _ hb] at h
  simpa [stopKind, afterStop] using h

/-- the events that make `read_exact` give up, with the error kind it then reports -/
def REv.failKind : REv → Option IoKind
  | .err k => some k
  | .eof => some kindUnexpectedEof
  | .data [] => some kindUnexpectedEof
  | _ => none

/-- the three stop shapes at once: after fewer than `n` bytes the reader produces a stop event `ev`;
    `read_exact` reports that event's kind and has consumed the script up to and including it -/
theorem readExact_fail_stop (pre tail : List REv) (ev : REv) (n : Nat) (k : IoKind) (acc : Bytes)
    (hb : ∀ e ∈ pre, e.benign = true) (hn : (dataOf pre).length < n) (hk : ev.failKind = some k) :
    readExact (pre ++ ev :: tail) n acc = (.error k, tail) := by
  cases ev with
  | data bs =>
    cases bs with
    | nil => simp [REv.failKind] at hk; subst hk; exact readExact_fail_empty pre tail n acc hb hn
    | cons b bs => simp [REv.failKind] at hk
  | interrupted => simp [REv.failKind] at hk
  | err k' => simp [REv.failKind] at hk; subst hk; exact readExact_fail_err pre tail n k' acc hb hn
  | eof => simp [REv.failKind] at hk; subst hk; exact readExact_fail_eof pre tail n acc hb hn

/-- the four failure shapes in one statement (result only) -/
theorem readExact_fail (pre tail : List REv) (n : Nat) (acc : Bytes)
    (hb : ∀ ev ∈ pre, ev.benign = true) (hn : (dataOf pre).length < n) :
    (∀ k, (readExact (pre ++ .err k :: tail) n acc).1 = .error k) ∧
    (readExact (pre ++ .eof :: tail) n acc).1 = .error kindUnexpectedEof ∧
    (readExact (pre ++ .data [] :: tail) n acc).1 = .error kindUnexpectedEof ∧
    (readExact pre n acc).1 = .error kindUnexpectedEof :=
  ⟨fun k => by rw [readExact_fail_err pre tail n k acc hb hn],
   by rw [readExact_fail_eof pre tail n acc hb hn],
   by rw [readExact_fail_empty pre tail n acc hb hn],
   by rw [readExact_fail_end pre n acc hb hn]⟩

/-! ### writers -/

/-- how many bytes the script is willing to take before its first stop event (`.err`, `Ok(0)`), and
    the error that stop event produces inside `write_all` (`none`: the script runs out, which
    accepts everything) -/
def wCap : List WEv → Nat × Option IoKind
  | [] => (0, none)
  | .interrupted :: r => wCap r
  | .err k :: _ => (0, some k)
  | .accept 0 :: _ => (0, some kindWriteZero)
  | .accept (n+1) :: r => ((wCap r).1 + (n + 1), (wCap r).2)

/-- **complete characterisation of `write_all`**: everything is written and the result is `Ok(())`
    when the buffer fits into what the script accepts before its first stop event, or when there
    is no stop event; otherwise the result is that stop event's error (the writer's own kind, or
    `WriteZero` for `Ok(0)`) and the sink holds exactly the bytes accepted so far — a prefix of
    the buffer -/
theorem writeAll_spec (script : List WEv) (buf sink : Bytes) :
    writeAll script buf sink =
      match (wCap script).2 with
      | none => (.ok (), sink ++ buf)
      | some k =>
        if buf.length ≤ (wCap script).1 then (.ok (), sink ++ buf)
        else (.error k, sink ++ buf.take (wCap script).1) := by
  fun_induction writeAll script buf sink with
  | case1 script sink => cases h : (wCap script).2 <;> simp
  | case2 buf sink hb => simp [wCap]
  | case3 rest buf sink hb ih =>
    have e : wCap (.interrupted :: rest) = wCap rest := rfl
    rw [e]; exact ih
  | case4 k rest b bs sink => simp [wCap]
  | case5 rest b bs sink => simp [wCap]
  | case6 n rest b bs sink ih =>
    have e : wCap (.accept (n+1) :: rest) = ((wCap rest).1 + (n + 1), (wCap rest).2) := rfl
    rw [ih, e]
    cases h : (wCap rest).2 with
    | none => simp
    | some k =>
      simp only [List.length_drop, List.length_cons]
      by_cases hle : bs.length + 1 ≤ (wCap rest).1 + (n + 1)
      · have : bs.length + 1 - (n + 1) ≤ (wCap rest).1 := by omega
        rw [if_pos this, if_pos hle, List.append_assoc, List.take_append_drop]
      · have : ¬ (bs.length + 1 - (n + 1) ≤ (wCap rest).1) := by omega
        rw [if_neg this, if_neg hle, List.append_assoc, Nat.add_comm (wCap rest).1 (n+1)]
        congr 2
        exact List.take_add.symm

/-- whatever happens, the sink only ever grows by a prefix of the buffer -/
theorem writeAll_sink_prefix (script : List WEv) (buf sink : Bytes) :
    ∃ m, m ≤ buf.length ∧ (writeAll script buf sink).2 = sink ++ buf.take m := by
  rw [writeAll_spec]
  cases (wCap script).2 with
  | none => exact ⟨buf.length, Nat.le_refl _, by simp⟩
  | some k =>
    by_cases h : buf.length ≤ (wCap script).1
    · exact ⟨buf.length, Nat.le_refl _, by simp [h]⟩
    · exact ⟨(wCap script).1, by omega, by simp [h]⟩

/-- on `Ok(())` every byte reached the sink, in order -/
theorem writeAll_ok_sink (script : List WEv) (buf sink : Bytes)
    (h : (writeAll script buf sink).1 = .ok ()) : (writeAll script buf sink).2 = sink ++ buf := by
  rw [writeAll_spec] at h ⊢
  cases hk : (wCap script).2 with
  | none => rfl
  | some k =>
    rw [hk] at h
    by_cases hle : buf.length ≤ (wCap script).1
    · simp [hle]
    · simp [hle] at h

/-- on an error strictly fewer bytes than the buffer reached the sink -/
theorem writeAll_error_sink (script : List WEv) (buf sink : Bytes) (k : IoKind)
    (h : (writeAll script buf sink).1 = .error k) :
    ∃ m, m < buf.length ∧ (writeAll script buf sink).2 = sink ++ buf.take m := by
  rw [writeAll_spec] at h ⊢
  cases hk : (wCap script).2 with
  | none => rw [hk] at h; simp at h
  | some k' =>
    rw [hk] at h
    by_cases hle : buf.length ≤ (wCap script).1
    · simp [hle] at h
    · exact ⟨(wCap script).1, by omega, by simp [hle]⟩

/-- accepting events: `accept (n+1)` and `Interrupted` -/
def WEv.benign : WEv → Bool
  | .accept n => n != 0
  | .interrupted => true
  | .err _ => false

/-- total number of bytes a list of events accepts -/
def accepted : List WEv → Nat
  | [] => 0
  | .accept n :: r => n + accepted r
  | _ :: r => accepted r

theorem wCap_benign_append (pre tail : List WEv) (hb : ∀ ev ∈ pre, ev.benign = true) :
    wCap (pre ++ tail) = ((wCap tail).1 + accepted pre, (wCap tail).2) := by
  induction pre with
  | nil => simp [accepted]
  | cons ev pre ih =>
    have ih := ih (fun ev h => hb ev (List.mem_cons_of_mem _ h))
    have h0 := hb ev List.mem_cons_self
    cases ev with
    | accept n =>
      cases n with
      | zero => simp [WEv.benign] at h0
      | succ n => simp [wCap, accepted, ih]; omega
    | interrupted => simp [wCap, accepted, ih]
    | err k => simp [WEv.benign] at h0

/-- a script of accepts (each at least one byte, any sizes) and interruptions that runs out, or is
    long enough, writes everything -/
theorem writeAll_ok (pre tail : List WEv) (buf sink : Bytes) (hb : ∀ ev ∈ pre, ev.benign = true)
    (hlen : tail = [] ∨ buf.length ≤ accepted pre) :
    writeAll (pre ++ tail) buf sink = (.ok (), sink ++ buf) := by
  rw [writeAll_spec, wCap_benign_append pre tail hb]
  rcases hlen with h | h
  · subst h; simp [wCap]
  · cases (wCap tail).2 with
    | none => rfl
    | some k => simp only; rw [if_pos (by omega)]

/-- the writer fails with kind `k` after having accepted `accepted pre < buf.length` bytes: that
    error is the result and the sink holds exactly those bytes -/
theorem writeAll_err (pre tail : List WEv) (buf sink : Bytes) (k : IoKind)
    (hb : ∀ ev ∈ pre, ev.benign = true) (hlen : accepted pre < buf.length) :
    writeAll (pre ++ .err k :: tail) buf sink = (.error k, sink ++ buf.take (accepted pre)) := by
  rw [writeAll_spec, wCap_benign_append pre _ hb]
  simp only [wCap, Nat.zero_add]
  rw [if_neg (by omega)]

/-- `Ok(0)` from the writer before everything is written: `WriteZero` -/
theorem writeAll_zero (pre tail : List WEv) (buf sink : Bytes)
    (hb : ∀ ev ∈ pre, ev.benign = true) (hlen : accepted pre < buf.length) :
    writeAll (pre ++ .accept 0 :: tail) buf sink =
      (.error kindWriteZero, sink ++ buf.take (accepted pre)) := by
  rw [writeAll_spec, wCap_benign_append pre _ hb]
  simp only [wCap, Nat.zero_add]
  rw [if_neg (by omega)]

end WowSrp
