/-
One node of a Pratt primality certificate, on top of Mathlib's `lucas_primality`, with all numeric
side conditions packed into one kernel-evaluable Boolean (`prattCheck`) that uses the model's own
square-and-multiply `powMod`. Used by the generated `Lemmas/PrattCert.lean`.
-/
import Mathlib.NumberTheory.LucasPrimality
import WowSrp.Lemmas.PowMod
namespace WowSrp

/-- one Pratt node: `a` has order exactly `p - 1` modulo `p`, where `fs` lists (at least) the prime
    factors of `p - 1` -/
theorem pratt_node (p a : ℕ) (fs : List ℕ) (hp : 1 < p)
    (h1 : a ^ (p - 1) % p = 1)
    (hfs : ∀ q ∈ fs, q.Prime ∧ a ^ ((p - 1) / q) % p ≠ 1)
    (hprod : fs.prod ^ 256 % (p - 1) = 0) : p.Prime := by
  apply lucas_primality p (a : ZMod p)
  · have : ((a ^ (p - 1) : ℕ) : ZMod p) = ((1 : ℕ) : ZMod p) := by
      rw [ZMod.natCast_eq_natCast_iff]; exact (by rw [Nat.ModEq, h1, Nat.mod_eq_of_lt hp])
    simpa using this
  · intro q hq hdvd
    have hq_dvd : q ∣ fs.prod ^ 256 := dvd_trans hdvd (Nat.dvd_of_mod_eq_zero hprod)
    have hq_prod : q ∣ fs.prod := hq.dvd_of_dvd_pow hq_dvd
    obtain ⟨r, hr, hqr⟩ := (Prime.dvd_prod_iff hq.prime).mp hq_prod
    have hrp := (hfs r hr).1
    have : q = r := (Nat.prime_dvd_prime_iff_eq hq hrp).mp hqr
    subst this
    intro hcontra
    apply (hfs q hr).2
    have : ((a ^ ((p - 1) / q) : ℕ) : ZMod p) = ((1 : ℕ) : ZMod p) := by simpa using hcontra
    rw [ZMod.natCast_eq_natCast_iff] at this
    rw [this, Nat.mod_eq_of_lt hp]

/-- the numeric side conditions of a Pratt node, as a Boolean the kernel can evaluate -/
def prattCheck (p a : Nat) (fs : List Nat) : Bool :=
  decide (1 < p) && (powMod a (p - 1) p == 1) &&
    fs.all (fun q => powMod a ((p - 1) / q) p != 1) &&
    (powMod fs.prod 256 (p - 1) == 0)

/-- Pratt node in checkable form: the factors are prime (recursively certified) and `prattCheck` holds -/
theorem pratt_node_check (p a : ℕ) (fs : List ℕ) (hprimes : ∀ q ∈ fs, q.Prime)
    (hc : prattCheck p a fs = true) : p.Prime := by
  simp only [prattCheck, Bool.and_eq_true, decide_eq_true_eq, beq_iff_eq, List.all_eq_true,
    bne_iff_ne, ne_eq] at hc
  obtain ⟨⟨⟨hp, h1⟩, hall⟩, hprod⟩ := hc
  refine pratt_node p a fs hp ?_ ?_ ?_
  · rw [← powMod_spec]; exact h1
  · intro q hq
    refine ⟨hprimes q hq, ?_⟩
    rw [← powMod_spec]; exact hall q hq
  · rw [← powMod_spec]; exact hprod

end WowSrp
