/-
The default modulus `nBig` (`LargeSafePrime::default().to_bigint()`) is prime — Pratt certificate in the
generated `Lemmas/PrattCert.lean` — and facts about its size used by C01, C03, C04, C14.
-/
import WowSrp.Lemmas.PrattCert
import WowSrp.Lemmas.LE
import WowSrp.Model.Srp
namespace WowSrp

/-- the numeric value of the default modulus N -/
theorem nBig_val : nBig = 0x894B645E89E1535BBDAD5B8B290650530801B18EBFBF5E8FAB3C82872A3E9BB7 := by
  decide

/-- same number in decimal, as it appears in the Pratt certificate -/
theorem nBig_val_dec :
    nBig = 62100066509156017342069496140902949863249758336000796928566441170293728648119 := by
  decide

/-- **N is prime.** -/
theorem nBig_prime : Nat.Prime nBig := by
  rw [nBig_val_dec]
  exact PrattCert.prime_62100066509156017342069496140902949863249758336000796928566441170293728648119

theorem nBig_pos : 0 < nBig := nBig_prime.pos

theorem nBig_lt : nBig < 2 ^ 256 := by
  rw [nBig_val]; decide

theorem nBig_lt' : nBig < 256 ^ 32 := by
  rw [nBig_val]; decide

/-- N has its top bit set: twice N no longer fits 32 bytes -/
theorem two_nBig_ge : 2 ^ 256 ≤ 2 * nBig := by
  rw [nBig_val]; decide

theorem only_two_multiples_aux (N M n : Nat) (hN : 0 < N) (h2 : M ≤ 2 * N) (h : n < M) :
    n % N = 0 ↔ n = 0 ∨ n = N := by
  constructor
  · intro hm
    obtain ⟨k, rfl⟩ := Nat.dvd_of_mod_eq_zero hm
    match k with
    | 0 => left; rfl
    | 1 => right; omega
    | k + 2 =>
      exfalso
      have : N * 2 ≤ N * (k + 2) := Nat.mul_le_mul_left N (by omega)
      omega
  · rintro (rfl | rfl)
    · exact Nat.zero_mod _
    · exact Nat.mod_self _

/-- 0 and N are the only multiples of N that fit into 32 bytes -/
theorem only_two_multiples (n : Nat) (h : n < 2 ^ 256) : n % nBig = 0 ↔ n = 0 ∨ n = nBig :=
  only_two_multiples_aux nBig (2 ^ 256) n nBig_pos two_nBig_ge h

/-- the same for byte strings of at most 32 bytes -/
theorem only_two_multiples_bytes (bs : Bytes) (h : bs.length ≤ 32) :
    ofLE bs % nBig = 0 ↔ ofLE bs = 0 ∨ ofLE bs = nBig := by
  apply only_two_multiples
  have h1 := ofLE_lt bs
  have h2 : 256 ^ bs.length ≤ 256 ^ 32 := Nat.pow_le_pow_right (by omega) h
  have h3 : (256 : Nat) ^ 32 = 2 ^ 256 := by decide
  omega

/-- the two byte orders of the constant in primes.rs denote one number -/
theorem largeSafePrime_LE_eq_BE : ofLE Gen.largeSafePrimeLE = ofBE Gen.largeSafePrimeBE := by
  decide

theorem largeSafePrimeBE_eq_reverse : Gen.largeSafePrimeBE = Gen.largeSafePrimeLE.reverse := by
  decide

theorem largeSafePrimeLE_length : Gen.largeSafePrimeLE.length = 32 := by decide

/-- the 32-byte constant is the fixed-width encoding of N -/
theorem leN_nBig : leN 32 nBig = Gen.largeSafePrimeLE := by
  have := leN_ofLE Gen.largeSafePrimeLE
  rw [largeSafePrimeLE_length] at this
  exact this

/-- a 32-byte string has value N iff it is the constant -/
theorem ofLE_eq_nBig_iff (bs : Bytes) (h : bs.length = 32) :
    ofLE bs = nBig ↔ bs = Gen.largeSafePrimeLE := by
  constructor
  · intro hv
    exact ofLE_inj _ _ (by rw [h, largeSafePrimeLE_length]) hv
  · intro hb; rw [hb, nBig]

theorem gBig_val : gBig = 7 := rfl
theorem kBig_val : kBig = 3 := rfl

theorem nBig_odd : nBig % 2 = 1 := by
  have := nBig_val; omega

theorem one_lt_nBig : 1 < nBig := nBig_prime.one_lt

/-- g = 7 is a unit modulo N -/
theorem gBig_not_dvd : ¬ nBig ∣ gBig := by
  intro h
  have := Nat.le_of_dvd (by decide) h
  rw [nBig_val, gBig_val] at this
  exact absurd this (by decide)

/-- k = 3 is a unit modulo N -/
theorem kBig_not_dvd : ¬ nBig ∣ kBig := by
  intro h
  have := Nat.le_of_dvd (by decide) h
  rw [nBig_val, kBig_val] at this
  exact absurd this (by decide)

end WowSrp
