/-
Helper lemmas about the Wrath server-header plaintext codec (no cipher involved):
`wrathServerHeaderBytes`, `largeHeader`, `clearLargeHeader`, `parseSmall`, `parseLarge`; the scenario definitions the statements of C10 use (scripted reader
holding a byte stream, the two-step client path, sequences of headers) and the single-header
round trip through RC4. Core Lean only.
-/
import WowSrp.Model.Wrath
import WowSrp.Lemmas.Rc4
namespace WowSrp

/-- the generated literals, as numbers -/
theorem wrath_codec_constants :
    Gen.wrathLargeThreshold = 0x7FFF ∧ Gen.wrathSetMask = 0x80 ∧ Gen.wrathClearMask = 0x7F ∧
    Gen.wrathTestMask = 0x80 := by decide

/-- bytes below 128 do not carry the marker -/
theorem largeHeader_small : ∀ n : Fin 128, largeHeader (UInt8.ofNat n.val) = false := by decide

/-- setting the marker on a byte below 128 makes it visible to the test, and clearing it gives the
    byte back -/
theorem largeHeader_marked : ∀ n : Fin 128,
    largeHeader (UInt8.ofNat n.val ||| UInt8.ofNat Gen.wrathSetMask) = true ∧
    (clearLargeHeader (UInt8.ofNat n.val ||| UInt8.ofNat Gen.wrathSetMask)).toNat = n.val := by decide

theorem UInt8.toNat_ofNat_lt' (n : Nat) (h : n < 256) : (UInt8.ofNat n).toNat = n := by
  simp [UInt8.toNat_ofNat', Nat.mod_eq_of_lt h]

/-- the plaintext, spelled out: what `size.to_be_bytes()[1..]`, `opcode.to_le_bytes()` and the
    threshold test produce -/
theorem wrathServerHeaderBytes_eq (size opcode : Nat) :
    wrathServerHeaderBytes size opcode =
      if size > 0x7FFF then
        [UInt8.ofNat (size / 65536 % 256) ||| UInt8.ofNat Gen.wrathSetMask, UInt8.ofNat (size / 256 % 256),
         UInt8.ofNat (size % 256), UInt8.ofNat (opcode % 256), UInt8.ofNat (opcode / 256 % 256)]
      else
        [UInt8.ofNat (size / 256 % 256), UInt8.ofNat (size % 256),
         UInt8.ofNat (opcode % 256), UInt8.ofNat (opcode / 256 % 256)] := by
  have ht : Gen.wrathLargeThreshold = 0x7FFF := by decide
  simp only [wrathServerHeaderBytes, be32, leN, ht]
  split <;> simp

theorem wrathServerHeaderBytes_length (size opcode : Nat) :
    (wrathServerHeaderBytes size opcode).length = if size ≤ 0x7FFF then 4 else 5 := by
  rw [wrathServerHeaderBytes_eq]
  by_cases h : size > 0x7FFF
  · rw [if_pos h, if_neg (by omega)]; rfl
  · rw [if_neg h, if_pos (by omega)]; rfl

/-- a long header: five bytes, first one marked, `parseLarge` gives back (size, opcode) -/
theorem wrath_large_codec (size opcode : Nat) (hbig : size > 0x7FFF) (hs : size ≤ 0x7FFFFF) (ho : opcode < 65536) :
    ∃ b0 b1 b2 b3 b4, wrathServerHeaderBytes size opcode = [b0, b1, b2, b3, b4] ∧ largeHeader b0 = true ∧
      parseLarge [b0, b1, b2, b3, b4] = .ok (size, opcode) := by
  have hm : ∀ n, n % 256 < 256 := fun n => Nat.mod_lt _ (by decide)
  have h1 : size / 65536 % 256 = size / 65536 := Nat.mod_eq_of_lt (by omega)
  have hlt : size / 65536 < 128 := by omega
  obtain ⟨hl, hv⟩ := largeHeader_marked ⟨size / 65536, hlt⟩
  simp only at hl hv
  refine ⟨_, _, _, _, _, by rw [wrathServerHeaderBytes_eq, if_pos hbig], by rw [h1]; exact hl, ?_⟩
  simp only [parseLarge, h1, hv, UInt8.toNat_ofNat_lt' _ (hm _)]
  congr 1
  refine Prod.ext ?_ ?_ <;> simp only <;> omega

/-- a short header: four bytes, first one unmarked, `parseSmall` gives back (size, opcode) -/
theorem wrath_small_codec (size opcode : Nat) (hsmall : size ≤ 0x7FFF) (ho : opcode < 65536) :
    ∃ b0 b1 b2 b3, wrathServerHeaderBytes size opcode = [b0, b1, b2, b3] ∧ largeHeader b0 = false ∧
      parseSmall [b0, b1, b2, b3] = .ok (size, opcode) := by
  have hm : ∀ n, n % 256 < 256 := fun n => Nat.mod_lt _ (by decide)
  have hlt : size / 256 % 256 < 128 := by omega
  have hl := largeHeader_small ⟨size / 256 % 256, hlt⟩
  simp only at hl
  refine ⟨_, _, _, _, by rw [wrathServerHeaderBytes_eq, if_neg (by omega)], hl, ?_⟩
  simp only [parseSmall, UInt8.toNat_ofNat_lt' _ (hm _)]
  congr 1
  refine Prod.ext ?_ ?_ <;> simp only <;> omega

/-- the decoder the client implements across `attempt` / `decryptLarge`: look at the marker of the
    first plaintext byte, then use the 5-byte or the 4-byte layout -/
def wrathDecodePlain (p : Bytes) : Out (Nat × Nat) :=
  match p with
  | b0 :: _ => if largeHeader b0 then parseLarge p else parseSmall p
  | [] => .panic "header array length"

theorem wrathDecodePlain_encode (size opcode : Nat) (hs : size ≤ 0x7FFFFF) (ho : opcode < 65536) :
    wrathDecodePlain (wrathServerHeaderBytes size opcode) = .ok (size, opcode) := by
  by_cases hbig : size > 0x7FFF
  · obtain ⟨b0, b1, b2, b3, b4, he, hl, hp⟩ := wrath_large_codec size opcode hbig hs ho
    rw [he]; simp only [wrathDecodePlain, hl, if_true, hp]
  · obtain ⟨b0, b1, b2, b3, he, hl, hp⟩ := wrath_small_codec size opcode (by omega) ho
    rw [he]; simp only [wrathDecodePlain, hl, Bool.false_eq_true, if_false, hp]

/-! ### scenario definitions used in the statements of C10 -/

/-- a reader that holds exactly the bytes `bs` (one `read()` hands over as much as fits) followed
    by the events `tail`; no event at all when there are no bytes -/
def dataScript (bs : Bytes) (tail : List REv) : List REv := if bs.isEmpty then tail else .data bs :: tail

/-- the caller-driven path: `attempt_decrypt_server_header` on the first 4 bytes of `bs`, then
    `decrypt_large_server_header` on the 5th byte iff the answer was `AdditionalByteRequired`.
    Returns the new state, the header and the unconsumed bytes. -/
def WClientDec.twoStep (c : WClientDec) (bs : Bytes) : Out (WClientDec × (Nat × Nat) × Bytes) := do
  let (c1, a) ← c.attempt (bs.take 4)
  match a with
  | .header s o => pure (c1, (s, o), bs.drop 4)
  | .additionalByteRequired =>
    match bs.drop 4 with
    | b :: rest => do
      let (c2, r) ← c1.decryptLarge b
      pure (c2, r, rest)
    | [] => .panic "scenario: no fifth byte available"

/-- the server emits one header after the other; output concatenated -/
def serverEmitAll : WServerEnc → List (Nat × Nat) → Out (WServerEnc × Bytes)
  | s, [] => .ok (s, [])
  | s, (size, op) :: hs => do
    let (s1, e) ← s.encryptServerHeader size op
    let (s2, es) ← serverEmitAll s1 hs
    pure (s2, e ++ es)

/-- the client decodes `n` headers through `read_and_decrypt_server_header` (stops at an I/O error) -/
def clientReadAll : Nat → WClientDec → List REv → Out (WClientDec × List (Nat × Nat) × List REv)
  | 0, c, script => .ok (c, [], script)
  | n+1, c, script => do
    let res ← c.readServerHeader script
    match res.result with
    | .error _ => pure (res.state, [], res.rest)
    | .ok h => do
      let (c2, hs, rest) ← clientReadAll n res.state res.rest
      pure (c2, h :: hs, rest)

/-- the client decodes `n` headers through the two-step path -/
def clientTwoStepAll : Nat → WClientDec → Bytes → Out (WClientDec × List (Nat × Nat) × Bytes)
  | 0, c, bs => .ok (c, [], bs)
  | n+1, c, bs => do
    let (c1, h, rest) ← c.twoStep bs
    let (c2, hs, rest') ← clientTwoStepAll n c1 rest
    pure (c2, h :: hs, rest')

/-! ### the scripted reader on a byte stream -/

theorem readExact_dataScript (xs ys acc : Bytes) (tail : List REv) :
    readExact (dataScript (xs ++ ys) tail) xs.length acc = (.ok (acc ++ xs), dataScript ys tail) := by
  induction xs generalizing acc with
  | nil => simp [readExact]
  | cons x xs ih =>
    have := ih (acc ++ [x])
    simp only [dataScript] at this ⊢
    simp only [List.cons_append, List.isEmpty_cons, Bool.false_eq_true, if_false, List.length_cons, readExact]
    rw [this]
    simp

/-! ### one header through the cipher -/

theorem list_length_four (l : Bytes) (h : l.length = 4) : ∃ a b c d, l = [a, b, c, d] := by
  match l, h with
  | [a, b, c, d], _ => exact ⟨a, b, c, d, rfl⟩

theorem list_length_five (l : Bytes) (h : l.length = 5) : ∃ a b c d e, l = [a, b, c, d, e] := by
  match l, h with
  | [a, b, c, d, e], _ => exact ⟨a, b, c, d, e, rfl⟩

/-- the server side: never panics under the invariant, the slice handed out is the RC4 encryption of
    the plaintext, the internal buffer is overwritten from the front -/
theorem WServerEnc.encryptServerHeader_spec (s : WServerEnc) (hinv : s.rc4.Inv) (size op : Nat) :
    ∃ r' enc, s.rc4.apply (wrathServerHeaderBytes size op) = .ok (r', enc) ∧ r'.Inv ∧
      enc.length = (if size ≤ 0x7FFF then 4 else 5) ∧
      s.encryptServerHeader size op = .ok (⟨r', enc ++ s.serverHeader.drop enc.length⟩, enc) := by
  have h1 := Rc4.apply_eq s.rc4 hinv (wrathServerHeaderBytes size op)
  refine ⟨_, _, h1, Rc4.advance_inv _ _ hinv, ?_, ?_⟩
  · rw [xorBytes_length _ _ (by rw [Rc4.stream_length]), wrathServerHeaderBytes_length]
  · simp only [WServerEnc.encryptServerHeader, h1, bind, Out.bind, pure]

/-- **single header, both client paths**: with the client decrypter's RC4 in the server encrypter's
    state, whatever follows the header on the wire (`more`, `tail`), the read-based call and the
    two-step path both return exactly `(size, op)`, consume exactly the emitted bytes, end in the
    *same* client state `c'`, whose RC4 is again the server's -/
theorem wrath_header_single (s : WServerEnc) (c : WClientDec) (heq : c.rc4 = s.rc4) (hinv : s.rc4.Inv)
    (size op : Nat) (hs : size ≤ 0x7FFFFF) (ho : op < 65536) :
    ∃ s' enc, s.encryptServerHeader size op = .ok (s', enc) ∧ s'.rc4.Inv ∧
      enc.length = (if size ≤ 0x7FFF then 4 else 5) ∧
      ∃ c', c'.rc4 = s'.rc4 ∧
        (∀ more tail, c.readServerHeader (dataScript (enc ++ more) tail) =
            .ok ⟨c', .ok (size, op), dataScript more tail⟩) ∧
        (∀ more, c.twoStep (enc ++ more) = .ok (c', (size, op), more)) ∧
        (if size ≤ 0x7FFF then c.attempt (enc.take 4) = .ok (c', .header size op) ∧ enc.drop 4 = []
         else ∃ c1 b, c.attempt (enc.take 4) = .ok (c1, .additionalByteRequired) ∧ enc.drop 4 = [b] ∧
           c1.decryptLarge b = .ok (c', (size, op))) := by
  obtain ⟨r', enc, happ, hinv', hlen, hemit⟩ := WServerEnc.encryptServerHeader_spec s hinv size op
  refine ⟨_, enc, hemit, hinv', hlen, ?_⟩
  by_cases hsmall : size ≤ 0x7FFF
  · rw [if_pos hsmall] at hlen
    obtain ⟨b0, b1, b2, b3, hp, hl, hparse⟩ := wrath_small_codec size op hsmall ho
    obtain ⟨e0, e1, e2, e3, he⟩ := list_length_four enc hlen
    rw [hp] at happ
    have hdec := Rc4.apply_involution _ _ _ _ happ
    subst he
    have hatt : c.attempt [e0, e1, e2, e3] = .ok ({ c with rc4 := r' }, .header size op) := by
      simp only [WClientDec.attempt, heq, hdec, bind, Out.bind, hl, Bool.false_eq_true, if_false, hparse, pure]
    refine ⟨{ c with rc4 := r' }, rfl, ?_, ?_, ?_⟩
    · intro more tail
      have hr := readExact_dataScript [e0, e1, e2, e3] more [] tail
      simp only [List.length_cons, List.length_nil, List.nil_append] at hr
      simp only [WClientDec.readServerHeader, hr, hatt, bind, Out.bind, pure]
    · intro more
      simp only [WClientDec.twoStep, List.cons_append, List.nil_append, List.take_succ_cons, List.take_zero,
        hatt, bind, Out.bind, pure, List.drop_succ_cons, List.drop_zero]
    · rw [if_pos hsmall]
      exact ⟨hatt, rfl⟩
  · rw [if_neg hsmall] at hlen
    obtain ⟨b0, b1, b2, b3, b4, hp, hl, hparse⟩ := wrath_large_codec size op (by omega) hs ho
    obtain ⟨e0, e1, e2, e3, e4, he⟩ := list_length_five enc hlen
    rw [hp] at happ
    obtain ⟨r1, hd1, hd2⟩ := Rc4.roundtrip_split s.rc4 r' [b0, b1, b2, b3] [b4] enc happ
    subst he
    simp only [List.length_cons, List.length_nil, List.take_succ_cons, List.take_zero,
      List.drop_succ_cons, List.drop_zero] at hd1 hd2
    have hatt : c.attempt [e0, e1, e2, e3] = .ok (⟨r1, [b0, b1, b2, b3]⟩, .additionalByteRequired) := by
      simp only [WClientDec.attempt, heq, hd1, bind, Out.bind, hl, if_true, pure]
    have hlarge : (⟨r1, [b0, b1, b2, b3]⟩ : WClientDec).decryptLarge e4 =
        .ok (⟨r', [b0, b1, b2, b3]⟩, (size, op)) := by
      simp only [WClientDec.decryptLarge, hd2, bind, Out.bind, List.cons_append, List.nil_append, hparse, pure]
    refine ⟨⟨r', [b0, b1, b2, b3]⟩, rfl, ?_, ?_, ?_⟩
    · intro more tail
      have hr := readExact_dataScript [e0, e1, e2, e3] (e4 :: more) [] tail
      have hr2 := readExact_dataScript [e4] more [] tail
      simp only [List.length_cons, List.length_nil, List.nil_append, List.cons_append] at hr hr2
      simp only [WClientDec.readServerHeader, List.cons_append, List.nil_append, hr, hatt, bind, Out.bind, pure,
        hr2, List.headD_cons, hlarge]
    · intro more
      simp only [WClientDec.twoStep, List.cons_append, List.nil_append, List.take_succ_cons, List.take_zero,
        hatt, bind, Out.bind, pure, List.drop_succ_cons, List.drop_zero, hlarge]
    · rw [if_neg hsmall]
      exact ⟨_, e4, hatt, rfl, hlarge⟩

/-- **any sequence of headers**, short and long mixed: induction over the single-header theorem -/
theorem wrath_header_sequence (hdrs : List (Nat × Nat)) (hb : ∀ h ∈ hdrs, h.1 ≤ 0x7FFFFF ∧ h.2 < 65536)
    (s : WServerEnc) (c : WClientDec) (heq : c.rc4 = s.rc4) (hinv : s.rc4.Inv) :
    ∃ s' wire, serverEmitAll s hdrs = .ok (s', wire) ∧ s'.rc4.Inv ∧
      wire.length = (hdrs.map (fun h => if h.1 ≤ 0x7FFF then 4 else 5)).sum ∧
      ∃ c', c'.rc4 = s'.rc4 ∧
        (∀ more tail, clientReadAll hdrs.length c (dataScript (wire ++ more) tail) =
            .ok (c', hdrs, dataScript more tail)) ∧
        (∀ more, clientTwoStepAll hdrs.length c (wire ++ more) = .ok (c', hdrs, more)) := by
  induction hdrs generalizing s c with
  | nil => exact ⟨s, [], rfl, hinv, rfl, c, heq, fun _ _ => rfl, fun _ => rfl⟩
  | cons h hs ih =>
    obtain ⟨size, op⟩ := h
    have hb1 := hb (size, op) (by simp)
    obtain ⟨s1, enc, hemit, hinv1, hlen, c1, heq1, hread, htwo, _⟩ :=
      wrath_header_single s c heq hinv size op hb1.1 hb1.2
    obtain ⟨s2, wire, hall, hinv2, hlen2, c2, heq2, hreads, htwos⟩ :=
      ih (fun h hh => hb h (by simp [hh])) s1 c1 heq1 hinv1
    refine ⟨s2, enc ++ wire, ?_, hinv2, ?_, c2, heq2, ?_, ?_⟩
    · simp only [serverEmitAll, hemit, hall, bind, Out.bind, pure]
    · simp only [List.length_append, hlen, hlen2, List.map_cons, List.sum_cons]
    · intro more tail
      simp only [clientReadAll, List.length_cons, List.append_assoc, hread, hreads, bind, Out.bind, pure]
    · intro more
      simp only [clientTwoStepAll, List.length_cons, List.append_assoc, htwo, htwos, bind, Out.bind, pure]

end WowSrp
