/-
Helper lemmas for C18 (matrix cards): cell addressing vs printing order, coordinate selection,
round bounds, the verifier's RC4/HMAC pipeline. Core Lean only.
-/
import WowSrp.Lemmas.Select
import WowSrp.Lemmas.Rc4MC
namespace WowSrp

/-- what `from_data` / `new` guarantee about a card, plus the size limits of the property:
    `digit_count * height * width` digits, between 1 and 255 cells, at least one digit per cell -/
structure MatrixCard.WF (c : MatrixCard) : Prop where
  len : c.data.length = c.digitCount * c.height * c.width
  pos : 1 ≤ c.width * c.height
  small : c.width * c.height ≤ 255
  digits : 1 ≤ c.digitCount

/-- cell number `i` in printing order: `data[i*d ..< (i+1)*d]` -/
def MatrixCard.cell (c : MatrixCard) (i : Nat) : Bytes :=
  (c.data.drop (i * c.digitCount)).take c.digitCount

/-! ### cell addressing -/

theorem cellIndex_lt (w h x y : Nat) (hx : x < w) (hy : y < h) : y * w + x < w * h := by
  have h1 : (y + 1) * w ≤ h * w := Nat.mul_le_mul_right w hy
  rw [Nat.add_mul, Nat.one_mul, Nat.mul_comm h w] at h1
  omega

/-- row-major numbering is injective: distinct (x, y) on the card are distinct cells -/
theorem cellIndex_inj (w x y x' y' : Nat) (hx : x < w) (hx' : x' < w)
    (h : y * w + x = y' * w + x') : x = x' ∧ y = y' := by
  have hw : 0 < w := by omega
  have m1 := Nat.mul_add_mod w y x
  have m2 := Nat.mul_add_mod w y' x'
  have d1 := Nat.mul_add_div hw y x
  have d2 := Nat.mul_add_div hw y' x'
  rw [Nat.mul_comm y w] at h
  rw [Nat.mul_comm y' w] at h
  rw [h] at m1 d1
  rw [Nat.mod_eq_of_lt hx] at m1
  rw [Nat.mod_eq_of_lt hx'] at m2
  rw [Nat.div_eq_of_lt hx] at d1
  rw [Nat.div_eq_of_lt hx'] at d2
  omega

theorem MatrixCard.WF.cell_end_le (c : MatrixCard) (hc : c.WF) (i : Nat) (hi : i < c.width * c.height) :
    i * c.digitCount + c.digitCount ≤ c.data.length := by
  have h1 : (i + 1) * c.digitCount ≤ (c.width * c.height) * c.digitCount := Nat.mul_le_mul_right _ hi
  have h2 : (c.width * c.height) * c.digitCount = c.digitCount * c.height * c.width := by ac_rfl
  rw [hc.len, ← h2]
  rw [Nat.add_mul, Nat.one_mul] at h1
  exact h1

theorem MatrixCard.getNumberAt_eq (c : MatrixCard) (hc : c.WF) (x y : Nat)
    (hx : x < c.width) (hy : y < c.height) :
    c.getNumberAt x y = .ok (c.cell (y * c.width + x)) := by
  have := hc.cell_end_le c (y * c.width + x) (cellIndex_lt _ _ _ _ hx hy)
  unfold MatrixCard.getNumberAt MatrixCard.cell
  simp only [if_pos this]

theorem chunksOf_getElem? (n : Nat) (hn : 1 ≤ n) (fuel : Nat) (l : Bytes) (hf : l.length < fuel) (i : Nat) :
    (chunksOf n fuel l)[i]? = if i * n < l.length then some ((l.drop (i * n)).take n) else none := by
  induction fuel generalizing l i with
  | zero => omega
  | succ fuel ih =>
    unfold chunksOf
    cases l with
    | nil => simp
    | cons a l =>
      simp only [List.isEmpty_cons, Bool.false_eq_true, if_false]
      cases i with
      | zero => simp
      | succ i =>
        rw [List.getElem?_cons_succ, ih _ (by simp only [List.length_drop, List.length_cons] at hf ⊢; omega)]
        simp only [List.length_drop, List.drop_drop]
        have e : (i + 1) * n = n + i * n := by rw [Nat.add_mul, Nat.one_mul, Nat.add_comm]
        rw [e]
        by_cases h : i * n < (a :: l).length - n
        · rw [if_pos h, if_pos (by omega)]
        · rw [if_neg h, if_neg (by omega)]

theorem MatrixCard.printed_eq (c : MatrixCard) (hc : c.WF) (i : Nat) (hi : i < c.width * c.height) :
    c.printed i = .ok (some (c.cell i)) := by
  have hd : ¬ c.digitCount = 0 := by have := hc.digits; omega
  have := hc.cell_end_le c i hi
  have h1 := hc.digits
  unfold MatrixCard.printed MatrixCard.cell
  rw [if_neg hd, chunksOf_getElem? _ hc.digits _ _ (by omega), if_pos (by omega)]

/-- outside the card nothing is printed -/
theorem MatrixCard.printed_none (c : MatrixCard) (hc : c.WF) (i : Nat) (hi : c.width * c.height ≤ i) :
    c.printed i = .ok none := by
  have hd : ¬ c.digitCount = 0 := by have := hc.digits; omega
  have h1 : (c.width * c.height) * c.digitCount ≤ i * c.digitCount := Nat.mul_le_mul_right _ hi
  have h2 : (c.width * c.height) * c.digitCount = c.digitCount * c.height * c.width := by ac_rfl
  have h3 := hc.len
  unfold MatrixCard.printed
  rw [if_neg hd, chunksOf_getElem? _ hc.digits _ _ (by omega), if_neg (by omega)]

/-- digit `k` of cell `i` is `data[i*d + k]` -/
theorem MatrixCard.cell_getElem? (c : MatrixCard) (i k : Nat) :
    (c.cell i)[k]? = if k < c.digitCount then c.data[i * c.digitCount + k]? else none := by
  unfold MatrixCard.cell
  rw [List.getElem?_take, List.getElem?_drop]

theorem MatrixCard.cell_length (c : MatrixCard) (hc : c.WF) (i : Nat) (hi : i < c.width * c.height) :
    (c.cell i).length = c.digitCount := by
  have := hc.cell_end_le c i hi
  unfold MatrixCard.cell
  simp only [List.length_take, List.length_drop]
  omega

/-- the index ranges of two different cells do not meet -/
theorem cellRanges_disjoint (d i j k k' : Nat) (hij : i ≠ j) (hk : k < d) (hk' : k' < d) :
    i * d + k ≠ j * d + k' := by
  rcases Nat.lt_or_gt_of_ne hij with h | h
  · have : (i + 1) * d ≤ j * d := Nat.mul_le_mul_right d h
    rw [Nat.add_mul, Nat.one_mul] at this
    omega
  · have : (j + 1) * d ≤ i * d := Nat.mul_le_mul_right d h
    rw [Nat.add_mul, Nat.one_mul] at this
    omega

/-! ### coordinates -/

theorem ofNat_toNat_of_lt (a : Nat) (h : a < 256) : (UInt8.ofNat a).toNat = a := by
  rw [UInt8.toNat_ofNat']; omega

theorem rangeBytes_nodup (n : Nat) (hn : n ≤ 256) : ((List.range n).map UInt8.ofNat).Nodup := by
  unfold List.Nodup
  rw [List.pairwise_map]
  refine List.Pairwise.imp_of_mem ?_ (List.nodup_range (n := n))
  intro a b ha hb hab h
  have ha' : a < n := List.mem_range.mp ha
  have hb' : b < n := List.mem_range.mp hb
  have := congrArg UInt8.toNat h
  rw [ofNat_toNat_of_lt a (by omega), ofNat_toNat_of_lt b (by omega)] at this
  exact hab this

/-- `generate_coordinates` is the Spec's selection without replacement from the cell numbers
    `0 .. w*h-1`; no panic as long as the card has at most 255 cells and at least `count` of them -/
theorem generateCoordinates_spec (w h count seed : Nat) (hs : w * h ≤ 255) (hc : count ≤ w * h) :
    generateCoordinates w h count seed
      = .ok ((Spec.pick count (List.range (w * h)) seed).map UInt8.ofNat) := by
  unfold generateCoordinates
  rw [if_neg (by omega)]
  simp only
  rw [mcCoordLoop_spec (w * h) count 0 _ seed [] (by omega) (by simp)]
  simp only [Nat.sub_zero, List.nil_append]
  rw [List.take_of_length_le (by simp), Spec.pick_map]

/-- the challenged cells: `count` of them, pairwise distinct, all on the card -/
theorem coords_facts (w h count seed : Nat) (hs : w * h ≤ 255) (hc : count ≤ w * h) :
    let coords := (Spec.pick count (List.range (w * h)) seed).map UInt8.ofNat
    coords.length = count ∧ coords.Nodup ∧ ∀ c ∈ coords, c.toNat < w * h := by
  intro coords
  have e : coords = Spec.pick count ((List.range (w * h)).map UInt8.ofNat) seed := by
    simp only [coords]; rw [Spec.pick_map]
  refine ⟨?_, ?_, ?_⟩
  · simp only [coords, List.length_map]
    exact Spec.pick_length _ _ _ (by simpa using hc)
  · rw [e]; exact Spec.pick_nodup _ _ _ (rangeBytes_nodup _ (by omega))
  · intro c hc'
    rw [e] at hc'
    have := Spec.pick_subset _ _ _ c hc'
    simp only [List.mem_map, List.mem_range] at this
    obtain ⟨a, ha, rfl⟩ := this
    rw [ofNat_toNat_of_lt a (by omega)]; exact ha

/-- decoding a challenged cell number that lies on the card gives a position on the card -/
theorem MCVerifier.getCoordinates_lt (v : MCVerifier) (r : Nat) (hr : r < v.challengeCount)
    (hl : v.coordinates.length = v.challengeCount)
    (hb : ∀ c ∈ v.coordinates, c.toNat < v.width * v.height) :
    ∃ x y, v.getCoordinates r = .ok (some (x, y)) ∧ x < v.width ∧ y < v.height ∧
      ∃ hr' : r < v.coordinates.length, y * v.width + x = v.coordinates[r].toNat := by
  have hr' : r < v.coordinates.length := by omega
  have hlt := hb _ (List.getElem_mem hr')
  have hw : ¬ v.width = 0 := by
    intro h0; rw [h0] at hlt; simp at hlt
  have hy : v.coordinates[r].toNat / v.width < v.height := Nat.div_lt_of_lt_mul hlt
  refine ⟨v.coordinates[r].toNat % v.width, v.coordinates[r].toNat / v.width, ?_,
    Nat.mod_lt _ (by omega), hy, hr', ?_⟩
  · unfold MCVerifier.getCoordinates
    rw [if_neg (by omega)]
    simp only [List.getElem?_eq_getElem hr', if_neg hw]
    rw [if_neg (by omega)]
  · rw [Nat.mul_comm]; exact Nat.div_add_mod _ _

/-- a round at or beyond the challenge count yields no coordinates -/
theorem MCVerifier.getCoordinates_ge (v : MCVerifier) (r : Nat) (hr : r ≥ v.challengeCount) :
    v.getCoordinates r = .ok none := by
  unfold MCVerifier.getCoordinates
  rw [if_pos hr]

/-- the coordinate loop emits exactly one entry per round whenever it does not panic -/
theorem mcCoordLoop_length (ms n i : Nat) (idx : Bytes) (seed : Nat) (out o : Bytes)
    (h : mcCoordLoop ms n i idx seed out = .ok o) : o.length = out.length + n := by
  induction n generalizing i idx seed out with
  | zero => simp only [mcCoordLoop] at h; injection h with h; rw [← h]; rfl
  | succ n ih =>
    unfold mcCoordLoop at h
    split at h
    · cases h
    · simp only at h
      split at h
      · cases h
      · split at h
        · cases h
        · cases hs : mcShift idx (ms - i - 1 - seed % (ms - i)) (seed % (ms - i)) with
          | panic p => simp [hs] at h
          | ok l' =>
            simp only [hs, Out.bind_ok] at h
            have := ih _ _ _ _ h
            simp only [List.length_append, List.length_cons, List.length_nil] at this
            omega

/-- with at least one round, the loop panics on an empty card -/
theorem mcCoordLoop_pos (ms n : Nat) (idx : Bytes) (seed : Nat) (out o : Bytes)
    (h : mcCoordLoop ms (n+1) 0 idx seed out = .ok o) : ms ≠ 0 := by
  intro h0
  subst h0
  simp [mcCoordLoop] at h

/-! ### the verifier pipeline -/

theorem MCVerifier.new_eq (C : Crypto) (count h seed w : Nat) (K coords : Bytes) (r0 : Rc4)
    (hc : generateCoordinates w h count seed = .ok coords)
    (hr : Rc4.new (C.md5 (leN 8 seed ++ K)) = .ok r0) :
    MCVerifier.new C count h seed w K = .ok ⟨count, h, w, coords, C.md5 (leN 8 seed ++ K), [], r0⟩ := by
  simp only [MCVerifier.new, hc, hr, Out.bind_ok, Out.pure_eq]

/-- entering digits = RC4-encrypting them and feeding the ciphertext to the HMAC; nothing else of the
    verifier changes -/
theorem MCVerifier.enterValues_eq (v : MCVerifier) (bs : Bytes) (r' : Rc4) (out : Bytes)
    (h : v.rc4.apply bs = .ok (r', out)) :
    v.enterValues bs = .ok { v with rc4 := r', fed := v.fed ++ out } := by
  induction bs generalizing v out with
  | nil =>
    simp only [Rc4.apply, runSteps] at h
    injection h with h; injection h with h1 h2
    subst h1; subst h2
    cases v; simp [MCVerifier.enterValues]
  | cons b bs ih =>
    simp only [Rc4.apply, runSteps] at h
    cases hs : Rc4.step v.rc4 b with
    | panic p => simp [hs] at h
    | ok a =>
      obtain ⟨r1, y⟩ := a
      simp only [hs] at h
      cases hx : runSteps Rc4.step r1 bs with
      | panic p => simp [hx] at h
      | ok a2 =>
        obtain ⟨r2, ys⟩ := a2
        simp only [hx] at h
        injection h with h; injection h with h1 h2
        subst h1; subst h2
        simp only [MCVerifier.enterValues, MCVerifier.enterValue, Rc4.apply, runSteps, hs, Out.bind_ok,
          Out.pure_eq]
        rw [ih { v with rc4 := r1, fed := v.fed ++ [y] } ys hx]
        simp

theorem MCVerifier.enterValues_append (v : MCVerifier) (a b : Bytes) :
    v.enterValues (a ++ b) = (v.enterValues a >>= fun v' => v'.enterValues b) := by
  induction a generalizing v with
  | nil => simp [MCVerifier.enterValues]
  | cons x xs ih =>
    simp only [List.cons_append, MCVerifier.enterValues]
    cases v.enterValue x with
    | panic p => rfl
    | ok v1 => simp only [Out.bind_ok, ih]

/-- the server-side loop re-enters, round by round, the cells of the card at the challenged numbers -/
theorem mcVerifyLoop_eq (card : MatrixCard) (hc : card.WF) (n r : Nat) (v : MCVerifier)
    (hw : v.width = card.width) (hh : v.height = card.height)
    (hl : v.coordinates.length = v.challengeCount)
    (hb : ∀ c ∈ v.coordinates, c.toNat < v.width * v.height)
    (hs : v.rc4.state.size = 256) (hrn : r + n ≤ v.challengeCount) :
    mcVerifyLoop card n r v
      = v.enterValues (((v.coordinates.drop r).take n).flatMap (fun c => card.cell c.toNat)) := by
  induction n generalizing r v with
  | zero => simp [mcVerifyLoop, MCVerifier.enterValues]
  | succ n ih =>
    obtain ⟨x, y, hg, hx, hy, hr', hxy⟩ := v.getCoordinates_lt r (by omega) hl hb
    have hnum := card.getNumberAt_eq hc x y (by omega) (by omega)
    rw [← hw, hxy] at hnum
    obtain ⟨r1, out, ha, hs1, _⟩ := MC.apply_ok v.rc4 (card.cell v.coordinates[r].toNat) hs
    have he := v.enterValues_eq _ r1 out ha
    rw [List.drop_eq_getElem_cons hr', List.take_succ_cons, List.flatMap_cons,
      MCVerifier.enterValues_append, he, Out.bind_ok]
    simp only [mcVerifyLoop, hg, Out.bind_ok, hnum, he]
    exact ih (r+1) { v with rc4 := r1, fed := v.fed ++ out } hw hh hl hb hs1 (by simp only; omega)

/-- entries of a duplicate-free list at different positions differ -/
theorem nodup_getElem_inj {α} (l : List α) (hn : l.Nodup) (i j : Nat) (hi : i < l.length) (hj : j < l.length)
    (h : l[i] = l[j]) : i = j := by
  have hp := List.pairwise_iff_getElem.mp hn
  rcases Nat.lt_trichotomy i j with hlt | heq | hgt
  · exact absurd h (hp i j hi hj hlt)
  · exact heq
  · exact absurd h.symm (hp j i hj hi hgt)

/-- `cells` are the digit groups a user reads off the printed card for rounds `0 .. count-1` of the
    verifier `v`: for each round the verifier names a position (x, y), and `cells[r]` is what is
    printed at row `y`, column `x` (entry number `y*width + x` of `to_printer()`) -/
def ReadsOffCard (card : MatrixCard) (v : MCVerifier) (cells : List Bytes) : Prop :=
  cells.length = v.challengeCount ∧
  ∀ r (hr : r < cells.length), ∃ x y, v.getCoordinates r = .ok (some (x, y)) ∧
    card.printed (y * card.width + x) = .ok (some cells[r])

/-- what the user reads off is, round by round, the card's cell at the challenged number -/
theorem ReadsOffCard.eq (card : MatrixCard) (hc : card.WF) (v : MCVerifier) (cells : List Bytes)
    (hw : v.width = card.width) (hh : v.height = card.height)
    (hl : v.coordinates.length = v.challengeCount)
    (hb : ∀ c ∈ v.coordinates, c.toNat < v.width * v.height)
    (h : ReadsOffCard card v cells) :
    cells.flatten = v.coordinates.flatMap (fun c => card.cell c.toNat) := by
  obtain ⟨h1, h2⟩ := h
  have : cells = v.coordinates.map (fun c => card.cell c.toNat) := by
    apply List.ext_getElem
    · simp only [List.length_map]; omega
    · intro i hi1 hi2
      obtain ⟨x, y, hg, hp⟩ := h2 i hi1
      obtain ⟨x', y', hg', _, _, hr', hxy⟩ := v.getCoordinates_lt i (by omega) hl hb
      rw [hg] at hg'
      injection hg' with hg'; injection hg' with hg'; injection hg' with e1 e2
      subst e1; subst e2
      rw [← hw, hxy, card.printed_eq hc _ (by rw [← hw, ← hh]; exact hb _ (List.getElem_mem hr'))] at hp
      injection hp with hp; injection hp with hp
      rw [List.getElem_map]; exact hp.symm
  rw [this, List.flatMap_def]

/-- and such a reading exists: the card's cells at the challenged numbers -/
theorem ReadsOffCard.intro (card : MatrixCard) (hc : card.WF) (v : MCVerifier)
    (hw : v.width = card.width) (hh : v.height = card.height)
    (hl : v.coordinates.length = v.challengeCount)
    (hb : ∀ c ∈ v.coordinates, c.toNat < v.width * v.height) :
    ReadsOffCard card v (v.coordinates.map (fun c => card.cell c.toNat)) := by
  refine ⟨by simpa using hl, fun r hr => ?_⟩
  have hr0 : r < v.coordinates.length := by simpa using hr
  obtain ⟨x, y, hg, _, _, hr', hxy⟩ := v.getCoordinates_lt r (by omega) hl hb
  refine ⟨x, y, hg, ?_⟩
  rw [← hw, hxy, card.printed_eq hc _ (by rw [← hw, ← hh]; exact hb _ (List.getElem_mem hr')),
    List.getElem_map]

/-- the whole server-side check, end to end: the verifier exists (no panic), the loop re-enters the
    challenged cells, and the answer is the comparison of `HMAC(md5, RC4_md5(cells))` with the proof -/
theorem verify_pipeline (C : Crypto) (card : MatrixCard) (hc : card.WF) (count seed : Nat) (K : Bytes)
    (hcount : count ≤ card.width * card.height) :
    ∃ r0 r1 enc,
      Rc4.new (C.md5 (leN 8 seed ++ K)) = .ok r0 ∧ r0.state.size = 256 ∧
      MCVerifier.new C count card.height seed card.width K
        = .ok ⟨count, card.height, card.width,
            (Spec.pick count (List.range (card.width * card.height)) seed).map UInt8.ofNat,
            C.md5 (leN 8 seed ++ K), [], r0⟩ ∧
      r0.apply (((Spec.pick count (List.range (card.width * card.height)) seed).map UInt8.ofNat).flatMap
        (fun c => card.cell c.toNat)) = .ok (r1, enc) ∧
      ∀ proof, verifyMatrixCardHash C card count seed K proof
        = .ok (C.hmac (C.md5 (leN 8 seed ++ K)) enc == proof) := by
  obtain ⟨r0, hr0, hs0⟩ := MC.new_ok (C.md5 (leN 8 seed ++ K))
  obtain ⟨r1, enc, ha, _, _⟩ := MC.apply_ok r0
    (((Spec.pick count (List.range (card.width * card.height)) seed).map UInt8.ofNat).flatMap
        (fun c => card.cell c.toNat)) hs0
  have hnew := MCVerifier.new_eq C count card.height seed card.width K _ r0
    (generateCoordinates_spec card.width card.height count seed hc.small hcount) hr0
  obtain ⟨f1, f2, f3⟩ := coords_facts card.width card.height count seed hc.small hcount
  refine ⟨r0, r1, enc, hr0, hs0, hnew, ha, fun proof => ?_⟩
  unfold verifyMatrixCardHash
  rw [hnew, Out.bind_ok]
  rw [mcVerifyLoop_eq card hc count 0 _ rfl rfl f1 f3 hs0 (by simp)]
  simp only [List.drop_zero]
  rw [List.take_of_length_le (by rw [f1]; exact Nat.le_refl _)]
  rw [MCVerifier.enterValues_eq _ _ r1 enc ha]
  simp [MCVerifier.intoProof]

end WowSrp
