/-
RC4 facts needed by C18 (matrix cards): a 256-entry state never panics, `Rc4.new` produces one for
every key, `apply` over a concatenation is successive applies, and encryption from a fixed state is
injective (the keystream does not depend on the data). Core Lean only.
Namespace `WowSrp.MC` to keep clear of the C09 helper lemmas.
-/
import WowSrp.Model.Wrath
import WowSrp.Lemmas.Header
namespace WowSrp.MC

theorem getOut_ok (s : Array UInt8) (a : Nat) (h : a < s.size) : getOut s a = .ok s[a] := by
  simp [getOut, Array.getElem?_eq_getElem h]

theorem swapOut_ok (s : Array UInt8) (a b : Nat) (ha : a < s.size) (hb : b < s.size) :
    ∃ s', swapOut s a b = .ok s' ∧ s'.size = s.size := by
  refine ⟨(s.setIfInBounds a s[b]).setIfInBounds b s[a], ?_, by simp⟩
  simp [swapOut, Array.getElem?_eq_getElem ha, Array.getElem?_eq_getElem hb]

theorem toNat_lt_of_size (s : Array UInt8) (h : s.size = 256) (x : UInt8) : x.toNat < s.size := by
  have := x.toNat_lt; omega

/-- key scheduling keeps a 256-entry state and never panics (any key, the empty one included) -/
theorem ksaLoop_ok (key : Bytes) (fuel i : Nat) (s : Array UInt8) (j : UInt8)
    (hs : s.size = 256) (hi : i + fuel ≤ 256) :
    ∃ s', ksaLoop key fuel i s j = .ok s' ∧ s'.size = 256 := by
  induction fuel generalizing i s j with
  | zero => exact ⟨s, rfl, hs⟩
  | succ fuel ih =>
    unfold ksaLoop
    cases hk : key[i % key.length]? with
    | none => exact ⟨s, rfl, hs⟩
    | some k =>
      have hi' : i < s.size := by omega
      obtain ⟨s', h1, h2⟩ := swapOut_ok s i (j + s[i] + k).toNat hi' (toNat_lt_of_size s hs _)
      simp only [getOut_ok s i hi', Out.bind_ok, h1]
      exact ih (i+1) s' _ (by omega) (by omega)

/-- `Rc4::new` never panics and yields a 256-entry state -/
theorem new_ok (key : Bytes) : ∃ r, Rc4.new key = .ok r ∧ r.state.size = 256 := by
  obtain ⟨s, h1, h2⟩ := ksaLoop_ok key 256 0 ((Array.range 256).map UInt8.ofNat) 0 (by simp) (by omega)
  exact ⟨⟨s, 0, 0⟩, by simp [Rc4.new, h1], h2⟩

/-- one keystream byte from a 256-entry state: no panic, the state stays 256 entries long -/
theorem prga_ok (r : Rc4) (h : r.state.size = 256) :
    ∃ r' v, r.prga = .ok (r', v) ∧ r'.state.size = 256 := by
  have b := toNat_lt_of_size r.state h
  obtain ⟨s, h1, h2⟩ := swapOut_ok r.state (r.i + 1).toNat (r.j + r.state[(r.i + 1).toNat]'(b _)).toNat (b _) (b _)
  have hs : s.size = 256 := by omega
  have b' := toNat_lt_of_size s hs
  refine ⟨⟨s, r.i + 1, r.j + r.state[(r.i + 1).toNat]'(b _)⟩,
    s[(s[(r.i + 1).toNat]'(b' _) + s[(r.j + r.state[(r.i + 1).toNat]'(b _)).toNat]'(b' _)).toNat]'(b' _), ?_, hs⟩
  simp only [Rc4.prga, getOut_ok r.state _ (b _), Out.bind_ok, h1, getOut_ok s _ (b' _), Out.pure_eq]

/-- a step is the keystream byte xor-ed onto the data; the next state does not depend on the data -/
theorem step_eq (r : Rc4) (x : UInt8) :
    r.step x = match r.prga with
      | .panic p => .panic p
      | .ok (r', v) => .ok (r', x ^^^ v) := by
  unfold Rc4.step
  cases r.prga with
  | panic p => rfl
  | ok a => obtain ⟨r', v⟩ := a; rfl

theorem step_ok (r : Rc4) (x : UInt8) (h : r.state.size = 256) :
    ∃ r' y, r.step x = .ok (r', y) ∧ r'.state.size = 256 := by
  obtain ⟨r', v, h1, h2⟩ := prga_ok r h
  exact ⟨r', x ^^^ v, by rw [step_eq, h1], h2⟩

/-- `apply_keystream` from a 256-entry state never panics, for data of every length -/
theorem apply_ok (r : Rc4) (xs : Bytes) (h : r.state.size = 256) :
    ∃ r' out, r.apply xs = .ok (r', out) ∧ r'.state.size = 256 ∧ out.length = xs.length := by
  unfold Rc4.apply
  induction xs generalizing r with
  | nil => exact ⟨r, [], rfl, h, rfl⟩
  | cons x xs ih =>
    obtain ⟨r1, y, h1, h2⟩ := step_ok r x h
    obtain ⟨r2, out, h3, h4, h5⟩ := ih r1 h2
    exact ⟨r2, y :: out, by simp only [runSteps, h1, h3], h4, by simp [h5]⟩

/-- one call on `xs ++ ys` = a call on `xs` followed by a call on `ys` -/
theorem apply_append (r r1 r2 : Rc4) (xs ys o1 o2 : Bytes)
    (h1 : r.apply xs = .ok (r1, o1)) (h2 : r1.apply ys = .ok (r2, o2)) :
    r.apply (xs ++ ys) = .ok (r2, o1 ++ o2) := by
  unfold Rc4.apply at *
  rw [runSteps_append, h1]
  simp only [h2]

/-- RC4 encryption from a fixed state is injective: equal ciphertexts come from equal plaintexts
    (of any lengths — the ciphertext is as long as the plaintext) -/
theorem apply_injective (r : Rc4) (xs ys : Bytes) (r1 r2 : Rc4) (e1 e2 : Bytes)
    (h1 : r.apply xs = .ok (r1, e1)) (h2 : r.apply ys = .ok (r2, e2)) (he : e1 = e2) : xs = ys := by
  unfold Rc4.apply at *
  induction xs generalizing r ys e1 e2 r1 r2 with
  | nil =>
    simp only [runSteps] at h1
    injection h1 with h1; injection h1 with _ h1
    cases ys with
    | nil => rfl
    | cons y ys =>
      simp only [runSteps] at h2
      split at h2
      · cases h2
      · split at h2
        · cases h2
        · injection h2 with h2; injection h2 with _ h2
          rw [← h1, ← h2] at he; cases he
  | cons x xs ih =>
    cases ys with
    | nil =>
      simp only [runSteps] at h2
      injection h2 with h2; injection h2 with _ h2
      simp only [runSteps] at h1
      split at h1
      · cases h1
      · split at h1
        · cases h1
        · injection h1 with h1; injection h1 with _ h1
          rw [← h1, ← h2] at he; cases he
    | cons y ys =>
      simp only [runSteps, step_eq] at h1 h2
      cases hp : r.prga with
      | panic p => simp [hp] at h1
      | ok a =>
        obtain ⟨r', v⟩ := a
        simp only [hp] at h1 h2
        cases hx : runSteps Rc4.step r' xs with
        | panic p => simp [hx] at h1
        | ok a1 =>
          obtain ⟨ra, oa⟩ := a1
          cases hy : runSteps Rc4.step r' ys with
          | panic p => simp [hy] at h2
          | ok a2 =>
            obtain ⟨rb, ob⟩ := a2
            simp only [hx] at h1
            simp only [hy] at h2
            injection h1 with h1; injection h1 with _ h1
            injection h2 with h2; injection h2 with _ h2
            rw [← h1, ← h2] at he
            injection he with hh ht
            have hxy : x = y := by
              have := congrArg (· ^^^ v) hh
              simpa [UInt8.xor_assoc] using this
            rw [hxy, ih r' ys ra rb oa ob hx hy ht]

end WowSrp.MC
