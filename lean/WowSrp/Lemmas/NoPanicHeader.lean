/-
Helper lemmas for C14, header side: the Vanilla / TBC recurrence ciphers and the Wrath RC4 ciphers
never reach a `panic`, whatever bytes they are fed, in any order and amount. Core Lean only.
-/
import WowSrp.Lemmas.Header
import WowSrp.Model.World
namespace WowSrp

/-! ### generic: a step function that preserves an invariant never panics on any stream -/

theorem runSteps_ok_of_inv {σ : Type} (step : σ → UInt8 → Out (σ × UInt8)) (P : σ → Prop)
    (hstep : ∀ h x, P h → ∃ h' y, step h x = .ok (h', y) ∧ P h') (h : σ) (xs : Bytes) (hp : P h) :
    ∃ h' ys, runSteps step h xs = .ok (h', ys) ∧ P h' ∧ ys.length = xs.length := by
  induction xs generalizing h with
  | nil => exact ⟨h, [], rfl, hp, rfl⟩
  | cons x xs ih =>
    obtain ⟨h1, y, hs, hp1⟩ := hstep h x hp
    obtain ⟨h2, ys, hr, hp2, hl⟩ := ih h1 hp1
    refine ⟨h2, y :: ys, ?_, hp2, by simp [hl]⟩
    simp only [runSteps, hs, hr]

/-- `read_exact(n)` either fails or delivers exactly `n` more bytes -/
theorem readExact_length (script : List REv) (n : Nat) (acc buf : Bytes) (rest : List REv)
    (h : readExact script n acc = (.ok buf, rest)) : buf.length = acc.length + n := by
  fun_induction readExact script n acc <;> simp_all <;> omega

/-! ### Vanilla / TBC -/

/-- length of the key a half indexes: the 40-byte session key (Vanilla), the 20-byte HMAC (TBC) -/
def Exp.keyLen : Exp → Nat
  | .vanilla => 40
  | .tbc => 20

theorem Exp.encMod_eq (e : Exp) : e.encMod = e.keyLen := by cases e <;> decide
theorem Exp.decMod_eq (e : Exp) : e.decMod = e.keyLen := by cases e <;> decide

/-- what the constructors need: Vanilla indexes the session key itself, which has 40 bytes
    (`[u8; 40]` in the API); TBC indexes an HMAC-SHA1 output, 20 bytes for a well-formed `Crypto` -/
def HeaderKeyOk (C : Crypto) : Exp → Bytes → Prop
  | .vanilla, K => K.length = 40
  | .tbc, _ => C.WF

theorem Half.newEnc_inv (C : Crypto) (e : Exp) (K : Bytes) (hK : HeaderKeyOk C e K) :
    (Half.newEnc C e K).Inv e.keyLen := by
  cases e
  · simp only [HeaderKeyOk] at hK; simp [Half.newEnc, Half.Inv, Exp.keyLen, hK]
  · simp only [HeaderKeyOk] at hK; simp [Half.newEnc, Half.Inv, Exp.keyLen, hK.hmac_len]

theorem Half.newDec_inv (C : Crypto) (e : Exp) (K : Bytes) (hK : HeaderKeyOk C e K) :
    (Half.newDec C e K).Inv e.keyLen := by
  cases e
  · simp only [HeaderKeyOk] at hK; simp [Half.newDec, Half.Inv, Exp.keyLen, hK]
  · simp only [HeaderKeyOk] at hK; simp [Half.newDec, Half.Inv, Exp.keyLen, hK.hmac_len]

theorem Half.encrypt_ok (e : Exp) (h : Half) (data : Bytes) (hi : h.Inv e.keyLen) :
    ∃ h' out, h.encrypt e data = .ok (h', out) ∧ h'.Inv e.keyLen ∧ out.length = data.length := by
  unfold Half.encrypt
  rw [Exp.encMod_eq]
  exact runSteps_ok_of_inv _ (Half.Inv e.keyLen)
    (fun h x hp => ⟨_, _, encStep_ok _ h x hp, Half.Inv_step _ h _ hp⟩) h data hi

theorem Half.decrypt_ok (e : Exp) (h : Half) (data : Bytes) (hi : h.Inv e.keyLen) :
    ∃ h' out, h.decrypt e data = .ok (h', out) ∧ h'.Inv e.keyLen ∧ out.length = data.length := by
  unfold Half.decrypt
  rw [Exp.decMod_eq]
  exact runSteps_ok_of_inv _ (Half.Inv e.keyLen)
    (fun h x hp => ⟨_, _, decStep_ok _ h x hp, Half.Inv_step _ h _ hp⟩) h data hi

theorem parseServerHeader_ok (p : Bytes) (h : p.length = 4) : ∃ r, parseServerHeader p = .ok r := by
  match p, h with
  | [_, _, _, _], _ => exact ⟨_, rfl⟩

theorem parseClientHeader_ok (p : Bytes) (h : p.length = 6) : ∃ r, parseClientHeader p = .ok r := by
  match p, h with
  | [_, _, _, _, _, _], _ => exact ⟨_, rfl⟩

theorem Half.decryptServerHeader_ok (e : Exp) (h : Half) (data : Bytes) (hi : h.Inv e.keyLen)
    (hl : data.length = 4) :
    ∃ h' r, h.decryptServerHeader e data = .ok (h', r) ∧ h'.Inv e.keyLen := by
  obtain ⟨h', out, hd, hi', ho⟩ := Half.decrypt_ok e h data hi
  obtain ⟨r, hr⟩ := parseServerHeader_ok out (by omega)
  refine ⟨h', r, ?_, hi'⟩
  unfold Half.decryptServerHeader
  simp only [hd, Out.bind_ok, hr, Out.pure_eq]

theorem Half.decryptClientHeader_ok (e : Exp) (h : Half) (data : Bytes) (hi : h.Inv e.keyLen)
    (hl : data.length = 6) :
    ∃ h' r, h.decryptClientHeader e data = .ok (h', r) ∧ h'.Inv e.keyLen := by
  obtain ⟨h', out, hd, hi', ho⟩ := Half.decrypt_ok e h data hi
  obtain ⟨r, hr⟩ := parseClientHeader_ok out (by omega)
  refine ⟨h', r, ?_, hi'⟩
  unfold Half.decryptClientHeader
  simp only [hd, Out.bind_ok, hr, Out.pure_eq]

theorem Half.readServerHeader_ok (e : Exp) (h : Half) (script : List REv) (hi : h.Inv e.keyLen) :
    ∃ r, h.readServerHeader e script = .ok r ∧ r.state.Inv e.keyLen := by
  unfold Half.readServerHeader
  cases hre : readExact script Gen.vanillaServerHeaderLength [] with
  | mk res rest =>
    cases res with
    | error k => exact ⟨_, rfl, hi⟩
    | ok buf =>
      have hl : buf.length = 4 := by
        have := readExact_length _ _ _ _ _ hre
        simp only [List.length_nil, Nat.zero_add] at this
        exact this
      obtain ⟨h', r, hd, hi'⟩ := Half.decryptServerHeader_ok e h buf hi hl
      simp only [hd, Out.bind_ok, Out.pure_eq]
      exact ⟨_, rfl, hi'⟩

theorem Half.readClientHeader_ok (e : Exp) (h : Half) (script : List REv) (hi : h.Inv e.keyLen) :
    ∃ r, h.readClientHeader e script = .ok r ∧ r.state.Inv e.keyLen := by
  unfold Half.readClientHeader
  cases hre : readExact script Gen.vanillaClientHeaderLength [] with
  | mk res rest =>
    cases res with
    | error k => exact ⟨_, rfl, hi⟩
    | ok buf =>
      have hl : buf.length = 6 := by
        have := readExact_length _ _ _ _ _ hre
        simp only [List.length_nil, Nat.zero_add] at this
        exact this
      obtain ⟨h', r, hd, hi'⟩ := Half.decryptClientHeader_ok e h buf hi hl
      simp only [hd, Out.bind_ok, Out.pure_eq]
      exact ⟨_, rfl, hi'⟩

/-! ### RC4 -/

theorem getOut_ok (s : Array UInt8) (a : Nat) (h : a < s.size) : getOut s a = .ok s[a] := by
  unfold getOut
  simp [h]

theorem swapOut_ok (s : Array UInt8) (a b : Nat) (ha : a < s.size) (hb : b < s.size) :
    ∃ s', swapOut s a b = .ok s' ∧ s'.size = s.size := by
  unfold swapOut
  simp only [Array.getElem?_eq_getElem ha, Array.getElem?_eq_getElem hb]
  exact ⟨_, rfl, by simp⟩

theorem UInt8.toNat_lt_256 (x : UInt8) : x.toNat < 256 := x.toNat_lt

/-- the key-scheduling loop stays inside the 256-byte state, for every key (the empty key included) -/
theorem ksaLoop_ok (key : Bytes) (fuel i : Nat) (s : Array UInt8) (j : UInt8) (hs : s.size = 256)
    (hi : i + fuel ≤ 256) : ∃ s', ksaLoop key fuel i s j = .ok s' ∧ s'.size = 256 := by
  induction fuel generalizing i s j with
  | zero => exact ⟨s, rfl, hs⟩
  | succ n ih =>
    unfold ksaLoop
    split
    · exact ⟨s, rfl, hs⟩
    · next k _ =>
      have h1 : i < s.size := by omega
      rw [getOut_ok s i h1]
      simp only [Out.bind_ok]
      obtain ⟨s', hsw, hsz⟩ := swapOut_ok s i (j + s[i] + k).toNat h1
        (by rw [hs]; exact UInt8.toNat_lt_256 _)
      rw [hsw]
      simp only [Out.bind_ok]
      exact ih (i + 1) s' _ (by omega) (by omega)

/-- `Rc4::new` never panics, for a key of any length -/
theorem Rc4.new_ok (key : Bytes) : ∃ r, Rc4.new key = .ok r ∧ r.state.size = 256 := by
  unfold Rc4.new
  obtain ⟨s', h, hsz⟩ := ksaLoop_ok key 256 0 ((Array.range 256).map UInt8.ofNat) 0 (by simp) (by omega)
  simp only [h, Out.bind_ok, Out.pure_eq]
  exact ⟨_, rfl, hsz⟩

/-- one keystream byte: all five indices are `u8`s, the state has 256 entries -/
theorem Rc4.prga_ok (r : Rc4) (hs : r.state.size = 256) :
    ∃ r' v, r.prga = .ok (r', v) ∧ r'.state.size = 256 := by
  unfold Rc4.prga
  dsimp only
  have hb : ∀ (x : UInt8), x.toNat < r.state.size := fun x => by rw [hs]; exact UInt8.toNat_lt_256 x
  rw [getOut_ok _ _ (hb _)]
  simp only [Out.bind_ok]
  obtain ⟨s', hsw, hsz⟩ := swapOut_ok r.state (r.i + 1).toNat (r.j + r.state[(r.i + 1).toNat]'(hb _)).toNat (hb _) (hb _)
  rw [hsw]
  simp only [Out.bind_ok]
  have hb' : ∀ (x : UInt8), x.toNat < s'.size := fun x => by rw [hsz]; exact hb x
  rw [getOut_ok _ _ (hb' _)]
  simp only [Out.bind_ok]
  rw [getOut_ok _ _ (hb' _)]
  simp only [Out.bind_ok]
  rw [getOut_ok _ _ (hb' _)]
  simp only [Out.bind_ok, Out.pure_eq]
  exact ⟨_, _, rfl, by rw [hsz, hs]⟩

theorem Rc4.step_ok (r : Rc4) (x : UInt8) (hs : r.state.size = 256) :
    ∃ r' y, r.step x = .ok (r', y) ∧ r'.state.size = 256 := by
  obtain ⟨r', v, h, hsz⟩ := Rc4.prga_ok r hs
  unfold Rc4.step
  simp only [h, Out.bind_ok, Out.pure_eq]
  exact ⟨_, _, rfl, hsz⟩

/-- `apply_keystream` on any data never panics and keeps the state a 256-byte array -/
theorem Rc4.apply_ok (r : Rc4) (data : Bytes) (hs : r.state.size = 256) :
    ∃ r' out, r.apply data = .ok (r', out) ∧ r'.state.size = 256 ∧ out.length = data.length :=
  runSteps_ok_of_inv Rc4.step (fun r => r.state.size = 256) (fun r x hp => Rc4.step_ok r x hp) r data hs

/-- `InnerCrypto::new`: keying and the 1024-byte drop never panic, for every `Crypto` and session key -/
theorem InnerCrypto.new_ok (C : Crypto) (K key : Bytes) :
    ∃ r, InnerCrypto.new C K key = .ok r ∧ r.state.size = 256 := by
  unfold InnerCrypto.new
  obtain ⟨r, h, hsz⟩ := Rc4.new_ok (C.hmac key K)
  obtain ⟨r', out, ha, hsz', _⟩ := Rc4.apply_ok r (List.replicate Gen.wrathDrop 0) hsz
  simp only [h, Out.bind_ok, ha, Out.pure_eq]
  exact ⟨_, rfl, hsz'⟩

/-! ### Wrath halves -/

/-- invariant of the client's decrypter: 256-byte RC4 state, 4-byte header buffer -/
def WClientDec.Inv (h : WClientDec) : Prop := h.rc4.state.size = 256 ∧ h.header.length = 4

def WServerEnc.Inv (h : WServerEnc) : Prop := h.rc4.state.size = 256

theorem WClientDec.new_ok (C : Crypto) (K : Bytes) : ∃ h, WClientDec.new C K = .ok h ∧ h.Inv := by
  unfold WClientDec.new
  obtain ⟨r, h, hsz⟩ := InnerCrypto.new_ok C K keyClientDec
  simp only [h, Out.bind_ok, Out.pure_eq]
  exact ⟨_, rfl, hsz, by simp [Gen.wrathServerHeaderMinLength]⟩

theorem WServerEnc.new_ok (C : Crypto) (K : Bytes) : ∃ h, WServerEnc.new C K = .ok h ∧ h.Inv := by
  unfold WServerEnc.new
  obtain ⟨r, h, hsz⟩ := InnerCrypto.new_ok C K keyServerEnc
  simp only [h, Out.bind_ok, Out.pure_eq]
  exact ⟨_, rfl, hsz⟩

theorem WClientEnc.new_ok (C : Crypto) (K : Bytes) : ∃ r, WClientEnc.new C K = .ok r ∧ r.state.size = 256 :=
  InnerCrypto.new_ok C K keyClientEnc

theorem WServerDec.new_ok (C : Crypto) (K : Bytes) : ∃ r, WServerDec.new C K = .ok r ∧ r.state.size = 256 :=
  InnerCrypto.new_ok C K keyServerDec

theorem WClientCrypto.new_ok (C : Crypto) (K : Bytes) :
    ∃ c, WClientCrypto.new C K = .ok c ∧ c.decrypt.Inv ∧ c.encrypt.state.size = 256 := by
  unfold WClientCrypto.new
  obtain ⟨d, hd, hdi⟩ := WClientDec.new_ok C K
  obtain ⟨e, he, hei⟩ := WClientEnc.new_ok C K
  simp only [hd, he, Out.bind_ok, Out.pure_eq]
  exact ⟨_, rfl, hdi, hei⟩

theorem WServerCrypto.new_ok (C : Crypto) (K : Bytes) :
    ∃ c, WServerCrypto.new C K = .ok c ∧ c.decrypt.state.size = 256 ∧ c.encrypt.Inv := by
  unfold WServerCrypto.new
  obtain ⟨d, hd, hdi⟩ := WServerDec.new_ok C K
  obtain ⟨e, he, hei⟩ := WServerEnc.new_ok C K
  simp only [hd, he, Out.bind_ok, Out.pure_eq]
  exact ⟨_, rfl, hdi, hei⟩

theorem WClientDec.decrypt_ok (h : WClientDec) (data : Bytes) (hi : h.Inv) :
    ∃ h' out, h.decrypt data = .ok (h', out) ∧ h'.Inv ∧ out.length = data.length := by
  obtain ⟨r', out, ha, hsz, hl⟩ := Rc4.apply_ok h.rc4 data hi.1
  unfold WClientDec.decrypt
  simp only [ha, Out.bind_ok, Out.pure_eq]
  exact ⟨_, _, rfl, ⟨hsz, hi.2⟩, hl⟩

/-- `attempt_decrypt_server_header([u8; 4])` -/
theorem WClientDec.attempt_ok (h : WClientDec) (buf : Bytes) (hi : h.Inv) (hl : buf.length = 4) :
    ∃ h' a, h.attempt buf = .ok (h', a) ∧ h'.Inv := by
  obtain ⟨r', out, ha, hsz, hol⟩ := Rc4.apply_ok h.rc4 buf hi.1
  unfold WClientDec.attempt
  simp only [ha, Out.bind_ok]
  match out, hol.trans hl with
  | [b0, b1, b2, b3], _ =>
    simp only
    by_cases hlarge : largeHeader b0 = true
    · simp only [hlarge, if_true, Out.pure_eq]
      exact ⟨_, _, rfl, hsz, rfl⟩
    · simp only [hlarge, Bool.false_eq_true, if_false, parseSmall, Out.bind_ok, Out.pure_eq]
      exact ⟨_, _, rfl, hsz, hi.2⟩

/-- `decrypt_large_server_header(u8)` — also when no `attempt` preceded it -/
theorem WClientDec.decryptLarge_ok (h : WClientDec) (byte : UInt8) (hi : h.Inv) :
    ∃ h' r, h.decryptLarge byte = .ok (h', r) ∧ h'.Inv := by
  obtain ⟨r', out, ha, hsz, hol⟩ := Rc4.apply_ok h.rc4 [byte] hi.1
  unfold WClientDec.decryptLarge
  simp only [ha, Out.bind_ok]
  have h5 : (h.header ++ out).length = 5 := by
    rw [List.length_append, hi.2, hol]; rfl
  match hh : h.header ++ out, h5 with
  | [b0, b1, b2, b3, b4], _ =>
    simp only [parseLarge, Out.bind_ok, Out.pure_eq]
    exact ⟨_, _, rfl, hsz, hi.2⟩

theorem WClientDec.readServerHeader_ok (h : WClientDec) (script : List REv) (hi : h.Inv) :
    ∃ r, h.readServerHeader script = .ok r ∧ r.state.Inv := by
  unfold WClientDec.readServerHeader
  cases hre : readExact script 4 [] with
  | mk res rest =>
    cases res with
    | error k => exact ⟨_, rfl, hi⟩
    | ok buf =>
      have hl : buf.length = 4 := by
        have := readExact_length _ _ _ _ _ hre
        simp only [List.length_nil, Nat.zero_add] at this
        exact this
      obtain ⟨h', a, hat, hi'⟩ := WClientDec.attempt_ok h buf hi hl
      simp only [hat, Out.bind_ok]
      cases a with
      | header s o => exact ⟨_, rfl, hi'⟩
      | additionalByteRequired =>
        simp only
        cases hre2 : readExact rest 1 [] with
        | mk res2 rest2 =>
          cases res2 with
          | error k => exact ⟨_, rfl, hi'⟩
          | ok b =>
            obtain ⟨h'', r, hdl, hi''⟩ := WClientDec.decryptLarge_ok h' (b.headD 0) hi'
            simp only [hdl, Out.bind_ok, Out.pure_eq]
            exact ⟨_, rfl, hi''⟩

/-- `ServerDecrypterHalf::decrypt_client_header([u8; 6])` -/
theorem wServerDecryptHeader_ok (r : Rc4) (data : Bytes) (hs : r.state.size = 256) (hl : data.length = 6) :
    ∃ r' h, wServerDecryptHeader r data = .ok (r', h) ∧ r'.state.size = 256 := by
  obtain ⟨r', out, ha, hsz, hol⟩ := Rc4.apply_ok r data hs
  obtain ⟨p, hp⟩ := parseClientHeader_ok out (by omega)
  unfold wServerDecryptHeader
  simp only [ha, Out.bind_ok, hp, Out.pure_eq]
  exact ⟨_, _, rfl, hsz⟩

theorem wServerReadHeader_ok (r : Rc4) (script : List REv) (hs : r.state.size = 256) :
    ∃ res, wServerReadHeader r script = .ok res ∧ res.state.state.size = 256 := by
  unfold wServerReadHeader
  cases hre : readExact script Gen.wrathClientHeaderLength [] with
  | mk res rest =>
    cases res with
    | error k => exact ⟨_, rfl, hs⟩
    | ok buf =>
      have hl : buf.length = 6 := by
        have := readExact_length _ _ _ _ _ hre
        simp only [List.length_nil, Nat.zero_add] at this
        exact this
      obtain ⟨r', h, hd, hsz⟩ := wServerDecryptHeader_ok r buf hs hl
      simp only [hd, Out.bind_ok, Out.pure_eq]
      exact ⟨_, rfl, hsz⟩

theorem WServerEnc.encrypt_ok (h : WServerEnc) (data : Bytes) (hi : h.Inv) :
    ∃ h' out, h.encrypt data = .ok (h', out) ∧ h'.Inv := by
  obtain ⟨r', out, ha, hsz, _⟩ := Rc4.apply_ok h.rc4 data hi
  unfold WServerEnc.encrypt
  simp only [ha, Out.bind_ok, Out.pure_eq]
  exact ⟨_, _, rfl, hsz⟩

theorem WServerEnc.encryptServerHeader_ok (h : WServerEnc) (size opcode : Nat) (hi : h.Inv) :
    ∃ h' out, h.encryptServerHeader size opcode = .ok (h', out) ∧ h'.Inv := by
  obtain ⟨r', out, ha, hsz, _⟩ := Rc4.apply_ok h.rc4 (wrathServerHeaderBytes size opcode) hi
  unfold WServerEnc.encryptServerHeader
  simp only [ha, Out.bind_ok, Out.pure_eq]
  exact ⟨_, _, rfl, hsz⟩

/-! ### the `HeaderCrypto` facade (Vanilla / TBC) -/

def HeaderCrypto.Inv (e : Exp) (hc : HeaderCrypto) : Prop :=
  hc.decrypt.Inv e.keyLen ∧ hc.encrypt.Inv e.keyLen

theorem HeaderCrypto.new_inv (C : Crypto) (e : Exp) (K : Bytes) (hK : HeaderKeyOk C e K) :
    (HeaderCrypto.new C e K).Inv e :=
  ⟨Half.newDec_inv C e K hK, Half.newEnc_inv C e K hK⟩

theorem HeaderCrypto.decryptData_ok (e : Exp) (hc : HeaderCrypto) (data : Bytes) (hi : hc.Inv e) :
    ∃ hc' out, hc.decryptData e data = .ok (hc', out) ∧ hc'.Inv e ∧ out.length = data.length := by
  obtain ⟨h', out, hd, hi', hl⟩ := Half.decrypt_ok e hc.decrypt data hi.1
  unfold HeaderCrypto.decryptData
  simp only [hd, Out.bind_ok, Out.pure_eq]
  exact ⟨_, _, rfl, ⟨hi', hi.2⟩, hl⟩

theorem HeaderCrypto.encryptData_ok (e : Exp) (hc : HeaderCrypto) (data : Bytes) (hi : hc.Inv e) :
    ∃ hc' out, hc.encryptData e data = .ok (hc', out) ∧ hc'.Inv e ∧ out.length = data.length := by
  obtain ⟨h', out, hd, hi', hl⟩ := Half.encrypt_ok e hc.encrypt data hi.2
  unfold HeaderCrypto.encryptData
  simp only [hd, Out.bind_ok, Out.pure_eq]
  exact ⟨_, _, rfl, ⟨hi.1, hi'⟩, hl⟩

theorem HeaderCrypto.decryptServerHeader_ok (e : Exp) (hc : HeaderCrypto) (data : Bytes) (hi : hc.Inv e)
    (hl : data.length = 4) : ∃ hc' r, hc.decryptServerHeader e data = .ok (hc', r) ∧ hc'.Inv e := by
  obtain ⟨h', r, hd, hi'⟩ := Half.decryptServerHeader_ok e hc.decrypt data hi.1 hl
  unfold HeaderCrypto.decryptServerHeader
  simp only [hd, Out.bind_ok, Out.pure_eq]
  exact ⟨_, _, rfl, hi', hi.2⟩

theorem HeaderCrypto.decryptClientHeader_ok (e : Exp) (hc : HeaderCrypto) (data : Bytes) (hi : hc.Inv e)
    (hl : data.length = 6) : ∃ hc' r, hc.decryptClientHeader e data = .ok (hc', r) ∧ hc'.Inv e := by
  cases e with
  | vanilla =>
    obtain ⟨hc', out, hd, hi', ho⟩ := HeaderCrypto.decryptData_ok .vanilla hc data hi
    obtain ⟨r, hr⟩ := parseClientHeader_ok out (by omega)
    unfold HeaderCrypto.decryptClientHeader
    simp only [hd, Out.bind_ok, hr, Out.pure_eq]
    exact ⟨_, _, rfl, hi'⟩
  | tbc =>
    obtain ⟨h', r, hd, hi'⟩ := Half.decryptClientHeader_ok .tbc hc.decrypt data hi.1 hl
    unfold HeaderCrypto.decryptClientHeader
    simp only [hd, Out.bind_ok, Out.pure_eq]
    exact ⟨_, _, rfl, hi', hi.2⟩

/-! ### any sequence of calls -/

/-- a history: calls `cs` made one after the other on an object, each on the state the previous left -/
def runCalls {σ κ : Type} (run : σ → κ → Out σ) : σ → List κ → Out σ
  | s, [] => .ok s
  | s, c :: cs =>
    match run s c with
    | .panic p => .panic p
    | .ok s' => runCalls run s' cs

theorem runCalls_ok_of_inv {σ κ : Type} (run : σ → κ → Out σ) (P : σ → Prop) (T : κ → Prop)
    (hrun : ∀ s c, P s → T c → ∃ s', run s c = .ok s' ∧ P s') (s : σ) (cs : List κ) (hp : P s)
    (ht : ∀ c ∈ cs, T c) : ∃ s', runCalls run s cs = .ok s' ∧ P s' := by
  induction cs generalizing s with
  | nil => exact ⟨s, rfl, hp⟩
  | cons c cs ih =>
    obtain ⟨s1, h1, hp1⟩ := hrun s c hp (ht c (List.mem_cons_self ..))
    obtain ⟨s2, h2, hp2⟩ := ih s1 hp1 (fun c' hc' => ht c' (List.mem_cons_of_mem _ hc'))
    exact ⟨s2, by simp only [runCalls, h1, h2], hp2⟩

end WowSrp
