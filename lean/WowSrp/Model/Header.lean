/-
Model of the Vanilla and TBC header ciphers:
src/vanilla_header/{encrypt,decrypt,mod}.rs, src/tbc_header/{encrypt,decrypt,mod}.rs.
-/
import WowSrp.Model.Deps
import WowSrp.Model.Crypto
import WowSrp.Gen.Constants
namespace WowSrp

/-- `EncrypterHalf` / `DecrypterHalf` (Vanilla: 40-byte session key; TBC: 20-byte HMAC key) -/
structure Half where
  key : Bytes
  index : Nat        -- `u8` in the Rust
  prev : UInt8
deriving Repr, DecidableEq

/-- one iteration of `for unencrypted in data` in `encrypt(..)`; `m` is the constant after `%` -/
def encStep (m : Nat) (h : Half) (x : UInt8) : Out (Half × UInt8) :=
  match h.key[h.index]? with
  | none => .panic "encrypt.rs: session_key[index] out of bounds"
  | some k =>
    let c := (x ^^^ k) + h.prev
    if h.index + 1 > 255 then .panic "encrypt.rs: *index + 1 overflows u8" else
    if m = 0 then .panic "encrypt.rs: remainder by zero" else
    .ok ({ h with index := (h.index + 1) % m, prev := c }, c)

/-- one iteration of `for encrypted in data` in `decrypt(..)` -/
def decStep (m : Nat) (h : Half) (c : UInt8) : Out (Half × UInt8) :=
  match h.key[h.index]? with
  | none => .panic "decrypt.rs: session_key[index] out of bounds"
  | some k =>
    let x := (c - h.prev) ^^^ k
    if h.index + 1 > 255 then .panic "decrypt.rs: *index + 1 overflows u8" else
    if m = 0 then .panic "decrypt.rs: remainder by zero" else
    .ok ({ h with index := (h.index + 1) % m, prev := c }, x)

/-- a whole call: the loop over `data` -/
def runSteps {σ : Type} (step : σ → UInt8 → Out (σ × UInt8)) : σ → Bytes → Out (σ × Bytes)
  | h, [] => .ok (h, [])
  | h, x :: xs =>
    match step h x with
    | .panic p => .panic p
    | .ok (h', y) =>
      match runSteps step h' xs with
      | .panic p => .panic p
      | .ok (h'', ys) => .ok (h'', y :: ys)

/-- tail-recursive variant for the compiled driver (long streams); equal to `runSteps` (Lemmas/Header) -/
def runStepsTR {σ : Type} (step : σ → UInt8 → Out (σ × UInt8)) (h : σ) (xs : Bytes) : Out (σ × Bytes) :=
  let rec go (h : σ) (xs : Bytes) (acc : Array UInt8) : Out (σ × Bytes) :=
    match xs with
    | [] => .ok (h, acc.toList)
    | x :: xs =>
      match step h x with
      | .panic p => .panic p
      | .ok (h', y) => go h' xs (acc.push y)
  go h xs #[]

/-- which expansion's constants a half uses -/
inductive Exp where
  | vanilla
  | tbc
deriving Repr, DecidableEq

def Exp.encMod : Exp → Nat
  | .vanilla => Gen.vanillaEncMod
  | .tbc => Gen.tbcEncMod
def Exp.decMod : Exp → Nat
  | .vanilla => Gen.vanillaDecMod
  | .tbc => Gen.tbcDecMod

/-- `EncrypterHalf::new` -/
def Half.newEnc (C : Crypto) : Exp → Bytes → Half
  | .vanilla, K => ⟨K, 0, 0⟩
  | .tbc, K => ⟨C.hmac Gen.tbcSeedEnc K, 0, 0⟩
/-- `DecrypterHalf::new` -/
def Half.newDec (C : Crypto) : Exp → Bytes → Half
  | .vanilla, K => ⟨K, 0, 0⟩
  | .tbc, K => ⟨C.hmac Gen.tbcSeedDec K, 0, 0⟩

/-- `EncrypterHalf::encrypt` -/
def Half.encrypt (e : Exp) (h : Half) (data : Bytes) : Out (Half × Bytes) := runSteps (encStep e.encMod) h data
/-- `DecrypterHalf::decrypt` -/
def Half.decrypt (e : Exp) (h : Half) (data : Bytes) : Out (Half × Bytes) := runSteps (decStep e.decMod) h data

/-! ### wire layouts (shared by all three expansions) -/
/-- `u16::to_be_bytes` -/
def be16 (n : Nat) : Bytes := [UInt8.ofNat (n / 256 % 256), UInt8.ofNat (n % 256)]
/-- server header plaintext: big-endian size, little-endian opcode -/
def serverHeaderBytes (size opcode : Nat) : Bytes := be16 size ++ leN 2 opcode
/-- client header plaintext -/
def clientHeaderBytes (size opcode : Nat) : Bytes := be16 size ++ leN 4 opcode

/-- `ServerHeader::from_array` / `ClientHeader::from_array`: (size, opcode) -/
def parseServerHeader : Bytes → Out (Nat × Nat)
  | [b0, b1, b2, b3] => .ok (b0.toNat * 256 + b1.toNat, b2.toNat + 256 * b3.toNat)
  | _ => .panic "header array length"
def parseClientHeader : Bytes → Out (Nat × Nat)
  | [b0, b1, b2, b3, b4, b5] =>
    .ok (b0.toNat * 256 + b1.toNat, b2.toNat + 256 * (b3.toNat + 256 * (b4.toNat + 256 * b5.toNat)))
  | _ => .panic "header array length"

/-- `encrypt_server_header(size: u16, opcode: u16)` -/
def Half.encryptServerHeader (e : Exp) (h : Half) (size opcode : Nat) : Out (Half × Bytes) :=
  h.encrypt e (serverHeaderBytes size opcode)
/-- `encrypt_client_header(size: u16, opcode: u32)` -/
def Half.encryptClientHeader (e : Exp) (h : Half) (size opcode : Nat) : Out (Half × Bytes) :=
  h.encrypt e (clientHeaderBytes size opcode)
/-- `decrypt_server_header([u8; 4])` -/
def Half.decryptServerHeader (e : Exp) (h : Half) (data : Bytes) : Out (Half × (Nat × Nat)) := do
  let (h', p) ← h.decrypt e data
  let r ← parseServerHeader p
  pure (h', r)
/-- `decrypt_client_header([u8; 6])` -/
def Half.decryptClientHeader (e : Exp) (h : Half) (data : Bytes) : Out (Half × (Nat × Nat)) := do
  let (h', p) ← h.decrypt e data
  let r ← parseClientHeader p
  pure (h', r)

/-- result of an I/O wrapper: the (possibly unchanged) state, the io::Result, what is left of the
    reader script / what reached the sink -/
structure IoRes (σ α β : Type) where
  state : σ
  result : Except IoKind α
  rest : β

/-- `read_and_decrypt_server_header`: `read_exact` into a local buffer first, cipher afterwards -/
def Half.readServerHeader (e : Exp) (h : Half) (script : List REv) :
    Out (IoRes Half (Nat × Nat) (List REv)) :=
  match readExact script Gen.vanillaServerHeaderLength [] with
  | (.error k, rest) => .ok ⟨h, .error k, rest⟩
  | (.ok buf, rest) => do
    let (h', r) ← h.decryptServerHeader e buf
    pure ⟨h', .ok r, rest⟩

/-- `read_and_decrypt_client_header` -/
def Half.readClientHeader (e : Exp) (h : Half) (script : List REv) :
    Out (IoRes Half (Nat × Nat) (List REv)) :=
  match readExact script Gen.vanillaClientHeaderLength [] with
  | (.error k, rest) => .ok ⟨h, .error k, rest⟩
  | (.ok buf, rest) => do
    let (h', r) ← h.decryptClientHeader e buf
    pure ⟨h', .ok r, rest⟩

/-- `write_encrypted_server_header`: encrypt into a local buffer, then `write_all`, error propagated -/
def Half.writeServerHeader (e : Exp) (h : Half) (size opcode : Nat) (script : List WEv) :
    Out (IoRes Half Unit Bytes) := do
  let (h', buf) ← h.encryptServerHeader e size opcode
  let (r, sink) := writeAll script buf []
  pure ⟨h', r, sink⟩

/-- `write_encrypted_client_header` -/
def Half.writeClientHeader (e : Exp) (h : Half) (size opcode : Nat) (script : List WEv) :
    Out (IoRes Half Unit Bytes) := do
  let (h', buf) ← h.encryptClientHeader e size opcode
  let (r, sink) := writeAll script buf []
  pure ⟨h', r, sink⟩

/-! ### the combined object -/

/-- `HeaderCrypto { decrypt, encrypt }` -/
structure HeaderCrypto where
  decrypt : Half
  encrypt : Half
deriving Repr, DecidableEq

/-- `HeaderCrypto::new` -/
def HeaderCrypto.new (C : Crypto) (e : Exp) (K : Bytes) : HeaderCrypto :=
  ⟨Half.newDec C e K, Half.newEnc C e K⟩

/-- `HeaderCrypto::split` -/
def HeaderCrypto.split (hc : HeaderCrypto) : Half × Half := (hc.encrypt, hc.decrypt)

/-- `EncrypterHalf::is_pair_of` (Vanilla only) -/
def Half.isPairOf (enc dec : Half) : Bool := enc.key == dec.key

/-- `EncrypterHalf::unsplit` (Vanilla only) -/
def Half.unsplit (enc dec : Half) : Option HeaderCrypto :=
  if !enc.isPairOf dec then none else some ⟨dec, enc⟩

/-- facade methods delegate to the halves -/
def HeaderCrypto.encryptData (e : Exp) (hc : HeaderCrypto) (data : Bytes) : Out (HeaderCrypto × Bytes) := do
  let (h', out) ← hc.encrypt.encrypt e data
  pure ({ hc with encrypt := h' }, out)
def HeaderCrypto.decryptData (e : Exp) (hc : HeaderCrypto) (data : Bytes) : Out (HeaderCrypto × Bytes) := do
  let (h', out) ← hc.decrypt.decrypt e data
  pure ({ hc with decrypt := h' }, out)
def HeaderCrypto.encryptServerHeader (e : Exp) (hc : HeaderCrypto) (size opcode : Nat) :
    Out (HeaderCrypto × Bytes) := do
  let (h', out) ← hc.encrypt.encryptServerHeader e size opcode
  pure ({ hc with encrypt := h' }, out)
def HeaderCrypto.encryptClientHeader (e : Exp) (hc : HeaderCrypto) (size opcode : Nat) :
    Out (HeaderCrypto × Bytes) := do
  let (h', out) ← hc.encrypt.encryptClientHeader e size opcode
  pure ({ hc with encrypt := h' }, out)
def HeaderCrypto.decryptServerHeader (e : Exp) (hc : HeaderCrypto) (data : Bytes) :
    Out (HeaderCrypto × (Nat × Nat)) := do
  let (h', r) ← hc.decrypt.decryptServerHeader e data
  pure ({ hc with decrypt := h' }, r)
/-- Vanilla's `HeaderCrypto::decrypt_client_header` has its own inline parse (TBC delegates) -/
def HeaderCrypto.decryptClientHeader (e : Exp) (hc : HeaderCrypto) (data : Bytes) :
    Out (HeaderCrypto × (Nat × Nat)) :=
  match e with
  | .vanilla => do
    let (hc', p) ← hc.decryptData e data
    let r ← parseClientHeader p
    pure (hc', r)
  | .tbc => do
    let (h', r) ← hc.decrypt.decryptClientHeader e data
    pure ({ hc with decrypt := h' }, r)

/-! the `Read` / `Write` convenience wrappers of the combined object
    (vanilla_header/mod.rs, tbc_header/mod.rs: `self.decrypt.read_and_decrypt_…(reader)`,
    `self.encrypt.write_encrypted_…(write, size, opcode)`): call the half's wrapper, the half (a field,
    mutated in place) holds its new state afterwards, the `io::Result` is passed through -/

/-- `HeaderCrypto::read_and_decrypt_server_header` -/
def HeaderCrypto.readServerHeader (e : Exp) (hc : HeaderCrypto) (script : List REv) :
    Out (IoRes HeaderCrypto (Nat × Nat) (List REv)) := do
  let r ← hc.decrypt.readServerHeader e script
  pure ⟨{ hc with decrypt := r.state }, r.result, r.rest⟩
/-- `HeaderCrypto::read_and_decrypt_client_header` -/
def HeaderCrypto.readClientHeader (e : Exp) (hc : HeaderCrypto) (script : List REv) :
    Out (IoRes HeaderCrypto (Nat × Nat) (List REv)) := do
  let r ← hc.decrypt.readClientHeader e script
  pure ⟨{ hc with decrypt := r.state }, r.result, r.rest⟩
/-- `HeaderCrypto::write_encrypted_server_header` -/
def HeaderCrypto.writeServerHeader (e : Exp) (hc : HeaderCrypto) (size opcode : Nat) (script : List WEv) :
    Out (IoRes HeaderCrypto Unit Bytes) := do
  let r ← hc.encrypt.writeServerHeader e size opcode script
  pure ⟨{ hc with encrypt := r.state }, r.result, r.rest⟩
/-- `HeaderCrypto::write_encrypted_client_header` -/
def HeaderCrypto.writeClientHeader (e : Exp) (hc : HeaderCrypto) (size opcode : Nat) (script : List WEv) :
    Out (IoRes HeaderCrypto Unit Bytes) := do
  let r ← hc.encrypt.writeClientHeader e size opcode script
  pure ⟨{ hc with encrypt := r.state }, r.result, r.rest⟩

end WowSrp
