/-
Deep embedding of the small imperative loops that decide a permutation: `pin_to_bytes` and `remap_pin_grid` (src/pin.rs, C16) and
`generate_coordinates` (src/matrix_card.rs, C18).

`tools/gen_imp.py` translates the functions from the working tree on every run into `Stmt` terms (Gen/CodeImp.lean); this file is
their meaning.  Scalars are natural numbers held in numbered slots, byte arrays are `Bytes` held in numbered slots (the translator numbers
the Rust names; it also does the typing, so every `+` and `*` carries the bit width of its Rust type):

  * `+` / `*` at width w panic when the result needs more than w bits (the harness builds with overflow checks), `-` panics below zero,
    `/` and `%` panic on a zero divisor, `e as T` truncates to T's width;
  * `a[i]` and `a[i] = v` panic out of bounds; a stored value that is not a byte is a translator error and panics;
  * `for x in lo..hi` evaluates its bounds once; `for (k, x) in (lo..=hi).rev().enumerate()` counts x down and k up;
  * `while a != b` carries a static iteration bound (the translator writes 64: none of the translated loops can run longer on the
    types involved); a loop still running after that many iterations panics, so a non-terminating rewrite is not equal to the model.

`Props/Source/Loops*.lean` prove the translated programs equal to the model's `pinToBytes`, `remapPinGrid`, `generateCoordinates` for
every input (up to the text of a panic message).
-/
import WowSrp.Model.Basic
namespace WowSrp.MiniImp

structure Env where
  vars : List Nat
  arrs : List Bytes
deriving Repr, DecidableEq

inductive Expr where
  | var (i : Nat)
  | lit (n : Nat)
  | add (w : Nat) (a b : Expr)
  | mul (w : Nat) (a b : Expr)
  | sub (a b : Expr)
  | div (a b : Expr)
  | rem (a b : Expr)
  | cast (w : Nat) (e : Expr)
  | idx (arr : Nat) (e : Expr)
  | unsupported (text : String)
deriving Repr, DecidableEq

inductive Stmt where
  | skip
  | seq (a b : Stmt)
  | set (x : Nat) (e : Expr)                          -- `let x = e;`, `x = e;`, `x op= e;` (desugared)
  | store (arr : Nat) (i e : Expr)                    -- `arr[i] = e;`
  | arrLit (arr : Nat) (vals : List Nat)              -- `let mut arr = [v0, v1, ..];`
  | arrNew (arr : Nat) (len : Expr)                   -- `let mut arr = vec![0_u8; len];`
  | arrCopy (dst src : Nat)                           -- `let mut dst = src;` (arrays are Copy)
  | forUp (x : Nat) (lo hi : Expr) (body : Stmt)      -- `for x in lo..hi { body }`
  | forDownEnum (k x : Nat) (lo hi : Expr) (body : Stmt)   -- `for (k, x) in (lo..=hi).rev().enumerate() { body }`
  | whileNe (bound : Nat) (a b : Expr) (body : Stmt)  -- `while a != b { body }`
  | reverse (arr : Nat) (lo hi : Expr)                -- `arr[lo..hi].reverse();`
  | unsupported (text : String)
deriving Repr, DecidableEq

def Env.getVar (env : Env) (i : Nat) : Out Nat :=
  match env.vars[i]? with
  | some v => .ok v
  | none => .panic "unbound variable"

def Env.setVar (env : Env) (i : Nat) (v : Nat) : Env :=
  { env with vars := if i < env.vars.length then env.vars.set i v else env.vars ++ List.replicate (i - env.vars.length) 0 ++ [v] }

def Env.getArr (env : Env) (i : Nat) : Out Bytes :=
  match env.arrs[i]? with
  | some a => .ok a
  | none => .panic "unbound array"

def Env.setArr (env : Env) (i : Nat) (a : Bytes) : Env :=
  { env with arrs := if i < env.arrs.length then env.arrs.set i a else env.arrs ++ List.replicate (i - env.arrs.length) [] ++ [a] }

def Expr.eval (env : Env) : Expr → Out Nat
  | .var i => env.getVar i
  | .lit n => .ok n
  | .add w a b => do
    let x ← a.eval env; let y ← b.eval env
    if x + y < 2 ^ w then .ok (x + y) else .panic "attempt to add with overflow"
  | .mul w a b => do
    let x ← a.eval env; let y ← b.eval env
    if x * y < 2 ^ w then .ok (x * y) else .panic "attempt to multiply with overflow"
  | .sub a b => do
    let x ← a.eval env; let y ← b.eval env
    if y ≤ x then .ok (x - y) else .panic "attempt to subtract with overflow"
  | .div a b => do
    let x ← a.eval env; let y ← b.eval env
    if y = 0 then .panic "attempt to divide by zero" else .ok (x / y)
  | .rem a b => do
    let x ← a.eval env; let y ← b.eval env
    if y = 0 then .panic "attempt to calculate the remainder with a divisor of zero" else .ok (x % y)
  | .cast w e => do
    let x ← e.eval env
    .ok (x % 2 ^ w)
  | .idx arr e => do
    let a ← env.getArr arr
    let i ← e.eval env
    match a[i]? with
    | some b => .ok b.toNat
    | none => .panic "index out of bounds"
  | .unsupported _ => .panic "source outside the translated subset"

/-- `count` iterations of `f`, the loop variable counting up from `cur` -/
def loopUp (f : Nat → Env → Out Env) : Nat → Nat → Env → Out Env
  | 0, _, env => .ok env
  | n + 1, cur, env =>
    match f cur env with
    | .ok e => loopUp f n (cur + 1) e
    | .panic p => .panic p

/-- `count` iterations of `f k x`, x counting down from `top`, k counting up from `k` -/
def loopDown (f : Nat → Nat → Env → Out Env) : Nat → Nat → Nat → Env → Out Env
  | 0, _, _, env => .ok env
  | n + 1, k, top, env =>
    match f k top env with
    | .ok e => loopDown f n (k + 1) (top - 1) e
    | .panic p => .panic p

/-- `while c { f }` with an iteration bound -/
def loopWhile (c : Env → Out Bool) (f : Env → Out Env) : Nat → Env → Out Env
  | 0, _ => .panic "loop still running after its static bound"
  | fuel + 1, env =>
    match c env with
    | .panic p => .panic p
    | .ok false => .ok env
    | .ok true =>
      match f env with
      | .ok e => loopWhile c f fuel e
      | .panic p => .panic p

def Stmt.exec : Stmt → Env → Out Env
  | .skip, env => .ok env
  | .seq a b, env =>
    match a.exec env with
    | .ok e => b.exec e
    | .panic p => .panic p
  | .set x e, env => do
    let v ← e.eval env
    .ok (env.setVar x v)
  | .store arr i e, env => do
    let a ← env.getArr arr
    let k ← i.eval env
    let v ← e.eval env
    if v ≥ 256 then .panic "stored value is not a byte (translator typing error)"
    else if k < a.length then .ok (env.setArr arr (a.set k (UInt8.ofNat v)))
    else .panic "index out of bounds"
  | .arrLit arr vals, env => .ok (env.setArr arr (vals.map UInt8.ofNat))
  | .arrNew arr len, env => do
    let n ← len.eval env
    .ok (env.setArr arr (List.replicate n 0))
  | .arrCopy dst src, env => do
    let a ← env.getArr src
    .ok (env.setArr dst a)
  | .forUp x lo hi body, env => do
    let l ← lo.eval env
    let h ← hi.eval env
    loopUp (fun cur e => body.exec (e.setVar x cur)) (h - l) l env
  | .forDownEnum k x lo hi body, env => do
    let l ← lo.eval env
    let h ← hi.eval env
    loopDown (fun kk cur e => body.exec ((e.setVar k kk).setVar x cur)) (h + 1 - l) 0 h env
  | .whileNe bound a b body, env =>
    loopWhile (fun e => do let x ← a.eval e; let y ← b.eval e; .ok (decide (x ≠ y))) (fun e => body.exec e) bound env
  | .reverse arr lo hi, env => do
    let a ← env.getArr arr
    let l ← lo.eval env
    let h ← hi.eval env
    if l ≤ h ∧ h ≤ a.length then .ok (env.setArr arr (a.take l ++ ((a.drop l).take (h - l)).reverse ++ a.drop h))
    else .panic "slice index out of range"
  | .unsupported _, _ => .panic "source outside the translated subset"

/-- what the function returns: a whole array (`remapped_grid`) or a slice of one (`&mut out_pin_array[0..i]`) -/
inductive Result where
  | arr (a : Nat)
  | slice (a : Nat) (lo hi : Expr)
deriving Repr, DecidableEq

def Result.get (env : Env) : Result → Out Bytes
  | .arr a => env.getArr a
  | .slice a lo hi => do
    let x ← env.getArr a
    let l ← lo.eval env
    let h ← hi.eval env
    if l ≤ h ∧ h ≤ x.length then .ok ((x.drop l).take (h - l)) else .panic "slice index out of range"

/-- a translated function: body and returned value -/
structure Fn where
  body : Stmt
  result : Result
deriving Repr, DecidableEq

/-- run with the scalar parameters in variable slots 0.., the array parameters in array slots 0.. -/
def Fn.run (f : Fn) (args : List Nat) (arrs : List Bytes) : Out Bytes :=
  match f.body.exec ⟨args, arrs⟩ with
  | .ok env => f.result.get env
  | .panic p => .panic p

/-- a translated function that returns a number -/
structure FnNat where
  body : Stmt
  result : Expr
deriving Repr, DecidableEq

def FnNat.run (f : FnNat) (args : List Nat) (arrs : List Bytes) : Out Nat :=
  match f.body.exec ⟨args, arrs⟩ with
  | .ok env => f.result.eval env
  | .panic p => .panic p

/-- the outcome with the text of a panic message forgotten -/
def forget {α} : Out α → Option α
  | .ok a => some a
  | .panic _ => none

end WowSrp.MiniImp
