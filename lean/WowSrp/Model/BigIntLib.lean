/-
Library-faithful models of the two big-integer `modpow` routes behind `bigint::Integer::modpow`
(/repo/src/bigint.rs), written SEPARATELY for each library, following each library's own source /
documentation — in contrast to `Backend.modpow` (`Model/Deps.lean`), which is one shared definition.
`Props/C19Backends.lean` proves that each of them equals the shared definition, so that the agreement
of the two back ends on `modpow` is a theorem about two different definitions, not a `rfl`.

Core only (no Mathlib): imports `Model/Basic.lean` and `Model/Deps.lean`.

Domain: the base is any integer (the client computes `B - k·g^x`, which may be negative); the exponent
and the modulus are non-negative in this crate (they come from `from_bytes_le` and from sums / products
of such values), so they are `Nat` here and the libraries' negative-exponent / negative-modulus branches
are out of scope.
-/
import WowSrp.Model.Basic
import WowSrp.Model.Deps
namespace WowSrp

/-! ### num-bigint 0.4 (`srp-default-math`) -/

/-- `BigUint::modpow` (num-bigint-0.4.8 `src/biguint/power.rs:134`): `assert!(!modulus.is_zero())`,
    then Montgomery (odd modulus) or plain square-and-multiply (even modulus); both return
    `x^e mod m`. Modelled by the square-and-multiply `powMod` of `Model/Basic.lean`
    (`= x ^ e % m`, `Lemmas/PowMod.lean: powMod_spec`). -/
def numBigUintModpow (x e m : Nat) : Out Nat :=
  if m = 0 then .panic "num-bigint modpow: zero modulus" else .ok (powMod x e m)

/-- `BigInt::modpow` (num-bigint-0.4.8 `src/bigint/power.rs:72`), line by line:
    ```
    assert!(!exponent.is_negative(), ..);              // exponent : Nat here
    assert!(!modulus.is_zero(), "attempt to calculate with zero modulus!");
    let result = x.data.modpow(&exponent.data, &modulus.data);   // on MAGNITUDES
    if result.is_zero() { return BigInt::ZERO; }
    let (sign, mag) = match (x.is_negative() && exponent.is_odd(), modulus.is_negative()) {
        (false, false) => (Plus, result),
        (true,  false) => (Plus, &modulus.data - result),
        ..                                              // modulus is never negative here
    };
    ```
    The panic site label is the one `Backend.modpow` uses for this back end (the library's own text
    is "attempt to calculate with zero modulus!"). -/
def numModpow (base : Int) (exp : Nat) (m : Nat) : Out Nat :=
  if m = 0 then .panic "num-bigint modpow: zero modulus"
  else
    numBigUintModpow base.natAbs exp m >>= fun result =>
      if result = 0 then .ok 0
      else if base < 0 ∧ exp % 2 = 1 then .ok (m - result)
      else .ok result

/-! ### rug 1.x / GMP (`srp-fast-math`) -/

/-- GMP `mpz_powm (rop, base, exp, mod)` for `exp ≥ 0`, `mod ≠ 0` ("Set rop to (base raised to exp)
    modulo mod"): the result is the non-negative residue `0 ≤ r < |mod|` of the INTEGER power, i.e.
    Euclidean remainder (`Int.emod`, Lean's `%` on `Int`). Stated on the integer power directly —
    deliberately not via magnitudes and a sign fix-up, which is how num-bigint does it. -/
def gmpPowm (base : Int) (exp : Nat) (m : Nat) : Nat :=
  ((base ^ exp) % (m : Int)).toNat

/-- rug `Integer::pow_mod(self, &exponent, &modulo) -> Result<Integer, Integer>` for a non-negative
    exponent (rug-1.30 `src/integer/big.rs: pow_mod_ref`): `None`/`Err` when the modulo is zero
    (`else if !modulo.is_zero() { Some(..) } else { None }`), otherwise `mpz_powm`. No inverse is
    needed for a non-negative exponent. `none` stands for `Err(unchanged)`. -/
def rugPowMod (base : Int) (exp : Nat) (m : Nat) : Option Nat :=
  if m = 0 then none else some (gmpPowm base exp m)

/-- rug `Integer::secure_pow_mod` (`src/ext/xmpz.rs: powm_sec`):
    `assert_eq!(exp.cmp0(), Greater, "exponent not greater than zero"); assert!(modu.is_odd(), "modulo
    not odd");` then `mpz_powm_sec`, which returns the same value as `mpz_powm`. -/
def rugSecurePowMod (base : Int) (exp : Nat) (m : Nat) : Out Nat :=
  if ¬ exp > 0 then .panic "rug secure_pow_mod: exponent not greater than zero"
  else if ¬ m % 2 = 1 then .panic "rug secure_pow_mod: modulo not odd"
  else .ok (gmpPowm base exp m)

/-- the `srp-fast-math` body of `Integer::modpow` in /repo/src/bigint.rs:
    ```
    if exponent.value > 0 && modulus.value.is_odd() {
        self.value.secure_pow_mod(&exponent.value, &modulus.value)
    } else {
        self.value.pow_mod(&exponent.value, &modulus.value).unwrap()
    }
    ```
    The `unwrap` panic site label is the one `Backend.modpow` uses for this back end. -/
def rugModpow (base : Int) (exp : Nat) (m : Nat) : Out Nat :=
  if exp > 0 ∧ m % 2 = 1 then rugSecurePowMod base exp m
  else match rugPowMod base exp m with
    | some r => .ok r
    | none => .panic "rug pow_mod: zero modulus"

/-- the PRE-FIX `srp-fast-math` body (`secure_pow_mod` unconditionally), for contrast: it panics for a
    zero exponent and for an even modulus, where num-bigint returns a value -/
def rugModpowPreFix (base : Int) (exp : Nat) (m : Nat) : Out Nat := rugSecurePowMod base exp m

/-! ### `to_bytes_le` as each library does it (these are ALREADY separate in `Backend.toBytesLe`) -/

/-- num-bigint `BigInt::to_bytes_le().1` = `BigUint::to_bytes_le` (`src/biguint.rs:749`):
    `if self.is_zero() { vec![0] } else { to_bitwise_digits_le(self, 8) }` — minimal little-endian
    bytes, but `[0]` for zero -/
def numToBytesLe (n : Nat) : Bytes := if n = 0 then [0] else toLE n

/-- rug `Integer::to_digits::<u8>(Order::LsfLe)`: `significant_digits::<u8>()` bytes, which is 0 for
    zero — minimal little-endian bytes, `[]` for zero -/
def rugToDigitsLsfLe (n : Nat) : Bytes := toLE n

end WowSrp
