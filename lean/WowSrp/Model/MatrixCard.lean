/-
Model of src/matrix_card.rs (feature `matrix-card`)
-/
import WowSrp.Model.Wrath
namespace WowSrp

/-- `MatrixCard { digit_count, width, height, data }` -/
structure MatrixCard where
  digitCount : Nat
  width : Nat
  height : Nat
  data : Bytes
deriving Repr, DecidableEq

/-- `MatrixCard::from_data` -/
def MatrixCard.fromData (d h w : Nat) (data : Bytes) : Option MatrixCard :=
  if data.length != d * h * w then none else some ⟨d, w, h, data⟩

/-- `get_number_at_coordinates`: `&self.data[start..end]` panics when out of range -/
def MatrixCard.getNumberAt (c : MatrixCard) (x y : Nat) : Out Bytes :=
  let start := (y * c.width + x) * c.digitCount
  let stop := start + c.digitCount
  if stop ≤ c.data.length then .ok ((c.data.drop start).take c.digitCount)
  else .panic "matrix_card.rs:178 slice index out of range"

/-- `data.chunks(n)`; `chunks(0)` panics -/
def chunksOf (n : Nat) : Nat → Bytes → List Bytes
  | 0, _ => []
  | fuel+1, l => if l.isEmpty then [] else l.take n :: chunksOf n fuel (l.drop n)

/-- `to_printer().nth(i)` as the list of digits of that cell -/
def MatrixCard.printed (c : MatrixCard) (i : Nat) : Out (Option Bytes) :=
  if c.digitCount = 0 then .panic "chunks: chunk size must be non-zero"
  else .ok ((chunksOf c.digitCount (c.data.length + 1) c.data)[i]?)

/-- rand 0.8 `Uniform::from(MIN..=MAX)` for `u8` (`UniformInt<u8>`, `$u_large = u32`):
    `range = MAX - MIN + 1`, `z = (2^32 - range) % range`, `zone = u32::MAX - z`;
    `sample` draws `v: u32`, widening-multiplies by `range`, accepts when `lo <= zone`, returns `MIN + hi` -/
def uniformRange : Nat := Gen.maxMatrixCardValue - Gen.minMatrixCardValue + 1
def uniformZone : Nat := 2 ^ 32 - 1 - (2 ^ 32 - uniformRange) % uniformRange

/-- `fill_matrix_card_values`: one accepted sample per byte, consuming 4 bytes per `next_u32`;
    returns the digits and what is left of the stream (none = stream exhausted) -/
def fillDigits : Nat → Nat → Bytes → Option (Bytes × Bytes)
  | _, 0, rng => some ([], rng)
  | 0, _+1, _ => none
  | fuel+1, n+1, rng =>
    if rng.length < 4 then none else
    let v := ofLE (rng.take 4)
    let m := v * uniformRange
    let hi := m / 2 ^ 32
    let lo := m % 2 ^ 32
    if lo ≤ uniformZone then
      match fillDigits fuel n (rng.drop 4) with
      | some (ds, rest) => some (UInt8.ofNat (Gen.minMatrixCardValue + hi) :: ds, rest)
      | none => none
    else fillDigits fuel (n+1) (rng.drop 4)

/-- inner shift loop of `generate_coordinates` -/
def mcShift (idx : Bytes) : Nat → Nat → Out Bytes
  | 0, _ => .ok idx
  | c+1, j =>
    match idx[j + 1]? with
    | none => .panic "matrix_card.rs:363 index out of bounds"
    | some v =>
      if j < idx.length then mcShift (idx.set j v) c (j + 1)
      else .panic "matrix_card.rs:363 index out of bounds"

/-- outer loop of `generate_coordinates` for `i = k .. challenge_count-1` -/
def mcCoordLoop (matrixSize : Nat) : Nat → Nat → Bytes → Nat → Bytes → Out Bytes
  | 0, _, _, _, out => .ok out
  | n+1, i, idx, seed, out =>
    if matrixSize < i then .panic "matrix_card.rs:357 subtraction overflow" else
    let count := matrixSize - i
    if count = 0 then .panic "matrix_card.rs:358 remainder by zero" else
    let index := seed % count
    match idx[index]? with
    | none => .panic "matrix_card.rs:360 index out of bounds"
    | some v => do
      let idx' ← mcShift idx (count - 1 - index) index
      mcCoordLoop matrixSize n (i+1) idx' (seed / count) (out ++ [v])

/-- `generate_coordinates(width, height, challenge_count, seed)` -/
def generateCoordinates (width height count seed : Nat) : Out Bytes :=
  if width * height > 255 then .panic "matrix_card.rs:349 multiplication overflow" else
  let ms := width * height
  let idx : Bytes := (List.range ms).map UInt8.ofNat
  mcCoordLoop ms count 0 idx seed []

/-- `MatrixCardVerifier` — the HMAC is modelled by the key and the bytes fed so far -/
structure MCVerifier where
  challengeCount : Nat
  height : Nat
  width : Nat
  coordinates : Bytes
  hmacKey : Bytes
  fed : Bytes
  rc4 : Rc4
deriving Repr, DecidableEq

/-- `MatrixCardVerifier::new` -/
def MCVerifier.new (C : Crypto) (count height seed width : Nat) (K : Bytes) : Out MCVerifier := do
  let coords ← generateCoordinates width height count seed
  let md5 := C.md5 (leN 8 seed ++ K)
  let rc4 ← Rc4.new md5
  pure ⟨count, height, width, coords, md5, [], rc4⟩

/-- `get_matrix_coordinates` -/
def MCVerifier.getCoordinates (v : MCVerifier) (round : Nat) : Out (Option (Nat × Nat)) :=
  if round ≥ v.challengeCount then .ok none else
  match v.coordinates[round]? with
  | none => .panic "matrix_card.rs:318 index out of bounds"
  | some coord =>
    if v.width = 0 then .panic "matrix_card.rs:319 remainder by zero" else
    let x := coord.toNat % v.width
    let y := coord.toNat / v.width
    if y ≥ v.height then .ok none else .ok (some (x, y))

/-- `enter_value` -/
def MCVerifier.enterValue (v : MCVerifier) (value : UInt8) : Out MCVerifier := do
  let (r', out) ← v.rc4.apply [value]
  pure { v with rc4 := r', fed := v.fed ++ out }

def MCVerifier.enterValues (v : MCVerifier) : Bytes → Out MCVerifier
  | [] => .ok v
  | b :: bs => do
    let v' ← v.enterValue b
    v'.enterValues bs

/-- `into_proof` -/
def MCVerifier.intoProof (C : Crypto) (v : MCVerifier) : Bytes := C.hmac v.hmacKey v.fed

/-- the loop of `verify_matrix_card_hash` from round `r` on -/
def mcVerifyLoop (card : MatrixCard) : Nat → Nat → MCVerifier → Out MCVerifier
  | 0, _, v => .ok v
  | n+1, r, v => do
    let c ← v.getCoordinates r
    match c with
    | none => .panic "matrix_card.rs:132 unwrap on None"
    | some (x, y) =>
      let digits ← card.getNumberAt x y
      let v' ← v.enterValues digits
      mcVerifyLoop card n (r+1) v'

/-- `verify_matrix_card_hash` -/
def verifyMatrixCardHash (C : Crypto) (card : MatrixCard) (count seed : Nat) (K proof : Bytes) : Out Bool := do
  let v ← MCVerifier.new C count card.height seed card.width K
  let v' ← mcVerifyLoop card count 0 v
  pure (v'.intoProof C == proof)

end WowSrp
