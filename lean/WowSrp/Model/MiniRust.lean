/-
A deliberately tiny deep embedding of the Rust that the recurrence ciphers' loop bodies are written in
(`src/vanilla_header/{encrypt,decrypt}.rs`, `src/tbc_header/{encrypt,decrypt}.rs`, free functions `encrypt` / `decrypt`):

    for x in data {
        let v = <byte expression>;
        *index = <index expression>;
        *x = <byte expression>;
        *previous_value = <byte expression>;
    }

`tools/gen_code.py` parses those four functions on every run and emits their loop bodies as terms of `Stmt` into
`Gen/Code.lean`; this file gives the terms their meaning (`stepOf`), with Rust's `u8` semantics: `^`, `wrapping_add`,
`wrapping_sub` on bytes; `+` on the `u8` position panics on overflow (the harness builds with overflow checks, like a debug
build); `%` panics on a zero divisor; `key[i]` panics out of bounds.  `Props/Source/CipherLoops.lean` proves, for ALL states and
input bytes, that the translated body computes exactly the model's step function (`encStep` / `decStep`) — so for these four
functions the model is regenerated from the source and the property theorems are re-checked against what the code says now.
Anything the translator cannot express becomes `Stmt.unsupported`, whose meaning is a panic: the equivalence theorem then fails.

Import-free (core only).
-/
import WowSrp.Model.Basic
import WowSrp.Model.Header
namespace WowSrp.MiniRust

/-- expressions of type `u8` that stand for a key POSITION (`*index`, literals, `+`, `%`) -/
inductive IExpr where
  | idx
  | lit (n : Nat)
  | add (a b : IExpr)
  | rem (a b : IExpr)
deriving Repr, DecidableEq

/-- expressions of type `u8` that stand for a data BYTE -/
inductive BExpr where
  | cur                          -- the byte the loop variable points at
  | prev                         -- `*previous_value`
  | keyAt (i : IExpr)            -- `session_key[i as usize]`
  | loc (name : String)          -- a `let`-bound local
  | xor (a b : BExpr)            -- `a ^ b`
  | wadd (a b : BExpr)           -- `a.wrapping_add(b)`
  | wsub (a b : BExpr)           -- `a.wrapping_sub(b)`
deriving Repr, DecidableEq

inductive Stmt where
  | letv (name : String) (e : BExpr)
  | setCur (e : BExpr)
  | setPrev (e : BExpr)
  | setIdx (e : IExpr)
  | unsupported (text : String)  -- source the translator has no meaning for
deriving Repr, DecidableEq

structure St where
  key : Bytes
  idx : Nat
  prev : UInt8
  cur : UInt8
  locals : List (String × UInt8)

def IExpr.eval (s : St) : IExpr → Out Nat
  | .idx => .ok s.idx
  | .lit n => .ok n
  | .add a b => do
    let x ← a.eval s
    let y ← b.eval s
    if x + y > 255 then .panic "attempt to add with overflow (u8)" else .ok (x + y)
  | .rem a b => do
    let x ← a.eval s
    let y ← b.eval s
    if y = 0 then .panic "attempt to calculate the remainder with a divisor of zero" else .ok (x % y)

def BExpr.eval (s : St) : BExpr → Out UInt8
  | .cur => .ok s.cur
  | .prev => .ok s.prev
  | .keyAt i => do
    let n ← i.eval s
    match s.key[n]? with
    | some k => .ok k
    | none => .panic "index out of bounds (session_key)"
  | .loc name =>
    match s.locals.lookup name with
    | some v => .ok v
    | none => .panic "unbound local"
  | .xor a b => do let x ← a.eval s; let y ← b.eval s; .ok (x ^^^ y)
  | .wadd a b => do let x ← a.eval s; let y ← b.eval s; .ok (x + y)
  | .wsub a b => do let x ← a.eval s; let y ← b.eval s; .ok (x - y)

def Stmt.exec (s : St) : Stmt → Out St
  | .letv name e => do let v ← e.eval s; .ok { s with locals := (name, v) :: s.locals }
  | .setCur e => do let v ← e.eval s; .ok { s with cur := v }
  | .setPrev e => do let v ← e.eval s; .ok { s with prev := v }
  | .setIdx e => do let v ← e.eval s; .ok { s with idx := v }
  | .unsupported _ => .panic "source outside the translated subset"

def execAll : List Stmt → St → Out St
  | [], s => .ok s
  | st :: rest, s => do let s' ← st.exec s; execAll rest s'

/-- one iteration of the loop: the step function the translated body denotes -/
def stepOf (body : List Stmt) (h : Half) (x : UInt8) : Out (Half × UInt8) := do
  let s ← execAll body { key := h.key, idx := h.index, prev := h.prev, cur := x, locals := [] }
  .ok ({ key := s.key, index := s.idx, prev := s.prev }, s.cur)

/-- outcomes compared up to the text of a panic message -/
def Out.toOption {α} : Out α → Option α
  | .ok a => some a
  | .panic _ => none

end WowSrp.MiniRust
