/-
Deep embedding of `SKey::as_equal_slice` (src/key.rs) — the zero-strip rule that decides the session key of one login in 256:

    let mut s = &self.key[..];
    let mut lead = 0;
    while lead < s.len() && s[lead] == 0 { lead += 1; }
    if lead % 2 != 0 { lead += 1; }
    s = &s[lead..];
    s

`tools/gen_code.py` translates the function from the working tree on every run into a `Prog` (Gen/Code.lean); here is its meaning:
`&&` short-circuits, `s[i]` panics out of bounds, `%` panics on zero, `&s[lead..]` panics when `lead > len`, and a `while` that has not
stopped after `len + 1` iterations is reported as a panic (the model's loop always stops; a translated loop that does not is not equal
to it).  `Props/Source/StripRule.lean` proves that the translated program IS the model's `asEqualSlice` for every byte string.
-/
import WowSrp.Model.Basic
namespace WowSrp.MiniScan

inductive NExpr where
  | lead
  | len
  | lit (n : Nat)
  | mod (a b : NExpr)
deriving Repr, DecidableEq

inductive Cond where
  | lt (a b : NExpr)
  | ne (a b : NExpr)
  | byteEq (i : NExpr) (v : Nat)     -- `s[i] == v`
  | and (c d : Cond)                 -- `c && d`, short-circuit
deriving Repr, DecidableEq

inductive SStmt where
  | whileInc (c : Cond) (k : Nat)    -- `while c { lead += k; }`
  | ifInc (c : Cond) (k : Nat)       -- `if c { lead += k; }`
  | unsupported (text : String)
deriving Repr, DecidableEq

structure Prog where
  init : Nat                         -- `let mut lead = init;`
  body : List SStmt
deriving Repr, DecidableEq

def NExpr.eval (s : Bytes) (lead : Nat) : NExpr → Out Nat
  | .lead => .ok lead
  | .len => .ok s.length
  | .lit n => .ok n
  | .mod a b => do
    let x ← a.eval s lead
    let y ← b.eval s lead
    if y = 0 then .panic "remainder by zero" else .ok (x % y)

def Cond.eval (s : Bytes) (lead : Nat) : Cond → Out Bool
  | .lt a b => do let x ← a.eval s lead; let y ← b.eval s lead; .ok (decide (x < y))
  | .ne a b => do let x ← a.eval s lead; let y ← b.eval s lead; .ok (decide (x ≠ y))
  | .byteEq i v => do
    let n ← i.eval s lead
    match s[n]? with
    | some b => .ok (b.toNat == v)
    | none => .panic "index out of bounds"
  | .and c d => do
    let x ← c.eval s lead
    if x then d.eval s lead else .ok false

def runWhile (s : Bytes) (c : Cond) (k : Nat) : Nat → Nat → Out Nat
  | 0, _ => .panic "loop still running after len + 1 iterations"
  | fuel + 1, lead =>
    match c.eval s lead with
    | .panic p => .panic p
    | .ok false => .ok lead
    | .ok true => runWhile s c k fuel (lead + k)

def SStmt.exec (s : Bytes) (lead : Nat) : SStmt → Out Nat
  | .whileInc c k => runWhile s c k (s.length + 1) lead
  | .ifInc c k => do let b ← c.eval s lead; .ok (if b then lead + k else lead)
  | .unsupported _ => .panic "source outside the translated subset"

def execAll (s : Bytes) : List SStmt → Nat → Out Nat
  | [], lead => .ok lead
  | st :: rest, lead => do let l ← st.exec s lead; execAll s rest l

/-- the function the translated program denotes -/
def Prog.run (p : Prog) (s : Bytes) : Out Bytes := do
  let lead ← execAll s p.body p.init
  if lead ≤ s.length then .ok (s.drop lead) else .panic "slice start out of range"

end WowSrp.MiniScan
