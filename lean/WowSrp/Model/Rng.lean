/-
Model of the convenience generators and of how every documented call consumes the RNG stream
(`thread_rng().fill_bytes`, `next_u32`, `random::<u32/u64>()`): each takes its bytes from the front of
the stream, in program order, and returns the rest.
-/
import WowSrp.Model.Basic
import WowSrp.Gen.Constants
namespace WowSrp

/-- `thread_rng().fill_bytes(&mut [0; n])`: the next `n` bytes of the stream (none = stream exhausted) -/
def drawBytes (n : Nat) (rng : Bytes) : Option (Bytes × Bytes) :=
  if rng.length < n then none else some (rng.take n, rng.drop n)

/-- `pin::get_pin_grid_seed()` = `random::<u32>()`: little-endian u32 of the next 4 bytes -/
def getPinGridSeed (rng : Bytes) : Option (Nat × Bytes) :=
  (drawBytes 4 rng).map fun (d, r) => (ofLE d, r)

/-- `pin::get_pin_salt()` -/
def getPinSalt (rng : Bytes) : Option (Bytes × Bytes) := drawBytes Gen.pinSaltSize rng

/-- `integrity::get_salt_value()` -/
def getIntegritySalt (rng : Bytes) : Option (Bytes × Bytes) := drawBytes Gen.integritySaltLength rng

/-- `matrix_card::get_matrix_card_seed()` = `random::<u64>()` -/
def getMatrixCardSeed (rng : Bytes) : Option (Nat × Bytes) :=
  (drawBytes 8 rng).map fun (d, r) => (ofLE d, r)

/-- `ProofSeed::new()` (all three expansions) = `thread_rng().next_u32()` -/
def proofSeedNew (rng : Bytes) : Option (Nat × Bytes) :=
  (drawBytes 4 rng).map fun (d, r) => (ofLE d, r)

end WowSrp
