/-
Model of src/normalized_string.rs. A Rust `&str` is a sequence of Unicode scalar values = `List Char`;
its `len()` is the UTF-8 byte count.
-/
import WowSrp.Model.Basic
import WowSrp.Gen.Constants
namespace WowSrp

inductive NSErr where
  | tooLong
  | notAllowed (c : Char)
deriving Repr, DecidableEq

/-- result of a constructor: Ok / Err / (explicit) panic -/
inductive NSOut (α : Type) where
  | ok (a : α)
  | err (e : NSErr)
  | panic (site : String)
deriving Repr, DecidableEq

/-- `struct NormalizedString { s: [u8; 16], length: u8 }` -/
structure NStr where
  s : Bytes
  length : Nat
deriving Repr, DecidableEq

def utf8Len (cs : List Char) : Nat := (cs.map Char.utf8Size).sum

/-- `char::is_ascii` -/
def isAscii (c : Char) : Bool := c.toNat < 128
/-- `char::is_ascii_control`: 0x00..=0x1F and 0x7F -/
def isAsciiControl (c : Char) : Bool := c.toNat < 32 || c.toNat == 127
/-- `char::to_ascii_uppercase` followed by `as u8` (only applied to ASCII here) -/
def upperByte (c : Char) : UInt8 :=
  if 0x61 ≤ c.toNat ∧ c.toNat ≤ 0x7A then UInt8.ofNat (c.toNat - 32) else UInt8.ofNat c.toNat

def maxLen : Nat := Gen.maximumStringLength

/-- the `for (i, c) in s.chars().enumerate()` loop; `array[i] = …` panics when `i ≥ 16` -/
def NStr.fill : List Char → Nat → Bytes → NSOut Bytes
  | [], _, arr => .ok arr
  | c :: cs, i, arr =>
    if !isAscii c || isAsciiControl c then .err (.notAllowed c)
    else if i < arr.length then NStr.fill cs (i+1) (arr.set i (upperByte c))
    else .panic "normalized_string.rs:133 index out of bounds"

/-- `NormalizedString::new` -/
def NStr.new (cs : List Char) : NSOut NStr :=
  if utf8Len cs > maxLen || cs.isEmpty then .err .tooLong
  else match NStr.fill cs 0 (List.replicate maxLen 0) with
    | .ok arr => .ok ⟨arr, utf8Len cs⟩
    | .err e => .err e
    | .panic p => .panic p

/-- `AsRef<str>`: `from_utf8(&self.s[..self.length as usize]).unwrap()`; the slice panics when
    `length > 16`, the `unwrap` when the bytes are not UTF-8 (any byte ≥ 0x80 is treated as such:
    conservative, and unreachable — see `Props/C13`). -/
def NStr.asRefOut (n : NStr) : Out Bytes :=
  if n.length > n.s.length then .panic "normalized_string.rs:199 slice end out of range"
  else if (n.s.take n.length).any (· ≥ 128) then .panic "normalized_string.rs:199 from_utf8 unwrap"
  else .ok (n.s.take n.length)

/-- the text view used everywhere (`as_ref()`, `Display`) -/
def NStr.asRef (n : NStr) : Bytes := n.s.take n.length

/-- text (ASCII bytes) back to `List Char`, for re-import from storage -/
def bytesToChars (bs : Bytes) : List Char := bs.map (fun b => Char.ofNat b.toNat)

/-- `#[derive(Ord)]` on `(s, length)`: lexicographic on the array, then the length -/
def lexCmp : Bytes → Bytes → Ordering
  | [], [] => .eq
  | [], _ :: _ => .lt
  | _ :: _, [] => .gt
  | a :: as, b :: bs => if a < b then .lt else if b < a then .gt else lexCmp as bs

def NStr.derivedCmp (a b : NStr) : Ordering := (lexCmp a.s b.s).then (compare a.length b.length)

end WowSrp
