/-
Model of src/key.rs, src/bigint.rs, src/primes.rs, src/srp_internal.rs, src/srp_internal_client.rs,
src/server.rs, src/client.rs — function for function, with the intermediate representations the
Rust uses and every panic site explicit.
-/
import WowSrp.Model.Deps
import WowSrp.Model.Crypto
import WowSrp.Model.NStr
import WowSrp.Gen.Constants
namespace WowSrp

/-! ### primes.rs -/
/-- `LargeSafePrime::default().to_bigint()` -/
def nBig : Nat := ofLE Gen.largeSafePrimeLE
/-- `Generator::default().to_bigint()` -/
def gBig : Nat := Gen.generator
/-- `KValue::bigint()` -/
def kBig : Nat := Gen.kValue

/-! ### key.rs -/
inductive PKErr where
  | isZero
  | modIsZero
deriving Repr, DecidableEq

/-- `check_public_key` -/
def checkPublicKey (key : Bytes) : Except PKErr Unit :=
  if key.all (· == 0) then .error .isZero
  else if key == Gen.largeSafePrimeLE then .error .modIsZero
  else .ok ()

/-- `PublicKey::from_le_bytes` -/
def PublicKey.fromLE (key : Bytes) : Except PKErr Bytes :=
  match checkPublicKey key with
  | .ok _ => .ok key
  | .error e => .error e

/-- `PublicKey::try_from_bigint` (server's own B) -/
def PublicKey.tryFromBigint (be : Backend) (b : Nat) : Out (Except PKErr Bytes) := do
  let key ← padCopy 32 (be.toBytesLe b) "key.rs:247 slice end out of range"
  pure (PublicKey.fromLE key)

/-- `PublicKey::client_try_from_bigint` (client's own A relative to the announced modulus) -/
def PublicKey.clientTryFromBigint (be : Backend) (b : Nat) (n : Nat) : Out (Except PKErr Bytes) :=
  if b = 0 then .ok (.error .isZero) else do
  let r ← remOut b n
  if r = 0 then pure (.error .modIsZero) else do
  let key ← padCopy 32 (be.toBytesLe b) "key.rs:235 slice end out of range"
  pure (.ok key)

/-- the `while lead < s.len() && s[lead] == 0 { lead += 1 }` loop of `SKey::as_equal_slice` -/
def scanZeros (s : Bytes) : Nat → Nat → Nat
  | 0, lead => lead
  | fuel+1, lead =>
    match s[lead]? with
    | none => lead
    | some b => if b == 0 then scanZeros s fuel (lead+1) else lead

/-- `SKey::as_equal_slice`; `&s[lead..]` panics when `lead > len` -/
def asEqualSlice (s : Bytes) : Out Bytes :=
  let lead := scanZeros s (s.length + 1) 0
  let lead := if lead % 2 != 0 then lead + 1 else lead
  if lead ≤ s.length then .ok (s.drop lead) else .panic "key.rs:300 slice start out of range"

/-! ### srp_internal.rs -/

/-- `calculate_x` -/
def calculateX (C : Crypto) (U P salt : Bytes) : Bytes :=
  C.sha1 (salt ++ C.sha1 (U ++ [0x3a] ++ P))

/-- `Integer::to_padded_32_byte_array_le` -/
def toPadded32 (be : Backend) (n : Nat) : Out Bytes :=
  padCopy 32 (be.toBytesLe n) "bigint.rs:19 slice end out of range"

/-- `calculate_password_verifier` -/
def calculatePasswordVerifier (C : Crypto) (be : Backend) (U P salt : Bytes) : Out Bytes := do
  let x := ofLE (calculateX C U P salt)
  let v ← be.modpow gBig x nBig
  toPadded32 be v

/-- `calculate_server_public_key` -/
def calculateServerPublicKey (be : Backend) (v b : Bytes) : Out (Except PKErr Bytes) := do
  let t ← be.modpow gBig (ofLE b) nBig
  let B ← remOut (kBig * ofLE v + t) nBig
  PublicKey.tryFromBigint be B

/-- `calculate_u` -/
def calculateU (C : Crypto) (A B : Bytes) : Bytes := C.sha1 (A ++ B)

/-- `calculate_S` (server) followed by `From<Integer> for SKey` -/
def calculateS (be : Backend) (A v u b : Bytes) : Out Bytes := do
  let t ← be.modpow (ofLE v) (ofLE u) nBig
  let s ← be.modpow ((ofLE A : Int) * (t : Int)) (ofLE b) nBig
  padCopy 32 (be.toBytesLe s) "key.rs:88 slice end out of range"

def evens : Bytes → Bytes
  | [] => []
  | [a] => [a]
  | a :: _ :: r => a :: evens r
def odds : Bytes → Bytes
  | [] => []
  | [_] => []
  | _ :: b :: r => b :: odds r

/-- `for (i, e) in iter.enumerate() { E[i] = *e; }` on a zeroed array of `w` bytes -/
def fillArr (w : Nat) (xs : Bytes) (site : String) : Out Bytes :=
  if xs.length ≤ w then .ok (xs ++ List.replicate (w - xs.length) 0) else .panic site

def zipFlat : Bytes → Bytes → Bytes
  | a :: as, b :: bs => a :: b :: zipFlat as bs
  | _, _ => []

/-- `calculate_interleaved` -/
def calculateInterleaved (C : Crypto) (S : Bytes) : Out Bytes := do
  let s ← asEqualSlice S
  let E ← fillArr 16 (evens s) "srp_internal.rs:161 index out of bounds"
  let G := C.sha1 (E.take (s.length / 2))
  let F ← fillArr 16 (odds s) "srp_internal.rs:167 index out of bounds"
  let H := C.sha1 (F.take (s.length / 2))
  let z := zipFlat G H
  if z.length ≤ 40 then .ok (z ++ List.replicate (40 - z.length) 0)
  else .panic "srp_internal.rs:174 index out of bounds"

/-- `calculate_session_key` -/
def calculateSessionKey (C : Crypto) (be : Backend) (A B v b : Bytes) : Out Bytes := do
  let u := calculateU C A B
  let S ← calculateS be A v u b
  calculateInterleaved C S

/-- `calculate_server_proof` (M2) -/
def calculateServerProof (C : Crypto) (A M1 K : Bytes) : Bytes := C.sha1 (A ++ M1 ++ K)

/-- `calculate_xor_hash` -/
def calculateXorHash (C : Crypto) (nLE : Bytes) (g : Nat) : Bytes :=
  xorBytes (C.sha1 nLE) (C.sha1 [UInt8.ofNat g])

/-- `calculate_client_proof` (M1, server side: precomputed xor hash) -/
def calculateClientProof (C : Crypto) (U K A B salt : Bytes) : Bytes :=
  C.sha1 (Gen.precalculatedXorHash ++ C.sha1 U ++ salt ++ A ++ B ++ K)

/-- `calculate_reconnect_proof` -/
def calculateReconnectProof (C : Crypto) (U cd sd K : Bytes) : Bytes :=
  C.sha1 (U ++ cd ++ sd ++ K)

/-! ### srp_internal_client.rs -/

/-- `calculate_client_public_key` -/
def calculateClientPublicKey (be : Backend) (a : Bytes) (g : Nat) (nLE : Bytes) :
    Out (Except PKErr Bytes) := do
  let A ← be.modpow g (ofLE a) (ofLE nLE)
  PublicKey.clientTryFromBigint be A (ofLE nLE)

/-- `calculate_client_S` -/
def calculateClientS (be : Backend) (B x a u : Bytes) (g : Nat) (nLE : Bytes) : Out Bytes := do
  let t ← be.modpow g (ofLE x) (ofLE nLE)
  let s ← be.modpow ((ofLE B : Int) - (kBig : Int) * (t : Int)) (ofLE a + ofLE u * ofLE x) (ofLE nLE)
  toPadded32 be s

/-- `calculate_client_proof_with_custom_value` -/
def calculateClientProofCustom (C : Crypto) (U K A B salt nLE : Bytes) (g : Nat) : Bytes :=
  C.sha1 (calculateXorHash C nLE g ++ C.sha1 U ++ salt ++ A ++ B ++ K)

/-! ### server.rs -/

structure SrpVerifier where
  username : NStr
  passwordVerifier : Bytes
  salt : Bytes
deriving Repr, DecidableEq

structure SrpProof where
  username : NStr
  serverPublicKey : Bytes
  salt : Bytes
  serverPrivateKey : Bytes
  passwordVerifier : Bytes
deriving Repr, DecidableEq

structure SrpServer where
  username : NStr
  sessionKey : Bytes
  reconnectChallengeData : Bytes
deriving Repr, DecidableEq

/-- `SrpVerifier::from_database_values` -/
def SrpVerifier.fromDatabaseValues (u : NStr) (v salt : Bytes) : SrpVerifier := ⟨u, v, salt⟩

/-- `SrpVerifier::with_specific_salt` = `from_username_and_password` with the drawn salt made explicit -/
def SrpVerifier.fromUsernameAndPassword (C : Crypto) (be : Backend) (u p : NStr) (salt : Bytes) :
    Out SrpVerifier := do
  let v ← calculatePasswordVerifier C be u.asRef p.asRef salt
  pure (SrpVerifier.fromDatabaseValues u v salt)

/-- `SrpVerifier::with_specific_private_key` -/
def SrpVerifier.withSpecificPrivateKey (be : Backend) (s : SrpVerifier) (b : Bytes) :
    Out (Except PKErr SrpProof) := do
  let r ← calculateServerPublicKey be s.passwordVerifier b
  match r with
  | .error e => pure (.error e)
  | .ok B => pure (.ok ⟨s.username, B, s.salt, b, s.passwordVerifier⟩)

/-- `SrpVerifier::into_proof` with the drawn private key explicit; `.expect(..)` panics on `Err` -/
def SrpVerifier.intoProof (be : Backend) (s : SrpVerifier) (b : Bytes) : Out SrpProof := do
  let r ← s.withSpecificPrivateKey be b
  match r with
  | .error _ => .panic "server.rs:296 The generated public key was invalid"
  | .ok p => pure p

structure MatchProofsError where
  clientProof : Bytes
  serverProof : Bytes
deriving Repr, DecidableEq

/-- `SrpProof::into_server`; `challenge` is the 16 bytes `ReconnectData::randomized()` draws
    (only drawn on the success path) -/
def SrpProof.intoServer (C : Crypto) (be : Backend) (p : SrpProof) (A M1 challenge : Bytes) :
    Out (Except MatchProofsError (SrpServer × Bytes)) := do
  let K ← calculateSessionKey C be A p.serverPublicKey p.passwordVerifier p.serverPrivateKey
  let M1s := calculateClientProof C p.username.asRef K A p.serverPublicKey p.salt
  if M1 != M1s then pure (.error ⟨M1, M1s⟩) else
  let M2 := calculateServerProof C A M1s K
  pure (.ok (⟨p.username, K, challenge⟩, M2))

/-- `SrpServer::verify_reconnection_attempt`; `draw` is what `randomize_data` draws afterwards,
    unconditionally -/
def SrpServer.verifyReconnectionAttempt (C : Crypto) (s : SrpServer) (cd proof draw : Bytes) :
    Bool × SrpServer :=
  let serverProof := calculateReconnectProof C s.username.asRef cd s.reconnectChallengeData s.sessionKey
  let verified := serverProof == proof
  (verified, { s with reconnectChallengeData := draw })

/-! ### client.rs -/

structure SrpClientChallenge where
  username : NStr
  clientProof : Bytes
  clientPublicKey : Bytes
  sessionKey : Bytes
deriving Repr, DecidableEq

structure SrpClient where
  username : NStr
  sessionKey : Bytes
deriving Repr, DecidableEq

/-- `SrpClientChallenge::new` with the drawn private key `a` explicit -/
def SrpClientChallenge.new (C : Crypto) (be : Backend) (u p : NStr) (g : Nat) (nLE B salt a : Bytes) :
    Out SrpClientChallenge := do
  let r ← calculateClientPublicKey be a g nLE
  match r with
  | .error _ => .panic "client.rs:190 Invalid public key generated for client"
  | .ok A =>
    let x := calculateX C u.asRef p.asRef salt
    let uu := calculateU C A B
    let S ← calculateClientS be B x a uu g nLE
    let K ← calculateInterleaved C S
    let M1 := calculateClientProofCustom C u.asRef K A B salt nLE g
    pure ⟨u, M1, A, K⟩

/-- `SrpClientChallenge::verify_server_proof` -/
def SrpClientChallenge.verifyServerProof (C : Crypto) (c : SrpClientChallenge) (M2 : Bytes) :
    Except MatchProofsError SrpClient :=
  let mine := calculateServerProof C c.clientPublicKey c.clientProof c.sessionKey
  if M2 != mine then .error ⟨mine, M2⟩ else .ok ⟨c.username, c.sessionKey⟩

/-- `SrpClient::calculate_reconnect_values` with the drawn client challenge explicit -/
def SrpClient.calculateReconnectValues (C : Crypto) (c : SrpClient) (serverChallenge cd : Bytes) :
    Bytes × Bytes :=
  (cd, calculateReconnectProof C c.username.asRef cd serverChallenge c.sessionKey)

/-! ### a whole honest login, composed as src/test.rs::authenticate_with_self does -/

inductive LoginResult where
  | ok (serverKey clientKey : Bytes) (A B M1 M2 v : Bytes)
  | fail (stage : String)
  | panic (site : String)
deriving Repr, DecidableEq

def runLogin (C : Crypto) (be : Backend) (us ps uc pc : List Char) (viaStorage : Bool)
    (salt b a challenge : Bytes) : LoginResult :=
  match NStr.new us, NStr.new ps, NStr.new uc, NStr.new pc with
  | .ok US, .ok PS, .ok UC, .ok PC =>
    match SrpVerifier.fromUsernameAndPassword C be US PS salt with
    | .panic s => .panic s
    | .ok ver0 =>
      -- optional export to storage and re-import
      let verR : NSOut SrpVerifier :=
        if viaStorage then
          match NStr.new (bytesToChars ver0.username.asRef) with
          | .ok U' => .ok (SrpVerifier.fromDatabaseValues U' ver0.passwordVerifier ver0.salt)
          | .err e => .err e
          | .panic s => .panic s
        else .ok ver0
      match verR with
      | .panic s => .panic s
      | .err _ => .fail "reimport"
      | .ok ver =>
        match ver.intoProof be b with
        | .panic s => .panic s
        | .ok proof =>
          match PublicKey.fromLE proof.serverPublicKey with
          | .error _ => .fail "client rejects B"
          | .ok B =>
            match SrpClientChallenge.new C be UC PC gBig Gen.largeSafePrimeLE B proof.salt a with
            | .panic s => .panic s
            | .ok cc =>
              match PublicKey.fromLE cc.clientPublicKey with
              | .error _ => .fail "server rejects A"
              | .ok A =>
                match proof.intoServer C be A cc.clientProof challenge with
                | .panic s => .panic s
                | .ok (.error _) => .fail "server rejects M1"
                | .ok (.ok (srv, M2)) =>
                  match cc.verifyServerProof C M2 with
                  | .error _ => .fail "client rejects M2"
                  | .ok cl => .ok srv.sessionKey cl.sessionKey A B cc.clientProof M2 ver.passwordVerifier
  | _, _, _, _ => .fail "credentials"

end WowSrp
