/-
Deep embedding of `Rc4::new` + `Rc4::key_scheduling_algorithm` (src/rc4.rs):

    let mut state = Self { state: [0; 256], i: 0, j: 0 };  state.key_scheduling_algorithm(key);  state

    self.state.iter_mut().enumerate().for_each(|(i, x)| { *x = i as u8; });
    let i_iter = 0..256_usize;  let key_iter = key.iter().cycle();  let mut j = 0_u8;
    i_iter.zip(key_iter).for_each(|(i, k)| { j = <e>;  self.state.swap(i, j.into()); });

with `<e>` built from `j`, `self.state[i]`, `*k`, literals and `.wrapping_add(..)`.  `tools/gen_ksa.py` translates both functions from the
working tree on every run into a `KsaProg` (Gen/CodeKsa.lean); this file is its meaning: `zip` stops with the shorter side, `cycle()` of an
empty key yields nothing (no iteration at all), `i as u8` truncates, table accesses go through the model's bounds-checked `getOut` /
`swapOut`.  `Props/Source/Rc4Ksa.lean` proves the translated program equal to the model's `Rc4.new` for EVERY key.
-/
import WowSrp.Model.Wrath
namespace WowSrp.MiniKsa

inductive KExpr where
  | j
  | stateI                       -- `self.state[i]`
  | k                            -- `*k`
  | lit (n : Nat)
  | wadd (a b : KExpr)           -- `a.wrapping_add(b)`
deriving Repr, DecidableEq

structure KsaProg where
  tableLen : Nat                 -- `state: [0; N]`
  i0 : Nat                       -- `i: 0`
  j0 : Nat                       -- `j: 0`
  identityInit : Bool            -- `*x = i as u8` for every entry
  rangeLo : Nat                  -- `lo..hi`
  rangeHi : Nat
  cycled : Bool                  -- `key.iter().cycle()` (otherwise `key.iter()`)
  jInit : Nat                    -- `let mut j = <lit>`
  jUpdate : KExpr                -- `j = <e>`
  unsupported : Option String
deriving Repr, DecidableEq

def KExpr.eval (j si k : UInt8) : KExpr → UInt8
  | .j => j
  | .stateI => si
  | .k => k
  | .lit n => UInt8.ofNat n
  | .wadd a b => a.eval j si k + b.eval j si k

/-- `count` iterations from index `i`, the key byte of iteration `i` being `key[(i - lo) % len]` when cycled -/
def loop (p : KsaProg) (key : Bytes) : Nat → Nat → Array UInt8 → UInt8 → Out (Array UInt8)
  | 0, _, s, _ => .ok s
  | n + 1, i, s, j =>
    match key[(i - p.rangeLo) % key.length]? with
    | none => .ok s
    | some k => do
      let si ← getOut s i
      let j' := p.jUpdate.eval j si k
      let s' ← swapOut s i j'.toNat
      loop p key n (i + 1) s' j'

/-- the function the translated program denotes -/
def KsaProg.run (p : KsaProg) (key : Bytes) : Out Rc4 :=
  match p.unsupported with
  | some _ => .panic "source outside the translated subset"
  | none => do
    let init : Array UInt8 := if p.identityInit then (Array.range p.tableLen).map UInt8.ofNat else Array.replicate p.tableLen 0
    let count := if p.cycled then p.rangeHi - p.rangeLo else min (p.rangeHi - p.rangeLo) key.length
    let s ← loop p key count p.rangeLo init (UInt8.ofNat p.jInit)
    .ok ⟨s, UInt8.ofNat p.i0, UInt8.ofNat p.j0⟩

end WowSrp.MiniKsa
