/-
Typed header-crypto sessions: the op vocabulary of the differential test (`Driver.lean`, `hdrOp`)
as data, and the dispatch of one op to the model functions of `Model/Header.lean` and
`Model/Wrath.lean`, case for case as `hdrOp` does it on strings.

  token   | HOp          | what it calls
  --------+--------------+--------------------------------------------------------------
  e / ae  | enc          | encrypt (facade, half, accessor: the same model function)
  d / ad  | dec          | decrypt
  es      | encServer    | encrypt_server_header
  ec      | encClient    | encrypt_client_header
  ds      | decServer    | decrypt_server_header           (Vanilla/TBC only)
  dc      | decClient    | decrypt_client_header
  rs      | readServer   | read_and_decrypt_server_header
  rc      | readClient   | read_and_decrypt_client_header
  ws      | writeServer  | write_encrypted_server_header
  wc      | writeClient  | write_encrypted_client_header
  at      | attempt      | attempt_decrypt_server_header   (Wrath client only)
  lg      | large        | decrypt_large_server_header     (Wrath client only)
  split / unsplit / clone

(`pairwith` and `pr` of the driver are probes that build a second object / run three ops and throw the
states away; they are not part of the session vocabulary.)

Imports Model files only: stays executable and Mathlib-free.
-/
import WowSrp.Model.Header
import WowSrp.Model.Wrath
namespace WowSrp

/-- one operation on a header-crypto object -/
inductive HOp where
  | enc (data : Bytes)
  | dec (data : Bytes)
  | encServer (size opcode : Nat)
  | encClient (size opcode : Nat)
  | decServer (wire : Bytes)
  | decClient (wire : Bytes)
  | readServer (script : List REv)
  | readClient (script : List REv)
  | writeServer (size opcode : Nat) (script : List WEv)
  | writeClient (size opcode : Nat) (script : List WEv)
  | attempt (wire : Bytes)
  | large (byte : UInt8)
  | split
  | unsplit
  | clone
deriving Repr, DecidableEq

/-- the array-typed arguments have the length their Rust type says (`[u8; 4]`, `[u8; 6]`): the only
    thing the string protocol does not enforce by itself -/
def HOp.WF : HOp → Prop
  | .decServer wire => wire.length = 4
  | .decClient wire => wire.length = 6
  | .attempt wire => wire.length = 4
  | _ => True

instance (op : HOp) : Decidable op.WF := by
  cases op <;> simp only [HOp.WF] <;> infer_instance

/-- the object a session holds: a combined object or its split halves -/
inductive HObj where
  | comb (e : Exp) (hc : HeaderCrypto)
  | halves (e : Exp) (enc dec : Half)
  | wcli (c : WClientCrypto)
  | wsrv (c : WServerCrypto)
  | wcliH (enc : Rc4) (dec : WClientDec)      -- split Wrath client halves
  | wsrvH (enc : WServerEnc) (dec : Rc4)      -- split Wrath server halves
deriving Repr, DecidableEq

/-- the answer to one op: everything `hdrOp` prints, typed -/
inductive HOut where
  | bytes (b : Bytes)                                   -- `hex out`
  | header (size opcode : Nat)                          -- `{s}:{op}` (`h:{s}:{op}` for `attempt`)
  | readOk (size opcode consumed : Nat)                 -- `ok:{s}:{o}:u{used}`
  | readErr (kind : IoKind) (consumed : Nat) (stateUnchanged : Bool)   -- `err:{k}:u{used}:same{0|1}`
  | writeOk (sink : Bytes)                              -- `ok:{hex sink}`
  | writeErr (kind : IoKind) (sink : Bytes)             -- `err:{k}:{hex sink}`
  | more                                                -- `more` (AdditionalByteRequired)
  | done                                                -- `ok`
  | refused                                             -- `err` (unsplit of halves with different keys)
  | na                                                  -- `na`: no such method on this object
deriving Repr, DecidableEq

/-- payload bytes a reader script still holds -/
def dataBytes (l : List REv) : Nat := (l.map fun | .data bs => bs.length | _ => 0).sum

/-- `rdResult`: what is reported of a read wrapper call — the header or the error kind, how many
    payload bytes the reader lost, and (on error) whether the cipher state is the one before the call -/
def rdOut {σ} [DecidableEq σ] (old : σ) (script : List REv) (r : IoRes σ (Nat × Nat) (List REv)) : HOut :=
  let used := dataBytes script - dataBytes r.rest
  match r.result with
  | .ok (s, o) => .readOk s o used
  | .error k => .readErr k used (decide (r.state = old))

/-- `wrResult`: `io::Result` and what reached the sink -/
def wrOut {σ} (r : IoRes σ Unit Bytes) : HOut :=
  match r.result with
  | .ok _ => .writeOk r.rest
  | .error k => .writeErr k r.rest

/-- the answer of `attempt_decrypt_server_header` -/
def attemptOut : WAttempt → HOut
  | .header s op => .header s op
  | .additionalByteRequired => .more

/-- encrypter view of an object (`HObj.enc` of the driver) -/
def HObj.enc (o : HObj) (data : Bytes) : Out (HObj × Bytes) :=
  match o with
  | .comb e hc => do let (hc', out) ← hc.encryptData e data; pure (.comb e hc', out)
  | .halves e en de => do let (en', out) ← en.encrypt e data; pure (.halves e en' de, out)
  | .wcli c => do let (c', out) ← c.encryptData data; pure (.wcli c', out)
  | .wsrv c => do let (c', out) ← c.encryptData data; pure (.wsrv c', out)
  | .wcliH en de => do let (r, out) ← en.apply data; pure (.wcliH r de, out)
  | .wsrvH en de => do let (r, out) ← en.encrypt data; pure (.wsrvH r de, out)

/-- decrypter view of an object (`HObj.dec` of the driver) -/
def HObj.dec (o : HObj) (data : Bytes) : Out (HObj × Bytes) :=
  match o with
  | .comb e hc => do let (hc', out) ← hc.decryptData e data; pure (.comb e hc', out)
  | .halves e en de => do let (de', out) ← de.decrypt e data; pure (.halves e en de', out)
  | .wcli c => do let (c', out) ← c.decryptData data; pure (.wcli c', out)
  | .wsrv c => do let (c', out) ← c.decryptData data; pure (.wsrv c', out)
  | .wcliH en de => do let (r, out) ← de.decrypt data; pure (.wcliH en r, out)
  | .wsrvH en de => do let (r, out) ← de.apply data; pure (.wsrvH en r, out)

/-- one op: the dispatch of `hdrOp`, case for case -/
def HObj.step (o : HObj) (op : HOp) : Out (HObj × HOut) :=
  match op with
  | .enc d => do let (o', out) ← o.enc d; pure (o', .bytes out)
  | .dec d => do let (o', out) ← o.dec d; pure (o', .bytes out)
  | .encServer s op =>
    match o with
    | .comb e hc => do let (hc', out) ← hc.encryptServerHeader e s op; pure (.comb e hc', .bytes out)
    | .halves e en de => do let (en', out) ← en.encryptServerHeader e s op; pure (.halves e en' de, .bytes out)
    | .wsrv c => do let (c', out) ← c.encryptServerHeader s op; pure (.wsrv c', .bytes out)
    | .wsrvH en de => do let (en', out) ← en.encryptServerHeader s op; pure (.wsrvH en' de, .bytes out)
    | _ => pure (o, .na)
  | .encClient s op =>
    match o with
    | .comb e hc => do let (hc', out) ← hc.encryptClientHeader e s op; pure (.comb e hc', .bytes out)
    | .halves e en de => do let (en', out) ← en.encryptClientHeader e s op; pure (.halves e en' de, .bytes out)
    | .wcli c => do let (c', out) ← c.encryptClientHeader s op; pure (.wcli c', .bytes out)
    | .wcliH en de => do let (r, out) ← wClientEncryptHeader en s op; pure (.wcliH r de, .bytes out)
    | _ => pure (o, .na)
  | .decServer d =>
    match o with
    | .comb e hc => do let (hc', (s, op)) ← hc.decryptServerHeader e d; pure (.comb e hc', .header s op)
    | .halves e en de => do let (de', (s, op)) ← de.decryptServerHeader e d; pure (.halves e en de', .header s op)
    | _ => pure (o, .na)
  | .decClient d =>
    match o with
    | .comb e hc => do let (hc', (s, op)) ← hc.decryptClientHeader e d; pure (.comb e hc', .header s op)
    | .halves e en de => do let (de', (s, op)) ← de.decryptClientHeader e d; pure (.halves e en de', .header s op)
    | .wsrv c => do let (c', (s, op)) ← c.decryptClientHeader d; pure (.wsrv c', .header s op)
    | .wsrvH en de => do let (r, (s, op)) ← wServerDecryptHeader de d; pure (.wsrvH en r, .header s op)
    | _ => pure (o, .na)
  | .readServer script =>
    match o with
    | .comb e hc => do
      let r ← hc.readServerHeader e script
      pure (.comb e r.state, rdOut hc script r)
    | .halves e en de => do
      let r ← de.readServerHeader e script
      pure (.halves e en r.state, rdOut de script r)
    | .wcli c => do
      let r ← c.readServerHeader script
      pure (.wcli r.state, rdOut c script r)
    | .wcliH en de => do
      let r ← de.readServerHeader script
      pure (.wcliH en r.state, rdOut de script r)
    | _ => pure (o, .na)
  | .readClient script =>
    match o with
    | .comb e hc => do
      let r ← hc.readClientHeader e script
      pure (.comb e r.state, rdOut hc script r)
    | .halves e en de => do
      let r ← de.readClientHeader e script
      pure (.halves e en r.state, rdOut de script r)
    | .wsrv c => do
      let r ← c.readClientHeader script
      pure (.wsrv r.state, rdOut c script r)
    | .wsrvH en de => do
      let r ← wServerReadHeader de script
      pure (.wsrvH en r.state, rdOut de script r)
    | _ => pure (o, .na)
  | .writeServer s op script =>
    match o with
    | .comb e hc => do
      let r ← hc.writeServerHeader e s op script
      pure (.comb e r.state, wrOut r)
    | .halves e en de => do
      let r ← en.writeServerHeader e s op script
      pure (.halves e r.state de, wrOut r)
    | .wsrv c => do
      let r ← c.writeServerHeader s op script
      pure (.wsrv r.state, wrOut r)
    | .wsrvH en de => do
      let r ← en.writeServerHeader s op script
      pure (.wsrvH r.state de, wrOut r)
    | _ => pure (o, .na)
  | .writeClient s op script =>
    match o with
    | .comb e hc => do
      let r ← hc.writeClientHeader e s op script
      pure (.comb e r.state, wrOut r)
    | .halves e en de => do
      let r ← en.writeClientHeader e s op script
      pure (.halves e r.state de, wrOut r)
    | .wcli c => do
      let r ← c.writeClientHeader s op script
      pure (.wcli r.state, wrOut r)
    | .wcliH en de => do
      let r ← wClientWriteHeader en s op script
      pure (.wcliH r.state de, wrOut r)
    | _ => pure (o, .na)
  | .attempt d =>
    match o with
    | .wcli c => do let (c', a) ← c.attempt d; pure (.wcli c', attemptOut a)
    | .wcliH en de => do let (de', a) ← de.attempt d; pure (.wcliH en de', attemptOut a)
    | _ => pure (o, .na)
  | .large b =>
    match o with
    | .wcli c => do let (c', (s, op)) ← c.decryptLarge b; pure (.wcli c', .header s op)
    | .wcliH en de => do let (de', (s, op)) ← de.decryptLarge b; pure (.wcliH en de', .header s op)
    | _ => pure (o, .na)
  | .split =>
    match o with
    | .comb e hc => let (en, de) := hc.split; pure (.halves e en de, .done)
    | .wcli c => let (en, de) := c.split; pure (.wcliH en de, .done)
    | .wsrv c => let (en, de) := c.split; pure (.wsrvH en de, .done)
    | _ => pure (o, .done)
  | .unsplit =>
    match o with
    | .halves .vanilla en de =>
      match en.unsplit de with
      | some hc => pure (.comb .vanilla hc, .done)
      | none => pure (o, .refused)
    | _ => pure (o, .na)
  | .clone => pure (o, .done)

/-- a whole op list, answers collected (`hdrRun`) -/
def HObj.run : HObj → List HOp → Out (HObj × List HOut)
  | o, [] => .ok (o, [])
  | o, op :: ops => do
    let (o', r) ← o.step op
    let (o'', rs) ← HObj.run o' ops
    pure (o'', r :: rs)

end WowSrp
