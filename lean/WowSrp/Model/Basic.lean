/-
Model layer — basic definitions shared by every model file.
Import-free (core only) so that the driver links as a `lean_exe`.
-/
namespace WowSrp

abbrev Bytes := List UInt8

/-- Outcome of a piece of Rust code that may panic. Every Rust panic site the model
    knows about is an explicit `panic site`, so "never panics" is a statement. -/
inductive Out (α : Type) where
  | ok (a : α)
  | panic (site : String)
deriving Repr, DecidableEq

namespace Out
@[inline] def bind {α β} (x : Out α) (f : α → Out β) : Out β :=
  match x with
  | .ok a => f a
  | .panic p => .panic p
instance : Monad Out where
  pure := .ok
  bind := Out.bind
def isOk {α} : Out α → Bool
  | .ok _ => true
  | .panic _ => false
@[simp] theorem bind_ok {α β} (a : α) (f : α → Out β) : (Out.ok a >>= f) = f a := rfl
@[simp] theorem bind_panic {α β} (p : String) (f : α → Out β) : (Out.panic p >>= f) = .panic p := rfl
@[simp] theorem pure_eq {α} (a : α) : (pure a : Out α) = .ok a := rfl
end Out

/-- little-endian bytes to natural number (`from_bytes_le`, `from_digits(.., LsfLe)`) -/
def ofLE : Bytes → Nat
  | [] => 0
  | b :: bs => b.toNat + 256 * ofLE bs

/-- big-endian bytes to natural number -/
def ofBE (bs : Bytes) : Nat := bs.foldl (fun acc b => acc * 256 + b.toNat) 0

/-- minimal little-endian digits; zero ↦ [] (rug's `to_digits`) -/
def toLE (n : Nat) : Bytes :=
  if h : n = 0 then [] else UInt8.ofNat (n % 256) :: toLE (n / 256)
termination_by n
decreasing_by omega

/-- fixed-width little-endian encoding (`u32::to_le_bytes` etc.) -/
def leN : Nat → Nat → Bytes
  | 0, _ => []
  | w+1, n => UInt8.ofNat (n % 256) :: leN w (n / 256)

/-- fast modular exponentiation as both big-integer libraries compute it (square and multiply);
    proved equal to `b ^ e % m` in `Lemmas/PowMod.lean`. -/
def powModAux : Nat → Nat → Nat → Nat → Nat → Nat
  | 0, _, _, _, acc => acc
  | fuel+1, b, e, m, acc =>
    if e = 0 then acc
    else powModAux fuel (b*b % m) (e/2) m (if e % 2 = 1 then acc*b % m else acc)

def powMod (b e m : Nat) : Nat := powModAux (e.log2 + 1) (b % m) e m (1 % m)

/-! hex helpers (driver only) -/
def hexDigit (c : Char) : Nat :=
  if '0' ≤ c ∧ c ≤ '9' then c.toNat - 48
  else if 'a' ≤ c ∧ c ≤ 'f' then c.toNat - 87
  else c.toNat - 55

def unhex (s : String) : Bytes :=
  let rec go : List Char → Bytes
    | a :: b :: r => UInt8.ofNat (hexDigit a * 16 + hexDigit b) :: go r
    | _ => []
  if s = "-" then [] else go s.toList

def hexNib (n : Nat) : Char := if n < 10 then Char.ofNat (48 + n) else Char.ofNat (87 + n)

def hex (l : Bytes) : String :=
  if l.isEmpty then "-" else
  String.ofList (l.flatMap fun b => [hexNib (b.toNat / 16), hexNib (b.toNat % 16)])

def xorBytes (a b : Bytes) : Bytes := List.zipWith (· ^^^ ·) a b

end WowSrp
