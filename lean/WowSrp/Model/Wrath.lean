/-
Model of src/rc4.rs, src/wrath_header/inner_crypto/mod.rs, src/wrath_header/{encrypt,decrypt,mod}.rs
-/
import WowSrp.Model.Header
namespace WowSrp

/-- `struct Rc4 { state: [u8; 256], i: u8, j: u8 }` -/
structure Rc4 where
  state : Array UInt8
  i : UInt8
  j : UInt8
deriving Repr, DecidableEq

/-- `self.state.swap(a, b)`; panics when out of bounds -/
def swapOut (s : Array UInt8) (a b : Nat) : Out (Array UInt8) :=
  match s[a]?, s[b]? with
  | some x, some y => .ok ((s.setIfInBounds a y).setIfInBounds b x)
  | _, _ => .panic "rc4.rs: state.swap index out of bounds"

def getOut (s : Array UInt8) (a : Nat) : Out UInt8 :=
  match s[a]? with
  | some x => .ok x
  | none => .panic "rc4.rs: state index out of bounds"

/-- the `i_iter.zip(key_iter).for_each` loop of `key_scheduling_algorithm`, from index `i` on;
    `key.iter().cycle()` of an empty key yields nothing, so the loop body never runs -/
def ksaLoop (key : Bytes) : Nat → Nat → Array UInt8 → UInt8 → Out (Array UInt8)
  | 0, _, s, _ => .ok s
  | fuel+1, i, s, j =>
    match key[i % key.length]? with
    | none => .ok s
    | some k => do
      let si ← getOut s i
      let j' := j + si + k
      let s' ← swapOut s i j'.toNat
      ksaLoop key fuel (i+1) s' j'

/-- `Rc4::new` -/
def Rc4.new (key : Bytes) : Out Rc4 := do
  let init : Array UInt8 := (Array.range 256).map UInt8.ofNat
  let s ← ksaLoop key 256 0 init 0
  pure ⟨s, 0, 0⟩

/-- `pseudo_random_generation` -/
def Rc4.prga (r : Rc4) : Out (Rc4 × UInt8) := do
  let i := r.i + 1
  let si ← getOut r.state i.toNat
  let j := r.j + si
  let s ← swapOut r.state i.toNat j.toNat
  let a ← getOut s i.toNat
  let b ← getOut s j.toNat
  let v ← getOut s (a + b).toNat
  pure (⟨s, i, j⟩, v)

/-- one byte of `apply_keystream` -/
def Rc4.step (r : Rc4) (x : UInt8) : Out (Rc4 × UInt8) := do
  let (r', v) ← r.prga
  pure (r', x ^^^ v)

/-- `apply_keystream` -/
def Rc4.apply (r : Rc4) (data : Bytes) : Out (Rc4 × Bytes) := runSteps Rc4.step r data

/-- `InnerCrypto::new(session_key, key)`: RC4 keyed with HMAC-SHA1(key, session_key), first
    `Gen.wrathDrop` keystream bytes discarded -/
def InnerCrypto.new (C : Crypto) (K key : Bytes) : Out Rc4 := do
  let r ← Rc4.new (C.hmac key K)
  let (r', _) ← r.apply (List.replicate Gen.wrathDrop 0)
  pure r'

/-- the constant each half is keyed with, as the source assigns them -/
def keyServerEnc : Bytes := if Gen.wrathServerEncUsesR then Gen.wrathR else Gen.wrathS
def keyClientEnc : Bytes := if Gen.wrathClientEncUsesS then Gen.wrathS else Gen.wrathR
def keyServerDec : Bytes := if Gen.wrathServerDecUsesS then Gen.wrathS else Gen.wrathR
def keyClientDec : Bytes := if Gen.wrathClientDecUsesR then Gen.wrathR else Gen.wrathS

/-- `ServerEncrypterHalf { encrypt, server_header: [u8; 5] }` -/
structure WServerEnc where
  rc4 : Rc4
  serverHeader : Bytes
deriving Repr, DecidableEq

/-- `ClientDecrypterHalf { decrypt, header: [u8; 4] }` -/
structure WClientDec where
  rc4 : Rc4
  header : Bytes
deriving Repr, DecidableEq

def WServerEnc.new (C : Crypto) (K : Bytes) : Out WServerEnc := do
  let r ← InnerCrypto.new C K keyServerEnc
  pure ⟨r, List.replicate Gen.wrathServerHeaderMaxLength 0⟩
def WClientDec.new (C : Crypto) (K : Bytes) : Out WClientDec := do
  let r ← InnerCrypto.new C K keyClientDec
  pure ⟨r, List.replicate Gen.wrathServerHeaderMinLength 0⟩
/-- `ClientEncrypterHalf::new` / `ServerDecrypterHalf::new` are bare `InnerCrypto`s -/
def WClientEnc.new (C : Crypto) (K : Bytes) : Out Rc4 := InnerCrypto.new C K keyClientEnc
def WServerDec.new (C : Crypto) (K : Bytes) : Out Rc4 := InnerCrypto.new C K keyServerDec

/-- `u32::to_be_bytes` -/
def be32 (n : Nat) : Bytes :=
  [UInt8.ofNat (n / 16777216 % 256), UInt8.ofNat (n / 65536 % 256), UInt8.ofNat (n / 256 % 256), UInt8.ofNat (n % 256)]

/-- plaintext of `encrypt_server_header(size: u32, opcode: u16)` -/
def wrathServerHeaderBytes (size opcode : Nat) : Bytes :=
  let s := be32 size
  let o := leN 2 opcode
  if size > Gen.wrathLargeThreshold then
    [s[1]! ||| UInt8.ofNat Gen.wrathSetMask, s[2]!, s[3]!] ++ o
  else [s[2]!, s[3]!] ++ o

/-- `ServerEncrypterHalf::encrypt_server_header`: returns the slice handed out; the internal
    5-byte buffer keeps the last header (its 5th byte is stale after a 4-byte header) -/
def WServerEnc.encryptServerHeader (h : WServerEnc) (size opcode : Nat) : Out (WServerEnc × Bytes) := do
  let plain := wrathServerHeaderBytes size opcode
  let (r', enc) ← h.rc4.apply plain
  let buf := enc ++ h.serverHeader.drop enc.length
  pure (⟨r', buf⟩, enc)

def WServerEnc.encrypt (h : WServerEnc) (data : Bytes) : Out (WServerEnc × Bytes) := do
  let (r', out) ← h.rc4.apply data
  pure ({ h with rc4 := r' }, out)

def WClientDec.decrypt (h : WClientDec) (data : Bytes) : Out (WClientDec × Bytes) := do
  let (r', out) ← h.rc4.apply data
  pure ({ h with rc4 := r' }, out)

/-- `large_header` -/
def largeHeader (v : UInt8) : Bool := (v &&& UInt8.ofNat Gen.wrathTestMask) != 0
/-- `clear_large_header` -/
def clearLargeHeader (v : UInt8) : UInt8 := v &&& UInt8.ofNat Gen.wrathClearMask

/-- `ServerHeader::from_small_array` -/
def parseSmall : Bytes → Out (Nat × Nat)
  | [b0, b1, b2, b3] => .ok (b0.toNat * 256 + b1.toNat, b2.toNat + 256 * b3.toNat)
  | _ => .panic "header array length"
/-- `ServerHeader::from_large_array` -/
def parseLarge : Bytes → Out (Nat × Nat)
  | [b0, b1, b2, b3, b4] =>
    .ok ((clearLargeHeader b0).toNat * 65536 + b1.toNat * 256 + b2.toNat, b3.toNat + 256 * b4.toNat)
  | _ => .panic "header array length"

inductive WAttempt where
  | header (size opcode : Nat)
  | additionalByteRequired
deriving Repr, DecidableEq

/-- `attempt_decrypt_server_header([u8; 4])` -/
def WClientDec.attempt (h : WClientDec) (buf : Bytes) : Out (WClientDec × WAttempt) := do
  let (r', p) ← h.rc4.apply buf
  match p with
  | [b0, b1, b2, b3] =>
    if largeHeader b0 then pure (⟨r', [b0, b1, b2, b3]⟩, .additionalByteRequired)
    else do
      let (s, o) ← parseSmall p
      pure ({ h with rc4 := r' }, .header s o)
  | _ => .panic "header array length"

/-- `decrypt_large_server_header(byte)` -/
def WClientDec.decryptLarge (h : WClientDec) (byte : UInt8) : Out (WClientDec × (Nat × Nat)) := do
  let (r', p) ← h.rc4.apply [byte]
  let r ← parseLarge (h.header ++ p)
  pure ({ h with rc4 := r' }, r)

/-- `ClientDecrypterHalf::read_and_decrypt_server_header` -/
def WClientDec.readServerHeader (h : WClientDec) (script : List REv) :
    Out (IoRes WClientDec (Nat × Nat) (List REv)) :=
  match readExact script 4 [] with
  | (.error k, rest) => .ok ⟨h, .error k, rest⟩
  | (.ok buf, rest) => do
    let (h', a) ← h.attempt buf
    match a with
    | .header s o => pure ⟨h', .ok (s, o), rest⟩
    | .additionalByteRequired =>
      match readExact rest 1 [] with
      | (.error k, rest') => pure ⟨h', .error k, rest'⟩
      | (.ok b, rest') => do
        let (h'', r) ← h'.decryptLarge (b.headD 0)
        pure ⟨h'', .ok r, rest'⟩

/-- `ServerEncrypterHalf::write_encrypted_server_header` -/
def WServerEnc.writeServerHeader (h : WServerEnc) (size opcode : Nat) (script : List WEv) :
    Out (IoRes WServerEnc Unit Bytes) := do
  let (h', buf) ← h.encryptServerHeader size opcode
  let (r, sink) := writeAll script buf []
  pure ⟨h', r, sink⟩

/-- `ClientEncrypterHalf::encrypt_client_header(size: u16, opcode: u32)` -/
def wClientEncryptHeader (r : Rc4) (size opcode : Nat) : Out (Rc4 × Bytes) :=
  r.apply (clientHeaderBytes size opcode)

def wClientWriteHeader (r : Rc4) (size opcode : Nat) (script : List WEv) : Out (IoRes Rc4 Unit Bytes) := do
  let (r', buf) ← wClientEncryptHeader r size opcode
  let (res, sink) := writeAll script buf []
  pure ⟨r', res, sink⟩

/-- `ServerDecrypterHalf::decrypt_client_header([u8; 6])` -/
def wServerDecryptHeader (r : Rc4) (data : Bytes) : Out (Rc4 × (Nat × Nat)) := do
  let (r', p) ← r.apply data
  let h ← parseClientHeader p
  pure (r', h)

/-- `ServerDecrypterHalf::read_and_decrypt_client_header` -/
def wServerReadHeader (r : Rc4) (script : List REv) : Out (IoRes Rc4 (Nat × Nat) (List REv)) :=
  match readExact script Gen.wrathClientHeaderLength [] with
  | (.error k, rest) => .ok ⟨r, .error k, rest⟩
  | (.ok buf, rest) => do
    let (r', h) ← wServerDecryptHeader r buf
    pure ⟨r', .ok h, rest⟩

/-- `ClientCrypto { decrypt: ClientDecrypterHalf, encrypt: ClientEncrypterHalf }` -/
structure WClientCrypto where
  decrypt : WClientDec
  encrypt : Rc4
deriving Repr, DecidableEq

/-- `ServerCrypto { decrypt: ServerDecrypterHalf, encrypt: ServerEncrypterHalf }` -/
structure WServerCrypto where
  decrypt : Rc4
  encrypt : WServerEnc
deriving Repr, DecidableEq

/-! facade methods of `ClientCrypto` / `ServerCrypto` delegate to the halves; `split` hands out the two fields -/
def WClientCrypto.split (c : WClientCrypto) : Rc4 × WClientDec := (c.encrypt, c.decrypt)
def WServerCrypto.split (c : WServerCrypto) : WServerEnc × Rc4 := (c.encrypt, c.decrypt)
def WClientCrypto.encryptData (c : WClientCrypto) (data : Bytes) : Out (WClientCrypto × Bytes) := do
  let (r, out) ← c.encrypt.apply data
  pure ({ c with encrypt := r }, out)
def WClientCrypto.decryptData (c : WClientCrypto) (data : Bytes) : Out (WClientCrypto × Bytes) := do
  let (d, out) ← c.decrypt.decrypt data
  pure ({ c with decrypt := d }, out)
def WClientCrypto.encryptClientHeader (c : WClientCrypto) (size opcode : Nat) : Out (WClientCrypto × Bytes) := do
  let (r, out) ← wClientEncryptHeader c.encrypt size opcode
  pure ({ c with encrypt := r }, out)
def WClientCrypto.writeClientHeader (c : WClientCrypto) (size opcode : Nat) (script : List WEv) :
    Out (IoRes WClientCrypto Unit Bytes) := do
  let r ← wClientWriteHeader c.encrypt size opcode script
  pure ⟨{ c with encrypt := r.state }, r.result, r.rest⟩
def WClientCrypto.attempt (c : WClientCrypto) (buf : Bytes) : Out (WClientCrypto × WAttempt) := do
  let (d, a) ← c.decrypt.attempt buf
  pure ({ c with decrypt := d }, a)
def WClientCrypto.decryptLarge (c : WClientCrypto) (byte : UInt8) : Out (WClientCrypto × (Nat × Nat)) := do
  let (d, h) ← c.decrypt.decryptLarge byte
  pure ({ c with decrypt := d }, h)
def WClientCrypto.readServerHeader (c : WClientCrypto) (script : List REv) :
    Out (IoRes WClientCrypto (Nat × Nat) (List REv)) := do
  let r ← c.decrypt.readServerHeader script
  pure ⟨{ c with decrypt := r.state }, r.result, r.rest⟩
def WServerCrypto.encryptData (c : WServerCrypto) (data : Bytes) : Out (WServerCrypto × Bytes) := do
  let (e, out) ← c.encrypt.encrypt data
  pure ({ c with encrypt := e }, out)
def WServerCrypto.decryptData (c : WServerCrypto) (data : Bytes) : Out (WServerCrypto × Bytes) := do
  let (r, out) ← c.decrypt.apply data
  pure ({ c with decrypt := r }, out)
def WServerCrypto.encryptServerHeader (c : WServerCrypto) (size opcode : Nat) : Out (WServerCrypto × Bytes) := do
  let (e, out) ← c.encrypt.encryptServerHeader size opcode
  pure ({ c with encrypt := e }, out)
def WServerCrypto.writeServerHeader (c : WServerCrypto) (size opcode : Nat) (script : List WEv) :
    Out (IoRes WServerCrypto Unit Bytes) := do
  let r ← c.encrypt.writeServerHeader size opcode script
  pure ⟨{ c with encrypt := r.state }, r.result, r.rest⟩
def WServerCrypto.decryptClientHeader (c : WServerCrypto) (data : Bytes) : Out (WServerCrypto × (Nat × Nat)) := do
  let (r, h) ← wServerDecryptHeader c.decrypt data
  pure ({ c with decrypt := r }, h)
def WServerCrypto.readClientHeader (c : WServerCrypto) (script : List REv) :
    Out (IoRes WServerCrypto (Nat × Nat) (List REv)) := do
  let r ← wServerReadHeader c.decrypt script
  pure ⟨{ c with decrypt := r.state }, r.result, r.rest⟩

def WClientCrypto.new (C : Crypto) (K : Bytes) : Out WClientCrypto := do
  let d ← WClientDec.new C K
  let e ← WClientEnc.new C K
  pure ⟨d, e⟩
def WServerCrypto.new (C : Crypto) (K : Bytes) : Out WServerCrypto := do
  let d ← WServerDec.new C K
  let e ← WServerEnc.new C K
  pure ⟨d, e⟩

end WowSrp
