/-
Assumed behaviour of the dependencies the Rust code calls (trusted base, `DESIGN.md` §4):
the two big-integer back ends, the fixed-size copy idiom, `read_exact` / `write_all`.
Everything here sits on the implementation side of every correspondence run.
-/
import WowSrp.Model.Basic
namespace WowSrp

/-- the two `bigint::Integer` back ends (`srp-default-math` = num-bigint, `srp-fast-math` = rug/GMP) -/
inductive Backend where
  | num
  | rug
deriving DecidableEq, Repr

/-- `Integer::to_bytes_le`: magnitude bytes, little endian. num-bigint gives `[0]` for zero,
    rug's `to_digits` gives `[]`. -/
def Backend.toBytesLe : Backend → Nat → Bytes
  | .num, n => if n = 0 then [0] else toLE n
  | .rug, n => toLE n

/-- mathematical meaning of `base.modpow(exp, m)` for `m > 0`: the non-negative residue of `base ^ exp`
    (num-bigint documents `mod_floor` rounding; GMP's `mpz_powm*` likewise return `0 ≤ r < m`). -/
def modpowVal (base : Int) (exp m : Nat) : Nat :=
  powMod (base % (m : Int)).toNat exp m

/-- `Integer::modpow`. Panics:
    * num-bigint `BigInt::modpow`: zero modulus (negative exponents cannot occur: all exponents come
      from `from_bytes_le` / sums and products of such);
    * rug: `secure_pow_mod` is used when its preconditions (exponent > 0, odd modulus) hold, otherwise
      `pow_mod(..).unwrap()`, which fails exactly for a zero modulus (no inverse is ever needed for a
      non-negative exponent). -/
def Backend.modpow (be : Backend) (base : Int) (exp m : Nat) : Out Nat :=
  if m = 0 then
    .panic (match be with
      | .num => "num-bigint modpow: zero modulus"
      | .rug => "rug pow_mod: zero modulus")
  else .ok (modpowVal base exp m)

/-- `a % b` on `Integer` (truncated remainder); division by zero panics in both back ends.
    Only ever applied to non-negative values in this crate. -/
def remOut (a b : Nat) : Out Nat :=
  if b = 0 then .panic "bigint Rem: division by zero" else .ok (a % b)

/-- `let mut key = [0_u8; W]; key[0..b.len()].clone_from_slice(&b);` — the slice index panics
    when `b` is longer than the array. -/
def padCopy (w : Nat) (bs : Bytes) (site : String) : Out Bytes :=
  if bs.length ≤ w then .ok (bs ++ List.replicate (w - bs.length) 0) else .panic site

/-! ### std::io modelled as scripted readers / writers -/

/-- `io::ErrorKind`s the harness can inject, as small numbers (see harness `kind_of`) -/
abbrev IoKind := Nat
def kindUnexpectedEof : IoKind := 11
def kindWriteZero : IoKind := 10

/-- one `read()` call of a scripted reader -/
inductive REv where
  | data (bs : Bytes)     -- hands over up to `bs.length` bytes (what does not fit stays for the next call)
  | interrupted           -- `Err(ErrorKind::Interrupted)`
  | err (kind : IoKind)   -- any other error
  | eof                   -- `Ok(0)`
deriving Repr, DecidableEq

def REv.weight : REv → Nat
  | .data bs => bs.length + 1
  | _ => 1

/-- std's `read_exact` on a buffer of `n` bytes: loop `read(&mut buf[filled..])`; `Ok(0)` ⇒
    `UnexpectedEof`; `Interrupted` ⇒ retry; other error ⇒ return it. A script that runs out
    behaves as `Ok(0)`. A `data` event with no bytes is `Ok(0)` too. Returns the result and the
    rest of the script. -/
def readExact : List REv → Nat → Bytes → (Except IoKind Bytes) × List REv
  | script, 0, acc => (.ok acc, script)
  | [], _+1, _ => (.error kindUnexpectedEof, [])
  | .interrupted :: rest, n+1, acc => readExact rest (n+1) acc
  | .err k :: rest, _+1, _ => (.error k, rest)
  | .eof :: rest, _+1, _ => (.error kindUnexpectedEof, rest)
  | .data [] :: rest, _+1, _ => (.error kindUnexpectedEof, rest)
  | .data (b :: bs) :: rest, n+1, acc =>
      readExact (if bs.isEmpty then rest else .data bs :: rest) n (acc ++ [b])
termination_by script n _ => ((script.map REv.weight).sum, n)
decreasing_by
  all_goals simp_wf
  all_goals simp only [REv.weight, List.map_cons, List.sum_cons]
  all_goals first
    | (apply Prod.Lex.left; omega)
    | (split <;> apply Prod.Lex.left <;> simp [REv.weight, List.length_cons] <;> omega)

/-- one `write()` call of a scripted writer -/
inductive WEv where
  | accept (n : Nat)      -- takes up to `n` bytes (n = 0 is `Ok(0)`)
  | interrupted
  | err (kind : IoKind)
deriving Repr, DecidableEq

/-- std's `write_all`: loop `write(buf)`; `Ok(0)` ⇒ `WriteZero`; `Interrupted` ⇒ retry; other
    error ⇒ return it. A script that runs out accepts everything. Returns the result and the bytes
    that reached the sink. -/
def writeAll : List WEv → Bytes → Bytes → (Except IoKind Unit) × Bytes
  | _, [], sink => (.ok (), sink)
  | [], buf, sink => (.ok (), sink ++ buf)
  | .interrupted :: rest, buf, sink => writeAll rest buf sink
  | .err k :: _, _ :: _, sink => (.error k, sink)
  | .accept 0 :: _, _ :: _, sink => (.error kindWriteZero, sink)
  | .accept (n+1) :: rest, b :: bs, sink =>
      writeAll rest ((b :: bs).drop (n+1)) (sink ++ (b :: bs).take (n+1))
termination_by script _ _ => script.length

end WowSrp
