/-
Deep embedding of the big-integer FORMULAS of the SRP6 exchange, as the Rust writes them with operator overloading:

    generator.modpow(&x, &large_safe_prime)                                                        (verifier, client public key)
    (KValue::bigint() * password_verifier.as_bigint() + generator.modpow(&b, &N)) % N             (server public key)
    (A.as_bigint() * v.as_bigint().modpow(&u.as_bigint(), &N)).modpow(&b.as_bigint(), &N)          (server S)
    (B.as_bigint() - k * g.to_bigint().modpow(&x.as_bigint(), &N')).modpow(&(a + u * x), &N')       (client S)

`tools/gen_code.py` parses the five functions of src/srp_internal.rs / src/srp_internal_client.rs on every run (locals are inlined,
`&`, `.as_bigint()`, `.to_bigint()` dropped, `KValue::bigint()` / `Generator::default()` / `LargeSafePrime::default()` named) into terms
of `BigExpr` (Gen/Code.lean) together with the name of the conversion applied to the result.  Their meaning is below: arithmetic over
ℤ, `modpow` through the model's `Backend.modpow` (so negative bases and zero moduli behave as the chosen library does), `%` panicking on
zero.  `Props/Source/Formulas.lean` proves that each translated formula IS the one inside the model function of the same name.
-/
import WowSrp.Model.Deps
namespace WowSrp.MiniBig

inductive BigExpr where
  | v (name : String)            -- a function parameter converted with `.as_bigint()` / `.to_bigint()`
  | k                            -- `KValue::bigint()`
  | g                            -- `Generator::default().to_bigint()`
  | n                            -- `LargeSafePrime::default().to_bigint()`
  | mul (a b : BigExpr)
  | add (a b : BigExpr)
  | sub (a b : BigExpr)
  | rem (a b : BigExpr)
  | modpow (base exp m : BigExpr)
  | unsupported (text : String)
deriving Repr, DecidableEq

/-- values of the built-in constants, supplied by the caller (the model's `kBig`, `gBig`, `nBig`) -/
structure Consts where
  k : Nat
  g : Nat
  n : Nat

def BigExpr.eval (c : Consts) (be : Backend) (env : String → Nat) : BigExpr → Out Int
  | .v name => .ok (env name)
  | .k => .ok c.k
  | .g => .ok c.g
  | .n => .ok c.n
  | .mul a b => do let x ← a.eval c be env; let y ← b.eval c be env; .ok (x * y)
  | .add a b => do let x ← a.eval c be env; let y ← b.eval c be env; .ok (x + y)
  | .sub a b => do let x ← a.eval c be env; let y ← b.eval c be env; .ok (x - y)
  | .rem a b => do
    let x ← a.eval c be env
    let y ← b.eval c be env
    if y = 0 then .panic "bigint Rem: division by zero" else .ok (x % y)
  | .modpow base exp m => do
    let b ← base.eval c be env
    let e ← exp.eval c be env
    let md ← m.eval c be env
    let r ← be.modpow b e.toNat md.toNat
    .ok (r : Int)
  | .unsupported _ => .panic "source outside the translated subset"

end WowSrp.MiniBig
