/-
Deep embedding of the crate's HASH-LAYOUT functions — the functions whose whole body is "feed these byte strings, in this order, to a SHA-1 /
HMAC-SHA1 object and return the digest" (src/srp_internal.rs: `calculate_x`, `calculate_u`, `calculate_server_proof`, `calculate_client_proof`,
`calculate_reconnect_proof`, `calculate_xor_hash`; src/srp_internal_client.rs: `calculate_client_proof_with_custom_value`;
src/vanilla_header/internal.rs: `calculate_world_server_proof`; src/integrity.rs: all six).

`tools/gen_hash.py` translates each of them from the working tree on every run into a `HashProg` (Gen/CodeHash.lean): the statements of the body
in source order, each defining the next local —

    let x = Sha1::new().chain_update(a1)….chain_update(an).finalize();          sha1 [a1, …, an]
    let mut h = Hmac::<Sha1>::new_from_slice(k).unwrap(); h.update(a1); …; h.finalize_fixed().into()      hmac k [a1, …, an]
    let z = [0_u8; N];                                                          zeros N
    let mut x = [0_u8; N]; for (i, n) in a.iter().enumerate() { x[i] = *n ^ b[i]; }          xorInto N a b
    let c = f(a1, …, an);                                                       call "f" [a1, …, an]      (a function of the same file / crate)

— and the result.  This file is the MEANING of those terms: successive `chain_update` / `update` calls hash the concatenation (the property of
the `sha1` / `hmac` crates recorded in Model/Integrity.lean and exercised by every correspondence run); an argument is a parameter (byte-string
parameters through their accessor `as_ref()` / `as_le_bytes()`, which the glue facts pin to be the stored bytes), the little-endian bytes of a
`u32` parameter or literal, one byte made of a `u8`-like parameter, a byte-string literal or named constant (resolved by the translator to its
bytes), or an earlier local.  An ill-typed term (a number fed as bytes, an index past the parameters or locals, a callee the environment does not
know, the xor loop writing past its array or reading past `b`) has NO meaning (`none`) — the equivalence theorems in
Props/Source/Hashes*.lean state `run … = some (model function …)`, so nothing is true by default.
-/
import WowSrp.Model.Crypto
namespace WowSrp.MiniHash

inductive Val where
  | bytes (b : Bytes)
  | num (n : Nat)
deriving Repr, DecidableEq

inductive HArg where
  | param (i : Nat)            -- `p`, `&p`, `p.as_ref()`, `p.as_le_bytes()` for the i-th parameter
  | u32le (i : Nat)            -- `p.to_le_bytes()` for a `u32` parameter
  | litU32 (n : Nat)           -- `<n>_u32.to_le_bytes()`
  | byteOf (i : Nat)           -- `[p.as_u8()]`
  | lit (b : Bytes)            -- `":"`, a named byte-array constant
  | loc (i : Nat)              -- the i-th local defined so far (also through `.as_le_bytes()`)
deriving Repr, DecidableEq

inductive HStmt where
  | sha1 (args : List HArg)
  | hmac (key : HArg) (args : List HArg)
  | zeros (n : Nat)
  | xorInto (n : Nat) (a b : HArg)
  | call (fn : String) (args : List HArg)
deriving Repr, DecidableEq

structure HashProg where
  stmts : List HStmt
  result : HArg
  unsupported : Option String
deriving Repr, DecidableEq

/-- what a call of another function means: by name, on the values of its arguments -/
abbrev Callees := String → Option (List Val → Option Bytes)

def HArg.val (ps : List Val) (ls : List Bytes) : HArg → Option Val
  | .param i => ps[i]?
  | .u32le i => match ps[i]? with | some (.num n) => if n < 2 ^ 32 then some (.bytes (leN 4 n)) else none | _ => none
  | .litU32 n => if n < 2 ^ 32 then some (.bytes (leN 4 n)) else none
  | .byteOf i => match ps[i]? with | some (.num n) => if n < 256 then some (.bytes [UInt8.ofNat n]) else none | _ => none
  | .lit b => some (.bytes b)
  | .loc i => (ls[i]?).map Val.bytes

/-- an argument that is FED to a hash must be a byte string -/
def HArg.fed (ps : List Val) (ls : List Bytes) (a : HArg) : Option Bytes :=
  match a.val ps ls with | some (.bytes b) => some b | _ => none

def feedAll (ps : List Val) (ls : List Bytes) : List HArg → Option Bytes
  | [] => some []
  | a :: r => do
    let x ← a.fed ps ls
    let y ← feedAll ps ls r
    pure (x ++ y)

def valAll (ps : List Val) (ls : List Bytes) : List HArg → Option (List Val)
  | [] => some []
  | a :: r => do
    let x ← a.val ps ls
    let y ← valAll ps ls r
    pure (x :: y)

/-- `for (i, n) in a.iter().enumerate() { x[i] = *n ^ b[i]; }` on `x = [0; n]`: every element of `a` is visited, `x[i]` and `b[i]` are
    bounds-checked -/
def xorLoop (n : Nat) (a b : Bytes) : Option Bytes :=
  if a.length ≤ n ∧ a.length ≤ b.length then some (List.zipWith (· ^^^ ·) a b ++ List.replicate (n - a.length) 0) else none

def HStmt.exec (C : Crypto) (cs : Callees) (ps : List Val) (ls : List Bytes) : HStmt → Option Bytes
  | .sha1 args => (feedAll ps ls args).map C.sha1
  | .hmac key args => do
    let k ← key.fed ps ls
    let m ← feedAll ps ls args
    pure (C.hmac k m)
  | .zeros n => some (List.replicate n 0)
  | .xorInto n a b => do
    let x ← a.fed ps ls
    let y ← b.fed ps ls
    xorLoop n x y
  | .call fn args => do
    let f ← cs fn
    let vs ← valAll ps ls args
    f vs

def execAll (C : Crypto) (cs : Callees) (ps : List Val) : List HStmt → List Bytes → Option (List Bytes)
  | [], ls => some ls
  | s :: r, ls => do
    let v ← s.exec C cs ps ls
    execAll C cs ps r (ls ++ [v])

/-- the function the translated program denotes -/
def HashProg.run (p : HashProg) (C : Crypto) (cs : Callees) (ps : List Val) : Option Bytes :=
  match p.unsupported with
  | some _ => none
  | none => do
    let ls ← execAll C cs ps p.stmts []
    p.result.fed ps ls

end WowSrp.MiniHash
