/-
Deep embedding of the straight-line body of `Rc4::pseudo_random_generation` (src/rc4.rs):

    self.i = <e>;  self.j = <e>;  self.state.swap(<e>.into(), <e>.into());  let index: usize = <e>.into();  self.state[index]

with `<e>` built from `self.i`, `self.j`, `self.s_i()`, `self.s_j()`, literals, locals and `.wrapping_add(..)`.  tools/gen_code.py
translates the function from the working tree on every run (after checking that `s_i` / `s_j` are `self.state[self.i as usize]` /
`self.state[self.j as usize]`); `Props/Source/Rc4Prga.lean` proves that the translated body IS the model's `Rc4.prga` for every state.
Table accesses go through the model's own bounds-checked `getOut` / `swapOut`, so an access the Rust would panic on panics here too.
-/
import WowSrp.Model.Wrath
namespace WowSrp.MiniRc4

inductive RExpr where
  | i
  | j
  | sI                          -- `self.s_i()` = `self.state[self.i as usize]`
  | sJ
  | lit (n : Nat)
  | loc (name : String)
  | wadd (a b : RExpr)          -- `a.wrapping_add(b)`
deriving Repr, DecidableEq

inductive RStmt where
  | setI (e : RExpr)
  | setJ (e : RExpr)
  | swap (a b : RExpr)          -- `self.state.swap(a.into(), b.into())`
  | letv (name : String) (e : RExpr)
  | unsupported (text : String)
deriving Repr, DecidableEq

structure RSt where
  r : Rc4
  locals : List (String × UInt8)

def RExpr.eval (s : RSt) : RExpr → Out UInt8
  | .i => .ok s.r.i
  | .j => .ok s.r.j
  | .sI => getOut s.r.state s.r.i.toNat
  | .sJ => getOut s.r.state s.r.j.toNat
  | .lit n => .ok (UInt8.ofNat n)
  | .loc name =>
    match s.locals.lookup name with
    | some v => .ok v
    | none => .panic "unbound local"
  | .wadd a b => do let x ← a.eval s; let y ← b.eval s; .ok (x + y)

def RStmt.exec (s : RSt) : RStmt → Out RSt
  | .setI e => do let v ← e.eval s; .ok { s with r := { s.r with i := v } }
  | .setJ e => do let v ← e.eval s; .ok { s with r := { s.r with j := v } }
  | .swap a b => do
    let x ← a.eval s
    let y ← b.eval s
    let st ← swapOut s.r.state x.toNat y.toNat
    .ok { s with r := { s.r with state := st } }
  | .letv name e => do let v ← e.eval s; .ok { s with locals := (name, v) :: s.locals }
  | .unsupported _ => .panic "source outside the translated subset"

def execAll : List RStmt → RSt → Out RSt
  | [], s => .ok s
  | st :: rest, s => do let s' ← st.exec s; execAll rest s'

/-- the function the translated body denotes: new cipher state and the keystream byte -/
def prgaOf (body : List RStmt) (result : RExpr) (r : Rc4) : Out (Rc4 × UInt8) := do
  let s ← execAll body ⟨r, []⟩
  let ix ← result.eval s
  let v ← getOut s.r.state ix.toNat
  .ok (s.r, v)

end WowSrp.MiniRc4
