/-
Deep embedding of `calculate_interleaved` (src/srp_internal.rs):
    let S = S.as_equal_slice();
    let mut E = [<fill>; <len>];  for (i, e) in S.iter()[.skip(<k>)].step_by(<n>).enumerate() { E[i] = <*e | lit>; }
    let G = Sha1::new().chain_update(&<E>[..S.len() / <d>]).finalize();
    let mut F = [<fill>; <len>];  for (i, f) in S.iter()[.skip(<k>)].step_by(<n>).enumerate() { F[i] = <*f | lit>; }
    let H = Sha1::new().chain_update(&<E|F>[..S.len() / <d>]).finalize();
    let mut result = [<fill>; <len>];  let zip = <G|H>.iter().zip(<G|H>.iter());
    for (i, r) in zip.enumerate() { result[<idx>] = *r.<0|1>;  result[<idx>] = *r.<0|1>; }
    SessionKey::from_le_bytes(result)
`tools/gen_ilv.py` translates the function from the working tree on every run into an `IlvProg` (Gen/CodeIlv.lean); this file is its
meaning with RUST's semantics: `skip(k).step_by(n)` yields every n-th element from index k on (`step_by(0)` panics), `A[i] = x` panics
when `i ≥ len`, `&A[..m]` panics when `m > len`, `/ 0` panics, `zip` stops with the shorter side, the two writes of one iteration happen
in order, a SHA-1 output is whatever `C.sha1` returns (no length assumed), `from_le_bytes` keeps the bytes.  Index terms are evaluated in
`Nat`: with `i < 2^32` (an index into a hash output) and literals from the source, a `usize` cannot overflow here.
`Props/Source/Interleave.lean` proves the translated program equal to the model's `calculateInterleaved` for EVERY `C` and `S`.
-/
import WowSrp.Model.Srp
namespace WowSrp.MiniIlv

/-- index expression of the result loop over the loop counter `i` -/
inductive IExpr where
  | i | lit (n : Nat) | add (a b : IExpr) | mul (a b : IExpr)
deriving Repr, DecidableEq

def IExpr.eval (i : Nat) : IExpr → Nat
  | .i => i
  | .lit n => n
  | .add a b => a.eval i + b.eval i
  | .mul a b => a.eval i * b.eval i

/-- what a fill loop stores: `*e` (the element the iterator yields) or a literal -/
inductive Src where
  | elem | lit (n : Nat)
deriving Repr, DecidableEq

def Src.eval (x : UInt8) : Src → UInt8
  | .elem => x | .lit n => UInt8.ofNat n

/-- `let mut A = [fill; len]; for (i, e) in S.iter().skip(skip).step_by(step).enumerate() { A[i] = store; }` -/
structure FillLoop where
  (len fill : Nat)
  (skip step : Nat)              -- no `.skip(..)` = skip 0
  store : Src
deriving Repr, DecidableEq

structure IlvProg where
  e : FillLoop
  (gReads gDiv : Nat)            -- first hash reads `&A[..S.len() / d]`: A = 0 first array (`E`), 1 second (`F`, not yet in scope there)
  f : FillLoop
  (hReads hDiv : Nat)
  (resLen resFill : Nat)         -- `let mut result = [fill; len]`
  (zipFst zipSnd : Nat)          -- `X.iter().zip(Y.iter())`: 0 = first hash (`G`), 1 = second (`H`)
  (idx1 : IExpr) (sel1 : Nat)    -- `result[idx1] = *r.sel1;`
  (idx2 : IExpr) (sel2 : Nat)    -- `result[idx2] = *r.sel2;`
  sha1Once : Bool                -- both hashes are `Sha1::new().chain_update(<slice>).finalize()`
  fromLeBytes : Bool             -- the tail is `SessionKey::from_le_bytes(result)`
  unsupported : Option String
deriving Repr, DecidableEq

/-- `iter.step_by(n)` (n ≥ 1): `w` elements are passed over before the next one is yielded, then `n - 1` again -/
def stepByAux (n : Nat) : Nat → Bytes → Bytes
  | _, [] => []
  | 0, x :: xs => x :: stepByAux n (n - 1) xs
  | w + 1, _ :: xs => stepByAux n w xs

/-- `A[i] = x` -/
def setOut (a : Bytes) (i : Nat) (x : UInt8) : Out Bytes :=
  if i < a.length then .ok (a.set i x) else .panic "index out of bounds"

/-- `for (i, e) in xs.enumerate() { A[i] = store; }`, counting from `i` -/
def fillFrom (st : Src) : Bytes → Nat → Bytes → Out Bytes
  | [], _, a => .ok a
  | x :: xs, i, a => do
    let a2 ← setOut a i (st.eval x)
    fillFrom st xs (i + 1) a2

def FillLoop.run (l : FillLoop) (s : Bytes) : Out Bytes :=
  if l.step = 0 then .panic "step_by(0): assertion failed: step != 0"
  else fillFrom l.store (stepByAux l.step 0 (s.drop l.skip)) 0 (List.replicate l.len (UInt8.ofNat l.fill))

/-- `Sha1::new().chain_update(&A[..S.len() / d]).finalize()` with `A` = entry `k` of the arrays in scope -/
def hashOf (C : Crypto) (s : Bytes) (scope : List Bytes) (k d : Nat) : Out Bytes :=
  match scope[k]? with
  | none => .panic "array not in scope"
  | some a =>
    if d = 0 then .panic "attempt to divide by zero"
    else if s.length / d ≤ a.length then .ok (C.sha1 (a.take (s.length / d)))
    else .panic "slice end out of range"

/-- entry `k` of a pair of names / of a tuple -/
def pick {α} (k : Nat) (x y : α) : Out α :=
  match k with | 0 => .ok x | 1 => .ok y | _ => .panic "no such name / tuple field"

/-- `for (i, r) in rs.enumerate() { result[idx1] = *r.sel1; result[idx2] = *r.sel2; }`, counting from `i` -/
def zipLoop (p : IlvProg) : List (UInt8 × UInt8) → Nat → Bytes → Out Bytes
  | [], _, a => .ok a
  | r :: rs, i, a => do
    let x1 ← pick p.sel1 r.1 r.2
    let a1 ← setOut a (p.idx1.eval i) x1
    let x2 ← pick p.sel2 r.1 r.2
    let a2 ← setOut a1 (p.idx2.eval i) x2
    zipLoop p rs (i + 1) a2

/-- the function the translated program denotes -/
def IlvProg.run (p : IlvProg) (C : Crypto) (S : Bytes) : Out Bytes :=
  match p.unsupported with
  | some _ => .panic "source outside the translated subset"
  | none =>
    if !(p.sha1Once && p.fromLeBytes) then .panic "source outside the translated subset" else do
    let s ← asEqualSlice S
    let E ← p.e.run s
    let G ← hashOf C s [E] p.gReads p.gDiv
    let F ← p.f.run s
    let H ← hashOf C s [E, F] p.hReads p.hDiv
    let a ← pick p.zipFst G H
    let b ← pick p.zipSnd G H
    zipLoop p (a.zip b) 0 (List.replicate p.resLen (UInt8.ofNat p.resFill))

end WowSrp.MiniIlv
